#!/bin/bash
# runs the quick tier of the given checks (default: all claimed) over several seeds; any
# non-zero exit on the unchanged tree is a false alarm to be fixed in the machinery
cd "$(dirname "$0")/.."
props=${PROPS:-$(python3 -c "import json; print(' '.join(c['property_id'] for c in json.load(open('MANIFEST.json'))['checks']))")}
seeds=${SEEDS:-"1 2 3 4 5"}
for p in $props; do for s in $seeds; do
  VERIF_SEED=$s ./check $p --tier quick > /tmp/sweep_${p}_$s.out 2>/tmp/sweep_${p}_$s.err; rc=$?
  echo "$p seed=$s rc=$rc viol=$(grep -c VIOLATION /tmp/sweep_${p}_$s.out)"
done; done
