#!/bin/bash
# runs tools/seedtest.sh for every seeded change (or those given) and prints one line each
cd "$(dirname "$0")/.."
names=${*:-$(ls seeded | grep -v RESULTS.md)}
for n in $names; do tools/seedtest.sh $n 2>&1 | grep "^seeded="; done
echo finished
