#!/bin/bash
# tools/seedimp.sh <src-dir under /tmp> <name under seeded/>: import a seeded change
set -e
cd "$(dirname "$0")/.."
src="$1"; name="$2"
mkdir -p seeded/$name
cp $src/patch.diff $src/meta.json seeded/$name/
rm -rf seeded/$name/demo; cp -r $src/demo seeded/$name/demo 2>/dev/null || true
find seeded/$name -type f -size +200k -delete
