#!/bin/bash
# tools/seedtest.sh <seed-dir-name> [property ...]
# Applies seeded/<name>/patch.diff to /repo, runs the quick checks of the given properties
# (default: the property in meta.json), prints exit status and VIOLATION lines, reverts /repo.
set -u
REPO="${VERIF_REPO:-/repo}"
cd "$(dirname "$0")/.."
name="$1"; shift
dir="seeded/$name"
props="$*"
if [ -z "$props" ]; then props=$(python3 -c "import json;d=json.load(open('$dir/meta.json'));print(d.get('check',d['property']))"); fi
if [ -n "$(git -C "$REPO" status --porcelain --untracked-files=no)" ]; then echo "$REPO has local changes; refusing"; exit 2; fi
git -C "$REPO" apply "$PWD/$dir/patch.diff" || { echo "patch does not apply"; exit 2; }
trap 'git -C "$REPO" checkout -- . ; git -C "$REPO" clean -fdq -e target >/dev/null 2>&1' EXIT
for p in $props; do
  # default: the seed the registered commands use (no VERIF_SEED); SEEDS="1 2 3" for others
  for seed in ${SEEDS:-default}; do
    if [ "$seed" = default ]; then out=$(./check "$p" --tier quick 2>&1); rc=$?; else out=$(VERIF_SEED=$seed ./check "$p" --tier quick 2>&1); rc=$?; fi
    nv=$(printf '%s\n' "$out" | grep -c '^VIOLATION')
    echo "seeded=$name property=$p seed=$seed exit=$rc violations=$nv"
    printf '%s\n' "$out" | grep '^VIOLATION' | head -3
  done
done
