// Stress harness for C20: one generated object, many client threads cloning, invoking and
// dropping handles.  Prints one line of counters; exits non-zero on a violated check.
#![allow(warnings)]
#[path = "@TESTS@/src/object/mod.rs"]
pub mod object;
pub mod interfaces {
    pub mod icounter { include!("@OUT@/icounter.rs"); }
    pub mod itimer { include!("@OUT@/itimer.rs"); }
}
use interfaces::icounter::{ICounter, IICounter, Error};
use interfaces::itimer::{ITimer, IITimer};
use std::sync::atomic::{AtomicBool, AtomicUsize, Ordering::SeqCst};
use std::sync::Arc;

struct Shared {
    in_body: AtomicBool,
    overlaps: AtomicUsize,
    drops: AtomicUsize,
    drop_in_body: AtomicUsize,
    completed: AtomicUsize,
    stale: AtomicUsize,
    live_handles: AtomicUsize,
    early_drop: AtomicUsize,
    torn_looks: AtomicUsize,
    looks: AtomicUsize,
}
struct Impl { value: u32, sh: Arc<Shared> }
impl Impl {
    fn enter(&self) { if self.sh.in_body.swap(true, SeqCst) { self.sh.overlaps.fetch_add(1, SeqCst); } }
    fn exit(&self) { self.sh.in_body.store(false, SeqCst); }
}
impl IICounter for Impl {
    fn bump(&mut self, by: u32) -> Result<u32, Error> {
        self.enter();
        let seen = self.value;
        for _ in 0..(seen % 7) { std::thread::yield_now(); }
        self.value = seen + by;
        self.exit();
        Ok(seen)
    }
    fn peek(&mut self) -> Result<u32, Error> {
        self.enter();
        let v = self.value;
        std::thread::yield_now();
        self.exit();
        Ok(v)
    }
}
impl IITimer for Impl {
    fn tick(&mut self) -> Result<u32, interfaces::itimer::Error> {
        self.enter();
        let v = self.value;
        self.exit();
        Ok(v)
    }
}
impl Drop for Impl {
    fn drop(&mut self) {
        self.sh.drops.fetch_add(1, SeqCst);
        if self.sh.in_body.load(SeqCst) { self.sh.drop_in_body.fetch_add(1, SeqCst); }
        if self.sh.live_handles.load(SeqCst) != 0 { self.sh.early_drop.fetch_add(1, SeqCst); }
    }
}

fn main() {
    let args: Vec<String> = std::env::args().collect();
    if args.get(1).map(|s| s == "race").unwrap_or(false) {
        // final releases racing: every round one object, 2-4 handles on as many threads, each
        // thread invokes once and then all drop their handle at the same instant
        let rounds: usize = args.get(2).map(|s| s.parse().unwrap()).unwrap_or(20000);
        let sh = Arc::new(Shared { in_body: AtomicBool::new(false), overlaps: AtomicUsize::new(0), drops: AtomicUsize::new(0),
            drop_in_body: AtomicUsize::new(0), completed: AtomicUsize::new(0), stale: AtomicUsize::new(0),
            live_handles: AtomicUsize::new(0), early_drop: AtomicUsize::new(0), torn_looks: AtomicUsize::new(0), looks: AtomicUsize::new(0) });
        let mut lost = 0usize;
        for r in 0..rounds {
            let obj: ITimer = ITimer::from(Impl { value: 0, sh: sh.clone() });
            let n = 2 + r % 3;
            let barrier = Arc::new(std::sync::Barrier::new(n));
            let mut js = Vec::new();
            for _ in 0..n - 1 {
                let h = obj.clone();
                let b = barrier.clone();
                js.push(std::thread::spawn(move || { let up: ICounter = h.into(); let _ = up.bump(1).unwrap(); b.wait(); drop(up); }));
            }
            let b = barrier.clone();
            js.push(std::thread::spawn(move || { let _ = obj.bump(1).unwrap(); b.wait(); drop(obj); }));
            for j in js { j.join().unwrap(); }
            if sh.drops.load(SeqCst) != r + 1 { lost += 1; sh.drops.store(r + 1, SeqCst); }
        }
        println!("race rounds={} bumps=0 rounds_with_wrong_drop_count={} overlaps={} drop_in_body={}",
            rounds, lost, sh.overlaps.load(SeqCst), sh.drop_in_body.load(SeqCst));
        let ok = lost == 0 && sh.overlaps.load(SeqCst) == 0 && sh.drop_in_body.load(SeqCst) == 0;
        std::process::exit(if ok { 0 } else { 1 });
    }
    let nthreads: usize = args.get(1).map(|s| s.parse().unwrap()).unwrap_or(8);
    let iters: usize = args.get(2).map(|s| s.parse().unwrap()).unwrap_or(2000);
    let sh = Arc::new(Shared { in_body: AtomicBool::new(false), overlaps: AtomicUsize::new(0), drops: AtomicUsize::new(0),
        drop_in_body: AtomicUsize::new(0), completed: AtomicUsize::new(0), stale: AtomicUsize::new(0),
        live_handles: AtomicUsize::new(1), early_drop: AtomicUsize::new(0), torn_looks: AtomicUsize::new(0), looks: AtomicUsize::new(0) });
    let obj: ITimer = ITimer::from(Impl { value: 0, sh: sh.clone() });
    let mut joins = Vec::new();
    for t in 0..nthreads {
        sh.live_handles.fetch_add(1, SeqCst);
        let mine = obj.clone();
        let sh2 = sh.clone();
        joins.push(std::thread::spawn(move || {
            let mut handles = vec![mine];
            let mut rng: u64 = 0x9E3779B97F4A7C15u64.wrapping_mul(t as u64 + 1);
            let mut bumps = 0usize;
            for _ in 0..iters {
                rng ^= rng << 13; rng ^= rng >> 7; rng ^= rng << 17;
                match rng % 10 {
                    0 | 1 => { sh2.live_handles.fetch_add(1, SeqCst); let c = handles[0].clone(); handles.push(c); }
                    2 | 3 => { if handles.len() > 1 { let h = handles.pop().unwrap(); drop(h); sh2.live_handles.fetch_sub(1, SeqCst); } }
                    6 => {
                        // a handle converted BY VALUE to the base interface and on to Object: the reference moves
                        // with it (one handle before, one handle after)
                        if handles.len() > 1 {
                            let h = handles.pop().unwrap();
                            let up: ICounter = h.into();
                            let done = sh2.completed.load(SeqCst) as u32;
                            let v = up.peek().unwrap();
                            if v < done { sh2.stale.fetch_add(1, SeqCst); }
                            let o: object::Object = up.into();
                            drop(o);
                            sh2.live_handles.fetch_sub(1, SeqCst);
                        }
                    }
                    5 => {
                        // a look at the implementation through the generated downcast: the closure runs
                        // with the implementation to itself - no method body is in progress when it
                        // starts, none starts while it runs
                        let h = &handles[handles.len() - 1];
                        let torn = interfaces::itimer::downcast_concrete(AsRef::<ICounter>::as_ref(h).as_ref(), |imp: &Impl| {
                            let before = imp.sh.in_body.load(SeqCst);
                            let v1 = imp.value;
                            std::thread::yield_now();
                            let after = imp.sh.in_body.load(SeqCst);
                            before || after || v1 != imp.value
                        });
                        sh2.looks.fetch_add(1, SeqCst);
                        if torn != Some(false) { sh2.torn_looks.fetch_add(1, SeqCst); }
                    }
                    4 => { let done = sh2.completed.load(SeqCst) as u32; let v = handles[handles.len() - 1].peek().unwrap();
                           if v < done { sh2.stale.fetch_add(1, SeqCst); } }
                    _ => {
                        let done = sh2.completed.load(SeqCst) as u32;
                        let seen = handles[0].bump(1).unwrap();
                        if seen < done { sh2.stale.fetch_add(1, SeqCst); }
                        sh2.completed.fetch_add(1, SeqCst);
                        bumps += 1;
                    }
                }
            }
            if sh2.drops.load(SeqCst) != 0 { sh2.early_drop.fetch_add(1, SeqCst); }
            let n = handles.len();
            for h in handles.drain(..) { drop(h); sh2.live_handles.fetch_sub(1, SeqCst); }
            bumps
        }));
    }
    let total: usize = joins.into_iter().map(|j| j.join().unwrap()).sum();
    let final_value = obj.peek().unwrap() as usize;
    if sh.drops.load(SeqCst) != 0 { sh.early_drop.fetch_add(1, SeqCst); }
    sh.live_handles.fetch_sub(1, SeqCst);
    drop(obj);
    println!("threads={} iters={} bumps={} final={} overlaps={} stale={} drops={} drop_in_body={} early_drop={} looks={} torn_looks={}",
        nthreads, iters, total, final_value, sh.overlaps.load(SeqCst), sh.stale.load(SeqCst),
        sh.drops.load(SeqCst), sh.drop_in_body.load(SeqCst), sh.early_drop.load(SeqCst), sh.looks.load(SeqCst), sh.torn_looks.load(SeqCst));
    let ok = sh.torn_looks.load(SeqCst) == 0 && total == final_value && sh.overlaps.load(SeqCst) == 0 && sh.stale.load(SeqCst) == 0
        && sh.drops.load(SeqCst) == 1 && sh.drop_in_body.load(SeqCst) == 0 && sh.early_drop.load(SeqCst) == 0;
    std::process::exit(if ok { 0 } else { 1 });
}
