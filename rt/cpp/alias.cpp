// C05 witness / regression program for the C++ pairing: a generated C++ proxy calls a generated
// C++ skeleton through a pass-through Object; counting objects record every retain/release.
// Scenario "distinct": the caller's output proxy is empty.  Scenario "alias": it already holds
// the object the implementation returns.  Prints the final counts after both sides dropped
// everything they hold (expected 0 each).
#include <cstdio>
#include <cstring>
#include <stdint.h>
#include "object.h"
#include "proxy_base.hpp"
#include "impl_base.hpp"
#include "alias.hpp"
#include "alias_invoke.hpp"

struct Counted { int id; int count; int retains; int releases; };
static int32_t counted_invoke(ObjectCxt h, ObjectOp op, ObjectArg *a, ObjectCounts k) {
  Counted *c = (Counted *)h; (void)a; (void)k;
  if (ObjectOp_methodID(op) == Object_OP_retain) { c->count++; c->retains++; return Object_OK; }
  if (ObjectOp_methodID(op) == Object_OP_release) { c->count--; c->releases++; return Object_OK; }
  return Object_ERROR_INVALID;
}
static Object obj(Counted *c) { return (Object){counted_invoke, c}; }

class Impl : public IAliasImplBase {
 public:
  int entered = 0;
  int32_t echo(const ProxyBase &p, ProxyBase &q) override { entered++; q = p; return Object_OK; }   // q gets its own reference
  int32_t pass(const ProxyBase &p) override { entered++; (void)p; return Object_OK; }
};

int main(int argc, char **argv) {
  const char *scenario = argc > 1 ? argv[1] : "distinct";
  Counted c1 = {1, 1, 0, 0};                       // the caller owns one reference to c1
  Impl *impl = new Impl();
  {
    IAlias proxy((Object){ImplBase::invoke, impl});   // adopts the implementation's initial reference
    ProxyBase p(obj(&c1));                            // adopts the caller's reference
    ProxyBase q;
    if (!strcmp(scenario, "alias")) { q = p; }        // q already holds the same object (+1, owned by q)
    int32_t r = proxy.echo(p, q);
    int32_t r2 = proxy.pass(p);
    printf("status=%d,%d in_flight_count=%d\n", r, r2, c1.count);
  }                                                   // p, q, proxy dropped here
  printf("scenario=%s final_count=%d retains=%d releases=%d\n", scenario, c1.count, c1.retains, c1.releases);
  return c1.count == 0 ? 0 : 1;
}
