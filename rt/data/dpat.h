/* dpat.h — value patterns and log helpers of the data nine-pairing harness (C01: values, lengths and
   status through every stub/skeleton pairing).  All three language sides fill and log memory only
   through these functions, so equal bytes give equal log lines. */
#ifndef VERIF_DPAT_H
#define VERIF_DPAT_H
#include <stdint.h>
#include <stddef.h>
#ifdef __cplusplus
extern "C" {
#endif
size_t d_in_len(int k, int i, int v);     /* element count of an input buffer / array */
size_t d_out_cap(int k, int i, int v);    /* capacity the caller offers for an output buffer / array */
size_t d_out_want(int k, int i, int v);   /* element count the implementation would like to return */
uint64_t d_prim(int k, int i, int v, int salt);
void d_fill(void *p, size_t nbytes, int k, int i, int v, int salt);
void L_hex(int idx, const void *p, size_t nbytes);
void L_u64(int idx, uint64_t x);
void L_len(int idx, size_t n);
double d_f64(int k, int i, int v, int salt);   /* exactly representable in float too */
void L_f64(int idx, double x);
#ifdef __cplusplus
}
#endif
#endif
