#include <stdio.h>
#include <string.h>
#include "dpat.h"
size_t d_in_len(int k, int i, int v) { static const size_t t[] = {0, 1, 3, 5, 2}; return t[(k + 2 * i + v) % 5]; }
size_t d_out_cap(int k, int i, int v) { static const size_t t[] = {4, 0, 1, 6, 3}; return t[(k + i + 2 * v) % 5]; }
size_t d_out_want(int k, int i, int v) { static const size_t t[] = {2, 0, 5, 1, 7}; return t[(2 * k + i + v) % 5]; }
uint64_t d_prim(int k, int i, int v, int salt) {
  uint64_t x = 0x9E3779B97F4A7C15ull * (uint64_t)(1 + k * 31 + i * 7 + v * 3 + salt * 101);
  /* boundary values now and then */
  switch ((k + i + v + salt) % 7) { case 0: return 0; case 1: return ~0ull; case 2: return 0x8000000000000000ull | (x >> 1); default: return x; }
}
void d_fill(void *p, size_t n, int k, int i, int v, int salt) {
  unsigned char *b = (unsigned char *)p;
  for (size_t j = 0; j < n; j++) b[j] = (unsigned char)(0x11 * (salt + 1) + 7 * k + 13 * i + 29 * v + 3 * (int)j);
}
void L_hex(int idx, const void *p, size_t n) {
  const unsigned char *b = (const unsigned char *)p;
  printf(" %d=hex:%zu:", idx, n);
  for (size_t j = 0; j < n; j++) printf("%02x", b[j]);
}
void L_u64(int idx, uint64_t x) { printf(" %d=u:%llx", idx, (unsigned long long)x); }
void L_len(int idx, size_t n) { printf(" %d=len:%zu", idx, n); }
double d_f64(int k, int i, int v, int salt) {
  int n = (int)((unsigned)(k * 131 + i * 37 + v * 11 + salt * 5 + 3) % 4001u) - 2000;
  /* now and then a value at the edge of what a float holds (all exact in float and in double):
     signed zero, infinities, the largest and the smallest normal float, the smallest subnormal float */
  static const double edge[] = {-0.0, 1.0 / 0.0, -1.0 / 0.0, 340282346638528859811704183484516925440.0, -340282346638528859811704183484516925440.0,
                                1.17549435082228750796873653722e-38, 1.40129846432481707092372958329e-45, -1.40129846432481707092372958329e-45};
  if ((k + 2 * i + v + salt) % 5 == 0) return edge[(unsigned)(k + i + 3 * v + salt) % 8u];
  return (double)n / 8.0;            /* |n| <= 2000: exact in float and double */
}
void L_f64(int idx, double x) { uint64_t b; memcpy(&b, &x, 8); printf(" %d=f:%llx", idx, (unsigned long long)b); }
