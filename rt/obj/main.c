/* main.c — the nine pairings: every caller side drives every implementation side through the
   generated stub of the one and the generated skeleton of the other, connected directly. */
#include <stdio.h>
#include <string.h>
#include "cobj.h"
Object c_impl_new(void); void c_caller(Object target);
#ifndef NO_CPP
Object cpp_impl_new(void); void cpp_caller(Object target);
#endif
#ifndef NO_RUST
Object rust_impl_new(void); void rust_caller(Object target);
#endif
typedef struct { const char *name; Object (*mk)(void); void (*call)(Object); } Side;
int main(int argc, char **argv) {
  Side sides[] = { {"c", c_impl_new, c_caller},
#ifndef NO_CPP
                   {"cpp", cpp_impl_new, cpp_caller},
#endif
#ifndef NO_RUST
                   {"rust", rust_impl_new, rust_caller},
#endif
  };
  int n = sizeof sides / sizeof sides[0];
  setvbuf(stdout, NULL, _IOFBF, 1 << 16);
  for (int i = 0; i < n; i++) for (int j = 0; j < n; j++) {
    if (argc > 2 && (strcmp(argv[1], sides[i].name) || strcmp(argv[2], sides[j].name))) continue;
    printf("pairing %s %s\n", sides[i].name, sides[j].name);
    Object t = sides[j].mk();
    sides[i].call(t);
    Object_release(t);
    printf("end live=%d impls=%d\n", cobj_live(), impls_live());
  }
  return 0;
}
