/* main.c — the nine pairings: every caller side drives every implementation side through the
   generated stub of the one and the generated skeleton of the other, connected directly. */
#include <stdio.h>
#include <string.h>
#include <stdlib.h>
#include <stdint.h>
#include "cobj.h"
Object c_impl_new(void); void c_caller(Object target);
#ifndef NO_CPP
Object cpp_impl_new(void); void cpp_caller(Object target);
#endif
#ifndef NO_RUST
Object rust_impl_new(void); void rust_caller(Object target);
#endif
typedef struct { const char *name; Object (*mk)(void); void (*call)(Object); } Side;

/* the wire spy: sits between a caller's stub and an implementation's skeleton, forwards every
   invocation unchanged and looks into every data buffer - the input buffers before the call, the
   output buffers after it - for a word that is one half of an object handle (C03: object handles
   never travel inside data buffers) */
static Object spy_inner;
/* (object-bearing struct values put their object slots between the buffer slots - the known
   interleaving of C02 - so a slot is only read as a buffer when it is not an object slot) */
static int spy_is_object_slot(const ObjectArg *s) {
  uint64_t w; memcpy(&w, s, 8);
  return cobj_is_handle_word(w) == 2 || (s->o.invoke == NULL && s->o.context == NULL);
}
static void spy_scan(const char *dir, ObjectOp op, int slot, const void *p, size_t n) {
  for (size_t off = 0; p && off + 8 <= n; off += 8) {
    uint64_t w; memcpy(&w, (const char *)p + off, 8);
    int kind = cobj_is_handle_word(w);
    if (kind) printf("wireleak dir=%s op=%d slot=%d off=%d what=%s\n", dir, (int)ObjectOp_methodID(op), slot, (int)off, kind == 1 ? "context" : "invoke");
  }
}
/* with L2_WIRE set the spy also prints what is on the wire: op, counts word, the bytes of every input
   buffer before the call, the capacity of every output buffer, and after a successful call the
   returned size and bytes of every output buffer (C03: all backends produce and accept the same bytes) */
static int spy_wire = -1;
static void spy_dump(const char *dir, int slot, const void *p, size_t n) {
  const unsigned char *b = (const unsigned char *)p;
  printf(" %s%d=%zu:", dir, slot, n);
  for (size_t j = 0; p && j < n; j++) printf("%02x", b[j]);
}
/* with L2_PERTURB set (data harness only: no object arguments) the spy replays every well-formed
   invocation with ONE input buffer size changed by -1 or +1 - on scratch copies of all buffers, so
   the real call is not disturbed - and prints the status; the implementation's own "impl" line in
   between shows whether it was entered.  The three skeletons must give the same verdicts (C04). */
#define SPY_MAX_BUF ((size_t)1 << 24)
static int spy_perturb = -1;
static void spy_perturb_all(ObjectOp op, ObjectArg *a, ObjectCounts k) {
  size_t n = ObjectCounts_numBI(k) + ObjectCounts_numBO(k) + ObjectCounts_numOI(k) + ObjectCounts_numOO(k);
  if (n == 0 || n > 60) return;
  for (size_t tgt = 0; tgt < n; tgt++) for (int delta = -1; delta <= 1; delta += 2) {
    /* object slots stay as they are (wherever they sit: the known interleaving of object-bearing
       structs); every other slot is a buffer, input or output, and gets a scratch copy */
    if (spy_is_object_slot(&a[tgt]) || a[tgt].b.size > SPY_MAX_BUF) continue;
    if (delta < 0 && a[tgt].b.size == 0) continue;
    ObjectArg c[60]; void *scratch[60];
    for (size_t i = 0; i < n; i++) {
      scratch[i] = NULL;
      /* (an output object slot holds whatever the stub left there before the call: a "size" no
         buffer of this harness has marks such a slot; it is passed on as it is) */
      if (spy_is_object_slot(&a[i]) || a[i].b.size > SPY_MAX_BUF) { c[i] = a[i]; continue; }
      size_t sz = a[i].b.size;
      scratch[i] = calloc(1, sz + 16);
      if (a[i].b.ptr) memcpy(scratch[i], a[i].b.ptr, sz);
      c[i].b.ptr = scratch[i]; c[i].b.size = sz;
    }
    c[tgt].b.size = a[tgt].b.size + (size_t)delta;
    sc_set(sc_val(), 0);
    printf("perturb op=%d slot=%d delta=%d\n", (int)ObjectOp_methodID(op), (int)tgt, delta);
    int32_t r = Object_invoke(spy_inner, op, c, k);
    printf("perturbed op=%d slot=%d delta=%d refused=%d\n", (int)ObjectOp_methodID(op), (int)tgt, delta, r != Object_OK);
    for (size_t i = 0; i < n; i++) free(scratch[i]);
  }
}
static int32_t spy_invoke(ObjectCxt h, ObjectOp op, ObjectArg *a, ObjectCounts k) {
  (void)h;
  if (ObjectOp_isLocal(op)) return Object_invoke(spy_inner, op, a, k);
  if (spy_perturb < 0) spy_perturb = getenv("L2_PERTURB") != NULL;
  if (spy_perturb) { int v = sc_val(), st = sc_status(); if (st == 0) spy_perturb_all(op, a, k); sc_set(v, st); }
  if (spy_wire < 0) spy_wire = getenv("L2_WIRE") != NULL;
  if (spy_wire) {
    printf("wire op=%d k=0x%x", (int)ObjectOp_methodID(op), (unsigned)k);
    for (size_t i = ObjectCounts_indexBI(k); i < ObjectCounts_indexBI(k) + ObjectCounts_numBI(k); i++) spy_dump("bi", (int)i, a[i].bi.ptr, a[i].bi.size);
    for (size_t i = ObjectCounts_indexBO(k); i < ObjectCounts_indexBO(k) + ObjectCounts_numBO(k); i++) printf(" cap%d=%zu", (int)i, a[i].b.size);
    printf("\n");
  }
  for (size_t i = ObjectCounts_indexBI(k); i < ObjectCounts_indexBI(k) + ObjectCounts_numBI(k); i++) if (!spy_is_object_slot(&a[i])) spy_scan("in", op, (int)i, a[i].bi.ptr, a[i].bi.size);
  int32_t r = Object_invoke(spy_inner, op, a, k);
  if (r == Object_OK)
    for (size_t i = ObjectCounts_indexBO(k); i < ObjectCounts_indexBO(k) + ObjectCounts_numBO(k); i++) if (!spy_is_object_slot(&a[i])) spy_scan("out", op, (int)i, a[i].b.ptr, a[i].b.size);
  if (spy_wire) {
    printf("wired op=%d status=%d", (int)ObjectOp_methodID(op), (int)r);
    if (r == Object_OK)
      for (size_t i = ObjectCounts_indexBO(k); i < ObjectCounts_indexBO(k) + ObjectCounts_numBO(k); i++) spy_dump("bo", (int)i, a[i].b.ptr, a[i].b.size);
    printf("\n");
  }
  return r;
}
/* refusal by the skeletons of all three backends (C04): every method op is invoked directly on an
   implementation object with counts words that cannot be the method's; the slots are 60 zeroed
   arguments, so a skeleton that looks at them anyway does not fault - it is caught by its status
   or by the implementation's own "impl" line */
static void refuse_phase(Side *sides, int n, int nmeth, const char *noparam) {
  static ObjectArg zero[64];
  for (int j = 0; j < n; j++) {
    Object t = sides[j].mk();
    printf("refusing %s\n", sides[j].name);
    for (int op = 0; op < nmeth; op++) {
      ObjectCounts ks[8]; int nk = 0;
      ks[nk++] = ObjectCounts_pack(15, 15, 15, 15);
      ks[nk++] = ObjectCounts_pack(14, 13, 12, 11);
      if (noparam[op] == '1') { ks[nk++] = ObjectCounts_pack(1, 0, 0, 0); ks[nk++] = ObjectCounts_pack(0, 1, 0, 0);
                                ks[nk++] = ObjectCounts_pack(0, 0, 1, 0); ks[nk++] = ObjectCounts_pack(0, 0, 0, 1); ks[nk++] = ObjectCounts_pack(1, 1, 0, 0); }
      for (int q = 0; q < nk; q++) {
        memset(zero, 0, sizeof zero);
        sc_set(0, 0);
        printf("refuse op=%d k=0x%x\n", op, (unsigned)ks[q]);
        int32_t r = Object_invoke(t, (ObjectOp)op, zero, ks[q]);
        printf("refused op=%d k=0x%x status=%d\n", op, (unsigned)ks[q], (int)r);
      }
    }
    /* the object is still usable: a well-formed call is served (the callers do that below) */
    Object_release(t);
  }
}

int main(int argc, char **argv) {
  Side sides[] = { {"c", c_impl_new, c_caller},
#ifndef NO_CPP
                   {"cpp", cpp_impl_new, cpp_caller},
#endif
#ifndef NO_RUST
                   {"rust", rust_impl_new, rust_caller},
#endif
  };
  int n = sizeof sides / sizeof sides[0];
  setvbuf(stdout, NULL, _IOFBF, 1 << 16);
  if (argc > 3 && !strcmp(argv[1], "--refuse")) { refuse_phase(sides, n, atoi(argv[2]), argv[3]); return 0; }
  for (int i = 0; i < n; i++) for (int j = 0; j < n; j++) {
    if (argc > 2 && (strcmp(argv[1], sides[i].name) || strcmp(argv[2], sides[j].name))) continue;
    printf("pairing %s %s\n", sides[i].name, sides[j].name);
    Object t = sides[j].mk();
    spy_inner = t;
    sides[i].call((Object){spy_invoke, NULL});
    Object_release(t);
    printf("end live=%d impls=%d\n", cobj_live(), impls_live());
  }
  return 0;
}
