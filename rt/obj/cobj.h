/* cobj.h — counting objects and the scenario/log functions shared by the C, C++ and Rust sides
   of the C05 nine-pairing harness.  Every side obtains objects, reads the scenario and writes
   the log only through these functions, so the log format is the same for all pairings. */
#ifndef VERIF_COBJ_H
#define VERIF_COBJ_H
#include <stdint.h>
#include "object.h"
#ifdef __cplusplus
extern "C" {
#endif
Object cobj_get(int id);            /* a NEW reference to object id (created when not live); id < 0: Object_NULL */
int cobj_id(Object o);              /* -1 null, -2 not a counting object */
int cobj_live(void);
void sc_set(int v, int status);     /* valuation and the status the implementation returns */
int sc_val(void);
int sc_status(void);
int pat_in(int k, int pos, int v);  /* object id for flattened input position pos of method k */
int pat_out(int k, int pos, int v); /* object id the implementation hands over for output position pos */
int pat_pre(int k, int pos, int v); /* object id a C++ output holder owns before the call (v == 3 only) */
void L_begin(const char *tag, int k, int v);
void L_obj(int pos, Object o);
void L_int(const char *name, int x);
void L_counts(void);
void L_end(void);
void impl_born(void);
void impl_died(void);
int impls_live(void);
#ifdef __cplusplus
}
#endif
int cobj_is_handle_word(uint64_t w);   /* 1: context pointer of a live counting object, 2: their invoke function */
#endif
