#include <stdio.h>
#include <stdlib.h>
#include "cobj.h"

#define NIDS 16
typedef struct { int id; int count; } CObj;
static CObj *live_tbl[NIDS];
static int g_live = 0, g_v = 0, g_status = 0, g_impls = 0;
static long g_retains = 0, g_releases = 0;

static int32_t cobj_invoke(ObjectCxt h, ObjectOp op, ObjectArg *a, ObjectCounts k) {
  CObj *o = (CObj *)h; (void)a; (void)k;
  if (ObjectOp_methodID(op) == Object_OP_retain) { o->count++; g_retains++; return Object_OK; }
  if (ObjectOp_methodID(op) == Object_OP_release) {
    g_releases++;
    if (o->count <= 0) { printf("\nFATAL release of object %d with count %d\n", o->id, o->count); fflush(stdout); abort(); }
    if (--o->count == 0) { live_tbl[o->id] = NULL; g_live--; free(o); }
    return Object_OK;
  }
  return Object_ERROR_INVALID;
}
Object cobj_get(int id) {
  if (id < 0) return Object_NULL;
  if (live_tbl[id]) { live_tbl[id]->count++; return (Object){cobj_invoke, live_tbl[id]}; }
  CObj *o = malloc(sizeof *o); o->id = id; o->count = 1; live_tbl[id] = o; g_live++;
  return (Object){cobj_invoke, o};
}
int cobj_id(Object o) { if (Object_isNull(o)) return -1; if (o.invoke == cobj_invoke) return ((CObj *)o.context)->id; return -2; }
int cobj_live(void) { return g_live; }
void sc_set(int v, int status) { g_v = v; g_status = status; }
int sc_val(void) { return g_v; }
int sc_status(void) { return g_status; }
/* ids 1..3 for inputs (frequent aliasing), 1..6 for outputs (some equal to inputs), -1 null */
int pat_in(int k, int pos, int v) { int r = (k + 2 * pos + 3 * v) % 5; return r == 0 ? -1 : 1 + (k + pos + v) % 3; }
int pat_out(int k, int pos, int v) { int r = (2 * k + pos + v) % 4; return r == 0 ? -1 : 1 + (k + 3 * pos + 2 * v) % 6; }
int pat_pre(int k, int pos, int v) { if (v != 3) return -1; int r = (k + pos) % 3; return r == 0 ? -1 : (r == 1 ? pat_out(k, pos, v) : 1 + (k + pos) % 6); }
void L_begin(const char *tag, int k, int v) { printf("%s m%d v=%d", tag, k, v); }
void L_obj(int pos, Object o) { printf(" %d=obj:%d", pos, cobj_id(o)); }
void L_int(const char *name, int x) { printf(" %s=%d", name, x); }
void L_counts(void) { printf(" counts="); for (int i = 1; i <= 6; i++) printf("%s%d", i > 1 ? "," : "", live_tbl[i] ? live_tbl[i]->count : 0); }
void L_end(void) { printf("\n"); }
void impl_born(void) { g_impls++; }
void impl_died(void) { g_impls--; }
int impls_live(void) { return g_impls; }

/* is this 8-byte word one half of a handle to a counting object (its context pointer, live now,
   or the shared invoke function)?  Used by the wire spy of main.c: handles never travel inside
   data buffers. */
int cobj_is_handle_word(uint64_t w) {
  if (w == 0) return 0;
  if (w == (uint64_t)(uintptr_t)cobj_invoke) return 2;
  for (int i = 0; i < NIDS; i++) if (live_tbl[i] && w == (uint64_t)(uintptr_t)live_tbl[i]) return 1;
  return 0;
}
