// Minimal stand-in for the Mink Java runtime API that generated classes import (property C18).
package com.qualcomm.qti.qms.api.mink;

public interface IMinkObject {
    int OK = 0;
    int ERROR_GENERIC = 1;
    int ERROR_INVALID = 4;
    int ERROR_SIZE_IN = 5;
    int ERROR_SIZE_OUT = 6;
    int ERROR_BADOBJ = 10;

    class InvokeException extends Exception {
        public final int code;
        public InvokeException(int code) { super("invoke error " + code); this.code = code; }
    }

    void invoke(int methodID, byte[][] bi, int[] boSizes, byte[][] bo, IMinkObject[] oi, IMinkObject[] oo) throws InvokeException;
    void retain();
    void release();
    boolean isNull();
}
