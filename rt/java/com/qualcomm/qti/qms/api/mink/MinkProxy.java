package com.qualcomm.qti.qms.api.mink;

public class MinkProxy implements IMinkObject {
    protected IMinkObject minkObject;
    public MinkProxy(IMinkObject o) { minkObject = o; }
    @Override public void invoke(int methodID, byte[][] bi, int[] boSizes, byte[][] bo, IMinkObject[] oi, IMinkObject[] oo) throws InvokeException {
        minkObject.invoke(methodID, bi, boSizes, bo, oi, oo);
    }
    @Override public void retain() { minkObject.retain(); }
    @Override public void release() { minkObject.release(); }
    @Override public boolean isNull() { return minkObject == null || minkObject.isNull(); }
}
