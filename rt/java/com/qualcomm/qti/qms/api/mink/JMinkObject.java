package com.qualcomm.qti.qms.api.mink;

import java.util.concurrent.atomic.AtomicInteger;

public abstract class JMinkObject implements IMinkObject {
    protected AtomicInteger mRefs = new AtomicInteger(1);
    public JMinkObject() {}
    @Override public void retain() { mRefs.incrementAndGet(); }
    @Override public void release() { mRefs.decrementAndGet(); }
    @Override public boolean isNull() { return false; }
}
