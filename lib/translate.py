#!/usr/bin/env python3
"""Translators: regenerate coq/theories/gen/*.v from /repo's current sources.

Every item is scraped by a narrow regex with a sanity assertion.  If a pattern is
gone (harmless rewrite), the item falls back to a behavioural probe of the built
compiler where one exists (probe values are passed in by the caller), and the
source is recorded as "probe" so the evidence says which derivation was used.
"""
import os, re, sys, json

REPO = os.environ.get("VERIF_REPO", "/repo")
PRIMS = ["Uint8", "Uint16", "Uint32", "Uint64", "Int8", "Int16", "Int32", "Int64", "Float32", "Float64"]
COQP = dict(zip(PRIMS, ["U8", "U16", "U32", "U64", "I8", "I16", "I32", "I64", "F32", "F64"]))


def read(rel):
    with open(os.path.join(REPO, rel), encoding="utf-8") as f:
        return f.read()


def num(s):
    s = s.replace("_", "")
    return int(s, 16) if s.lower().startswith("0x") else int(s)


class Facts:
    def __init__(self):
        self.items = {}
        self.source = {}
        self.problems = []

    def put(self, k, v, src="source"):
        self.items[k] = v
        self.source[k] = src


def fn_body(text, header_re):
    m = re.search(header_re, text)
    if not m:
        return None
    i = text.index("{", m.end() - 1)
    depth = 0
    for j in range(i, len(text)):
        if text[j] == "{":
            depth += 1
        elif text[j] == "}":
            depth -= 1
            if depth == 0:
                return text[i + 1:j]
    return None


def size_table(body):
    """parse `Self::Uint8 | Self::Int8 => 1,` arms -> {prim: n}"""
    tbl = {}
    for m in re.finditer(r"((?:Self::\w+\s*\|?\s*)+)=>\s*(\d+)", body):
        for p in re.findall(r"Self::(\w+)", m.group(1)):
            tbl[p] = int(m.group(2))
    return tbl


def scrape(probe=None):
    probe = probe or {}
    F = Facts()
    mir = read("idlc_mir/src/mir.rs")
    ast = read("idlc_ast/src/ast.rs")
    objh = read("tests/c/object.h")
    objrs = read("tests/src/object/mod.rs")

    def const(text, name, key, ty=r"[iu]\d+|usize"):
        m = re.search(r"const\s+%s\s*:\s*(?:%s)\s*=\s*(0x[0-9a-fA-F_]+|\d[\d_]*)\s*;" % (name, ty), text)
        if m:
            F.put(key, num(m.group(1)))
        elif key in probe:
            F.put(key, probe[key], "probe")
        else:
            F.problems.append("cannot derive %s" % key)

    const(mir, "ERROR_CODE_START", "error_code_start")
    const(mir, "MAX_OP_CODE", "max_op_code")
    const(mir, "BUNDLED_SIZE_MAX", "bundled_size_max")

    # Primitive::size in ast.rs and mir.rs
    for key, text, rel in (("prim_size", ast, "ast"), ("mir_prim_size_tbl", mir, "mir")):
        body = fn_body(text, r"pub const fn size\(self\)\s*->\s*usize\s*\{")
        tbl = size_table(body) if body else {}
        if set(tbl) == set(PRIMS):
            F.put(key, tbl)
        elif key in probe:
            F.put(key, probe[key], "probe")
        else:
            F.problems.append("cannot derive %s" % key)

    # Primitive::alignment (ast.rs): either `self.size()` or a table / constant
    body = fn_body(ast, r"pub const fn alignment\(self\)\s*->\s*usize\s*\{")
    if body is not None:
        code = re.sub(r"//.*", "", body).strip()
        if re.fullmatch(r"self\.size\(\)", code):
            F.put("prim_align", dict(F.items.get("prim_size", {})))
        elif re.fullmatch(r"\d+", code):
            F.put("prim_align", {p: int(code) for p in PRIMS})
        else:
            tbl = size_table(body)
            if set(tbl) == set(PRIMS):
                F.put("prim_align", tbl)
    if "prim_align" not in F.items:
        if "prim_align" in probe:
            F.put("prim_align", probe["prim_align"], "probe")
        else:
            F.problems.append("cannot derive prim_align")

    def simple_expr(code, env):
        code = re.sub(r"//.*", "", code).strip()
        m = re.fullmatch(r"Primitive::(\w+)\.size\(\)\s*\*\s*(\d+)", code)
        if m:
            return env["prim"][m.group(1)] * int(m.group(2))
        m = re.fullmatch(r"Self::interface_size\(\)", code)
        if m:
            return env["iface_size"]
        m = re.fullmatch(r"\d+", code)
        if m:
            return int(code)
        return None

    env = {"prim": F.items.get("prim_size", {})}
    body = fn_body(ast, r"pub const fn interface_size\(\)\s*->\s*usize\s*\{")
    v = simple_expr(body, env) if body else None
    if v is not None:
        F.put("iface_size", v)
        env["iface_size"] = v
    elif "iface_size" in probe:
        F.put("iface_size", probe["iface_size"], "probe"); env["iface_size"] = probe["iface_size"]
    else:
        F.problems.append("cannot derive iface_size")
    body = fn_body(ast, r"pub const fn interface_align\(\)\s*->\s*usize\s*\{")
    v = simple_expr(body, env) if body else None
    if v is not None:
        F.put("iface_align", v)
    elif "iface_align" in probe:
        F.put("iface_align", probe["iface_align"], "probe")
    else:
        F.problems.append("cannot derive iface_align")

    # mir StructField::size arm for Type::Interface
    m = re.search(r"Type::Interface\(_\)\s*=>\s*([^,\n]+),", fn_body(mir, r"impl StructField\s*\{") or "")
    v = simple_expr(m.group(1), {"prim": F.items.get("mir_prim_size_tbl", {})}) if m else None
    if v is not None:
        F.put("mir_iface_field_size", v)
    elif "mir_iface_field_size" in probe:
        F.put("mir_iface_field_size", probe["mir_iface_field_size"], "probe")
    else:
        F.problems.append("cannot derive mir_iface_field_size")

    # object.h
    m = re.search(r"#define ObjectCounts_pack\(nBuffersIn, nBuffersOut, nObjectsIn, nObjectsOut\)\s*\\\s*"
                  r"\(\(ObjectCounts\)\(\(nBuffersIn\)\s*\|\s*\(\(nBuffersOut\)\s*<<\s*(\d+)\)\s*\|\s*\\?\s*"
                  r"\(\(nObjectsIn\)\s*<<\s*(\d+)\)\s*\|\s*\\?\s*\(\(nObjectsOut\)\s*<<\s*(\d+)\)\)\)", objh)
    if m:
        F.put("c_counts_shift", [0, int(m.group(1)), int(m.group(2)), int(m.group(3))])
    else:
        F.problems.append("cannot derive c_counts_shift")
    mx = []
    for nm in ("BI", "BO", "OI", "OO"):
        m = re.search(r"#define ObjectCounts_max%s\s+(0x[0-9A-Fa-f]+|\d+)" % nm, objh)
        mx.append(num(m.group(1)) if m else None)
    if None not in mx:
        F.put("c_counts_max", mx)
    else:
        F.problems.append("cannot derive c_counts_max")
    m = re.search(r"#define ObjectOp_METHOD_MASK \(\(ObjectOp\)(0x[0-9A-Fa-f]+)u?\)", objh)
    mask = num(m.group(1)) if m else None
    if mask is not None:
        F.put("c_method_mask", mask)
        for nm in ("release", "retain"):
            m = re.search(r"#define Object_OP_%s \(ObjectOp_METHOD_MASK - (\d+)\)" % nm, objh)
            if m:
                F.put("c_op_" + nm, mask - int(m.group(1)))
            else:
                F.problems.append("cannot derive c_op_" + nm)
    else:
        F.problems.append("cannot derive c_method_mask")
    m = re.search(r"#define ObjectOp_METHOD_USERMAX \(\(ObjectOp\)(0x[0-9A-Fa-f]+)\)", objh)
    if m:
        F.put("c_op_usermax", num(m.group(1)))
    else:
        F.problems.append("cannot derive c_op_usermax")
    for nm, key in (("Object_ERROR_INVALID", "c_err_invalid"), ("Object_ERROR_USERBASE", "c_err_userbase"),
                    ("Object_ERROR", "c_err_generic"), ("Object_ERROR_SIZE_OUT", "c_err_size_out")):
        m = re.search(r"#define %s (\d+)\b" % nm, objh)
        if m:
            F.put(key, int(m.group(1)))
        else:
            F.problems.append("cannot derive " + key)
    # rust runtime
    m = re.search(r"n_buffers_in\s*\|\s*\(n_buffers_out\s*<<\s*(\d+)\)\s*\|\s*\(n_objects_in\s*<<\s*(\d+)\)\s*\|\s*"
                  r"\(n_objects_out\s*<<\s*(\d+)\)", objrs)
    if m:
        F.put("rust_counts_shift", [0, int(m.group(1)), int(m.group(2)), int(m.group(3))])
    else:
        F.problems.append("cannot derive rust_counts_shift")
    for nm, key in (("OP_RELEASE", "rust_op_release"), ("OP_RETAIN", "rust_op_retain")):
        m = re.search(r"pub const %s: Op = (0x[0-9a-fA-F]+)u32;" % nm, objrs)
        if m:
            F.put(key, num(m.group(1)))
        else:
            F.problems.append("cannot derive " + key)
    return F


def scrape_driver():
    """DriverFacts.v: the order of effects in idlc/src/main.rs (C19).  Every output file is
    opened inside the backend `match`, which starts after the last validation pass and the
    read of the marking file; every open uses create+write+truncate; the content is computed
    before the file is opened; the marking is written before the content."""
    src = read("idlc/src/main.rs")
    facts, problems = {}, []
    code = re.sub(r"//.*", "", src)
    pos_verify = code.find("InterfaceVerifier::new(&mir).run_pass()")
    pos_marking = code.find("read_to_string(args.marking")
    pos_match = code.find("match (args.c, args.cpp, args.java, args.rust)")
    opens = [m.start() for m in re.finditer(r"OpenOptions::new\(\)", code)]
    creates = [m.start() for m in re.finditer(r"File::create|fs::write|create_dir", code)]
    if pos_verify < 0 or pos_match < 0 or not opens:
        problems.append("main.rs: cannot locate the validation / output structure")
        return facts, problems
    facts["writes_after_validation"] = all(o > pos_verify and o > pos_match for o in opens) and not creates and \
        (pos_marking < 0 or pos_marking < pos_match)
    chains = re.findall(r"OpenOptions::new\(\)((?:\s*\.\w+\([^)]*\))+)", code)
    facts["open_truncates"] = all(".truncate(true)" in c.replace(" ", "").replace("\n", "") and ".create(true)" in c.replace(" ", "").replace("\n", "") for c in chains) and len(chains) == len(opens)
    # per arm: generation precedes the open; marking is written before the content
    arms = re.split(r"\n        \((?:true|false), (?:true|false), (?:true|false), (?:true|false)\) => \{", code[pos_match:])[1:]
    ok_gen, ok_mark = True, True
    for a in arms:
        g = re.search(r"generate(?:_invoke|_implementation)?\(&mir\)", a)
        o = a.find("OpenOptions::new()")
        if g is None or o < 0 or g.start() > o:
            ok_gen = False
        wm, wc = a.find("write_all(marking.as_bytes())"), a.find("write_all(content.as_bytes())")
        if wm < 0 or wc < 0 or wm > wc:
            ok_mark = False
    facts["content_before_open"] = ok_gen and len(arms) == 4
    facts["marking_before_content"] = ok_mark and len(arms) == 4
    # idlc_codegen_rust/src/generator.rs: a second interface with the same lower-cased file
    # name is an error (the `insert` result is inspected) rather than a silent replacement
    rg = re.sub(r"//.*", "", read("idlc_codegen_rust/src/generator.rs"))
    m = re.search(r"else if interfaces\s*\.insert\((.*?)\)\s*\.is_some\(\)\s*\{\s*idlc_errors::unrecoverable!", rg, re.S)
    facts["rust_collision_rejected"] = bool(m) and "to_lowercase()" in rg
    if "interfaces.insert(" not in rg.replace("\n", "").replace(" ", "") and not m:
        problems.append("rust generator.rs: cannot locate the per-interface insert")
    return facts, problems


def render_driver(facts):
    out = ["(* GENERATED by lib/translate.py from idlc/src/main.rs: order of effects of the driver. *)",
           "Require Import Base.", ""]
    for k in ("writes_after_validation", "open_truncates", "content_before_open", "marking_before_content", "rust_collision_rejected"):
        out.append("Definition %s : bool := %s." % (k, "true" if facts.get(k) else "false"))
    return "\n".join(out) + "\n"


def scrape_conc():
    """ConcFacts.v: the concurrency-relevant facts of tests/src/object/wrapper.rs and of the
    Rust skeleton emitter (idlc_codegen_rust/src/interface/functions/invoke.rs)."""
    facts, problems = {}, []
    w = re.sub(r"//.*", "", read("tests/src/object/wrapper.rs"))
    ret = fn_body(w, r"pub unsafe fn retain<[^>]*>\(wrapper: \*mut Wrapper<T>\) -> i32 \{")
    rel = fn_body(w, r"pub unsafe fn release<[^>]*>\(wrapper: \*mut Wrapper<T>\) -> i32 \{")
    if ret is None or rel is None:
        problems.append("wrapper.rs: retain/release not found")
        return facts, problems
    refs_ops = lambda body: re.findall(r"refs\s*\.\s*(\w+)\(", body)
    facts["retain_is_rmw"] = refs_ops(ret) == ["fetch_add"] and bool(re.search(r"fetch_add\(\s*1\s*,", ret))
    facts["release_is_rmw"] = refs_ops(rel) == ["fetch_sub"] and bool(re.search(r"fetch_sub\(\s*1\s*,", rel))
    m = re.search(r"(\d+)\s*=>\s*(?:std::mem::)?drop\(Box::from_raw\(wrapper\)\)", rel)
    if m and len(re.findall(r"Box::from_raw", rel)) == 1:
        facts["release_frees_on"] = int(m.group(1))
    else:
        problems.append("wrapper.rs: cannot find the value on which release frees")
    # the decrement that may free must synchronise with every earlier release and method body: a
    # sequentially consistent or acquire-release decrement, or the Arc idiom (Release decrement, then
    # an Acquire fence before the free).  The interleaving model of Conc.v is sequentially consistent;
    # this fact is what lets it speak about the code.
    mo = re.search(r"fetch_sub\(\s*1\s*,\s*Ordering::(\w+)\s*\)", rel)
    order = mo.group(1) if mo else None
    fence_before_free = bool(re.search(r"fence\(\s*Ordering::(Acquire|AcqRel|SeqCst)\s*\)(.|\n)*Box::from_raw", rel))
    facts["release_synchronizes"] = order in ("SeqCst", "AcqRel") or (order == "Release" and fence_before_free)
    facts["refs_starts_at"] = 1 if re.search(r"refs:\s*AtomicUsize::new\(1\)", w) else 0
    facts["inner_is_mutex"] = bool(re.search(r"pub inner:\s*Mutex<Box<T>>", w))
    # downcast_concrete: the caller's closure runs while the implementation's lock is held
    dc = fn_body(w, r"pub fn downcast_concrete<[^>]*>\(")
    if dc is None:
        problems.append("wrapper.rs: downcast_concrete not found")
    else:
        a, b, c = dc.find(".inner.lock()"), dc.find("f(i)"), dc.find("drop(locked)")
        scoped = re.search(r"let i = \{[^}]*\.inner\.lock\(\)", dc, re.S)
        facts["downcast_closure_under_lock"] = 0 <= a < b < c and not scoped
    inv = read("idlc_codegen_rust/src/interface/functions/invoke.rs")
    tm = re.search(r"match \(\*\{CONTEXT\}\)\.inner\.lock\(\)(.*?)\.and_then\(\|mut cx\| cx\.r#\{ident\}\(\{params\}\)\)", inv, re.S)
    facts["arm_locks_before_call"] = bool(tm)
    facts["arm_holds_lock_during_call"] = bool(tm)     # the call is made through the guard inside the closure
    return facts, problems


def render_conc(facts):
    out = ["(* GENERATED by lib/translate.py from tests/src/object/wrapper.rs and the Rust skeleton emitter. *)",
           "Require Import Base.", ""]
    for k in ("retain_is_rmw", "release_is_rmw", "release_synchronizes", "inner_is_mutex", "arm_locks_before_call", "arm_holds_lock_during_call", "downcast_closure_under_lock"):
        out.append("Definition %s : bool := %s." % (k, "true" if facts.get(k) else "false"))
    out.append("Definition release_frees_on : nat := %d." % facts.get("release_frees_on", 0))
    out.append("Definition refs_starts_at : nat := %d." % facts.get("refs_starts_at", 0))
    return "\n".join(out) + "\n"


def visitor_body(text, fn):
    return fn_body(text, r"fn %s\(" % fn) or ""


def scrape_own():
    """OwnFacts.v: the ownership idiom each visitor emits for object arguments (C05)."""
    facts, problems = {}, []
    c_impl = read("idlc_codegen_c/src/interface/functions/implementation.rs")
    c_inv = read("idlc_codegen_c/src/interface/functions/invoke.rs")
    cpp_impl = read("idlc_codegen_cpp/src/interface/functions/implementation.rs")
    cpp_inv = read("idlc_codegen_cpp/src/interface/functions/invoke.rs")
    rs_impl = read("idlc_codegen_rust/src/interface/functions/implementation.rs")
    rs_inv = read("idlc_codegen_rust/src/interface/functions/invoke.rs")
    objfns = ("visit_input_object", "visit_input_object_array", "visit_output_object", "visit_output_object_array")
    def none_in(text, words):
        return all(not any(w in visitor_body(text, f) for w in words) for f in objfns)
    facts["c_stub_no_refcount_ops"] = none_in(c_impl, ("retain", "release"))
    facts["c_skel_no_refcount_ops"] = none_in(c_inv, ("retain", "release"))
    b = visitor_body(cpp_impl, "visit_input_object")
    facts["cpp_stub_in_borrows"] = ".get()" in b and "retain" not in b
    b = visitor_body(cpp_impl, "visit_output_object")
    facts["cpp_stub_out_consumes"] = ".consume(" in b
    b = visitor_body(cpp_inv, "visit_input_object")
    facts["cpp_skel_in_adopts_then_extracts"] = bool(re.search(r"p_\{ident\}\(\{ARGS\}\[\{idx\}\]\.o\)", b)) and "p_{ident}.extract()" in b
    b = visitor_body(cpp_inv, "visit_output_object")
    facts["cpp_skel_out_extracts"] = bool(re.search(r"\{ARGS\}\[\{idx\}\]\.o = p_\{ident\}\.extract\(\)", b))
    b = visitor_body(rs_impl, "visit_input_object")
    facts["rust_stub_in_manually_drop"] = "ManuallyDrop::new(" in b and "transmute_copy" in b
    b = visitor_body(rs_impl, "visit_output_object")
    facts["rust_stub_out_takes"] = "ManuallyDrop::take(" in b
    b = visitor_body(rs_inv, "visit_input_object")
    facts["rust_skel_in_borrows"] = ".o.as_ref()" in b and "ManuallyDrop::take" not in b
    b = visitor_body(rs_inv, "visit_output_object")
    facts["rust_skel_out_moves"] = "ManuallyDrop::new(std::mem::transmute({ident}))" in b
    pb = re.sub(r"//.*", "", read("tests/cpp/proxy_base.hpp"))
    m = re.search(r"void consume\(.*?\{(.*?)\n  \}", pb, re.S)
    cb = m.group(1) if m else ""
    facts["cpp_consume_skips_same_object"] = bool(re.search(r"if \(me_\.invoke != rhs\.invoke \|\| me_\.context != rhs\.context\)", cb))
    facts["cpp_consume_releases_duplicate"] = bool(re.search(r"\}\s*else if \(!Object_isNull\(rhs\)\)\s*\{[^}]*Object_release\(rhs\);", cb, re.S))
    if "else" in cb and not facts["cpp_consume_releases_duplicate"]:
        problems.append("ProxyBase::consume: unrecognised else branch")
    return facts, problems


def scrape_java():
    """JavaFacts.v: how the Java emitters walk parameters and encode data (C18)."""
    facts, problems = {}, []
    impl = read("idlc_codegen_java/src/interface/functions/implementation.rs")
    inv = read("idlc_codegen_java/src/interface/functions/invoke.rs")
    prims = read("idlc_codegen_java/src/interface/mink_primitives.rs")
    types = read("idlc_codegen_java/src/types.rs")
    walk = r"idlc_codegen::functions::visit_params_with_bundling\(function, &mut me\)"
    facts["java_proxy_shared_walk"] = bool(re.search(walk, impl))
    facts["java_skel_shared_walk"] = bool(re.search(walk, inv))
    facts["java_little_endian"] = bool(re.search(r'BYTE_ORDER: &str = "ByteOrder\.LITTLE_ENDIAN"', prims))
    # every data visitor of the proxy takes exactly one bi / bo index (one slot per visited event)
    one = True
    for fn, ctr in (("visit_input_primitive_buffer", "bi_idx"), ("visit_input_untyped_buffer", "bi_idx"), ("visit_input_struct_buffer", "bi_idx"),
                    ("visit_input_primitive", "bi_idx"), ("visit_input_bundled", "bi_idx"), ("visit_input_big_struct", "bi_idx"),
                    ("visit_output_primitive_buffer", "bo_idx"), ("visit_output_untyped_buffer", "bo_idx"), ("visit_output_struct_buffer", "bo_idx"),
                    ("visit_output_primitive", "bo_idx"), ("visit_output_bundled", "bo_idx"), ("visit_output_big_struct", "bo_idx")):
        b = visitor_body(impl, fn)
        if len(re.findall(r"self\.%s\(\)" % ctr, b)) != 1:
            one = False
    facts["java_proxy_one_slot_per_event"] = one
    # is the decoder of every output slot scoped (a block of its own), so that two of them can coexist?
    n_scoped = len(re.findall(r'r#"\{\{\s*\{BYTE_BUFFER\} \{BUNDLE_OUT\}', impl))
    n_bare = len(re.findall(r'r#"\{BYTE_BUFFER\} \{BUNDLE_OUT\}', impl))
    facts["java_scopes_bundle_out"] = n_scoped == 3 and n_bare == 0
    if not ((n_scoped == 3 and n_bare == 0) or (n_scoped == 0 and n_bare == 3)):
        problems.append("java proxy: declarations of bundleOut not recognised (%d scoped, %d bare)" % (n_scoped, n_bare))
    carriers = {"Uint8": "byte", "Int8": "byte", "Uint16": "char", "Int16": "char", "Uint32": "int", "Int32": "int", "Uint64": "long", "Int64": "long"}
    ok = True
    for k, v in carriers.items():
        if not re.search(r"Primitive::%s\b[^=]*=> \"%s\"" % (k, v), types):
            ok = False
    facts["java_carriers_same_width"] = ok
    return facts, problems


def render_java(facts):
    out = ["(* GENERATED by lib/translate.py: parameter walk, byte order and carrier types of the Java emitters. *)",
           "Require Import Base.", ""]
    for k in sorted(facts):
        out.append("Definition %s : bool := %s." % (k, "true" if facts[k] else "false"))
    return "\n".join(out) + "\n"


def scrape_emit():
    """EmitFacts.v: shape of the C++ base clause (C11)."""
    facts, problems = {}, []
    t = read("idlc_codegen_cpp/src/interface/mod.rs")
    push = bool(re.search(r'base_iface\.push_str\(&format!\("I\{\} ", ', t)) and bool(re.search(r'format!\(": public \{base_iface\}"\)', t))
    only_first = bool(re.search(r'\.skip\(1\)\s*\.enumerate\(\)\s*\.for_each\(\|\(depth, iface\)\|\s*\{[^}]*?if depth == 0 \{\s*base_iface\.push_str', t, re.S))
    # every ancestor pushed and joined by spaces, or only the immediate base
    facts["cpp_base_sep_is_space"] = push and not only_first
    facts["cpp_base_only_immediate"] = push and only_first
    if not push:
        problems.append("cpp base clause: emission pattern not recognised")
    return facts, problems


def render_emit(facts):
    out = ["(* GENERATED by lib/translate.py: how the C++ emitter joins the ancestors of an interface. *)", "Require Import Base.", ""]
    for k in sorted(facts):
        out.append("Definition %s : bool := %s." % (k, "true" if facts[k] else "false"))
    return "\n".join(out) + "\n"


def scrape_pst():
    """PstFacts.v: do the positional reads of pst.rs skip COMMENT pairs? (C14, C16)"""
    facts, problems = {}, []
    t = read("idlc_ast/src/pst.rs")
    helper = bool(re.search(r"fn children\(pair: Pair<'_, Rule>\) -> impl Iterator<Item = Pair<'_, Rule>> \{\s*pair\.into_inner\(\)\.filter\(\|p\| p\.as_rule\(\) != Rule::COMMENT\)", t))
    n = len(re.findall(r"\.into_inner\(\)", t))
    # sites that must stay raw: the helper itself, attributes of function_keyword, FunctionAttribute,
    # Documentation, include, the members of an interface, the top-level loop
    facts["pst_comment_keeps_doc"] = bool(re.search(r"Rule::COMMENT => \{[^}]*if let Ok\(doc\) = Documentation::try_from\(rule\) \{\s*comment = Some\(doc\);", t, re.S))
    overwrites = bool(re.search(r"Rule::COMMENT => \{\s*comment = Documentation::try_from\(rule\)\.ok\(\);", t))
    if facts["pst_comment_keeps_doc"] == overwrites:
        problems.append("pst.rs: how a COMMENT pair updates the pending documentation is not recognised")
    checked = bool(re.search(r"fn array_size\(size: Pair<'_, Rule>\) -> Count \{\s*size\.as_str\(\)\.parse\(\)\.unwrap_or_else\(\|_\| \{\s*idlc_errors::unrecoverable!", t)) and len(re.findall(r"array_size\(ast_unwrap!\(", t)) == 3
    unchecked = len(re.findall(r"ast_unwrap!\([^;]*\.as_str\(\)\.parse\(\)\)", t)) == 3
    facts["pst_array_size_checked"] = checked
    if checked == unchecked:
        problems.append("pst.rs: how array sizes are parsed is not recognised")
    if helper and n == 7:
        facts["pst_skips_comments"] = True
    elif not helper and n == 18:
        facts["pst_skips_comments"] = False
    else:
        facts["pst_skips_comments"] = False
        problems.append("pst.rs: %d uses of into_inner() with%s the children() helper: which positional reads skip comments is not recognised" % (n, "" if helper else "out"))
    return facts, problems


def render_pst(facts):
    out = ["(* GENERATED by lib/translate.py: whether the positional reads of pst.rs skip COMMENT pairs. *)", "Require Import Base.", ""]
    for k in sorted(facts):
        out.append("Definition %s : bool := %s." % (k, "true" if facts[k] else "false"))
    return "\n".join(out) + "\n"


def scrape_counter():
    """CounterFacts.v: does Counter::new enforce the 4-bit limit per class? (C02, C16)"""
    facts, problems = {}, []
    t = read("idlc_codegen/src/counts.rs")
    limit = re.search(r"pub const MAX_PER_CLASS: u8 = (\d+);", t)
    checked = bool(limit) and bool(re.search(r"assert!\(\s*count <= MAX_PER_CLASS", t)) and "+=" not in t and bool(re.search(r"fn bump\(field: &mut u8, by: usize\)", t))
    unchecked = len(re.findall(r"\+= ", t)) >= 16 and not limit
    sv = read("idlc_ast_passes/src/struct_verifier.rs")
    sz_checked = bool(re.search(r"\.checked_mul\(count\)\s*\.and_then\(\|bytes\| size\.checked_add\(bytes\)\)\s*\.ok_or_else\(\|\| Error::StructTooLarge", sv))
    sz_unchecked = "size += i_size * count;" in sv
    facts["struct_size_checked"] = sz_checked
    if sz_checked == sz_unchecked:
        problems.append("struct_verifier.rs: how the struct size is accumulated is not recognised")
    mirsrc = read("idlc_mir/src/mir.rs")
    type_new = fn_body(mirsrc, r"fn new\(ty: &idlc_ast::Type, idl_store: &IDLStore\) -> Self \{") or ""
    if not type_new:
        problems.append("mir.rs: Type::new not found")
    mir_checked = bool(re.search(r"size\s*\.checked_mul\(usize::from\(count\.get\(\)\)\)\s*\.unwrap_or_else\(\|\| \{?\s*panic!", mirsrc)) and \
        bool(re.search(r"acc\.checked_add\(e\.size\(\)\)\.unwrap_or_else\(\|\| \{\s*panic!", mirsrc)) and \
        bool(re.search(r"size = size\.checked_add\(field\.size\(\)\)\.unwrap_or_else\(\|\| \{\s*panic!", type_new)) and "size += field.size()" not in type_new
    # (parse_struct adds the member sizes of the main file's own structs with +=: those have been through
    # the struct verifier, which refuses a size that does not fit - fact struct_size_checked)
    mir_unchecked = ("size * usize::from(count.get())" in mirsrc and "fold(0, |acc, e| acc + e.size())" in mirsrc) or "size += field.size()" in type_new
    facts["mir_size_checked"] = mir_checked
    if mir_checked == mir_unchecked:
        problems.append("mir.rs: how StructField::size / StructInner::size multiply and add is not recognised")
    lib = read("idlc/src/lib.rs")
    facts["lib_runs_interface_verifier"] = bool(re.search(r"parse_to_mir\(&ast, &mut idl_store\);.*?interface_verifier::InterfaceVerifier::new\(&mir\)\.run_pass\(\);.*?Generator::generate\(&mir\)", lib, re.S))
    iv = read("idlc_mir_passes/src/interface_verifier.rs")
    facts["verifier_rejects_second_objarr"] = "has more than one input object array" in iv and "has more than one output object array" in iv
    facts["verifier_small_objstruct_in_array"] = len(re.findall(r"if let Type::Struct\(\s*Struct::Big\(s\) \| Struct::Small\(s\),?\s*\) = t", iv)) == 2
    st = read("idlc_ast_passes/src/idl_store.rs")
    facts["symbols_one_namespace"] = bool(re.search(r"assert!\(\s*!taken_by_other_kind", st)) and all(
        x in st for x in ("Node::Struct(s) => map.contains_key(&Symbol::Const(s.ident.to_string()))",
                          "Node::Interface(i) => map.contains_key(&Symbol::Const(i.ident.to_string()))",
                          "Node::Const(c) => map.contains_key(&Symbol::Struct(c.ident.to_string()))"))
    facts["counter_checked"] = checked
    facts["counter_limit"] = int(limit.group(1)) if (limit and checked) else 255
    if checked == unchecked:
        problems.append("counts.rs: how the Counter adds and whether it enforces a limit is not recognised")
    return facts, problems


def render_counter(facts):
    return ("(* GENERATED by lib/translate.py: arithmetic and limit of idlc_codegen::counts::Counter. *)\nRequire Import Base.\n\n"
            "Definition counter_checked : bool := %s.\nDefinition counter_limit : N := %d.\nDefinition struct_size_checked : bool := %s.\n"
            "(* idlc/src/lib.rs: does Language::generate run the InterfaceVerifier? *)\nDefinition lib_runs_interface_verifier : bool := %s.\n"
            "(* interface_verifier.rs: a second object array of one direction / an input array of a small object struct *)\n"
            "Definition verifier_rejects_second_objarr : bool := %s.\nDefinition verifier_small_objstruct_in_array : bool := %s.\n"
            "(* idl_store.rs gather_symbols_from_ast: types and constants share one namespace *)\nDefinition symbols_one_namespace : bool := %s.\n"
            "(* mir.rs StructField::size / StructInner::size: checked_mul / checked_add with a diagnostic *)\nDefinition mir_size_checked : bool := %s.\n"
            % ("true" if facts["counter_checked"] else "false", facts["counter_limit"], "true" if facts["struct_size_checked"] else "false",
               "true" if facts["lib_runs_interface_verifier"] else "false", "true" if facts["verifier_rejects_second_objarr"] else "false",
               "true" if facts["verifier_small_objstruct_in_array"] else "false", "true" if facts["symbols_one_namespace"] else "false",
               "true" if facts["mir_size_checked"] else "false"))


def scrape_consts():
    """ConstFacts.v: does the float range check parse the literal as written? (C17)"""
    facts, problems = {}, []
    t = read("idlc_ast/src/ast.rs")
    as_written = bool(re.search(r"let literal = value;\s*let value = &value\.replace\(\"0x\", \"\"\);", t)) and "literal.parse::<f32>()" in t and "literal.parse::<f64>()" in t
    stripped = "value.parse::<f32>()" in t and "value.parse::<f64>()" in t and not as_written
    facts["float_parsed_as_written"] = as_written
    if as_written == stripped:
        problems.append("ast.rs: which text the floating-point range check parses is not recognised")
    return facts, problems


def scrape_include():
    """IncludeFacts.v: does visit_include skip a file that has been walked before? (C12)"""
    src = re.sub(r"//.*", "", read("idlc_ast_passes/src/idl_store.rs"))
    facts, problems = {}, []
    m = re.search(r"fn visit_include\(&mut self.*?\n    \}\n", src, re.S)
    if not m:
        problems.append("idl_store.rs: cannot locate visit_include")
        return facts, problems
    body = m.group(0)
    guarded = re.search(r"if self\.walked\.insert\(cano_path(?:\.clone\(\))?\)\s*\{\s*walk_all\(self, &inc_ast\);\s*\}", body)
    bare = re.search(r"\n\s*walk_all\(self, &inc_ast\);", body) and not guarded
    if not guarded and not bare:
        problems.append("idl_store.rs: visit_include has an unrecognised walk structure")
    # the cycle test must still precede the walk and the edge must be added for every include
    order_ok = 0 <= body.find("self.graph.add_edge(") < body.find("self.cycle = self.graph.cycle()") < body.find("walk_all(self, &inc_ast)")
    if not order_ok:
        problems.append("idl_store.rs: visit_include no longer adds the edge and tests for a cycle before walking")
    facts["walk_skips_walked"] = bool(guarded) and "walked: HashSet::new()" in src
    return facts, problems


def render_include(facts):
    return ("(* GENERATED by lib/translate.py from idlc_ast_passes/src/idl_store.rs (visit_include). *)\n"
            "Require Import Base.\n\n(* a file that has been walked before is not walked again *)\n"
            "Definition walk_skips_walked : bool := %s.\n" % ("true" if facts.get("walk_skips_walked") else "false"))


# ---------------------------------------------------------------- grammar (idl_grammar.pest -> gen/Grammar.v)
PEST_BUILTINS = {"ANY": "PAny", "NEWLINE": "PNewline", "SOI": "PSoi", "EOI": "PEoi", "ASCII_ALPHA": "PCls CAlpha",
                 "ASCII_DIGIT": "PCls CDigit", "ASCII_ALPHANUMERIC": "PCls CAlnum", "ASCII_HEX_DIGIT": "PCls CHex"}


def coq_string(t):
    if all(32 <= ord(ch) < 127 for ch in t):
        return '"' + t.replace('"', '""') + '"'
    if any(ord(ch) > 127 for ch in t):
        raise ValueError("non-ASCII character in a grammar literal")
    e = '""'
    for ch in reversed(t):
        e = "(String (Ascii.ascii_of_nat %d) %s)" % (ord(ch), e)
    return e


class PestParser:
    """the subset of pest's grammar syntax that idl_grammar.pest uses: rules `name = mod? { e }`
    with mod in _ @ $, choice |, sequence ~, prefix !, postfix * + ?, strings, identifiers and
    parentheses.  Anything else is a translator problem (reported, never guessed)."""

    def __init__(self, text):
        self.toks = re.findall(r'"(?:[^"\\]|\\.)*"|[A-Za-z_][A-Za-z_0-9]*|[=_@$!{}()|~*+?]|//[^\n]*|\S', text)
        self.toks = [t for t in self.toks if not t.startswith("//")]
        self.i = 0

    def peek(self):
        return self.toks[self.i] if self.i < len(self.toks) else None

    def next(self):
        t = self.peek()
        self.i += 1
        return t

    def expect(self, t):
        if self.next() != t:
            raise ValueError("expected %r near token %d (%r)" % (t, self.i, self.toks[max(0, self.i - 3):self.i + 2]))

    def rules(self):
        out = []
        while self.peek() is not None:
            name = self.next()
            if not re.match(r"[A-Za-z_]\w*$", name):
                raise ValueError("rule name expected, got %r" % name)
            self.expect("=")
            kind = "KNormal"
            if self.peek() in ("_", "@", "$"):
                kind = {"_": "KSilent", "@": "KAtomic", "$": "KCompound"}[self.next()]
            elif self.peek() == "!":
                raise ValueError("non-atomic rule modifier is not modelled")
            self.expect("{")
            e = self.choice()
            self.expect("}")
            out.append((name, kind, e))
        return out

    def choice(self):
        e = self.seq()
        if self.peek() == "|":
            self.next()
            return "(PAlt %s %s)" % (e, self.choice())       # right-nested like pest's own AST
        return e

    def seq(self):
        e = self.prefix()
        if self.peek() == "~":
            self.next()
            return "(PSeq %s %s)" % (e, self.seq())
        return e

    def prefix(self):
        if self.peek() == "!":
            self.next()
            return "(PNot %s)" % self.prefix()
        if self.peek() == "&":
            raise ValueError("positive lookahead is not modelled")
        return self.postfix()

    def postfix(self):
        e = self.atom()
        while self.peek() in ("*", "+", "?"):
            e = "(%s %s)" % ({"*": "PStar", "+": "PPlus", "?": "POpt"}[self.next()], e)
        if self.peek() == "{":
            # a `{n}` repetition would start here inside an expression; a rule body's closing is `}`
            pass
        return e

    def atom(self):
        t = self.next()
        if t is None:
            raise ValueError("unexpected end of grammar")
        if t == "(":
            e = self.choice()
            self.expect(")")
            return e
        if t.startswith('"'):
            body = bytes(t[1:-1], "utf8").decode("unicode_escape")
            return "(PStr %s)" % coq_string(body)
        if re.match(r"[A-Za-z_]\w*$", t):
            if t in PEST_BUILTINS:
                return "(%s)" % PEST_BUILTINS[t] if " " in PEST_BUILTINS[t] else PEST_BUILTINS[t]
            if t.isupper() and t not in ("WHITESPACE", "COMMENT", "DOCUMENTATION") and not t.startswith("COMMENT_VARIANT"):
                raise ValueError("built-in rule %s is not modelled" % t)
            return '(PRef "%s")' % t
        raise ValueError("token %r is not modelled" % t)


def scrape_grammar():
    facts, problems = {}, []
    try:
        rules = PestParser(read("idlc_ast/src/idl_grammar.pest")).rules()
    except ValueError as e:
        return facts, ["idl_grammar.pest: " + str(e)]
    names = [r[0] for r in rules]
    if len(set(names)) != len(names) or "idl" not in names:
        problems.append("idl_grammar.pest: duplicate rule names or no rule `idl`")
    facts["rules"] = rules
    return facts, problems


def render_grammar(facts):
    out = ["(* GENERATED by lib/translate.py from idlc_ast/src/idl_grammar.pest: the grammar as a value of Peg.grammar. *)",
           "Require Import Base Peg.", "Open Scope string_scope.", "Open Scope list_scope.", "",
           "Definition idl_grammar : grammar := ["]
    rs = facts["rules"]
    for k, (name, kind, e) in enumerate(rs):
        out.append('  mkRule "%s" %s %s%s' % (name, kind, e, ";" if k + 1 < len(rs) else ""))
    out.append("].")
    return "\n".join(out) + "\n"


def render_consts(facts):
    return ("(* GENERATED by lib/translate.py: the text Primitive::new parses for floating-point constants. *)\nRequire Import Base.\n\n"
            "Definition float_parsed_as_written : bool := %s.\n" % ("true" if facts["float_parsed_as_written"] else "false"))


def render_own(facts):
    out = ["(* GENERATED by lib/translate.py: ownership idioms of the object visitors (C, C++, Rust emitters) and of ProxyBase::consume. *)",
           "Require Import Base.", ""]
    for k in sorted(facts):
        out.append("Definition %s : bool := %s." % (k, "true" if facts[k] else "false"))
    return "\n".join(out) + "\n"


def ptable(name, tbl):
    arms = " ".join("| %s => %d" % (COQP[p], tbl[p]) for p in PRIMS)
    return "Definition %s (p : prim) : N := match p with %s end.\n" % (name, arms)


def render(F):
    it = F.items
    out = ["(* GENERATED by lib/translate.py from the Rust sources of the repository.",
           "   Do not edit.  Derivations: %s *)" % json.dumps(F.source, sort_keys=True),
           "Require Import Base Syntax.", ""]
    for k in ("error_code_start", "max_op_code", "bundled_size_max", "iface_size", "iface_align",
              "mir_iface_field_size", "c_method_mask", "c_op_release", "c_op_retain", "c_op_usermax",
              "c_err_invalid", "c_err_userbase", "c_err_generic", "c_err_size_out",
              "rust_op_release", "rust_op_retain"):
        out.append("Definition %s : N := %d." % (k, it[k]))
    for k in ("prim_size", "prim_align", "mir_prim_size_tbl"):
        out.append(ptable(k, it[k]).rstrip())
    for k in ("c_counts_shift", "c_counts_max", "rust_counts_shift"):
        out.append("Definition %s : list N := [%s]." % (k, "; ".join(str(x) for x in it[k])))
    return "\n".join(out) + "\n"


def write_if_changed(path, content):
    try:
        with open(path) as f:
            if f.read() == content:
                return False
    except FileNotFoundError:
        pass
    os.makedirs(os.path.dirname(path), exist_ok=True)
    with open(path, "w") as f:
        f.write(content)
    return True


def main(outdir, probe=None):
    F = scrape(probe)
    if F.problems:
        return F, None
    changed = write_if_changed(os.path.join(outdir, "CodeFacts.v"), render(F))
    df, dproblems = scrape_driver()
    F.problems += dproblems
    F.items["driver"] = df
    if not dproblems:
        write_if_changed(os.path.join(outdir, "DriverFacts.v"), render_driver(df))
    of, oproblems = scrape_own()
    F.problems += oproblems
    F.items["own"] = of
    if not oproblems:
        write_if_changed(os.path.join(outdir, "OwnFacts.v"), render_own(of))
    jf, jproblems = scrape_java()
    F.problems += jproblems
    F.items["java"] = jf
    if not jproblems:
        write_if_changed(os.path.join(outdir, "JavaFacts.v"), render_java(jf))
    ef, eproblems = scrape_emit()
    F.problems += eproblems
    F.items["emit"] = ef
    if not eproblems:
        write_if_changed(os.path.join(outdir, "EmitFacts.v"), render_emit(ef))
    pf, pproblems = scrape_pst()
    F.problems += pproblems
    F.items["pst"] = pf
    if not pproblems:
        write_if_changed(os.path.join(outdir, "PstFacts.v"), render_pst(pf))
    kf, kproblems = scrape_counter()
    F.problems += kproblems
    F.items["counter"] = kf
    if not kproblems:
        write_if_changed(os.path.join(outdir, "CounterFacts.v"), render_counter(kf))
    nf, nproblems = scrape_consts()
    F.problems += nproblems
    F.items["consts"] = nf
    if not nproblems:
        write_if_changed(os.path.join(outdir, "ConstFacts.v"), render_consts(nf))
    incf, iproblems = scrape_include()
    F.problems += iproblems
    F.items["include"] = incf
    if not iproblems:
        write_if_changed(os.path.join(outdir, "IncludeFacts.v"), render_include(incf))
    gf, gproblems = scrape_grammar()
    F.problems += gproblems
    F.items["grammar_rules"] = len(gf.get("rules", []))
    if not gproblems:
        write_if_changed(os.path.join(outdir, "Grammar.v"), render_grammar(gf))
    cf, cproblems = scrape_conc()
    F.problems += cproblems
    F.items["conc"] = cf
    if not cproblems:
        write_if_changed(os.path.join(outdir, "ConcFacts.v"), render_conc(cf))
    return F, changed


if __name__ == "__main__":
    F, ch = main(sys.argv[1] if len(sys.argv) > 1 else "/verif/coq/theories/gen")
    print(json.dumps({"items": F.items, "source": F.source, "problems": F.problems, "changed": ch}, indent=1))
    sys.exit(1 if F.problems else 0)
