"""Parser for the output of `idlc --dump pst` (pest's Debug rendering of Pairs) into nested
(rule, text, children) tuples, and their rendering as Gallina terms of Pst.tree."""
import re


class P:
    def __init__(self, s):
        self.s, self.i = s, 0

    def ws(self):
        while self.i < len(self.s) and self.s[self.i] in " \n\t\r,":
            self.i += 1

    def expect(self, tok):
        self.ws()
        if not self.s.startswith(tok, self.i):
            raise ValueError("expected %r at %d: %r" % (tok, self.i, self.s[self.i:self.i + 40]))
        self.i += len(tok)

    def peek(self, tok):
        self.ws()
        return self.s.startswith(tok, self.i)

    def string(self):
        self.ws()
        assert self.s[self.i] == '"'
        self.i += 1
        out = []
        while True:
            c = self.s[self.i]
            if c == '"':
                self.i += 1
                break
            if c == "\\":
                n = self.s[self.i + 1]
                if n == "u":
                    j = self.s.index("}", self.i)
                    out.append(chr(int(self.s[self.i + 3:j], 16)))
                    self.i = j + 1
                    continue
                out.append({"n": "\n", "t": "\t", "r": "\r", "0": "\0", "\\": "\\", '"': '"', "'": "'"}[n])
                self.i += 2
                continue
            out.append(c)
            self.i += 1
        return "".join(out)

    def pair(self):
        self.expect("Pair")
        self.expect("{")
        self.expect("rule:")
        self.ws()
        m = re.compile(r"[A-Za-z_#]+").match(self.s, self.i)
        rule = m.group(0)
        self.i = m.end()
        self.expect("span:")
        self.expect("Span")
        self.expect("{")
        self.expect("str:")
        text = self.string()
        self.expect("range:")
        self.ws()
        m = re.compile(r"\d+\.\.\d+").match(self.s, self.i)
        self.i = m.end()
        self.expect("}")
        self.expect("inner:")
        kids = self.list()
        self.expect("}")
        if rule.startswith("r#"):
            rule = rule[2:]
        return (rule, text, kids)

    def list(self):
        self.expect("[")
        out = []
        while not self.peek("]"):
            out.append(self.pair())
        self.expect("]")
        return out


def parse(text):
    p = P(text)
    top = p.list()
    return top[0] if top else None


def gstr(s):
    return '"%s"' % s.replace('"', '""')


def gallina(t):
    rule, text, kids = t
    return "(T %s %s [%s])" % (gstr(rule), gstr(text), "; ".join(gallina(k) for k in kids))


def ascii_only(t):
    rule, text, kids = t
    return all(ord(c) < 128 and (ord(c) >= 32 or c in "\n\t\r") for c in text) and all(ascii_only(k) for k in kids)


def san_bytes(text):
    """byte-level placeholder for everything outside printable ASCII, tab, LF, CR (the Coq side
    does the same on the model's byte strings: Checks.san_str)"""
    return "".join(chr(b) if (32 <= b <= 126 or b in (9, 10, 13)) else "?" for b in text.encode("utf-8"))


def san_bytes_tree(t):
    rule, text, kids = t
    return (rule, san_bytes(text), [san_bytes_tree(k) for k in kids])
