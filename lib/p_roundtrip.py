"""C01 (round trip), with the shared L2 machinery of l2c.py: generated interfaces are compiled by
the real idlc (stub + skeleton), linked with a copying transport and a logging implementation,
built with -Wall -Wextra -Werror and ASan/UBSan, run, and the log is compared with the log the
property prescribes.  Methods are classified by the Coq model (known classes run separately)."""
import hashlib, json, os, re, shutil
from concurrent.futures import ThreadPoolExecutor
import gen, l2c, scrape, vlib

TESTS = os.path.join(vlib.REPO, "tests")
KNOWN = {2: "K_interleave", 3: "K_objarr_after_out", 4: "K_no_limit", 5: "K_pad_bundle"}   # 4 cannot occur any more: the repaired Counter rejects such methods


def gen_batch(rng, nmethods=12, chain=False):
    ctx = gen.Ctx(rng)
    decls = []
    for _ in range(rng.randint(2, 4)):
        decls.append(gen.gen_struct(ctx, ctx.fresh("S"), allow_obj=False, small_bias=0.6))
    methods = []
    while len(methods) < nmethods:
        ps = gen.gen_params_wild(ctx, nmax=8) if rng.random() < 0.35 else gen.gen_params(ctx, nmax=8, allow_obj_struct=False)
        # object-free structs only; no unbounded/odd shapes the verifier rejects
        ok = True
        objarr = {"in": 0, "out": 0}
        objval = {"in": 0, "out": 0}
        for d, t, sh, pn in ps:
            isobj = t == "interface"
            if isobj and sh is not None:
                objarr[d] += 1
            if isobj and sh is None:
                objval[d] += 1
            if not isobj and sh not in (None, "[]"):
                ok = False
            if t not in gen.PSIZE and t not in ("buffer", "interface") and ctx.structs.get(t, {}).get("objs", 1) != 0:
                ok = False
        for d in ("in", "out"):
            if objarr[d] > 1 or (objarr[d] and objval[d]):
                ok = False
        if ok and max(l2c.ref_counts(ctx, ps)) > 15:
            ok = False          # more than 15 slots of a class: rejected by the Counter (checked by C02 at L0)
        if ok:
            methods.append(("m%d" % len(methods), ps))
    # an unrelated interface declared first whose methods have the same names and other small
    # parameters: what is generated for a method depends on its own interface only
    dec = []
    for i, (n, ps) in enumerate(methods):
        dps = [("in", ["uint64", "uint16", "uint8", "uint32"][(i + j) % 4], None, "d%d" % j) for j in range(2 + i % 3)]
        dps += [("out", ["uint8", "uint64", "uint16"][(i + j) % 3], None, "e%d" % j) for j in range(i % 3)]
        dec.append(("method", n, dps, False, None))
    decls.append(("iface", "IDecoy", None, dec))
    if chain:
        # "own or inherited": the methods are spread over a chain IL0 <- IL1 <- IL2 (the flattened
        # interface lists the root's methods first, which is the order of `methods`)
        a, b = len(methods) // 3, 2 * len(methods) // 3
        mk = lambda part: [("method", n, ps, False, None) for n, ps in part]
        decls.append(("iface", "IL0", None, mk(methods[:a])))
        decls.append(("iface", "IL1", "IL0", mk(methods[a:b])))
        decls.append(("iface", "IL2", "IL1", mk(methods[b:])))
    else:
        decls.append(("iface", "IL2", None, [("method", n, ps, False, None) for n, ps in methods]))
    fs = {"files": [{"path": "l2.idl", "includes": [], "decls": decls}], "main": "l2.idl", "idirs": []}
    return ctx, fs, methods


def wide_batch(rng):
    """more than twenty bundled members of one direction, equal sizes never adjacent in the
    declaration: 'largest first, otherwise in declaration order' for long bundles"""
    ctx = gen.Ctx(rng)
    cyc = ["uint8", "uint32", "uint16", "uint64", "int8", "float32", "int16", "float64"]
    methods = []
    for mi, (d, n) in enumerate((("in", 24), ("out", 22), ("in", 31))):
        ps = [(d, cyc[(i * 3 + mi) % len(cyc)], None, "p%d" % i) for i in range(n)]
        ps.append(("out" if d == "in" else "in", "uint32", None, "q"))
        methods.append(("m%d" % mi, ps))
    methods.append(("m3", [("in", cyc[i % 8], None, "a%d" % i) for i in range(21)] + [("out", cyc[(i + 2) % 8], None, "b%d" % i) for i in range(21)]))
    decls = [("iface", "IL2", None, [("method", n, ps, False, None) for n, ps in methods])]
    fs = {"files": [{"path": "l2.idl", "includes": [], "decls": decls}], "main": "l2.idl", "idirs": []}
    return ctx, fs, methods


def build_and_run(root, tag, ctx, methods, vals, cc="gcc", error_status=0, san=True, only=None):
    src = l2c.generate(ctx, "IL2", methods, vals, error_status, only=only)
    c = os.path.join(root, "l2_%s.c" % tag)
    open(c, "w").write(src)
    exe = os.path.join(root, "l2_%s_%s" % (tag, cc))
    cmd = [cc, "-std=gnu11", "-g", "-O1", "-Wall", "-Wextra", "-Werror", "-Wno-unused-parameter", "-Wno-unused-function",
           "-I" + os.path.join(TESTS, "c"), "-I" + root, c, "-o", exe]
    if san:
        cmd[4:4] = ["-fsanitize=address,undefined", "-fno-sanitize-recover=undefined"]
    rc, o, e = vlib.run(cmd, timeout=300)
    if rc != 0:
        return {"stage": "compile", "rc": rc, "err": e[-1500:]}
    rc, o, e = vlib.run([exe], timeout=120, env=dict(vlib.ENV, ASAN_OPTIONS="detect_leaks=0"))
    return {"stage": "run", "rc": rc, "out": o, "err": e[-1500:]}


def compare(res, ctx, methods, vals, error_status=0, only=None):
    """-> list of mismatches (method, valuation, expected, got)"""
    if res["stage"] != "run":
        return [("*", -1, "program builds", res["err"][-600:])]
    exp = l2c.expected_log(ctx, "IL2", methods, vals, None, None, error_status, only=only)
    got = [l for l in res["out"].split("\n") if l.startswith("impl ") or l.startswith("ret ")]
    bad = []
    gi = 0
    for kind, m, v, e in exp:
        g = got[gi] if gi < len(got) else "<missing>"
        gi += 1
        if e != g:
            bad.append((m, v, e, g))
    if res["rc"] != 0:
        bad.append(("*", -1, "exit 0 and a clean sanitizer run", "exit %s: %s" % (res["rc"], res["err"][-500:])))
    return bad


def near_valid_probe(ctx_, work, vals):
    """structs that the unchanged compiler rejects because their size is not a multiple of their
    alignment (every member offset is aligned).  The property quantifies over what the compiler
    ACCEPTS: when the tree under check accepts them, methods over them must round-trip like any
    other.  -> (status, failures)"""
    rng = vlib.mkrng(0, "near-valid")
    c = gen.Ctx(rng)
    decls = []
    for name, fields, size, al in (("NV1", [("uint64", 1, "a"), ("uint32", 1, "b")], 12, 8),
                                   ("NV2", [("uint32", 1, "a"), ("uint8", 1, "b")], 5, 4),
                                   ("NV3", [("NV2", 3, "t")], 15, 4)):
        c.structs[name] = {"size": size, "align": al, "objs": 0, "fields": fields, "file": c.cur}
        decls.append(("struct", name, fields))
    methods = [("m0", [("in", "NV1", None, "p0"), ("in", "uint32", None, "p1"), ("out", "uint32", None, "p2")]),
               ("m1", [("in", "NV1", None, "p0")]),
               ("m2", [("out", "NV1", None, "p0"), ("out", "uint32", None, "p1")]),
               ("m3", [("in", "NV2", None, "p0"), ("out", "NV2", None, "p1")]),
               ("m4", [("in", "NV3", None, "p0"), ("out", "uint8", None, "p1")]),
               ("m5", [("in", "NV1", "[]", "p0"), ("out", "NV2", "[]", "p1")])]
    decls.append(("iface", "IL2", None, [("method", n, ps, False, None) for n, ps in methods]))
    fs = {"files": [{"path": "l2.idl", "includes": [], "decls": decls}], "main": "l2.idl", "idirs": []}
    root = os.path.join(work, "nearvalid")
    gen.write_fileset(fs, root)
    r1 = scrape.idlc_run(ctx_["idlc"], os.path.join(root, "l2.idl"), os.path.join(root, "l2.h"), "c", False)
    r2 = scrape.idlc_run(ctx_["idlc"], os.path.join(root, "l2.idl"), os.path.join(root, "l2_invoke.h"), "c", True)
    if r1[0] != 0 or r2[0] != 0:
        return "rejected (as the struct rules demand)", []
    fails = []
    text = gen.render_file(fs["files"][0])
    for tag, es, vs in (("nv", 0, vals), ("nverr", 11, vals[:1])):
        r = build_and_run(root, tag, c, methods, vs, "gcc", error_status=es)
        for bad in compare(r, c, methods, vs, es)[:6]:
            fails.append({"property": ctx_["prop"], "idl": text, "compiler": "gcc", "method": bad[0], "valuation": bad[1],
                          "expected": bad[2][:600], "observed": bad[3][:600],
                          "what": "the compiler accepts a struct whose size is not a multiple of its alignment and the round trip through "
                                  "C stub -> copying transport -> C skeleton differs for %s" % bad[0]})
    return "accepted", fails


def near_limit_probe(ctx_, work, vals):
    """methods that need 16 slots of one class only because of the bundle or single small value
    that travels beside 15 discrete buffers: rejected by the unchanged compiler; if the tree under
    check accepts them they must round-trip (the counts word has 4 bits per class)."""
    rng = vlib.mkrng(0, "near-limit")
    c = gen.Ctx(rng)
    m_in = [("in", "buffer", None, "b%d" % i) for i in range(15)] + [("in", "uint32", None, "k"), ("out", "uint32", None, "r")]
    m_in2 = [("in", "uint8", "[]", "b%d" % i) for i in range(15)] + [("in", "uint16", None, "k0"), ("in", "uint32", None, "k1"), ("out", "uint32", None, "r")]
    m_out = [("out", "buffer", None, "b%d" % i) for i in range(15)] + [("out", "uint32", None, "r"), ("in", "uint32", None, "k")]
    status, fails = [], []
    for tag, ps in (("in1", m_in), ("in2", m_in2), ("out1", m_out)):
        methods = [("m0", ps)]
        fs = {"files": [{"path": "l2.idl", "includes": [], "decls": [("iface", "IL2", None, [("method", "m0", ps, False, None)])]}], "main": "l2.idl", "idirs": []}
        root = os.path.join(work, "nearlimit_" + tag)
        gen.write_fileset(fs, root)
        r1 = scrape.idlc_run(ctx_["idlc"], os.path.join(root, "l2.idl"), os.path.join(root, "l2.h"), "c", False)
        r2 = scrape.idlc_run(ctx_["idlc"], os.path.join(root, "l2.idl"), os.path.join(root, "l2_invoke.h"), "c", True)
        if r1[0] != 0 or r2[0] != 0:
            status.append(tag + ": rejected")
            continue
        status.append(tag + ": accepted")
        text = gen.render_file(fs["files"][0])
        r = build_and_run(root, "nl", c, methods, vals[:2], "gcc")
        for bad in compare(r, c, methods, vals[:2])[:4]:
            fails.append({"property": ctx_["prop"], "idl": text, "compiler": "gcc", "method": bad[0], "valuation": bad[1],
                          "expected": bad[2][:600], "observed": bad[3][:600],
                          "what": "the compiler accepts a method that needs 16 buffers of one direction and the round trip through "
                                  "C stub -> copying transport -> C skeleton differs"})
    return "; ".join(status), fails


def run(ctx_):
    prop, tier, seed, work = ctx_["prop"], ctx_["tier"], ctx_["seed"], ctx_["work"]
    nb = 6 if tier == "quick" else 150
    res = {"coverage": {}, "failures": [], "corr_broken": []}
    if not ctx_["harness"] or not ctx_["checks_vo"]:
        res["coverage"] = {"evaluations": 0, "distinct_nontrivial": 0, "rule": "not run", "samples": []}
        return res
    rng = vlib.mkrng(seed, prop)
    batches = [gen_batch(rng, chain=(i % 2 == 1)) for i in range(nb)]
    batches[-1] = wide_batch(rng)
    lines = []
    for b, (c, fs, methods) in enumerate(batches):
        root = os.path.join(work, "b%d" % b)
        gen.write_fileset(fs, root)
        lines.append("%d\tcli\t-\t%s\t" % (b, os.path.join(root, "l2.idl")))
    cf = os.path.join(work, "cases.txt")
    open(cf, "w").write("\n".join(lines) + "\n")
    rc, out, err = vlib.run([ctx_["harness"], "front", cf], timeout=600)
    hres = vlib.parse_harness(out)
    defs = []
    for b in range(nb):
        h = hres.get(str(b))
        if not h or h["result"] != "ok":
            res["corr_broken"].append({"kind": "generator", "detail": "batch %d is rejected by the front end: %s" % (b, (h or {}).get("result"))})
            continue
        defs.append((b, "Definition f_%d : list ast := %s.\n" % (b, h["files"]), 'chk_l2_classes f_%d "IL2"' % b))
    classes, errors = vlib.eval_cases(os.path.join(work, "coq"), "cls", "", defs, shard_size=4)
    for e in errors:
        res["corr_broken"].append({"kind": "case-evaluation", "detail": e})
    vals = [0, 1, 2]

    def do(b):
        c, fs, methods = batches[b]
        root = os.path.join(work, "b%d" % b)
        cl = classes.get(b)
        if cl is None or len(cl) != len(methods):
            return b, None
        # every other batch with --no-typed-objects: the flag changes type names only
        fx = ["--no-typed-objects"] if b % 2 == 1 else []
        r1 = scrape.idlc_run(ctx_["idlc"], os.path.join(root, "l2.idl"), os.path.join(root, "l2.h"), "c", False, extra=fx)
        r2 = scrape.idlc_run(ctx_["idlc"], os.path.join(root, "l2.idl"), os.path.join(root, "l2_invoke.h"), "c", True, extra=fx)
        if r1[0] != 0 or r2[0] != 0:
            return b, {"emit_failed": (r1[0], r2[0], r1[2][-200:])}
        clean = [m[0] for m, k in zip(methods, cl) if k == 0]
        out = {"clean": len(clean), "known": {}, "bad": [], "classes": cl}
        if clean:
            for cc in (("gcc",) if tier == "quick" else ("gcc", "clang")):
                r = build_and_run(root, "clean", c, methods, vals, cc, only=clean)
                out["bad"] += [(cc,) + x for x in compare(r, c, methods, vals, only=clean)]
            r = build_and_run(root, "err", c, methods, vals[:1], "gcc", error_status=11, only=clean)
            out["bad"] += [("gcc-error-status",) + x for x in compare(r, c, methods, vals[:1], 11, only=clean)]
        for code, cls in KNOWN.items():
            grp = [m[0] for m, k in zip(methods, cl) if k == code]
            if grp:
                r = build_and_run(root, "k%d" % code, c, methods, vals[:2], "gcc", only=grp)
                out["known"][cls] = (len(grp), len(compare(r, c, methods, vals[:2], only=grp)))
        return b, out

    with ThreadPoolExecutor(max_workers=vlib.NCPU) as ex:
        results = dict(ex.map(do, range(nb)))
    ncalls, distinct, khist = 0, 0, {}
    for b, out in results.items():
        c, fs, methods = batches[b]
        text = gen.render_file(fs["files"][0])
        if out is None:
            continue
        if "emit_failed" in out:
            res["corr_broken"].append({"kind": "correspondence", "detail": "idlc rejects batch %d although the front-end model accepts: %s" % (b, out["emit_failed"],)})
            continue
        ncalls += out["clean"] * (len(vals) + 1)
        distinct += out["clean"]
        for bad in out["bad"][:8]:
            res["failures"].append({"property": prop, "idl": text, "compiler": bad[0], "method": bad[1], "valuation": bad[2],
                                    "expected": bad[3][:600], "observed": bad[4][:600],
                                    "what": "round trip through C stub -> copying transport -> C skeleton differs for %s" % bad[1]})
        for cls, (n, nbad) in out["known"].items():
            khist.setdefault(cls, [0, 0])
            khist[cls][0] += n
            khist[cls][1] += 1 if nbad else 0
            if nbad:
                res["failures"].append({"property": prop, "known_class": cls, "idl": text,
                                        "what": "methods of class %s do not round-trip (%d log lines differ or the sanitizer aborts)" % (cls, nbad)})
    # every stub/skeleton pairing over DATA parameters (the batches above run C stub -> C skeleton through
    # a copying transport; objects run through all nine pairings under C05): the nine-pairing program
    # with generated interfaces over primitives of all widths, buffers, arrays, small / 16-byte / 17-byte /
    # big structs and struct arrays - what every implementation receives and every caller gets back must
    # be the same lines in all nine pairings (and c -> c is what the batches above compare with the model)
    import l2data
    ndata = 2 if tier == "quick" else 30
    drng = vlib.mkrng(seed, prop + "-data")
    dmethods = []
    for i in range(ndata):
        ms_ = l2data.gen_methods(drng, 9)
        dmethods.append((ms_, i % 2 == 1, l2data.mark_optional(drng, ms_)))

    def dd(i):
        ms, ch, op = dmethods[i]
        return i, l2data.build_and_run(ctx_["idlc"], os.path.join(work, "data%d" % i), ms, chain=ch, opt=op)
    with ThreadPoolExecutor(max_workers=4) as ex:
        dres = dict(ex.map(dd, range(ndata)))
    data_lines = 0
    for i, r in sorted(dres.items()):
        ms, ch, op = dmethods[i]
        idl = l2data.render_idl(ms, ch, op)
        if r.get("stage") != "run" or r.get("rc") != 0:
            f_ = {"property": prop, "idl": idl, "what": "the nine-pairing data program does not build or aborts (%s): %s" % (r.get("stage"), (r.get("err") or "")[-700:])}
            if re.search(r"misaligned address 0x[0-9a-f]+ for type 'struct b[io]'", r.get("err") or ""):
                f_["known_class"] = "K_bundle_alignment"
            res["failures"].append(f_)
            continue
        data_lines += r["out"].count("\nimpl ")
        for pairing, line, refline in l2data.compare(r["out"])[:6]:
            res["failures"].append({"property": prop, "idl": idl, "pairing (caller implementation)": pairing, "observed": line[:900], "expected (pairing c c)": refline[:900],
                                    "what": "pairing %s: values, lengths or status differ from the C stub -> C skeleton pairing" % pairing})
    nv_status, nv_fails = near_valid_probe(ctx_, work, vals)
    res["failures"] += nv_fails
    nl_status, nl_fails = near_limit_probe(ctx_, work, vals)
    res["failures"] += nl_fails
    # objects, object arrays and objects embedded in (nested) structs: identity of what arrives, all nine pairings
    import p_refcount
    if not ctx_.get("replay"):
        oid_n, oid_fails = p_refcount.object_identity_probe(ctx_, work, vlib.mkrng(seed, prop + "-objects"))
        res["failures"] += oid_fails
    else:
        oid_n = 0
    res["coverage"] = {
        "near_valid_structs": nv_status, "near_limit_methods": nl_status,
        "data_nine_pairings": {"interfaces": ndata, "implementation_entries": data_lines, "pairings": "C, C++, Rust stubs x C, C++, Rust skeletons"},
        "object_identity_calls": oid_n,
        "evaluations": ncalls, "distinct_nontrivial": distinct,
        "rule": "%d generated interfaces of 12 methods (0-8 parameters over primitives, buffers, primitive and struct arrays, small and big object-free "
                "structs, objects, object arrays); every method outside the known classes is called with 3 valuations (boundary lengths 0/1/3/5, "
                "capacities 0/1/4/6, NULL and shared handles) plus one error-status run through C stub -> copying transport -> C skeleton, "
                "gcc -Wall -Wextra -Werror with ASan+UBSan; non-trivial = a method outside the known classes" % nb,
        "samples": [{"idl": gen.render_file(batches[0][1]["files"][0])[:800], "classes": (results.get(0) or {}).get("classes")}],
        "known_class_methods_and_failing_groups": khist, "pairings": ["C stub -> copying transport -> C skeleton (model-checked)", "all nine stub x skeleton pairings, direct (data: here; objects: C05)"],
    }
    res["trusted_extra"] = ["lib/l2c.py: generator of the logging implementation, the callers and the copying transport (C); gcc/clang with ASan/UBSan"]
    return res
