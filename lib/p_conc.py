"""C20 (generated Rust objects under concurrency): the theorems are about the step relation
instantiated with ConcFacts (regenerated from wrapper.rs and the skeleton emitter every run).
Tie: (1) every generated skeleton arm of the run has the order counts check -> argument reads
-> lock -> call inside the guard's closure -> output writes; (2) stress runs of a generated
object (many threads cloning / invoking / dropping) with an overlap detector, stale-read
detector, lost-update check and drop accounting."""
import json, os, re
from concurrent.futures import ThreadPoolExecutor
import gen, scrape, vlib

TESTS = os.path.join(vlib.REPO, "tests")
RT = os.path.join(vlib.VERIF, "rt", "rust")


def arm_facts(text):
    """per match arm of the generated invoke: dict of booleans"""
    m = re.search(r"unsafe extern \"C\" fn invoke\((.*?)\n\}\n", text, re.S)
    out = []
    if not m:
        return out
    parts = re.split(r"\n        (\d+) => \{", m.group(1))
    for k in range(1, len(parts), 2):
        body = parts[k + 1].split("\n        crate::object::OP_RELEASE")[0]
        p_counts = body.find("if counts != crate::object::pack_counts")
        p_lock = body.find(".lock()")
        call = re.search(r"\.and_then\(\|mut cx\|\s*\{?\s*cx\s*\.\s*(?:r#)?\w+\(", body)
        p_call = call.start() if call else -1
        p_ok = body.find("Ok((")
        reads = [mm.start() for mm in re.finditer(r"args\[\d+\]\.(?:bi|b|o)", body)]
        reads_before_lock = [r for r in reads if r < p_lock]
        writes_after_call = [r for r in reads if r > p_call]
        out.append({"op": int(parts[k]),
                    "counts_first": p_counts >= 0 and (not reads or p_counts < min(reads)),
                    "lock_before_call": 0 <= p_lock < p_call,
                    "call_inside_guard_closure": call is not None and body.count(".lock()") == 1,
                    "outputs_after_call": p_ok > p_call >= 0,
                    "single_lock": body.count(".lock()") == 1})
    return out


def run(ctx):
    prop, tier, seed, work = ctx["prop"], ctx["tier"], ctx["seed"], ctx["work"]
    res = {"coverage": {}, "failures": [], "corr_broken": []}
    n = 40 if tier == "quick" else 400
    rng = vlib.mkrng(seed, prop)
    arms_total, bad_arms = 0, []
    for k in range(n):
        fs, _ = gen.gen_fileset(rng, nfiles=1)
        root = os.path.join(work, "cases", str(k))
        mainp = gen.write_fileset(fs, root)
        od = os.path.join(root, "rs")
        os.makedirs(od, exist_ok=True)
        r = scrape.idlc_run(ctx["idlc"], mainp, od, "rust")
        if r[0] != 0:
            continue
        for fn in sorted(os.listdir(od)):
            for a in arm_facts(scrape.rd(os.path.join(od, fn))):
                arms_total += 1
                if not all(v for kk, v in a.items() if kk != "op"):
                    bad_arms.append({"file": fn, "arm": a, "idl": gen.render_file(fs["files"][0])})
    for b in bad_arms[:5]:
        res["failures"].append({"property": prop, "what": "a generated skeleton arm does not have the order counts check -> reads -> lock -> call in the guard's closure -> writes: %s" % b["arm"], "case": b})
    # stress runs
    sd = os.path.join(work, "stress")
    os.makedirs(sd, exist_ok=True)
    r = scrape.idlc_run(ctx["idlc"], os.path.join(RT, "counter.idl"), sd, "rust")
    src = open(os.path.join(RT, "stress.rs")).read().replace("@TESTS@", TESTS).replace("@OUT@", sd)
    open(os.path.join(sd, "stress.rs"), "w").write(src)
    rc, o, e = vlib.run(["rustc", "--edition", "2021", "--cfg", 'feature="std"', "-O", "-o", os.path.join(sd, "stress"), os.path.join(sd, "stress.rs")], timeout=600)
    runs = []
    if rc != 0:
        res["corr_broken"].append({"kind": "harness", "detail": "the stress harness does not build against the generated object: " + e[-600:]})
    else:
        configs = [(2, 4000), (8, 3000), (16, 1500)] * (1 if tier == "quick" else 20)

        configs += [("race", 12000)] * (2 if tier == "quick" else 20)

        def one(cfg):
            rc2, o2, e2 = vlib.run([os.path.join(sd, "stress"), str(cfg[0]), str(cfg[1])], timeout=600)
            return {"threads": cfg[0], "iters": cfg[1], "rc": rc2, "line": o2.strip(), "err": e2[-200:]}
        with ThreadPoolExecutor(max_workers=4) as ex:
            runs = list(ex.map(one, configs))
        for rr in runs:
            if rr["rc"] != 0:
                res["failures"].append({"property": prop, "what": "stress run violates serialisation / refcount accounting: %s %s" % (rr["line"], rr["err"]), "run": rr})
    # the same racing final releases under Miri (nightly toolchain, offline): its data-race detector
    # sees an unsynchronised free that no x86 run can exhibit (a Release-only decrement, a Relaxed one)
    miri = {"runs": 0, "note": ""}
    md = os.path.join(work, "miri")
    os.makedirs(os.path.join(md, "src"), exist_ok=True)
    open(os.path.join(md, "Cargo.toml"), "w").write('[package]\nname = "miri_c20"\nversion = "0.1.0"\nedition = "2021"\n[features]\ndefault = ["std"]\nstd = []\n[workspace]\n')
    open(os.path.join(md, "src", "main.rs"), "w").write(src)
    for ms in range(2 if tier == "quick" else 12):
        rc3, o3, e3 = vlib.run(["cargo", "+nightly", "miri", "run", "--offline", "--", "race", "5"], cwd=md, timeout=900,
                               env=dict(vlib.ENV, MIRIFLAGS="-Zmiri-seed=%d" % ms, CARGO_TARGET_DIR=os.path.join(md, "target")))
        txt = (o3 or "") + (e3 or "")
        if "Undefined Behavior" in txt:
            ub = [l for l in txt.split("\n") if "Undefined Behavior" in l][0]
            res["failures"].append({"property": prop, "miri_seed": ms, "what": "Miri: %s (rounds of 2-4 threads releasing their last handles at the same instant)" % ub.strip()[:400],
                                    "how": "cargo +nightly miri run -- race 5 on rt/rust/stress.rs against the generated ICounter and tests/src/object"})
            miri["runs"] += 1
            break
        if rc3 == 0 and "race rounds=" in txt:
            miri["runs"] += 1
        else:
            miri["note"] = "miri not usable here: " + txt[-200:]
            break
    invocations = sum(int(re.search(r"bumps=(\d+)", rr["line"]).group(1)) for rr in runs if "bumps=" in rr["line"])
    res["coverage"] = {
        "evaluations": arms_total + len(runs), "distinct_nontrivial": arms_total,
        "rule": "every match arm of every Rust skeleton generated for %d random interfaces (structure facts), plus stress runs of one generated "
                "object with 2/8/16 threads performing random clone / drop / invoke sequences and rounds of 2-4 threads releasing their last handles at the same instant; non-trivial = an arm with a method call" % n,
        "samples": [rr for rr in runs[:3]], "skeleton_arms_checked": arms_total, "stress_runs": len(runs), "stress_invocations": invocations,
        "conc_facts": ctx.get("conc_facts"), "miri": miri,
    }
    res["trusted_extra"] = ["sequentially consistent interleaving semantics for AtomicUsize and Mutex (weak-memory behaviour of Relaxed/SeqCst not modelled)"]
    return res
