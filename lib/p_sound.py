"""C09 (validation is sound): single-violation mutants of valid file sets through the command
line driver (real binary), the pass pipeline (harness, both entry orders) and the real library
entry point; the front-end model must agree, and an accepted mutant is a violation unless the
model predicts the leak and it belongs to a listed known class."""
import hashlib, json, os, re
from concurrent.futures import ThreadPoolExecutor
import gen, mutate, scrape, vlib

IFACE_VERIFIER_RULES = {"objarr_unbounded", "objarr_with_single", "objarr_two", "objarr_objstruct_array_small",
                        "objarr_objstruct_array_big", "objarr_bounded_data", "dup_method", "dup_const"}
CONE_RULES = {"dup_field", "misaligned_member", "misaligned_size", "undefined_field_type", "undefined_param_type",
              "undefined_base", "dup_method", "dup_const", "struct_cycle", "inherit_cycle"} | IFACE_VERIFIER_RULES


def known_class(info, entry):
    r = info["rule"]
    # (a constant named like a type is a duplicate symbol since its repair: no class of its own)
    if r == "dup_param" and info["where"] == "inc":
        return "K_main_file_only"
    if r in CONE_RULES and info.get("in_cone") is False:
        return "K_main_file_only"
    # (the library entry point runs the interface verifier since its repair: no class of its own)
    # (a second object array of one direction and an input array of a small object-bearing struct
    # are rejected since their repairs: no classes of their own)
    return None


def directed():
    """violations that need a particular file layout"""
    M = lambda n, ps=(): ("method", n, list(ps), False, None)
    out = []
    # two files of the same NAME in different directories declare the same interface / struct /
    # constant differently, both reached (one through a directory-qualified include)
    base = [("error", "NOT_FOUND"), ("error", "BUSY"), M("ping")]
    variants = {
        "iface": ([("iface", "IBase", None, base)], [("iface", "IBase", None, [base[0], ("error", "DENIED"), base[1], base[2]])]),
        "iface_same_errors_other_methods": ([("iface", "IBase", None, base)], [("iface", "IBase", None, base + [M("extra", [("in", "uint32", None, "x")])])]),
        "struct": ([("struct", "Rec", [("uint32", 1, "a")]), ("iface", "IBase", None, base)], [("struct", "Rec", [("uint64", 1, "a")])]),
        "const": ([("const", "uint32", "LIMIT", "1"), ("iface", "IBase", None, base)], [("const", "uint32", "LIMIT", "2")]),
    }
    for tag, (common, vendor) in variants.items():
        for order in (["common/IBase.idl", "mid.idl"], ["mid.idl", "common/IBase.idl"]):
            fs = {"files": [{"path": "main.idl", "includes": order, "decls": [("iface", "IApp", "IBase", [("error", "APP_FAIL"), M("run")])]},
                            {"path": "mid.idl", "includes": ["vendor/IBase.idl"], "decls": [("const", "uint32", "MID", "3")]},
                            {"path": "common/IBase.idl", "includes": [], "decls": common},
                            {"path": "vendor/IBase.idl", "includes": [], "decls": vendor}], "main": "main.idl", "idirs": []}
            out.append((fs, {"rule": "dup_toplevel_type" if tag != "const" else "dup_toplevel_const", "where": "inc", "directed": "same_named_files_" + tag}))
    # misalignment that comes from a member which is itself a (valid) struct or an array
    inner3 = ("struct", "ZIn3", [("uint32", 1, "a"), ("uint32", 1, "b"), ("uint32", 1, "c")])
    inner6 = ("struct", "ZIn6", [("uint16", 1, "a"), ("uint16", 1, "b"), ("uint16", 1, "c")])
    mid = ("struct", "ZMid", [("uint64", 1, "q"), ("ZIn3", 1, "i"), ("uint32", 1, "pad")])
    user = lambda t: ("iface", "IUse", None, [M("f", [("in", t, None, "v")])])
    for rule, decls in (("misaligned_size", [inner3, ("struct", "ZMis0", [("uint64", 1, "x"), ("ZIn3", 1, "i")])]),
                        ("misaligned_member", [inner3, mid, ("struct", "ZMis0", [("uint32", 1, "k"), ("ZMid", 1, "m"), ("uint32", 1, "t")])]),
                        ("misaligned_member", [("struct", "ZMis0", [("uint8", 3, "a"), ("uint32", 1, "b")])]),
                        ("misaligned_member", [inner6, ("struct", "ZMis0", [("ZIn6", 1, "i"), ("uint32", 1, "x"), ("uint16", 1, "y")])]),
                        ("misaligned_member", [inner3, ("struct", "ZMis0", [("ZIn3", 3, "i"), ("float64", 1, "x"), ("ZIn3", 1, "j")])]),
                        ("misaligned_size", [inner3, ("struct", "ZMis0", [("float64", 1, "x"), ("ZIn3", 1, "i"), ("ZIn3", 2, "j")])])):
        for with_user in (True, False):
            fs = {"files": [{"path": "main.idl", "includes": [], "decls": decls + ([user("ZMis0")] if with_user else [])}], "main": "main.idl", "idirs": []}
            out.append((fs, {"rule": rule, "where": "main", "in_cone": True, "struct": "ZMis0", "depth": 0, "directed": "nested_misalignment"}))
    return out


def run(ctx):
    prop, tier, seed, work = ctx["prop"], ctx["tier"], ctx["seed"], ctx["work"]
    n = 260 if tier == "quick" else 6000
    muts = []
    if ctx.get("replay"):
        rp = json.load(open(ctx["replay"]))
        muts.append((rp["fileset"], rp["info"]))
    else:
        rng = vlib.mkrng(seed, prop)
        muts += directed()
        k = 0
        while len(muts) < n:
            base, _ = gen.gen_fileset(rng, nfiles=rng.choice([1, 2, 2, 3]))
            name, op = mutate.OPERATORS[k % len(mutate.OPERATORS)]
            k += 1
            r = op(rng, base)
            if r is None:
                continue
            muts.append(r)
    res = {"coverage": {}, "failures": [], "corr_broken": []}
    if not ctx["harness"] or not ctx["checks_vo"]:
        res["coverage"] = {"evaluations": 0, "distinct_nontrivial": 0, "rule": "not run", "samples": []}
        return res
    lines = []
    for k, (fs, info) in enumerate(muts):
        root = os.path.join(work, "cases", str(k))
        mainp = gen.write_fileset(fs, root)
        lines.append("%dc\tcli\t-\t%s\t" % (k, mainp))
        lines.append("%dl\tlib\t-\t%s\t%s" % (k, mainp, root))
        lines.append("%dg\tlibgen\t-\t%s\t%s" % (k, mainp, root))
        # the library entry point with the input named by a relative or otherwise non-canonical path
        # (a build script usually does): same verdict as with the canonical one
        rel = os.path.relpath(mainp, os.getcwd())
        spell = [rel, "./" + rel, os.path.join(os.path.dirname(rel), "..", os.path.basename(os.path.dirname(rel)), os.path.basename(rel))][k % 3]
        lines.append("%dr\tlibgen\t-\t%s\t%s" % (k, spell, root))
        if len(fs["files"]) == 1:
            # a build script may pass no include directory at all when the file includes nothing
            lines.append("%dh\tlibgen\t-\t%s\t" % (k, mainp))
    cf = os.path.join(work, "cases.txt")
    open(cf, "w").write("\n".join(lines) + "\n")
    rc, out, err = vlib.run([ctx["harness"], "front", cf], timeout=1800)
    hres = vlib.parse_harness(out)
    if rc != 0:
        res["corr_broken"].append({"kind": "harness", "detail": "harness exited %s: %s" % (rc, err[-500:])})

    def binrun(k):
        fs = muts[k][0]
        root = os.path.join(work, "cases", str(k))
        o = os.path.join(root, "out.h")
        r = scrape.idlc_run(ctx["idlc"], os.path.join(root, fs["main"]), o, "c", False)
        return k, (r[0], os.path.exists(o), r[2][-200:])

    with ThreadPoolExecutor(max_workers=vlib.NCPU) as ex:
        bins = dict(ex.map(binrun, range(len(muts))))
    defs = []
    for k, (fs, info) in enumerate(muts):
        hc, hl = hres.get("%dc" % k), hres.get("%dl" % k)
        if not hc or not hl or "files" not in hc:
            continue
        def impl(h):
            return "SL [SA 1; %s]" % h["mir"] if h["result"] == "ok" else "SL [SA 0; SA %s]" % h["result"].split()[1]
        d = "Definition f_%d : list ast := %s.\nDefinition oc_%d : sx := %s.\n" % (k, hc["files"], k, impl(hc))
        if "files" in hl:
            d += "Definition ol_%d : sx := %s.\n" % (k, impl(hl))
            defs.append((k, d, "(chk_front Cli f_%d oc_%d ++ chk_front Lib f_%d ol_%d)%%list" % (k, k, k, k)))
        else:
            defs.append((k, d, "chk_front Cli f_%d oc_%d" % (k, k)))
    results, errors = vlib.eval_cases(os.path.join(work, "coq"), "cases", "", defs, shard_size=40)
    for e in errors:
        res["corr_broken"].append({"kind": "case-evaluation", "detail": e})
    rule_hist, known_hist, seen, distinct = {}, {}, set(), 0
    accepted_total = 0
    for k, (fs, info) in enumerate(muts):
        hc, hl, hg = hres.get("%dc" % k), hres.get("%dl" % k), hres.get("%dg" % k)
        hnoinc = hres.get("%dh" % k)
        hrel = hres.get("%dr" % k)
        if not hc:
            continue
        rule_hist[info["rule"]] = rule_hist.get(info["rule"], 0) + 1
        text = {f["path"]: f.get("text") or gen.render_file(f) for f in fs["files"]}
        payload = {"property": prop, "fileset": fs, "info": info, "text": text,
                   "results": {"pipeline_cli": hc.get("result"), "pipeline_lib": (hl or {}).get("result"),
                               "library_entry": (hg or {}).get("result"), "binary": bins.get(k)}}
        hh = hashlib.sha256((info["rule"] + info.get("where", "") + re.sub(r"\d+", "#", "".join(text.values()))).encode()).hexdigest()
        if hh not in seen:
            seen.add(hh); distinct += 1
        fl = results.get(k)
        if fl is not None and (fl[0] == 0 or (len(fl) > 2 and fl[2] == 0)):
            res["corr_broken"].append({"kind": "correspondence", "detail": "front model vs pipeline disagree on mutant %d (%s), flags %s" % (k, info["rule"], fl), "case": payload})
        # the driver and the library entry point must match the pipelines the harness replays
        b = bins.get(k)
        # (the backend may still reject what the front end accepted; the converse is a broken tie)
        if b is not None and b[0] == 0 and hc["result"] != "ok":
            res["corr_broken"].append({"kind": "correspondence", "detail": "idlc exit status %s disagrees with the replayed command-line pipeline on mutant %d (%s)" % (b[0], k, info["rule"]), "case": payload})
        if hg and hl and hg["result"].startswith("ok") and hl["result"] != "ok":
            res["corr_broken"].append({"kind": "correspondence", "detail": "idlc::Language::generate disagrees with the replayed library pipeline on mutant %d (%s)" % (k, info["rule"]), "case": payload})
        for entry, acc in (("cli", b is not None and b[0] == 0), ("libgen", bool(hg) and hg["result"].startswith("ok")),
                           ("libgen-no-include-dirs", bool(hnoinc) and hnoinc["result"].startswith("ok")),
                           ("libgen-relative-path", bool(hrel) and hrel["result"].startswith("ok"))):
            if not acc:
                continue
            accepted_total += 1
            cls = known_class(info, entry)
            # a known class only suppresses what the model itself predicts to leak
            model_accepts = fl is not None and fl[0] == 1 if entry == "cli" else fl is not None and len(fl) > 2 and fl[2] == 1
            if entry == "cli" and b[1] is False:
                pass
            if cls and model_accepts:
                known_hist[cls] = known_hist.get(cls, 0) + 1
                res["failures"].append(dict(payload, known_class=cls, entry=entry, what="a violating file set is accepted (%s, rule %s)" % (entry, info["rule"])))
            else:
                res["failures"].append(dict(payload, entry=entry, what="a file set violating rule '%s' is accepted by the %s entry point" % (info["rule"], entry)))
        if b is not None and b[0] != 0 and b[1]:
            res["failures"].append(dict(payload, what="rejected input left an output file behind"))
    sample = [{"rule": muts[k][1], "idl": {f["path"]: f.get("text") or gen.render_file(f) for f in muts[k][0]["files"]},
               "binary": bins.get(k)} for k in range(min(2, len(muts)))]
    res["coverage"] = {
        "evaluations": len(muts), "distinct_nontrivial": distinct,
        "rule": "single-violation mutants of generated valid file sets (1-3 files), %d operators cycled; each mutant goes through the real "
                "binary, the replayed CLI and library pipelines and idlc::Language::generate; distinct = different (rule, location, shape)" % len(mutate.OPERATORS),
        "samples": sample, "mutants_per_rule": rule_hist, "accepted_runs": accepted_total, "known_class_hits": known_hist,
        "model_evaluated": len(results),
    }
    return res
