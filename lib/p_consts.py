"""C17 (constants): exhaustive boundary neighbourhoods of every integer type in every literal
form through the real parser (L0), model and Spec evaluated in Coq; compiled probe programs in
C, C++, Rust and Java print the value of every emitted constant, compared with the Coq-evaluated
mathematical value."""
import json, os, re, struct
from concurrent.futures import ThreadPoolExecutor
import gen, scrape, vlib

TESTS = os.path.join(vlib.REPO, "tests")
INTS = {"uint8": (0, 2**8 - 1), "uint16": (0, 2**16 - 1), "uint32": (0, 2**32 - 1), "uint64": (0, 2**64 - 1),
        "int8": (-2**7, 2**7 - 1), "int16": (-2**15, 2**15 - 1), "int32": (-2**31, 2**31 - 1), "int64": (-2**63, 2**63 - 1)}
COQP = {"uint8": "U8", "uint16": "U16", "uint32": "U32", "uint64": "U64", "int8": "I8", "int16": "I16",
        "int32": "I32", "int64": "I64", "float32": "F32", "float64": "F64"}
CTY = {"uint8": "uint8_t", "uint16": "uint16_t", "uint32": "uint32_t", "uint64": "uint64_t", "int8": "int8_t",
       "int16": "int16_t", "int32": "int32_t", "int64": "int64_t", "float32": "float", "float64": "double"}
RTY = {"uint8": "u8", "uint16": "u16", "uint32": "u32", "uint64": "u64", "int8": "i8", "int16": "i16",
       "int32": "i32", "int64": "i64", "float32": "f32", "float64": "f64"}


def forms(v):
    out = [str(v)]
    if v >= 0:
        out += ["0x%x" % v, "0x%X" % v]
    else:
        out += ["-0x%x" % -v]
    return out


def literal_set(rng, tier):
    lits = []
    for t, (lo, hi) in INTS.items():
        vals = set()
        for c in (lo, hi, 0):
            for d in range(-3, 4):
                vals.add(c + d)
        for k in (7, 8, 15, 16, 31, 32, 63, 64):
            for d in (-1, 0, 1):
                vals.add(2**k + d); vals.add(-(2**k) + d)
        for v in sorted(vals):
            for f in forms(v):
                lits.append((t, f))
        lits += [(t, "-0"), (t, "00017"), (t, "017"), (t, "0089"), (t, "1.5"), (t, "-1.0"), (t, "0.0"),
                 (t, "0x0"), (t, "-0x0"), (t, "000"), (t, "0x00ff"), (t, "99999999999999999999999999")]
        for _ in range(6 if tier == "quick" else 60):
            lits.append((t, rng.choice(forms(rng.randint(lo - 5, hi + 5)))))
    for t in ("float32", "float64"):
        lits += [(t, x) for x in ("0", "1", "1.5", "-2.25", "3", "100.125", "-0.5", "16777217", "0.1", "123456789.123456789",
                                  "340282346638528859811704183484516925440", "340282356779733661637539395458142568448",
                                  "9" * 40, "9" * 310, "-" + "9" * 40, "0x10", "0x1e5", "-0x1", "007", "1.0",
                                  "9223372036854775807", "9223372036854775808", "-9223372036854775808", "-9223372036854775809",
                                  "18446744073709551615", "18446744073709551616", "-100000000000000000000", "602214076000000000000000",
                                  "4294967296", "-2147483649", "-0", "-0.0")]
    return lits


def java_fits(t, v):
    if t in ("uint8", "int8"):
        return -128 <= v <= 127
    if t in ("uint16", "int16"):
        return 0 <= v <= 65535
    return -2**31 <= v <= 2**31 - 1


def leading_zero(lit):
    body = lit.lstrip("-")
    return not body.startswith("0x") and len(body.split(".")[0]) > 1 and body.startswith("0")


def run(ctx):
    prop, tier, seed, work = ctx["prop"], ctx["tier"], ctx["seed"], ctx["work"]
    res = {"coverage": {}, "failures": [], "corr_broken": []}
    if not ctx["harness"] or not ctx["checks_vo"]:
        res["coverage"] = {"evaluations": 0, "distinct_nontrivial": 0, "rule": "not run", "samples": []}
        return res
    rng = vlib.mkrng(seed, prop)
    lits = literal_set(rng, tier)
    lf = os.path.join(work, "lits.txt")
    open(lf, "w").write("".join("%s\t%s\n" % x for x in lits))
    rc, out, err = vlib.run([ctx["harness"], "consts", lf], timeout=300)
    verdicts = [l.startswith("ok") for l in out.strip().split("\n")]
    if len(verdicts) != len(lits):
        res["corr_broken"].append({"kind": "harness", "detail": "consts: %d answers for %d literals" % (len(verdicts), len(lits))})
        verdicts += [False] * (len(lits) - len(verdicts))
    # the same literals declared inside an interface and inside a derived interface: the range check
    # must not depend on where the constant is declared
    for scope in ("--iface", "--derived"):
        rc2, out2, err2 = vlib.run([ctx["harness"], "consts", lf, scope], timeout=300)
        v2 = [l.startswith("ok") for l in out2.strip().split("\n")]
        if len(v2) != len(lits):
            res["corr_broken"].append({"kind": "harness", "detail": "consts %s: %d answers for %d literals" % (scope, len(v2), len(lits))})
            continue
        for (t, l), a, b in zip(lits, verdicts, v2):
            if a != b:
                res["failures"].append({"property": prop, "type": t, "literal": l, "scope": scope[2:],
                                        "what": "constant %s %s is %s at file level but %s when declared in an interface (%s)" % (
                                            t, l, "accepted" if a else "rejected", "accepted" if b else "rejected", scope[2:])})
    # the same literals declared in a file that is only reached through include (directly and through
    # a second include), inherited by an interface of the compiled file: the whole command-line
    # front end must give the verdict the literal gets at file level
    incd = os.path.join(work, "inc")
    lines = []
    for i, (t, l) in enumerate(lits):
        d = os.path.join(incd, "%d" % i)
        os.makedirs(d, exist_ok=True)
        open(os.path.join(d, "base.idl"), "w").write("const %s ZT = %s;\ninterface IB {\n  const %s ZC = %s;\n  method f();\n};\n" % (t, l, t, l))
        if i % 3 == 0:
            open(os.path.join(d, "mid.idl"), "w").write('include "base.idl"\ninterface IM : IB {\n  method h();\n};\n')
            open(os.path.join(d, "main.idl"), "w").write('include "mid.idl"\ninterface IK : IM {\n  method g();\n};\n')
        else:
            open(os.path.join(d, "main.idl"), "w").write('include "base.idl"\ninterface IK : IB {\n  method g();\n};\n')
        lines.append("%d\tcli\t-\t%s\t\n" % (i, os.path.join(d, "main.idl")))
    cf = os.path.join(work, "inc_cases.txt")
    open(cf, "w").write("".join(lines))
    rc3, out3, err3 = vlib.run([ctx["harness"], "front", cf], timeout=600)
    v3 = {}
    cur = None
    for ln in out3.split("\n"):
        if ln.startswith("@case "):
            cur = int(ln.split()[1])
        elif ln.startswith("@result ") and cur is not None:
            v3[cur] = ln.split()[1] == "ok"
    if len(v3) != len(lits):
        res["corr_broken"].append({"kind": "harness", "detail": "front on included constants: %d answers for %d literals" % (len(v3), len(lits))})
    else:
        for i, ((t, l), a) in enumerate(zip(lits, verdicts)):
            if a != v3[i]:
                res["failures"].append({"property": prop, "type": t, "literal": l, "scope": "included",
                                        "files": {n: open(os.path.join(incd, "%d" % i, n)).read() for n in sorted(os.listdir(os.path.join(incd, "%d" % i)))},
                                        "what": "constant %s %s is %s at file level but %s when it is declared in an included file whose interface the compiled file inherits" % (
                                            t, l, "accepted" if a else "rejected", "accepted" if v3[i] else "rejected")})
    # ---- L0: model / Spec vs implementation, evaluated in Coq
    defs = []
    B = 150
    for k in range(0, len(lits), B):
        chunk = list(zip(lits[k:k + B], verdicts[k:k + B]))
        items = "; ".join('(%s, "%s", %s)' % (COQP[t], l, "true" if a else "false") for (t, l), a in chunk)
        defs.append((k, "Definition cs_%d : list (prim * string * bool) := [%s].\n" % (k, items), "chk_c17 cs_%d" % k))
    results, errors = vlib.eval_cases(os.path.join(work, "coq"), "lits", "From MinkV Require Import Consts.\n", defs, shard_size=4)
    for e in errors:
        res["corr_broken"].append({"kind": "case-evaluation", "detail": e})
    codes = []
    for k in range(0, len(lits), B):
        codes += results.get(k, [1] * len(lits[k:k + B]))
    hist = {}
    for (t, l), a, c in zip(lits, verdicts, codes):
        hist[c] = hist.get(c, 0) + 1
        payload = {"property": prop, "type": t, "literal": l, "implementation_accepts": a}
        if c == 4:
            res["failures"].append(dict(payload, what="constant %s %s is %s although its value is %s the range of its type (the model of the unchanged range check disagrees as well)" % (
                t, l, "accepted" if a else "rejected", "outside" if a else "inside")))
        if c in (1, 4):
            res["corr_broken"].append({"kind": "correspondence", "detail": "range-check model vs Primitive::new disagree on %s %s (impl accepts: %s)" % (t, l, a), "case": payload})
        elif c == 2:
            res["failures"].append(dict(payload, what="constant %s %s is %s although its value is %s the range of its type" % (t, l, "accepted" if a else "rejected", "outside" if a else "inside")))
        elif c == 3 and a:
            res["failures"].append(dict(payload, known_class="K_hex_float", what="a hexadecimal literal is accepted for a floating-point constant and emitted verbatim"))
    # ---- compiled probes of the accepted integer constants
    acc = [(t, l) for (t, l), a in zip(lits, verdicts) if a and t in INTS]
    acc = list(dict.fromkeys(acc))
    flo = [(t, l) for (t, l), a in zip(lits, verdicts) if a and t.startswith("float") and not l.lstrip("-").startswith("0x")]
    groups = {"good": [], "leading_zero": [], "java_only_bad": [], "c_signed_min": []}
    for t, l in acc:
        v = int(l, 16) if "0x" in l else int(l)
        if (t == "int64" and v == -2**63) or (t == "int32" and v == -2**31 and "0x" in l):
            groups["c_signed_min"].append((t, l, v))
        elif leading_zero(l):
            groups["leading_zero"].append((t, l, v))
        elif not java_fits(t, v):
            groups["java_only_bad"].append((t, l, v))
        else:
            groups["good"].append((t, l, v))
    probes = {}
    emitted_rc = {}
    ub_diffs = {}
    pd = os.path.join(work, "probe")
    os.makedirs(pd, exist_ok=True)

    def build(tag, consts, langs):
        d = os.path.join(pd, tag)
        os.makedirs(d, exist_ok=True)
        idl = "".join("const %s K%d = %s;\n" % (t, i, l) for i, (t, l, v) in enumerate(consts))
        idl += "interface IC%s {\n%s};\n" % (tag, "".join("  const %s J%d = %s;\n" % (t, i, l) for i, (t, l, v) in enumerate(consts[:40])))
        open(os.path.join(d, "k.idl"), "w").write(idl)
        out = {}
        # the text of every backend is compared with the emitter model whether or not it is compiled here
        os.makedirs(os.path.join(d, "rs"), exist_ok=True)
        os.makedirs(os.path.join(d, "java"), exist_ok=True)
        open(os.path.join(d, "kj.idl"), "w").write("".join("const %s K%d = %s;\n" % (t, i, l) for i, (t, l, v) in enumerate(consts)))
        em = {"c": scrape.idlc_run(ctx["idlc"], os.path.join(d, "k.idl"), os.path.join(d, "k.h"))[0],
              "cpp": scrape.idlc_run(ctx["idlc"], os.path.join(d, "k.idl"), os.path.join(d, "k.hpp"), "cpp")[0],
              "rust": scrape.idlc_run(ctx["idlc"], os.path.join(d, "k.idl"), os.path.join(d, "rs"), "rust")[0],
              "java": scrape.idlc_run(ctx["idlc"], os.path.join(d, "kj.idl"), os.path.join(d, "java"), "java", False)[0]}
        emitted_rc[tag] = em
        # every constant of a probe group is in range: --allow-undefined-behavior only switches the range
        # check off, so the same files must come out with it
        ubd = os.path.join(d, "ub")
        os.makedirs(os.path.join(ubd, "rs"), exist_ok=True)
        os.makedirs(os.path.join(ubd, "java"), exist_ok=True)
        ubx = ["--allow-undefined-behavior"]
        ub = {"c": scrape.idlc_run(ctx["idlc"], os.path.join(d, "k.idl"), os.path.join(ubd, "k.h"), extra=ubx)[0],
              "cpp": scrape.idlc_run(ctx["idlc"], os.path.join(d, "k.idl"), os.path.join(ubd, "k.hpp"), "cpp", extra=ubx)[0],
              "rust": scrape.idlc_run(ctx["idlc"], os.path.join(d, "k.idl"), os.path.join(ubd, "rs"), "rust", extra=ubx)[0],
              "java": scrape.idlc_run(ctx["idlc"], os.path.join(d, "kj.idl"), os.path.join(ubd, "java"), "java", False, extra=ubx)[0]}
        diffs = []
        for lang_, rel_ in (("c", "k.h"), ("cpp", "k.hpp"), ("rust", "rs"), ("java", "java")):
            if em[lang_] != ub[lang_]:
                diffs.append("%s: exit status %s without the flag, %s with it" % (lang_, em[lang_], ub[lang_]))
                continue
            a_, b_ = os.path.join(d, rel_), os.path.join(ubd, rel_)
            pairs_ = [(a_, b_)] if os.path.isfile(a_) else [(os.path.join(a_, fn), os.path.join(b_, fn)) for fn in sorted(os.listdir(a_))]
            for x_, y_ in pairs_:
                if scrape.rd(x_) != scrape.rd(y_):
                    la, lb = scrape.rd(x_).split("\n"), scrape.rd(y_).split("\n")
                    first = next(((p_, q_) for p_, q_ in zip(la, lb) if p_ != q_), ("", ""))
                    diffs.append("%s: %s differs: `%s` vs `%s`" % (lang_, os.path.basename(x_), first[0][:120], first[1][:120]))
                    break
        ub_diffs[tag] = diffs
        if "c" in langs:
            r = scrape.idlc_run(ctx["idlc"], os.path.join(d, "k.idl"), os.path.join(d, "k.h"))
            src = '#include <stdio.h>\n#include <inttypes.h>\n#include "k.h"\nint main(void){\n'
            for i, (t, l, v) in enumerate(consts):
                fmt = "%llu" if t.startswith("u") else "%lld"
                cast = "unsigned long long" if t.startswith("u") else "long long"
                src += '  printf("K%d %s\\n", (%s)K%d);\n' % (i, fmt, cast, i)
            for i, (t, l, v) in enumerate(consts[:40]):
                fmt = "%llu" if t.startswith("u") else "%lld"
                cast = "unsigned long long" if t.startswith("u") else "long long"
                src += '  printf("J%d %s\\n", (%s)IC%s_J%d);\n' % (i, fmt, cast, tag, i)
            src += "  return 0; }\n"
            open(os.path.join(d, "p.c"), "w").write(src)
            for cc in ("gcc", "clang"):
                rc2, o, e = vlib.run([cc, "-std=c11", "-Wall", "-Wextra", "-Werror", "-Wno-unused-parameter", "-I" + os.path.join(TESTS, "c"), "-I" + d,
                                      os.path.join(d, "p.c"), "-o", os.path.join(d, "p_" + cc)], timeout=120)
                if rc2 != 0:
                    out[cc] = ("compile-error", e[-400:])
                else:
                    rc3, o, e = vlib.run([os.path.join(d, "p_" + cc)], timeout=30)
                    out[cc] = ("ok", dict(x.split() for x in o.strip().split("\n") if x))
        if "cpp" in langs:
            r = scrape.idlc_run(ctx["idlc"], os.path.join(d, "k.idl"), os.path.join(d, "k.hpp"), "cpp")
            src = '#include <cstdio>\n#include <type_traits>\n#include "k.hpp"\nint main(){\n'
            for i, (t, l, v) in enumerate(consts):
                fmt = "%llu" if t.startswith("u") else "%lld"
                cast = "unsigned long long" if t.startswith("u") else "long long"
                src += '  static_assert(std::is_same<decltype(K%d), const %s>::value, "type of K%d");\n' % (i, CTY[t], i)
                src += '  printf("K%d %s\\n", (%s)K%d);\n' % (i, fmt, cast, i)
            for i, (t, l, v) in enumerate(consts[:40]):
                fmt = "%llu" if t.startswith("u") else "%lld"
                cast = "unsigned long long" if t.startswith("u") else "long long"
                src += '  printf("J%d %s\\n", (%s)IIC%s::J%d);\n' % (i, fmt, cast, tag, i)
            src += "  return 0; }\n"
            open(os.path.join(d, "p.cpp"), "w").write(src)
            for cc in ("g++", "clang++"):
                rc2, o, e = vlib.run([cc, "-std=c++17", "-Wall", "-Wextra", "-Werror", "-Wno-unused-parameter", "-Wno-missing-field-initializers",
                                      "-I" + os.path.join(TESTS, "c"), "-I" + os.path.join(TESTS, "cpp"), "-I" + d,
                                      os.path.join(d, "p.cpp"), "-o", os.path.join(d, "p_" + cc)], timeout=120)
                if rc2 != 0:
                    out[cc] = ("compile-error", e[-400:])
                else:
                    rc3, o, e = vlib.run([os.path.join(d, "p_" + cc)], timeout=30)
                    out[cc] = ("ok", dict(x.split() for x in o.strip().split("\n") if x))
        if "rust" in langs:
            od = os.path.join(d, "rs")
            os.makedirs(od, exist_ok=True)
            r = scrape.idlc_run(ctx["idlc"], os.path.join(d, "k.idl"), od, "rust")
            src = '#![allow(warnings)]\n#[path = "%s/src/object/mod.rs"] pub mod object;\npub mod interfaces { pub mod k { include!("%s/k.rs"); } pub mod ic%s { include!("%s/ic%s.rs"); } }\n' % (
                TESTS, od, tag.lower(), od, tag.lower())
            src += "fn ty<T>(_: &T) -> &'static str { std::any::type_name::<T>() }\nfn main(){\n"
            for i, (t, l, v) in enumerate(consts):
                src += '  println!("K%d {} {}", interfaces::k::K%d, ty(&interfaces::k::K%d));\n' % (i, i, i)
            for i, (t, l, v) in enumerate(consts[:40]):
                src += '  println!("J%d {} {}", interfaces::ic%s::J%d, ty(&interfaces::ic%s::J%d));\n' % (i, tag.lower(), i, tag.lower(), i)
            src += "}\n"
            open(os.path.join(d, "p.rs"), "w").write(src)
            rc2, o, e = vlib.run(["rustc", "--edition", "2021", "--cfg", 'feature="std"', "-o", os.path.join(d, "p_rs"), os.path.join(d, "p.rs")], timeout=300)
            if rc2 != 0:
                out["rustc"] = ("compile-error", e[-600:])
            else:
                rc3, o, e = vlib.run([os.path.join(d, "p_rs")], timeout=30)
                vals, tys = {}, {}
                for x in o.strip().split("\n"):
                    p = x.split()
                    if len(p) == 3:
                        vals[p[0]] = p[1]; tys[p[0]] = p[2]
                out["rustc"] = ("ok", vals, tys)
        if "java" in langs:
            od = os.path.join(d, "java")
            os.makedirs(od, exist_ok=True)
            # file-level constants only (the interface file imports the Mink runtime)
            open(os.path.join(d, "kj.idl"), "w").write("".join("const %s K%d = %s;\n" % (t, i, l) for i, (t, l, v) in enumerate(consts)))
            r = scrape.idlc_run(ctx["idlc"], os.path.join(d, "kj.idl"), od, "java")
            src = "import com.qualcomm.qti.mink.kj;\npublic class P { public static void main(String[] a) {\n"
            for i, (t, l, v) in enumerate(consts):
                conv = "(long)(int)kj.K%d" % i if t in ("uint16", "int16") else "(long)kj.K%d" % i
                src += '  System.out.println("K%d " + %s);\n' % (i, conv)
            src += "}}\n"
            open(os.path.join(d, "P.java"), "w").write(src)
            rc2, o, e = vlib.run(["javac", "-d", os.path.join(d, "jc"), os.path.join(od, "kj.java"), os.path.join(d, "P.java")], timeout=300)
            if rc2 != 0:
                out["javac"] = ("compile-error", (e or o)[-600:])
            else:
                rc3, o, e = vlib.run(["java", "-cp", os.path.join(d, "jc"), "P"], timeout=60)
                out["javac"] = ("ok", dict(x.split() for x in o.strip().split("\n") if x))
        return tag, out

    # since the repair of the C/C++/Java constant emitters (constants written by value) every
    # accepted integer constant must compile and evaluate correctly in all four languages
    jobs = [("good", groups["good"], ("c", "cpp", "rust", "java")),
            ("cmin", groups["c_signed_min"], ("c", "cpp", "rust", "java")),
            ("javabad", groups["java_only_bad"], ("c", "cpp", "rust", "java")),
            ("lz", groups["leading_zero"][:12], ("c", "cpp", "rust", "java"))]
    # one witness per known class, alone
    wit = {"lzc": ([("uint16", "00017", 17)], ("c", "cpp", "java")),
           "jn": ([("uint8", "200", 200)], ("java",)),
           "jl": ([("int64", "9223372036854775807", 2**63 - 1)], ("java",)),
           "fl": ([("float32", "1.5", 1.5)], ("c", "cpp")),
           "rf": ([("float32", "3", 3.0)], ("rust",)),
           "cm1": ([("int32", "-0x80000000", -2**31)], ("c",)),
           "cm2": ([("int64", "-9223372036854775808", -2**63)], ("c", "cpp"))}
    for k, (cs, langs) in wit.items():
        jobs.append((k, cs, langs))
    # every accepted floating-point literal (not hexadecimal, no leading zero) through rustc: declared type and value
    rflo = []
    for t, l in dict.fromkeys(flo):
        if leading_zero(l):
            continue
        try:
            rflo.append((t, l, float(l)))
        except ValueError:
            pass
    jobs.append(("rflo", rflo, ("rust",)))
    with ThreadPoolExecutor(max_workers=8) as ex:
        probes = dict(ex.map(lambda j: build(*j), jobs))
    nprobe = 0
    # constants whose names are macros of the headers the generated file includes itself, or that the
    # compiler predefines: in C the constant still evaluates to the IDL value (compiled without -Werror:
    # the redefinition is a warning, and such names fall under C11's reserved-word clause there)
    mnames = [("uint32", "SIZE_MAX", 4096), ("int16", "INT16_MIN", -1000), ("uint8", "UINT8_MAX", 7), ("uint32", "unix", 2), ("uint32", "linux", 3),
              ("int32", "INT32_MAX", -5), ("uint64", "UINT64_MAX", 12345678901), ("uint16", "WCHAR_MAX", 9), ("uint32", "ordinary_name", 11)]
    md = os.path.join(pd, "macronames")
    os.makedirs(md, exist_ok=True)
    open(os.path.join(md, "k.idl"), "w").write("".join("const %s %s = %d;\n" % x for x in mnames) +
                                                 "interface IM {\n%s  method m();\n};\n" % "".join("  const %s %s = %d;\n" % (t, n, v + 1) for t, n, v in mnames[:3]))
    rm = scrape.idlc_run(ctx["idlc"], os.path.join(md, "k.idl"), os.path.join(md, "k.h"))
    if rm[0] == 0:
        srcm = '#include <stdio.h>\n#include <stdint.h>\n#include <wchar.h>\n#include "k.h"\nint main(void){\n'
        srcm += "".join('  printf("%s %%lld\\n", (long long)(%s));\n' % (n, n) for t, n, v in mnames)
        srcm += "".join('  printf("IM_%s %%lld\\n", (long long)(IM_%s));\n' % (n, n) for t, n, v in mnames[:3])
        srcm += "  return 0; }\n"
        open(os.path.join(md, "p.c"), "w").write(srcm)
        rcm, om, em_ = vlib.run(["gcc", "-std=gnu11", "-w", "-I" + os.path.join(TESTS, "c"), "-I" + md, os.path.join(md, "p.c"), "-o", os.path.join(md, "p")], timeout=120)
        if rcm == 0:
            rcm2, om, em_ = vlib.run([os.path.join(md, "p")], timeout=30)
            got_ = dict(x.split() for x in om.strip().split("\n") if len(x.split()) == 2)
            want_ = {n: v for t, n, v in mnames}
            want_.update({"IM_" + n: v + 1 for t, n, v in mnames[:3]})
            for n_, v_ in want_.items():
                nprobe += 1
                if n_ in got_ and int(got_[n_]) != v_:
                    res["failures"].append({"property": prop, "constant": n_, "idl": open(os.path.join(md, "k.idl")).read(),
                                            "what": "the C constant %s evaluates to %s, the IDL says %d (the name is also a macro of <stdint.h> / a compiler predefine)" % (n_, got_[n_], v_)})
    for tag, diffs in sorted(ub_diffs.items()):
        for dd in diffs[:3]:
            consts_ = [j for j in jobs if j[0] == tag][0][1]
            res["failures"].append({"property": prop, "group": tag, "idl": "".join("const %s K%d = %s;\n" % (t, i, l) for i, (t, l, v) in enumerate(consts_))[:4000],
                                    "what": "in-range constants come out differently with --allow-undefined-behavior: %s" % dd})
    # ---- the emitted text against the emitter model (ConstEmit.v): every constant of every job
    def esc(x):
        return x.replace('"', '""')
    edefs, eitems = [], []
    for tag, consts, langs in jobs:
        d = os.path.join(pd, tag)
        if any(emitted_rc.get(tag, {}).get(k, 1) != 0 for k in ("c", "cpp", "rust", "java")):
            continue
        txt = {"c": scrape.rd(os.path.join(d, "k.h")), "cpp": scrape.rd(os.path.join(d, "k.hpp")),
               "rust": scrape.rd(os.path.join(d, "rs", "k.rs")), "java": scrape.rd(os.path.join(d, "java", "kj.java"))}
        found = {"c": dict(re.findall(r"^#define K(\d+) (.*)$", txt["c"], re.M)),
                 "cpp": dict(re.findall(r"^static const \w+ K(\d+) = (.*);$", txt["cpp"], re.M)),
                 "rust": dict(re.findall(r"^pub const K(\d+): \w+ = (.*);$", txt["rust"], re.M)),
                 "java": dict(re.findall(r"^\s*\w+ K(\d+) = (.*);$", txt["java"], re.M))}
        for i, (t, l, v) in enumerate(consts):
            got = [found[k].get(str(i)) for k in ("c", "cpp", "java", "rust")]
            if None in got:
                res["corr_broken"].append({"kind": "scrape", "detail": "constant K%d of probe group %s not found in the %s output" % (i, tag, ["C", "C++", "Java", "Rust"][got.index(None)])})
                continue
            eitems.append((tag, t, l, got))
    EB = 120
    for k in range(0, len(eitems), EB):
        chunk = eitems[k:k + EB]
        items = "; ".join('(%s, "%s", ("%s", "%s", "%s", "%s"))' % (COQP[t], esc(l), esc(g[0]), esc(g[1]), esc(g[2]), esc(g[3])) for _, t, l, g in chunk)
        edefs.append((k, "Definition es_%d : list (prim * string * (string * string * string * string)) := [%s].\n" % (k, items), "chk_c17_emit es_%d" % k))
    eres, eerrors = vlib.eval_cases(os.path.join(work, "coq_emit"), "emit", "From MinkV Require Import Consts ConstEmit.\n", edefs, shard_size=4)
    for e in eerrors:
        res["corr_broken"].append({"kind": "case-evaluation", "detail": e})
    emit_hist = {}
    for k in range(0, len(eitems), EB):
        flags = eres.get(k, [])
        for (tag, t, l, g), fl in zip(eitems[k:k + EB], flags + [None] * (len(eitems[k:k + EB]) - len(flags))):
            emit_hist[fl] = emit_hist.get(fl, 0) + 1
            if fl is not None and fl != 15:
                which = [n for b, n in ((1, "C"), (2, "C++"), (4, "Java"), (8, "Rust")) if not fl & b]
                res["corr_broken"].append({"kind": "correspondence", "detail": "emitter model (ConstEmit.v) vs generated text disagree for %s %s in %s: emitted C `%s`, C++ `%s`, Java `%s`, Rust `%s`" % (
                    t, l, ", ".join(which), g[0], g[1], g[2], g[3]), "case": {"property": prop, "type": t, "literal": l, "emitted": g, "group": tag}})

    def check_group(tag, consts, must_pass):
        nonlocal nprobe
        for comp, r in probes[tag].items():
            if r[0] != "ok":
                if must_pass:
                    res["failures"].append({"property": prop, "group": tag, "compiler": comp, "what": "generated constants do not compile with %s: %s" % (comp, r[1][-300:])})
                continue
            vals = r[1]
            for i, (t, l, v) in enumerate(consts):
                for pre in ("K", "J"):
                    key = "%s%d" % (pre, i)
                    if key not in vals:
                        continue
                    nprobe += 1
                    if isinstance(v, float):
                        import struct
                        want = struct.unpack("f", struct.pack("f", v))[0] if t == "float32" else v
                        got = float(vals[key])
                        if not (got == want or (want != 0 and abs(got - want) <= abs(want) * 1e-6)):
                            res["failures"].append({"property": prop, "type": t, "literal": l, "compiler": comp,
                                                    "what": "constant %s = %s evaluates to %s with %s" % (t, l, vals[key], comp)})
                        continue
                    if comp == "javac":
                        # Java holds the value in a signed (or, for 16 bits, char) carrier of the same width
                        bits = {"uint8": 8, "int8": 8, "uint16": 16, "int16": 16, "uint32": 32, "int32": 32, "uint64": 64, "int64": 64}[t]
                        if (int(vals[key]) - v) % (1 << bits) != 0:
                            res["failures"].append({"property": prop, "type": t, "literal": l, "compiler": comp,
                                                    "what": "constant %s = %s is %s in Java, not the carrier of %s" % (t, l, vals[key], v)})
                        continue
                    if int(vals[key]) != v:
                        res["failures"].append({"property": prop, "type": t, "literal": l, "compiler": comp,
                                                "what": "constant %s = %s evaluates to %s with %s" % (t, l, vals[key], comp)})
            if comp == "rustc":
                for i, (t, l, v) in enumerate(consts):
                    if r[2].get("K%d" % i) not in (None, RTY[t]):
                        res["failures"].append({"property": prop, "type": t, "literal": l, "compiler": comp,
                                                "what": "constant has type %s, declared %s" % (r[2].get("K%d" % i), t)})

    check_group("good", groups["good"], True)
    check_group("rflo", rflo, True)
    check_group("javabad", groups["java_only_bad"], True)
    check_group("lz", groups["leading_zero"][:6], True)
    check_group("cmin", groups["c_signed_min"], True)
    known = []
    def witness(tag, cls, what):
        cs, langs = wit[tag]
        for comp, r in probes[tag].items():
            bad = r[0] != "ok" or any(str(v) not in (r[1].get("K0"), "%s" % v) for t, l, v in cs if not isinstance(v, float))
            if r[0] == "ok" and isinstance(cs[0][2], float):
                bad = False
            if bad:
                res["failures"].append({"property": prop, "known_class": cls, "compiler": comp, "witness": cs[0][:2],
                                        "what": what + " (%s: %s)" % (comp, r[0] if r[0] != "ok" else r[1])})
                known.append(cls)
    witness("lzc", "K_leading_zero", "a literal with leading zeros is read as octal (or rejected) by the target compiler")
    witness("jn", "K_java_narrowing", "an unsigned value above the signed carrier's range does not compile in Java")
    witness("jl", "K_java_narrowing", "a 64-bit literal without L suffix does not compile in Java")
    witness("fl", "K_float_macro", "floating-point constants use FLOAT()/DOUBLE() macros nothing defines")
    witness("cm1", "K_c_signed_min", "INT32_C(-0x80000000) is an unsigned expression in C: it evaluates to 2147483648")
    witness("cm2", "K_c_signed_min", "INT64_C(-9223372036854775808) does not compile under -Werror (the positive literal does not fit)")
    witness("rf", "K_rust_float_int_literal", "a floating-point constant without fractional part is emitted as an integer literal in Rust")
    res["coverage"] = {
        "evaluations": len(lits), "distinct_nontrivial": len(set(lits)),
        "rule": "per integer type: every value within 3 of min, max and 0 and within 1 of +-2^k (k=7..64), in decimal and hex (both cases), plus "
                "signed zero, leading zeros, fractional forms, overlong numerals and random values; floats: boundary magnitudes, long numerals, hex; "
                "every literal through the real parser; accepted integer constants compiled and printed by gcc, clang, g++, clang++, rustc, javac",
        "samples": [list(x) for x in lits[:5]], "l0_codes": {str(k): v for k, v in sorted(hist.items())},
        "emitted_texts_compared_with_model": len(eitems), "emitted_text_flags": {str(k): v for k, v in emit_hist.items()},
        "probe_values_compared": nprobe, "probe_groups": {k: len(v) for k, v in groups.items()}, "known_witnesses_confirmed": sorted(set(known)),
    }
    return res
