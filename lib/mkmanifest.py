#!/usr/bin/env python3
"""Regenerates MANIFEST.json from the table below (keeps it valid and current)."""
import json, os
HERE = os.path.dirname(os.path.dirname(os.path.abspath(__file__)))
ALL = ["C%02d" % i for i in range(1, 21)]
CLAIMED = {
    "C07": dict(
        text="Machine-checked theorems (Coq) that the front-end model's op-code numbering equals the table the property prescribes for every accepted file set (any hierarchy depth, any member interleaving, ancestors in any file), that codes are unique and <= 0x3FFF, that an interface needing more is rejected, and that a base is numbered identically inside every derived interface; the model is tied to the code on every run by constants regenerated from the Rust sources and by differential execution of the real passes (L0) and of all four backends' emitted text (L1).",
        ref="7 (C07), 5", technique="Coq proof over Gallina model + regenerated CodeFacts + differential correspondence (harness, emitted-text scrapers)"),
    "C08": dict(
        text="Same machinery as C07 for error codes: theorem that the values are consecutive from 10 in declaration order, root ancestor first, for every accepted file set; correspondence against the MIR and the constants printed by all four backends.",
        ref="7 (C08), 5", technique="Coq proof over Gallina model + regenerated CodeFacts + differential correspondence"),
    "C02": dict(
        text="Theorems: the transcribed `impl Ord for Param` equals the table printed by the real comparison on all 18x18 parameter classes (regenerated each run), `lt` is a comparison of six ranks, the stable sort is the concatenation of the rank buckets, the event sequence driving every visitor has a closed form, and outside two named classes the slot sequence is BI*BO*OI*OO* for every parameter list; the counts word is injective exactly below 16. The unrestricted statements are refuted by machine-checked witnesses (object-bearing struct values, input object array after output object, no <=15 limit), which are the known findings. Tie: L0 plan correspondence through the real visit_params_with_bundling/Counter, L1 counts and raw slot kinds scraped from C, C++ and Rust stubs and skeleton counts.",
        ref="7 (C02), 12", technique="Coq proof (rank/bucket/closed-form/section order) + generated CmpTable + differential correspondence; refutation witnesses for the known classes"),
    "C15": dict(
        text="Theorems: appending members to an interface leaves the numbering (op-codes, error values, resolved parameters, positions) of all its pre-existing and inherited members unchanged; added declarations do not change what existing names resolve to; a method's plan depends on its parameter list only. Tie: revision pairs through the real passes (L0, Coq-evaluated comparison of ids, error values and plans) and byte-equality of the generated per-method fragments in C, C++ and Rust (L1).",
        ref="7 (C15)", technique="Coq proof + differential execution on generated revision pairs"),
    "C06": dict(
        text="Theorems: for every struct the StructVerifier model accepts (any nesting depth, any array counts, object fields), the natural-alignment layout of the emitted type (SysV x86-64 / repr(C), as modelled in Layout.v) has every field at the sum of the sizes before it and sizeof equal to the assumed size, along the whole dependency order; the primitive size/alignment tables regenerated from ast.rs are the ABI's. Tie: L0 sizes (implementation vs model vs verifier), sizeof/alignof/offsetof probes of the emitted types with gcc, clang, g++, clang++ and rustc against the Spec, and validation of Layout.v against gcc/clang on arbitrary (also padded) structs every run.",
        ref="7 (C06)", technique="Coq proof (no-padding theorem over the dependency order) + compiler probes + differential correspondence"),
    "C09": dict(
        text="Theorems over the front-end model: acceptance implies unique struct/interface names and unique constant names over all loaded files (both entry points), unique parameters (main file), complete acyclic inheritance chains, verified struct layout along the dependency order, and (command-line pipeline) the object-array rules and member-name uniqueness along every chain. The rules that are not enforced are established by machine-checked witnesses (two object arrays, input array of a small object struct, library entry point without InterfaceVerifier, constant vs type name, declarations of included files), which are the known classes. Tie: every single-violation mutant goes through the real binary, the replayed CLI and library pipelines and idlc::Language::generate, and the model is evaluated on the same ASTs.",
        ref="7 (C09)", technique="Coq proofs of rule soundness + refutation witnesses + mutation-based differential correspondence"),
    "C10": dict(
        text="Partial proof: completeness of each validation step of the model (symbol table, duplicate-parameter pass, interface rules, struct verifier): whatever satisfies the enforced rule is accepted by that step, for all inputs. The composition over the whole pipeline and the four backends is decided by running generated valid file sets and their declaration-order / file-placement variants through every backend and flag set, with the model evaluated on the same ASTs.",
        ref="7 (C10)", technique="Coq proofs of per-step completeness (partial) + exhaustive-by-generation acceptance runs over backends and flags"),
    "C12": dict(
        text="Theorems over the include-walk model (abstract file system without symbolic links, any finite include graph): the walk never exhausts its fuel (recursion depth bounded by the number of files), acceptance implies that every include of every reachable file resolves and parses and that no reachable file lies on a cycle of any length, and each file is loaded once. Resolution (first match over -I directories then the main file's directory; relative for paths with a directory part), the accept/reject verdict and the loaded set are compared with the real pipeline and with an independently written reachability Spec on generated directory trees every run. The converse (rejection only when the Spec says so) is decided by that comparison, not proved.",
        ref="7 (C12)", technique="Coq proof (termination, soundness of acceptance, load-once) + differential correspondence on real directory trees + independent reachability Spec"),
    "C13": dict(
        text="Theorem: the StructVerifier's verdict and every size it assigns are the same for every dependency-respecting order of the structs (the order comes out of a hash-map based topological sort), via a fixed-point characterisation of the accepted store. Everything else that could make output depend on the run - real hash seeds, working directory, absolute location, path spelling, symbolic links - is outside an executable Gallina model and is decided by compiling every generated file set repeatedly under those variations for all six backend outputs and comparing names and bytes. Partial: the sampled dimensions are not proved.",
        ref="7 (C13)", technique="Coq proof (order independence of the verifier) + metamorphic runs of the real binary (reruns, cwd, relocation, spellings, symlink)"),
    "C19": dict(
        text="Theorems over the driver model whose order of effects is regenerated from idlc/src/main.rs each run (all opens after the last validation pass and after generation, create+truncate on every open, marking before content): a rejected input has no effect on the file system; an accepted single-file run leaves exactly marking ++ content in the named file whatever it held before and touches nothing else; the Rust generator's lower-cased file keys collapse case-colliding interfaces (refutation witness = known finding). Tie: the real binary in scratch directories with pre-existing targets and bystanders, one rejected variant per stage, listing/bytes/mtimes compared; Rust file names against the model and the Spec.",
        ref="7 (C19)", technique="Coq proof over an effect model instantiated with regenerated DriverFacts + before/after file-system snapshots of the real binary"),
    "C17": dict(
        text="Theorems: the transcribed range check of Primitive::new (radix detection, str::replace of 0x, from_str_radix with its sign and width rules) accepts an integer constant iff its mathematical value lies in the range of the declared type and unsigned types carry no sign - for every hexadecimal, decimal, negative and fractional literal the grammar admits, of any length; without leading zeros the C reading of the pasted literal is its mathematical value, with leading zeros it is not (witness). Tie: exhaustive boundary neighbourhoods of all eight integer types in every literal form through the real parser against model and Spec (Coq-evaluated), and every accepted constant compiled and printed by gcc, clang, g++, clang++, rustc and javac (value; declared type in C++ and Rust).",
        ref="7 (C17)", technique="Coq proof of range-check exactness over all literals + exhaustive boundary sweep through the real parser + compiled value probes in four languages"),
    "C16": dict(
        text="Partial proof. Proved: on every pair tree of the shapes the grammar produces without comments between the tokens of a declaration and with array sizes in 1..65535, the transcribed PST->AST conversion is the same function in debug and release builds and never reaches an unwrap_unchecked on None/Err; the front-end model in Release mode either hits a wrapped usize operation or equals Debug; model functions terminate by construction. The unrestricted statements are refuted by machine-checked witnesses (array size 0, comment inside a parameter) that the release binary reproduces (one as a SIGSEGV). Not modelled, observed only: memory faults, stack depth and running time of the real binaries - every generated and corpus input is run through the debug and release binaries (exit status/signal, time limit, output hash) and, when pest accepts it, its dumped pair tree through the model in both modes against the real parser.",
        ref="7 (C16)", technique="Coq proofs (mode agreement, no UB on well-formed trees) + refutation witnesses + debug/release differential execution on byte-level inputs"),
    "C14": dict(
        text="Partial proof. Proved on the transcribed PST->AST conversion: comments between declarations, between struct fields and between interface members (no documentation pending) do not change the AST; documentation reaches only the immediately following member and only a method keeps it; an ordinary comment between documentation and method discards it (witness, known finding). The text->pair-tree step (pest), --marking and --no-typed-objects are decided by metamorphic runs: whitespace/line-break re-renderings, comments at declaration level and between tokens, documentation changed/removed, marking texts, typed vs untyped, each against the plain rendering over six backend outputs; the dumped pair trees of the variants go through the model as well.",
        ref="7 (C14)", technique="Coq proofs of comment/doc invariance on the PST->AST model + metamorphic runs of the real binary"),
    "C20": dict(
        text="Theorems for any number of client threads and every interleaving (sequentially consistent) of clone, drop, transfer, call, lock acquisition and return on one generated object: an inductive invariant (refs = number of live handles, lock owner = the thread in a body, freed implies no handle) and from it mutual exclusion of method bodies, every body sees the effects of all completed invocations with no lost update, the implementation is dropped at most once, only after the last release, never while a call is pending or running, and exactly once when all handles are gone. The step relation is instantiated with facts regenerated every run from wrapper.rs (fetch_add/fetch_sub as the only operations on refs, free on previous value 1, Mutex around the implementation) and from the Rust skeleton emitter (lock before the call, call inside the guard's closure). Tie: the same structure is checked on every generated skeleton arm of the run, and stress runs of a generated object (2-16 threads) check overlap, stale reads, lost updates and drop accounting. Partial: weak-memory behaviour of Relaxed/SeqCst is outside the model.",
        ref="7 (C20)", technique="Coq proof of an inductive invariant over a thread-indexed step relation instantiated with regenerated ConcFacts + structural check of generated arms + stress runs"),
}
NOTE = ("Trusted: Coq 8.16.1 kernel (vm_compute used; no native_compute), no axioms; lib/translate.py; the harness crate; "
        "python driver and scrapers. Modelled rather than verified: all of /repo (theorems are about coq/theories; the tie is "
        "regenerated facts + differential execution on generated cases each run).")
REASONS = {}
def main():
    checks = []
    for p in ALL:
        if p in CLAIMED:
            c = CLAIMED[p]
            checks.append({
                "property_id": p, "quick_cmd": "./check %s --tier quick" % p,
                "thorough_cmd": "./check %s --tier thorough" % p,
                "evidence_file": "evidence/%s.json" % p,
                "replay_cmd_template": "./check %s --replay {path}" % p,
                "engine": "coq+vharness",
                "level_claimed": {"category": c.get("category", "proof"), "text": c["text"], "design_ref": "DESIGN.md section " + c["ref"]},
                "level_note": c.get("note", NOTE), "technique": c["technique"]})
    na = [{"property_id": p, "reason": REASONS.get(p, "check not built yet in this development; design in DESIGN.md section 7")}
          for p in ALL if p not in CLAIMED]
    m = {"version": 1, "setup_cmd": "./check --setup",
         "hooks": {"guard": "quic_mink_idl_compiler_verif", "enable": "none needed: the passes, Counter, PackedPrimitives, ParameterVisitor and the C visitors are public API; no source hooks exist",
                   "baseline_off_cmd": "cd /repo && cargo test --workspace --no-fail-fast --offline", "source_commits": [], "add_only": True},
         "engines": [{"name": "coq+vharness", "path": "check", "serves_properties": sorted(CLAIMED),
                      "kind_free_text": "Coq 8.16 development (coq/), Rust harness crate over the repository's public API (harness/), python driver (check, lib/)"}],
         "checks": checks, "not_applicable": na,
         "notes": "See DESIGN.md. Every check rebuilds idlc and the harness from /repo's working tree, regenerates coq/theories/gen/*.v from the sources, re-checks the property's theorems and runs the correspondence."}
    json.dump(m, open(os.path.join(HERE, "MANIFEST.json"), "w"), indent=1)
if __name__ == "__main__":
    main()
