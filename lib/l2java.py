"""Generator of the C18 Java driver: a logging implementation of the generated interface, a
capturing IMinkObject standing between the generated Proxy and the generated MinkObject (it
sees exactly the arrays passed to invoke), and callers with the same byte patterns, lengths and
object ids as the C harness (lib/l2c.py), so the expected logs are l2c's."""
import l2c, gen

JT = {"uint8": "byte", "int8": "byte", "uint16": "char", "int16": "char", "uint32": "int", "int32": "int",
      "uint64": "long", "int64": "long", "float32": "float", "float64": "double"}


def lit(t, bs):
    """java expression of type JT[t] whose little-endian image is bs"""
    n = int.from_bytes(bytes(bs), "little")
    jt = JT[t]
    if jt == "byte":
        return "(byte)0x%02x" % n
    if jt == "char":
        return "(char)0x%04x" % n
    if jt == "int":
        return "0x%08x" % n
    if jt == "long":
        return "0x%016xL" % n
    if jt == "float":
        return "Float.intBitsToFloat(0x%08x)" % n
    return "Double.longBitsToDouble(0x%016xL)" % n


def hx(t, expr):
    """java expression: hex string of the little-endian image of expr (of type JT[t])"""
    jt = JT[t]
    if jt == "byte":
        return "hx((long)(%s) & 0xffL, 1)" % expr
    if jt == "char":
        return "hx((long)(%s), 2)" % expr
    if jt == "int":
        return "hx((long)(%s) & 0xffffffffL, 4)" % expr
    if jt == "long":
        return "hx(%s, 8)" % expr
    if jt == "float":
        return "hx((long)Float.floatToRawIntBits(%s) & 0xffffffffL, 4)" % expr
    return "hx(Double.doubleToRawLongBits(%s), 8)" % expr


def flat_fields(ctx, t, prefix=""):
    """[(path, prim, offset)] of a struct of primitives (nested structs flattened)"""
    out, off = [], 0
    for ft, cnt, fn in ctx.structs[t]["fields"]:
        if ft in gen.PSIZE:
            out.append((prefix + fn, ft, off))
            off += gen.PSIZE[ft]
        else:
            sub = flat_fields(ctx, ft, prefix + fn + ".")
            out += [(p, pt, off + o) for p, pt, o in sub]
            off += ctx.structs[ft]["size"]
    return out


HEAD = """package com.qualcomm.qti.mink;
import com.qualcomm.qti.qms.api.mink.IMinkObject;
import com.qualcomm.qti.qms.api.mink.JMinkObject;
import java.util.Arrays;

public class Drive {
    static String hx(long bits, int n) { StringBuilder s = new StringBuilder(); for (int i = 0; i < n; i++) s.append(String.format("%02x", (bits >>> (8 * i)) & 0xff)); return s.toString(); }
    static String hxb(byte[] b) { if (b == null) return "null"; StringBuilder s = new StringBuilder(); for (byte x : b) s.append(String.format("%02x", x & 0xff)); return s.toString(); }
    static byte[] pat(int n, int k, int p, int v, int out) { byte[] b = new byte[n]; for (int j = 0; j < n; j++) b[j] = (byte)(17 * k + 31 * p + 7 * j + 13 * v + (out != 0 ? 101 : 1)); return b; }
    static class Obj extends JMinkObject {
        final int id; Obj(int id) { this.id = id; }
        public void invoke(int m, byte[][] bi, int[] bs, byte[][] bo, IMinkObject[] oi, IMinkObject[] oo) throws InvokeException { throw new InvokeException(IMinkObject.ERROR_INVALID); }
    }
    static Obj[] pool = new Obj[64];
    static IMinkObject mk(int id) { if (id < 0) return null; if (pool[id] == null) pool[id] = new Obj(id); return pool[id]; }
    static int oid(IMinkObject o) { if (o == null) return -1; if (o instanceof Obj) return ((Obj)o).id; return -2; }
    static int gVal = 0;
    static int gStatus = 0;
    // the transport: sees the arrays passed to invoke and nothing else
    static class Capture extends JMinkObject {
        final IMinkObject next; Capture(IMinkObject n) { next = n; }
        public void invoke(int m, byte[][] bi, int[] boSizes, byte[][] bo, IMinkObject[] oi, IMinkObject[] oo) throws InvokeException {
            int nbi = bi == null ? 0 : bi.length, nbo = boSizes == null ? 0 : boSizes.length, noi = oi == null ? 0 : oi.length, noo = oo == null ? 0 : oo.length;
            StringBuilder s = new StringBuilder("xport op=" + m + " k=" + nbi + "," + nbo + "," + noi + "," + noo);
            for (int i = 0; i < nbi; i++) s.append(" bi" + i + "=" + hxb(bi[i]));
            for (int i = 0; i < nbo; i++) s.append(" bo" + (nbi + i) + ".cap=" + boSizes[i]);
            if (bo != null && bo.length != nbo) s.append(" BO-ARRAY-LENGTH=" + bo.length);
            for (int i = 0; i < noi; i++) s.append(" oi" + (nbi + nbo + i) + "=obj:" + oid(oi[i]));
            System.out.println(s);
            try { next.invoke(m, bi, boSizes, bo, oi, oo); }
            catch (InvokeException e) { System.out.println("xport ret=" + e.code); throw e; }
            s = new StringBuilder("xport ret=0");
            for (int i = 0; i < nbo; i++) s.append(" bo" + (nbi + i) + "=" + hxb(bo[i]));
            for (int i = 0; i < noo; i++) s.append(" oo" + (nbi + nbo + noi + i) + "=obj:" + oid(oo[i]));
            System.out.println(s);
        }
    }
"""


def generate(ctx, iface, fileclass, methods, valuations, error_status=0):
    K = l2c.Kinds(ctx)
    A = [HEAD]
    S = fileclass + "."
    # ---- implementation
    A.append("    static class Impl implements %s {" % iface)
    for k, (mname, params) in enumerate(methods):
        sig, body, post = [], [], []
        for p, (d, t, sh, pn) in enumerate(params):
            isobj = t == "interface" or t in ctx.ifaces
            if isobj:
                if sh is None:
                    if d == "in":
                        sig.append("IMinkObject %s_val" % pn)
                        body.append('s.append(" %s=obj:" + oid(%s_val));' % (pn, pn))
                    else:
                        sig.append("IMinkObject[] %s_ptr" % pn)
                        post.append("%s_ptr[0] = mk(outObj(%d, %d, gVal, 0));" % (pn, k, p))
                else:
                    n = int(sh[1:-1])
                    if d == "in":
                        sig.append("IMinkObject[] %s_val" % pn)
                        for j in range(n):
                            body.append('s.append(" %s[%d]=obj:" + oid(%s_val[%d]));' % (pn, j, pn, j))
                    else:
                        sig += ["IMinkObject[][] %s_ptr" % pn, "int %s_len" % pn]
                        post.append("%s_ptr[0] = new IMinkObject[%d];" % (pn, n))
                        for j in range(n):
                            post.append("%s_ptr[0][%d] = mk(outObj(%d, %d, gVal, %d));" % (pn, j, k, p, j))
            elif sh is None and t != "buffer":
                es = K.elem_size(t)
                if t in gen.PSIZE:
                    if d == "in":
                        sig.append("%s %s_val" % (JT[t], pn))
                        body.append('s.append(" %s=" + %s);' % (pn, hx(t, pn + "_val")))
                    else:
                        sig.append("%s[] %s_ptr" % (JT[t], pn))
                        post.append("{ byte[] zz = patf(%d, %d, %d, gVal, 1, %d, %d); %s_ptr[0] = %s; }" % (
                            es, k, p, es, 1 if K.is_float(t) else 0, pn, from_bytes(t, "zz", 0)))
                else:
                    ff = flat_fields(ctx, t)
                    if d == "in":
                        sig.append("%s%s %s_val" % (S, t, pn))
                        body.append('s.append(" %s=");' % pn)
                        for path, ft, off in ff:
                            body.append("s.append(%s);" % hx(ft, "%s_val.%s" % (pn, path)))
                    else:
                        sig.append("%s%s[] %s_ptr" % (S, t, pn))
                        post.append("%s_ptr[0] = new%s();" % (pn, t))
                        post.append("{ byte[] zz = patf(%d, %d, %d, gVal, 1, 0, 0);" % (es, k, p))
                        for path, ft, off in ff:
                            post.append("  %s_ptr[0].%s = %s;" % (pn, path, from_bytes(ft, "zz", off)))
                        post.append("}")
            else:
                es = K.elem_size(t)
                if t == "buffer":
                    if d == "in":
                        sig.append("byte[] %s_val" % pn)
                        body.append('s.append(" %s=len:" + %s_val.length + ": =" + hxb(%s_val));' % (pn, pn, pn))
                    else:
                        sig += ["byte[][] %s_ptr" % pn, "int %s_len" % pn]
                        post.append("{ int want = outWant(%d, %d, gVal); int n = Math.min(want, %s_len); %s_ptr[0] = pat(n, %d, %d, gVal, 1); }" % (k, p, pn, pn, k, p))
                elif t in gen.PSIZE:
                    if d == "in":
                        sig.append("%s[] %s_val" % (JT[t], pn))
                        body.append('s.append(" %s=len:" + %s_val.length + ": =");' % (pn, pn))
                        body.append("for (%s e : %s_val) s.append(%s);" % (JT[t], pn, hx(t, "e")))
                    else:
                        sig += ["%s[][] %s_ptr" % (JT[t], pn), "int %s_len" % pn]
                        post.append("{ int want = outWant(%d, %d, gVal); int n = Math.min(want, %s_len); byte[] zz = patf(n * %d, %d, %d, gVal, 1, %d, %d);" % (
                            k, p, pn, es, k, p, es, 1 if K.is_float(t) else 0))
                        post.append("  %s_ptr[0] = new %s[n]; for (int i = 0; i < n; i++) %s_ptr[0][i] = %s; }" % (pn, JT[t], pn, from_bytes(t, "zz", "i * %d" % es)))
                else:
                    ff = flat_fields(ctx, t)
                    if d == "in":
                        sig.append("%s%s[] %s_val" % (S, t, pn))
                        body.append('s.append(" %s=len:" + %s_val.length + ": =");' % (pn, pn))
                        body.append("for (%s%s e : %s_val) {" % (S, t, pn))
                        for path, ft, off in ff:
                            body.append("  s.append(%s);" % hx(ft, "e.%s" % path))
                        body.append("}")
                    else:
                        sig += ["%s%s[][] %s_ptr" % (S, t, pn), "int %s_len" % pn]
                        post.append("{ int want = outWant(%d, %d, gVal); int n = Math.min(want, %s_len); byte[] zz = patf(n * %d, %d, %d, gVal, 1, 0, 0);" % (k, p, pn, es, k, p))
                        post.append("  %s_ptr[0] = new %s%s[n]; for (int i = 0; i < n; i++) { %s_ptr[0][i] = new%s();" % (pn, S, t, pn, t))
                        for path, ft, off in ff:
                            post.append("    %s_ptr[0][i].%s = %s;" % (pn, path, from_bytes(ft, "zz", "i * %d + %d" % (es, off))))
                        post.append("  } }")
        A.append("        public void %s(%s) throws IMinkObject.InvokeException {" % (mname, ", ".join(sig)))
        A.append('            StringBuilder s = new StringBuilder("impl %s");' % mname)
        A += ["            " + b for b in body]
        A.append("            System.out.println(s);")
        A.append("            if (gStatus != 0) throw new IMinkObject.InvokeException(gStatus);")
        A += ["            " + b for b in post]
        A.append("        }")
    A.append("    }")
    # ---- constructors of struct values (nested members allocated)
    for t in sorted(ctx.structs):
        A.append("    static %s%s new%s() { %s%s r = new %s%s();" % (S, t, t, S, t, S, t))
        for ft, cnt, fn in ctx.structs[t]["fields"]:
            if ft not in gen.PSIZE and ft in ctx.structs:
                A.append("        r.%s = new%s();" % (fn, ft))
        A.append("        return r; }")
    A.append("""    static byte[] patf(int n, int k, int p, int v, int out, int elem, int isf) { byte[] b = pat(n, k, p, v, out);
        if (isf != 0 && elem != 0) for (int e = 0; e + elem <= n; e += elem) {
            if (v % 3 == 2 && (elem == 4 || elem == 8)) { b[e + elem - 1] = (byte)((b[e + elem - 1] & 0x80) | 0x7F);
                b[e + elem - 2] = (byte)(elem == 4 ? ((b[e + elem - 2] & 0x3F) | 0x80) : ((b[e + elem - 2] & 0x07) | 0xF0)); b[e] |= 1; }
            else b[e + elem - 1] &= 0x3F; }
        return b; }
    static long le(byte[] b, int off, int n) { long r = 0; for (int i = 0; i < n; i++) r |= ((long)(b[off + i] & 0xff)) << (8 * i); return r; }
    static int inLen(int k, int p, int v) { int[] t = {0, 1, 3, 5}; return t[(k + p + v) % 4]; }
    static int outCap(int k, int p, int v) { int[] t = {4, 0, 1, 6}; return t[(k + 2 * p + v) % 4]; }
    static int outWant(int k, int p, int v) { int[] t = {2, 0, 5, 1}; return t[(k + p + 3 * v) % 4]; }
    static int inObj(int k, int p, int v, int j) { int r = (k + p + v + j) % 5; return r == 0 ? -1 : 1 + (k * 7 + p * 3 + j) % 20; }
    static int outObj(int k, int p, int v, int j) { int r = (k + 2 * p + v + j) % 4; return r == 0 ? -1 : 30 + (k * 5 + p + j) % 20; }
""")
    # ---- callers
    for k, (mname, params) in enumerate(methods):
        L = ["    static void call_%s(%s.Proxy proxy, int v) {" % (mname, iface), "        gVal = v;",
             '        StringBuilder s = new StringBuilder("ret %s");' % mname, "        try {"]
        args, outs = [], []
        for p, (d, t, sh, pn) in enumerate(params):
            isobj = t == "interface" or t in ctx.ifaces
            if isobj:
                if sh is None:
                    if d == "in":
                        args.append("mk(inObj(%d, %d, v, 0))" % (k, p))
                    else:
                        L.append("            IMinkObject[] %s = new IMinkObject[1];" % pn)
                        args.append(pn)
                        outs.append('s.append(" %s=obj:" + oid(%s[0]));' % (pn, pn))
                else:
                    n = int(sh[1:-1])
                    if d == "in":
                        L.append("            IMinkObject[] %s = new IMinkObject[%d]; for (int j = 0; j < %d; j++) %s[j] = mk(inObj(%d, %d, v, j));" % (pn, n, n, pn, k, p))
                        args.append(pn)
                    else:
                        L.append("            IMinkObject[][] %s = new IMinkObject[1][];" % pn)
                        args += [pn, "%d" % n]
                        for j in range(n):
                            outs.append('s.append(" %s[%d]=obj:" + oid(%s[0][%d]));' % (pn, j, pn, j))
            elif sh is None and t != "buffer":
                es = K.elem_size(t)
                isf = 1 if K.is_float(t) else 0
                if t in gen.PSIZE:
                    if d == "in":
                        L.append("            %s %s; { byte[] zz = patf(%d, %d, %d, v, 0, %d, %d); %s = %s; }" % (JT[t], pn, es, k, p, es, isf, pn, from_bytes(t, "zz", 0)))
                        args.append(pn)
                    else:
                        L.append("            %s[] %s = new %s[1];" % (JT[t], pn, JT[t]))
                        args.append(pn)
                        outs.append('s.append(" %s=" + %s);' % (pn, hx(t, pn + "[0]")))
                else:
                    ff = flat_fields(ctx, t)
                    if d == "in":
                        L.append("            %s%s %s = new%s(); { byte[] zz = patf(%d, %d, %d, v, 0, 0, 0);" % (S, t, pn, t, es, k, p))
                        for path, ft, off in ff:
                            L.append("                %s.%s = %s;" % (pn, path, from_bytes(ft, "zz", off)))
                        L.append("            }")
                        args.append(pn)
                    else:
                        L.append("            %s%s[] %s = new %s%s[] { new%s() };" % (S, t, pn, S, t, t))
                        args.append(pn)
                        outs.append('s.append(" %s=");' % pn)
                        for path, ft, off in ff:
                            outs.append("s.append(%s);" % hx(ft, "%s[0].%s" % (pn, path)))
            else:
                es = K.elem_size(t)
                isf = 1 if K.is_float(t) else 0
                if d == "in":
                    L.append("            int %s_n = inLen(%d, %d, v);" % (pn, k, p))
                    if t == "buffer":
                        L.append("            byte[] %s = pat(%s_n, %d, %d, v, 0);" % (pn, pn, k, p))
                    elif t in gen.PSIZE:
                        L.append("            %s[] %s = new %s[%s_n]; { byte[] zz = patf(%s_n * %d, %d, %d, v, 0, %d, %d); for (int i = 0; i < %s_n; i++) %s[i] = %s; }" % (
                            JT[t], pn, JT[t], pn, pn, es, k, p, es, isf, pn, pn, from_bytes(t, "zz", "i * %d" % es)))
                    else:
                        ff = flat_fields(ctx, t)
                        L.append("            %s%s[] %s = new %s%s[%s_n]; { byte[] zz = patf(%s_n * %d, %d, %d, v, 0, 0, 0); for (int i = 0; i < %s_n; i++) { %s[i] = new%s();" % (
                            S, t, pn, S, t, pn, pn, es, k, p, pn, pn, t))
                        for path, ft, off in ff:
                            L.append("                %s[i].%s = %s;" % (pn, path, from_bytes(ft, "zz", "i * %d + %d" % (es, off))))
                        L.append("            } }")
                    args.append(pn)
                else:
                    L.append("            int %s_cap = outCap(%d, %d, v);" % (pn, k, p))
                    if t == "buffer":
                        L.append("            byte[][] %s = new byte[1][];" % pn)
                        outs.append('s.append(" %s=len:" + %s[0].length + ": =" + hxb(%s[0]));' % (pn, pn, pn))
                    elif t in gen.PSIZE:
                        L.append("            %s[][] %s = new %s[1][];" % (JT[t], pn, JT[t]))
                        outs.append('s.append(" %s=len:" + %s[0].length + ": =");' % (pn, pn))
                        outs.append("for (%s e : %s[0]) s.append(%s);" % (JT[t], pn, hx(t, "e")))
                    else:
                        ff = flat_fields(ctx, t)
                        L.append("            %s%s[][] %s = new %s%s[1][];" % (S, t, pn, S, t))
                        outs.append('s.append(" %s=len:" + %s[0].length + ": =");' % (pn, pn))
                        outs.append("for (%s%s e : %s[0]) {" % (S, t, pn))
                        for path, ft, off in ff:
                            outs.append("  s.append(%s);" % hx(ft, "e.%s" % path))
                        outs.append("}")
                    args += [pn, "%s_cap" % pn]
        L.append("            proxy.%s(%s);" % (mname, ", ".join(args)))
        L.append('            s.append(" status=0");')
        L += ["            " + o for o in outs]
        L.append('        } catch (IMinkObject.InvokeException e) { s.append(" status=" + e.code); }')
        L.append('        catch (RuntimeException e) { s.append(" exception=" + e.getClass().getSimpleName()); }')
        L.append("        System.out.println(s);\n    }")
        A.append("\n".join(L))
    A.append("    public static void main(String[] a) {")
    A.append("        %s.Proxy proxy = new %s.Proxy(new Capture(new %s.MinkObject(new Impl())));" % (iface, iface, iface))
    A.append("        java.util.Set<String> only = new java.util.HashSet<>(Arrays.asList(a));")
    A.append("        gStatus = %d;" % error_status)
    for v in valuations:
        for mname, _ in methods:
            A.append('        if (only.isEmpty() || only.contains("%s")) call_%s(proxy, %d);' % (mname, mname, v))
    A.append("    }\n}")
    return "\n".join(A) + "\n"


def from_bytes(t, arr, off):
    jt = JT[t]
    n = gen.PSIZE[t]
    e = "le(%s, %s, %d)" % (arr, off, n)
    if jt == "byte":
        return "(byte)%s" % e
    if jt == "char":
        return "(char)%s" % e
    if jt == "int":
        return "(int)%s" % e
    if jt == "long":
        return e
    if jt == "float":
        return "Float.intBitsToFloat((int)%s)" % e
    return "Double.longBitsToDouble(%s)" % e
