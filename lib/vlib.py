"""vlib: infrastructure shared by all checks (build, hygiene, coq evaluation,
evidence, replays, known findings)."""
import hashlib, json, os, random, re, shutil, subprocess, sys, time
from concurrent.futures import ThreadPoolExecutor

VERIF = os.path.dirname(os.path.dirname(os.path.abspath(__file__)))
REPO = os.environ.get("VERIF_REPO", "/repo")
BUILD = os.path.join(VERIF, "_build")
COQ = os.path.join(VERIF, "coq")
GEN = os.path.join(COQ, "theories", "gen")
NCPU = 16
ENV = dict(os.environ, CARGO_NET_OFFLINE="true", RUST_BACKTRACE="0", LC_ALL="C")
ENV.pop("RUST_LOG", None)

sys.path.insert(0, os.path.join(VERIF, "lib"))


def log(*a):
    print(*a, file=sys.stderr, flush=True)


def run(cmd, timeout=600, cwd=None, env=None, input=None, check=False):
    """returns (rc, stdout, stderr); rc = -9 on timeout"""
    try:
        p = subprocess.run(cmd, cwd=cwd, env=env or ENV, input=input, capture_output=True,
                           timeout=timeout, text=True, errors="replace")
        if check and p.returncode != 0:
            raise RuntimeError("command failed: %s\n%s\n%s" % (cmd, p.stdout[-2000:], p.stderr[-4000:]))
        return p.returncode, p.stdout, p.stderr
    except subprocess.TimeoutExpired as e:
        return -9, (e.stdout or b"").decode("utf8", "replace") if isinstance(e.stdout, bytes) else (e.stdout or ""), "TIMEOUT"


# ------------------------------------------------------------------ repo hash / cache

def repo_hash():
    """hash over the contents of every tracked and untracked (non-ignored) file of the repo"""
    rc, out, _ = run(["git", "-C", REPO, "ls-files", "-co", "--exclude-standard"], timeout=60)
    h = hashlib.sha256()
    for rel in sorted(out.split("\n")):
        if not rel or rel.startswith("target/"):
            continue
        p = os.path.join(REPO, rel)
        try:
            with open(p, "rb") as f:
                h.update(rel.encode() + b"\0" + f.read() + b"\0")
        except (FileNotFoundError, IsADirectoryError):
            pass
    return h.hexdigest()[:16]


# ------------------------------------------------------------------ builds

def harness_dir():
    """generated manifest (repo path substituted) + link to the committed sources"""
    d = os.path.join(BUILD, "harness")
    os.makedirs(d, exist_ok=True)
    with open(os.path.join(VERIF, "harness", "Cargo.toml")) as f:
        man = f.read().replace("/repo/", REPO.rstrip("/") + "/")
    p = os.path.join(d, "Cargo.toml")
    if not os.path.exists(p) or open(p).read() != man:
        open(p, "w").write(man)
    src = os.path.join(d, "src")
    if not os.path.islink(src):
        if os.path.exists(src):
            shutil.rmtree(src)
        os.symlink(os.path.join(VERIF, "harness", "src"), src)
    lock = os.path.join(d, "Cargo.lock")
    shutil.copyfile(os.path.join(REPO, "Cargo.lock"), lock)
    os.makedirs(os.path.join(d, ".cargo"), exist_ok=True)
    open(os.path.join(d, ".cargo", "config.toml"), "w").write("[net]\noffline = true\n")
    return d


def build_harness():
    d = harness_dir()
    tgt = os.path.join(BUILD, "harness-target")
    rc, out, err = run(["cargo", "build", "--offline", "--manifest-path", os.path.join(d, "Cargo.toml")],
                       env=dict(ENV, CARGO_TARGET_DIR=tgt), timeout=1200)
    if rc != 0:
        return None, err[-6000:]
    return os.path.join(tgt, "debug", "vharness"), ""


def build_idlc(profile="debug"):
    tgt = os.path.join(BUILD, "repo-target")
    cmd = ["cargo", "build", "--offline", "--manifest-path", os.path.join(REPO, "Cargo.toml"), "-p", "idlc"]
    if profile == "release":
        cmd.append("--release")
    rc, out, err = run(cmd, env=dict(ENV, CARGO_TARGET_DIR=tgt), timeout=1800)
    if rc != 0:
        return None, err[-6000:]
    return os.path.join(tgt, profile, "idlc"), ""


# ------------------------------------------------------------------ coq

def coq_makefile():
    mk = os.path.join(COQ, "Makefile")
    proj = os.path.join(COQ, "_CoqProject")
    if not os.path.exists(mk) or os.path.getmtime(mk) < os.path.getmtime(proj):
        run(["coq_makefile", "-f", "_CoqProject", "-o", "Makefile"], cwd=COQ, check=True)


def coq_make(targets, timeout=900):
    """make the given .vo targets (full .vo build). returns (ok, log)"""
    coq_makefile()
    rc, out, err = run(["timeout", str(timeout), "make", "-j%d" % NCPU] + targets, cwd=COQ, timeout=timeout + 30)
    return rc == 0, out + "\n" + err


HYGIENE_RE = re.compile(r"\b(Admitted|admit|Axiom|Axioms|Parameter|Parameters|Conjecture|Hypothesis|Variable)\b|"
                        r"Unset\s+Guard|bypass_check|type-in-type|impredicative-set|Admit Obligations")


def strip_comments(src):
    out, depth, i = [], 0, 0
    while i < len(src):
        if src.startswith("(*", i):
            depth += 1; i += 2
        elif src.startswith("*)", i) and depth > 0:
            depth -= 1; i += 2
        else:
            if depth == 0:
                out.append(src[i])
            i += 1
    return "".join(out)


def hygiene():
    """grep the whole development; Variable/Hypothesis are allowed only inside a Section"""
    bad = []
    for root, _, files in os.walk(os.path.join(COQ, "theories")):
        for fn in files:
            if not fn.endswith(".v"):
                continue
            p = os.path.join(root, fn)
            src = strip_comments(open(p).read())
            src = re.sub(r'"(?:[^"]|"")*"', '""', src)
            depth = 0
            for ln, line in enumerate(src.split("\n"), 1):
                if re.match(r"\s*Section\b", line):
                    depth += 1
                if re.match(r"\s*End\b", line) and depth > 0:
                    depth -= 1
                for m in HYGIENE_RE.finditer(line):
                    w = m.group(0)
                    if w in ("Variable", "Hypothesis") and depth > 0:
                        continue
                    bad.append("%s:%d: %s" % (os.path.relpath(p, VERIF), ln, w))
    flags = open(os.path.join(COQ, "_CoqProject")).read()
    for f in ("-type-in-type", "-impredicative-set", "-vos", "-vok"):
        if f in flags:
            bad.append("_CoqProject: " + f)
    return bad


ALLOWED_AXIOMS = set()  # none needed so far; see DESIGN.md section 8


def props_assumptions(prop_file):
    """compile output of Print Assumptions for each theorem of a Props file:
    re-run coqc on it (cheap) and parse"""
    rel = os.path.relpath(prop_file, COQ)
    rc, out, err = run(["coqc", "-R", "theories", "MinkV", "-w", "-notation-overridden,-abstract-large-number", rel],
                       cwd=COQ, timeout=600)
    src = strip_comments(open(prop_file).read())
    names = re.findall(r"Print Assumptions\s+(\w+)\s*\.", src)
    thms = re.findall(r"^\s*(?:Theorem|Lemma|Corollary)\s+(\w+)", src, re.M)
    blocks = re.split(r"(?m)^(?=Closed under the global context|Axioms:)", out)
    blocks = [b for b in blocks if b.strip()]
    res = {}
    ok = rc == 0 and len(blocks) == len(names)
    for nm, b in zip(names, blocks):
        if b.startswith("Closed under the global context"):
            res[nm] = []
        else:
            ax = re.findall(r"^(\S+)\s*:", b, re.M)
            res[nm] = [a for a in ax if a != "Axioms"]
    unprinted = [t for t in thms if t not in names]
    return ok, res, thms, unprinted, (out + err)[-3000:]


def coq_eval(workdir, name, body, timeout=900):
    """write <name>.v with [body] (which must `Redirect "<name>.res"`-print) and run coqc"""
    os.makedirs(workdir, exist_ok=True)
    p = os.path.join(workdir, name + ".v")
    open(p, "w").write(body)
    rc, out, err = run(["coqc", "-noglob", "-R", os.path.join(COQ, "theories"), "MinkV", "-w",
                        "-notation-overridden,-abstract-large-number", p], cwd=workdir, timeout=timeout)
    return rc, out, err


def parse_results(text):
    """`= [(1, [1; 0]); (2, [..])] : list (N * list N)` -> {1: [1,0], ...}"""
    text = re.sub(r"\s+", " ", text)
    res = {}
    for m in re.finditer(r"\(\s*(\d+),\s*\[([0-9; ]*)\]\s*\)", text):
        res[int(m.group(1))] = [int(x) for x in m.group(2).split(";") if x.strip()]
    return res


CASE_HEADER = """From MinkV Require Import Base Syntax Front Obs Checks.
Open Scope string_scope.
Open Scope N_scope.
"""


def eval_cases(workdir, tag, header, case_defs, shard_size=60):
    """case_defs: list of (id:int, defs:str (Definitions), expr:str of type list N).
    Returns ({id: [flags]}, errors)."""
    shards = [case_defs[i:i + shard_size] for i in range(0, len(case_defs), shard_size)]
    results, errors = {}, []

    def do(k_sh):
        k, sh = k_sh
        name = "%s_%03d" % (tag, k)
        body = [CASE_HEADER, header]
        for cid, defs, expr in sh:
            body.append(defs)
        body.append("Definition results : list (N * list N) := [%s]." %
                    "; ".join("(%d, %s)" % (cid, expr) for cid, _, expr in sh))
        body.append('Redirect "%s" Eval vm_compute in results.' % name)
        rc, out, err = coq_eval(workdir, name, "\n".join(body) + "\n")
        if rc != 0:
            return k, None, (err or out)[-3000:]
        try:
            txt = open(os.path.join(workdir, name + ".out")).read()
        except FileNotFoundError:
            return k, None, "no output file"
        got = parse_results(txt)
        if len(got) != len(sh):
            return k, None, "parsed %d results for %d cases" % (len(got), len(sh))
        return k, got, ""

    with ThreadPoolExecutor(max_workers=NCPU) as ex:
        for k, res, err in ex.map(do, list(enumerate(shards))):
            if res is None:
                errors.append("shard %d: %s" % (k, err))
            else:
                results.update(res)
    return results, errors


# ------------------------------------------------------------------ harness output

def parse_harness(text):
    """@case blocks -> {id: {result:..., files:..., mir:..., plans:...}}"""
    cases, cur = {}, None
    for line in text.split("\n"):
        if line.startswith("@case "):
            cur = {"id": line[6:].strip()}
            cases[cur["id"]] = cur
        elif line.startswith("@end"):
            cur = None
        elif cur is not None and line.startswith("@"):
            k, _, v = line[1:].partition(" ")
            cur[k] = v.replace("\x01", "\n").replace("\x02", "\r")
    return cases


# ------------------------------------------------------------------ evidence, replays, findings

def load_known():
    p = os.path.join(VERIF, "known_findings.json")
    if not os.path.exists(p):
        return []
    return json.load(open(p)).get("findings", [])


RUN_INFO = {}


def write_replay(prop, payload):
    if isinstance(payload, dict):
        payload = dict(payload)
        for k_, v_ in RUN_INFO.items():
            payload.setdefault(k_, v_)
    d = os.path.join(VERIF, "replays", prop)
    os.makedirs(d, exist_ok=True)
    s = json.dumps(payload, indent=1, sort_keys=True)
    h = hashlib.sha256(s.encode()).hexdigest()[:12]
    p = os.path.join(d, h + ".json")
    open(p, "w").write(s)
    return os.path.relpath(p, VERIF)


def write_evidence(prop, tier, seed, coverage, wall, violations, assumptions, level="proof"):
    os.makedirs(os.path.join(VERIF, "evidence"), exist_ok=True)
    ev = {"property_id": prop, "tier": tier, "seed": seed, "level": level, "coverage": coverage,
          "assumptions": assumptions, "wall_s": round(wall, 2), "violations": violations}
    open(os.path.join(VERIF, "evidence", prop + ".json"), "w").write(json.dumps(ev, indent=1, sort_keys=True) + "\n")


TRUSTED_BASE = [
    "Coq 8.16.1 kernel (coqc); vm_compute for finite-domain lemmas, witnesses and case evaluation; native_compute not used",
    "no axioms: every property theorem prints 'Closed under the global context'",
    "translator lib/translate.py (regex scrapers over the Rust sources -> coq/theories/gen/CodeFacts.v)",
    "harness crate /verif/harness (drives the repository's public pass API; prints ASTs as Gallina terms and MIR/plan observations as sx values)",
    "python check driver (case generation, text scrapers of emitted C/C++/Rust/Java, assembling cases.v, parsing coqc output)",
    "modelled rather than verified: all of /repo; theorems are about the Gallina model in coq/theories, tied to the code by regenerated facts and differential correspondence on every run",
]


class Rng(random.Random):
    pass


def mkrng(seed, salt):
    return Rng(int(hashlib.sha256(("%d/%s" % (seed, salt)).encode()).hexdigest()[:16], 16))
