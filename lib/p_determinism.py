"""C13 (determinism; independence of location and path spelling): every generated file set is
compiled by all backends repeatedly (fresh hash seeds per process), from different working
directories, after relocation, and with equivalent spellings of the same paths (relative,
absolute, redundant components, through a symbolic link); names and bytes must be identical."""
import hashlib, json, os, shutil
from concurrent.futures import ThreadPoolExecutor
import gen, scrape, vlib

BACKENDS = [("c", False), ("c", True), ("cpp", False), ("cpp", True), ("rust", False), ("java", False)]


def gen_case(rng, k):
    fs, _ = gen.gen_fileset(rng, nfiles=rng.choice([2, 3]), nstructs=rng.randint(3, 5), nifaces=rng.randint(2, 4),
                            allow_obj_struct=(k % 3 != 0))
    if k % 2 == 1:
        # interfaces that name interfaces declared further down in the same file
        gen.add_forward_refs(rng, fs, prob=0.8)
    if k % 3 != 0:
        # structs declared before the structs they contain
        gen.reorder_structs(rng, fs)
    sibling = None
    if k % 2 == 0:
        cands = [f["path"] for f in fs["files"] if f["path"] != fs["main"]]
        sibling = rng.choice(cands) if cands else None
    for f in fs["files"]:
        if f["path"] == sibling:
            f["path"] = "src/" + f["path"]      # found only through the main file's own directory
        elif f["path"] != fs["main"]:
            f["path"] = "inc/" + f["path"]
        else:
            f["path"] = "src/main.idl"
    fs["main"] = "src/main.idl"
    if k % 4 == 3:
        # includes spelled with a directory part (relative to the including file, whatever the
        # working directory holds under the same relative path)
        by = {os.path.basename(f["path"]): f["path"] for f in fs["files"]}
        for f in fs["files"]:
            f["includes"] = [os.path.relpath(by[i], os.path.dirname(f["path"])) if i in by and rng.random() < 0.7 else i for i in f["includes"]]
            f["includes"] = [i if ("/" in i or i not in by or rng.random() < 0.5) else "./" + i for i in f["includes"]]
    return fs


def corpus_cases():
    """file sets in which one declaration depends on many others at once: wherever the compiler
    collects those in a hash table, the order of what it emits shows"""
    M = lambda n, ps: ("method", n, ps, False, None)
    out = []
    leaf = [("struct", "L%d" % i, [("uint32", 1, "x"), ("uint32", 1, "y")]) for i in range(6)]
    mid = [("struct", "Mid%d" % i, [("L%d" % ((2 * i + j) % 6), 1, "m%d" % j) for j in range(3)]) for i in range(3)]
    top = ("struct", "Outer", [("Mid%d" % i, 1, "a%d" % i) for i in range(3)] + [("L%d" % i, 2, "b%d" % i) for i in range(6)])
    user = ("iface", "IUse", None, [M("f", [("in", "Outer", None, "o"), ("out", "Mid1", None, "m")]), M("g", [("in", "L%d" % i, None, "p%d" % i) for i in range(6)])])
    # users first, then the containers, then what they contain
    out.append({"files": [{"path": "src/main.idl", "includes": [], "decls": [user, top] + mid + leaf}], "main": "src/main.idl", "idirs": ["inc"]})
    out.append({"files": [{"path": "src/main.idl", "includes": [], "decls": [top] + list(reversed(leaf)) + mid + [user]}], "main": "src/main.idl", "idirs": ["inc"]})
    # an interface naming many interfaces declared further down, and many included files
    later = [("iface", "ILater%d" % i, None, [M("m", [("in", "uint32", None, "x")])]) for i in range(6)]
    hub = ("iface", "IHub", None, [M("open%d" % i, [("out", "ILater%d" % i, None, "o")]) for i in range(6)] + [M("all", [("in", "ILater%d" % i, None, "p%d" % i) for i in range(6)])])
    out.append({"files": [{"path": "src/main.idl", "includes": [], "decls": [hub] + later}], "main": "src/main.idl", "idirs": ["inc"]})
    incs = [{"path": "inc/part%d.idl" % i, "includes": [], "decls": [("struct", "P%d" % i, [("uint64", 1, "v")]), ("iface", "IPart%d" % i, None, [M("get", [("out", "P%d" % i, None, "v")])])]} for i in range(7)]
    # (two of the files are included twice: the front end accepts that)
    main = {"path": "src/main.idl", "includes": ["part%d.idl" % i for i in (3, 0, 6, 2, 3, 5, 1, 4, 0)],
            "decls": [("struct", "All", [("P%d" % i, 1, "p%d" % i) for i in range(7)]),
                      ("iface", "IAll", "IPart3", [M("every", [("in", "All", None, "a")] + [("in", "IPart%d" % i, None, "q%d" % i) for i in range(7)])])]}
    out.append({"files": [main] + incs, "main": "src/main.idl", "idirs": ["inc"]})
    # the same bare include name in the include directory and next to the main file, with different
    # contents: which one is loaded is a function of the search order, the same in every run
    for tag, a, b in (("small_big", [("uint32", 1, "h")], [("uint64", 1, "h"), ("uint64", 1, "g"), ("uint64", 1, "f")]),
                      ("big_small", [("uint64", 1, "h"), ("uint64", 1, "g"), ("uint64", 1, "f")], [("uint16", 1, "h"), ("uint16", 1, "g")])):
        out.append({"files": [{"path": "src/main.idl", "includes": ["Types.idl", "More.idl"],
                               "decls": [("iface", "IClient", None, [M("open", [("in", "Handle", None, "h"), ("in", "uint32", None, "flags"), ("out", "Extra", None, "e")])])]},
                              {"path": "inc/Types.idl", "includes": [], "decls": [("struct", "Handle", a)]},
                              {"path": "src/Types.idl", "includes": [], "decls": [("struct", "Handle", b)]},
                              {"path": "inc/More.idl", "includes": ["Types.idl"], "decls": [("struct", "Extra", [("Handle", 2, "hs")])]},
                              {"path": "src/More.idl", "includes": [], "decls": [("struct", "Extra", [("uint8", 3, "pad")])]}],
                    "main": "src/main.idl", "idirs": ["inc"]})
    return out


def snapshot(outdir):
    snap = {}
    for root, _, files in os.walk(outdir):
        for fn in files:
            p = os.path.join(root, fn)
            snap[os.path.relpath(p, outdir)] = hashlib.sha256(open(p, "rb").read()).hexdigest()
    return snap


def compile_all(idlc, main_arg, idir_arg, cwd, outdir, stale=None, env=None):
    """returns {backend: (rc, snapshot)}; stale = {backend: {file: text}}: files that already exist
    at the output location, longer than anything generated (outputs depend on the inputs only)"""
    res = {}
    for lang, skel in BACKENDS:
        tag = lang + ("_skel" if skel else "")
        od = os.path.join(outdir, tag)
        shutil.rmtree(od, ignore_errors=True)
        os.makedirs(od)
        for fn in ((stale or {}).get(tag) or {}):
            with open(os.path.join(od, fn), "w") as fh:
                fh.write("// stale line left by an earlier, longer revision of this file\n" * 4000)
        o = od if lang in ("rust", "java") else os.path.join(od, "out.h")
        r = scrape.idlc_run(idlc, main_arg, o, lang, skel, idirs=[idir_arg], cwd=cwd, env=env)
        res[tag] = (r[0], snapshot(od), r[2][-200:])
    return res


def run(ctx):
    prop, tier, seed, work = ctx["prop"], ctx["tier"], ctx["seed"], ctx["work"]
    n = 24 if tier == "quick" else 600
    reps = 2 if tier == "quick" else 6
    cases = []
    if ctx.get("replay"):
        cases.append(json.load(open(ctx["replay"]))["fileset"])
    else:
        rng = vlib.mkrng(seed, prop)
        cases += corpus_cases()
        for k in range(n):
            cases.append(gen_case(rng, k))
    res = {"coverage": {}, "failures": [], "corr_broken": []}

    def one(k):
        fs = cases[k]
        root = os.path.realpath(os.path.join(work, "cases", str(k), "tree"))
        gen.write_fileset(fs, root)
        outs = os.path.join(work, "cases", str(k), "outs")
        variants = []
        A = lambda *p: os.path.join(root, *p)
        variants.append(("reference", A("src/main.idl"), A("inc"), root))
        for r in range(reps):
            variants.append(("rerun%d" % r, A("src/main.idl"), A("inc"), root))
        variants.append(("relative-from-root", "src/main.idl", "inc", root))
        variants.append(("relative-from-src", "main.idl", "../inc", A("src")))
        variants.append(("dot-slash", "./src/main.idl", "./inc", root))
        variants.append(("redundant", A("src/../src/./main.idl"), A("inc/../inc"), root))
        other = os.path.join(work, "cases", str(k), "elsewhere")
        os.makedirs(other, exist_ok=True)
        variants.append(("other-cwd", A("src/main.idl"), A("inc"), other))
        # a working directory that holds decoys under the relative paths the includes are spelled with
        decoy_cwd = os.path.join(work, "cases", str(k), "decoys", "cwd")
        os.makedirs(decoy_cwd, exist_ok=True)
        for f in fs["files"]:
            for i in f["includes"]:
                if "/" in i:
                    dp = os.path.normpath(os.path.join(decoy_cwd, i))
                    if dp.startswith(os.path.join(work, "cases", str(k), "decoys")):
                        os.makedirs(os.path.dirname(dp), exist_ok=True)
                        open(dp, "w").write("struct Decoy { uint64 not_the_file_you_meant; };\nthis is not IDL {{{\n")
        variants.append(("decoy-cwd", A("src/main.idl"), A("inc"), decoy_cwd))
        link = os.path.join(work, "cases", str(k), "link")
        if not os.path.islink(link):
            os.symlink(root, link)
        variants.append(("symlink", os.path.join(link, "src/main.idl"), os.path.join(link, "inc"), other))
        # an -I spelling that goes through a symbolic link and then "..": the parent of a link is the
        # parent of what it points to (the directory the link itself sits in holds decoys)
        anchor = A("inc", "zz_anchor")
        os.makedirs(anchor, exist_ok=True)
        lnkdir = os.path.join(work, "cases", str(k), "linkhome")
        os.makedirs(lnkdir, exist_ok=True)
        for f in fs["files"]:
            if f["path"].startswith("inc/"):
                open(os.path.join(lnkdir, os.path.basename(f["path"])), "w").write("struct Decoy { uint64 not_the_file_you_meant; };\nthis is not IDL {{{\n")
        lnk = os.path.join(lnkdir, "lnk")
        if not os.path.islink(lnk):
            os.symlink(anchor, lnk)
        variants.append(("symlink-then-dotdot", A("src/main.idl"), os.path.join(lnk, ".."), other))
        variants.append(("symlink-then-dotdot-relative", A("src/main.idl"), os.path.join("lnk", ".."), lnkdir))
        # the main file reached through a symbolic link that lives in another directory: plain
        # includes resolve against the real file's directory, whatever that other directory holds
        for vname, decoy in (("file-symlink-elsewhere", False), ("file-symlink-decoy", True)):
            st = os.path.join(work, "cases", str(k), "staging_" + vname)
            shutil.rmtree(st, ignore_errors=True)
            os.makedirs(st)
            os.symlink(A("src/main.idl"), os.path.join(st, "main.idl"))
            if decoy:
                for f in fs["files"]:
                    if f["path"].startswith("src/") and f["path"] != "src/main.idl":
                        open(os.path.join(st, os.path.basename(f["path"])), "w").write("this is not IDL {{{\n")
            variants.append((vname, os.path.join(st, "main.idl"), A("inc"), other))
        moved = os.path.realpath(os.path.join(work, "cases", str(k), "moved", "deep", "er"))
        shutil.rmtree(moved, ignore_errors=True)
        shutil.copytree(root, moved)
        variants.append(("relocated", os.path.join(moved, "src/main.idl"), os.path.join(moved, "inc"), moved))
        # the same tree under directories whose names contain dots and a hidden directory
        dotted = os.path.realpath(os.path.join(work, "cases", str(k), "moved.v2", ".cache", "proj.1.0"))
        shutil.rmtree(dotted, ignore_errors=True)
        shutil.copytree(root, dotted)
        variants.append(("relocated-dotted", os.path.join(dotted, "src/main.idl"), os.path.join(dotted, "inc"), dotted))
        variants.append(("stale-outputs", A("src/main.idl"), A("inc"), root))
        # another user, home directory, locale, time zone and log level: nothing of the environment reaches the output
        variants.append(("other-environment", A("src/main.idl"), A("inc"), root))
        other_env = dict(vlib.ENV, HOME="/nonexistent-home", USER="someone-else", LOGNAME="someone-else", LANG="de_DE.UTF-8", LC_ALL="tr_TR.UTF-8",
                         TZ="Pacific/Kiritimati", RUST_LOG="trace", RUST_BACKTRACE="0", SOURCE_DATE_EPOCH="86400", TMPDIR=other, PWD="/somewhere/else",
                         COLUMNS="40", NO_COLOR="1", HOSTNAME="another-host")
        ref, diffs, nruns = None, [], 0
        for name, m, i, cwd in variants:
            stale = {tag: {fn: "" for fn in ref[tag][1]} for tag in ref} if (name == "stale-outputs" and ref) else None
            r = compile_all(ctx["idlc"], m, i, cwd, os.path.join(outs, name), stale=stale, env=(other_env if name == "other-environment" else None))
            nruns += len(r)
            if ref is None:
                ref = r
                continue
            for tag in r:
                if r[tag][0] != ref[tag][0]:
                    diffs.append({"variant": name, "backend": tag, "what": "exit status %s vs %s" % (r[tag][0], ref[tag][0]), "diag": r[tag][2]})
                elif r[tag][1] != ref[tag][1]:
                    names = sorted(set(r[tag][1]) ^ set(ref[tag][1]))
                    changed = sorted(x for x in r[tag][1] if x in ref[tag][1] and r[tag][1][x] != ref[tag][1][x])
                    diffs.append({"variant": name, "backend": tag, "what": "outputs differ", "names_only_in_one": names, "bytes_differ": changed})
        accepted = sum(1 for tag in ref if ref[tag][0] == 0)
        return k, (diffs, nruns, accepted, len(variants))

    with ThreadPoolExecutor(max_workers=vlib.NCPU) as ex:
        results = dict(ex.map(one, range(len(cases))))
    distinct, total_runs, nvar = 0, 0, 0
    for k, (diffs, nruns, accepted, nv) in results.items():
        total_runs += nruns
        nvar = nv
        if accepted >= 4:
            distinct += 1
        if diffs:
            res["failures"].append({"property": prop, "fileset": cases[k], "differences": diffs[:6],
                                    "text": {f["path"]: gen.render_file(f) for f in cases[k]["files"]},
                                    "what": "outputs depend on the run, the location or the spelling: %s" % diffs[0]})
    res["coverage"] = {
        "evaluations": total_runs, "distinct_nontrivial": distinct,
        "rule": "file sets with 2-3 files (included files under inc/ reached through -I), 3-5 structs and 2-4 interfaces per file; "
                "%d variants per case (reference, reruns with fresh hash seeds, relative spellings, ./, redundant components, other cwd, "
                "symlinked tree, symlinked main file in another directory with and without a decoy include, relocated copy, relocated copy under dotted / hidden directory names) x 6 backend/role outputs; non-trivial = at least 4 of the 6 outputs accepted" % nvar,
        "samples": [{"idl": {f["path"]: gen.render_file(f) for f in cases[0]["files"]}}] if cases else [],
        "cases": len(cases), "variants_per_case": nvar,
    }
    return res
