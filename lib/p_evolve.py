"""C15 (append-only evolution): revision pairs through the real compiler; op-codes, error
values and plans of old members compared at L0 (Coq-evaluated), generated fragments of old
methods compared byte-for-byte at L1."""
import copy, hashlib, json, os, re
from concurrent.futures import ThreadPoolExecutor
import gen, scrape, vlib
from p_numbering import top_ifaces, chain_names, scrape_tables


def all_ifaces(fs):
    return {d[1]: d for f in fs["files"] for d in f["decls"] if d[0] == "iface"}


def make_revision(rng, fs):
    """append members to exactly one interface X and add declarations at file level"""
    B = copy.deepcopy(fs)
    ctx = gen.Ctx(rng)
    ctx.n = 10000
    files = B["files"]
    # visible symbols for new members: keep it simple and valid — primitives, buffers, untyped objects
    cands = [(fi, di) for fi, f in enumerate(files) for di, d in enumerate(f["decls"]) if d[0] == "iface"]
    fi, di = rng.choice(cands)
    kind, name, base, members = files[fi]["decls"][di]
    new_members = []
    for _ in range(rng.randint(1, 3)):
        r = rng.random()
        if r < 0.6:
            new_members.append(("method", ctx.fresh("n"), gen.gen_params(ctx, nmax=5), rng.random() < 0.2, None))
        elif r < 0.85:
            olde = [m[1] for m in members if m[0] == "error" and m[1].lower() != m[1]]
            taken = {m[1] for m in members + new_members if m[0] == "error"}
            if olde and rng.random() < 0.35 and rng.choice(olde).lower() not in taken:
                # a new error that differs from an old one of the same interface only in letter case
                cand = [e.lower() for e in olde if e.lower() not in taken]
                new_members.append(("error", rng.choice(cand)))
            else:
                new_members.append(("error", ctx.fresh("NE")))
        else:
            p = rng.choice(gen.PRIMS)
            new_members.append(("const", p, ctx.fresh("NK"), gen.rand_literal(rng, p)))
    files[fi]["decls"][di] = (kind, name, base, members + new_members)
    # file-level additions anywhere
    for _ in range(rng.randint(0, 3)):
        f = rng.choice(files)
        r = rng.random()
        if r < 0.4:
            ctx.structs = {}
            d = gen.gen_struct(ctx, ctx.fresh("NS"), allow_obj=False)
        elif r < 0.7:
            p = rng.choice(gen.PRIMS)
            d = ("const", p, ctx.fresh("NC"), gen.rand_literal(rng, p))
        else:
            # a new, unrelated interface; its method may be called like a method of an existing
            # interface (names are per interface) with a different parameter list
            olds = [m[1] for ff in files for dd in ff["decls"] if dd[0] == "iface" for m in dd[3] if m[0] == "method"]
            mname = rng.choice(olds) if olds and rng.random() < 0.6 else ctx.fresh("n")
            d = ("iface", ctx.fresh("NI"), None, [("method", mname, gen.gen_params(gen.Ctx(rng), nmax=4, allow_obj_struct=False), False, None)])
        f["decls"].insert(rng.randint(0, len(f["decls"])), d)
    return B, name, [m for m in new_members]


def directed_pairs():
    """revisions whose appended members are named almost like old ones: very long names that agree
    in a long prefix, names that extend or shorten an old name, names that differ in case"""
    M = lambda n, ps=(): ("method", n, list(ps), False, None)
    P = [("in", "uint32", None, "x"), ("out", "uint32", None, "y")]
    out = []
    long_m = "provision_device_attestation_certificate_chain_for_the_trusted_application_"
    fams = [
        ("IKeyProvisioningService", [M(long_m + "ecdsa", P), ("error", "E_" + long_m.upper() + "ECDSA"), ("const", "uint32", "K_" + long_m + "ecdsa", "1"), M("close")],
         [M(long_m + "rsa", P[:1]), M(long_m + "ecdsa_v2"), ("error", "E_" + long_m.upper() + "RSA"), ("const", "uint32", "K_" + long_m + "rsa", "2")]),
        # appended constants named like the op-code macros of old methods (and one that is not)
        ("IKv", [M("put", P), M("get", P), M("erase", P[:1])],
         [("const", "uint32", "OP_put", "2"), ("const", "uint32", "OP_get", "1"), ("const", "uint32", "OP_erase", "0"), ("const", "uint32", "OP_other", "7"), M("last_operation", P[1:])]),
        ("IStore", [M("get", P), M("get_value", P), M("put", P[:1]), ("error", "FULL"), ("error", "FULL_DISK")],
         [M("get_", P[:1]), M("ge"), M("get_value2", P), M("put_", P), M("Get", P[:1]), ("error", "FUL"), ("error", "FULL_"), ("error", "Full")]),
    ]
    for name, old, new in fams:
        for derived in (False, True):
            declsA = [("iface", name, None, old)]
            declsB = [("iface", name, None, old + new)]
            if derived:
                # the members are appended to the base of a derived interface: the derived interface's own
                # members move, the base's stay
                declsA = [("iface", name, None, old), ("iface", name + "Ext", name, [M("ext_only", P)])]
                declsB = [("iface", name, None, old), ("iface", name + "Ext", name, [M("ext_only", P)] + new)]
            A = {"files": [{"path": "main.idl", "includes": [], "decls": declsA}], "main": "main.idl", "idirs": []}
            B = {"files": [{"path": "main.idl", "includes": [], "decls": declsB}], "main": "main.idl", "idirs": []}
            out.append((A, B, name + "Ext" if derived else name, new))
    return out


def stable_rows(A, X):
    """(D, member) pairs whose numbers the property promises to keep: member defined in Y,
    Y in chain(D), X not a proper ancestor of Y"""
    allif = all_ifaces(A)
    ms, es = [], []
    for D in top_ifaces(A):
        ch = chain_names(A, D)            # D first, root last
        for idx, Y in enumerate(ch):
            proper_anc_of_Y = ch[idx + 1:]
            if X in proper_anc_of_Y:
                continue
            for m in allif[Y][3]:
                if m[0] == "method":
                    ms.append((D, m[1]))
                elif m[0] == "error":
                    es.append((D, m[1]))
    return ms, es


def fragments(root, fs):
    """{(label, D, method): text}"""
    tops = top_ifaces(fs)
    od = os.path.join(root, "out")
    mstem = os.path.splitext(os.path.basename(fs["main"]))[0]
    out = {}
    ctext = scrape.rd(os.path.join(od, "c", mstem + ".h"))
    for D in tops:
        for m, (params, body) in scrape.c_functions(ctext, D).items():
            out[("c-stub", D, m)] = params + "\n" + body
        for label, body in scrape.c_skel_blocks(scrape.rd(os.path.join(od, "c", mstem + "_invoke.h")), D):
            mm = re.search(r"prefix##(\w+)\(me", body)
            if mm:
                # a case block ends where the next one starts; cut the trailing dispatch epilogue
                # the case block ends at the closing brace on the case's own indentation level
                out[("c-skel", D, mm.group(1))] = label + re.split(r"\n {12}\}", body)[0]
    cpp = scrape.rd(os.path.join(od, "cpp", mstem + ".hpp"))
    for D in tops:
        m = re.search(r"\nclass %s : public I%s, public ProxyBase \{(.*?)\n\};" % (re.escape(D), re.escape(D)), cpp, re.S)
        if m:
            for mm in re.finditer(r"virtual int32_t (\w+)\(([^\n]*)\) \{\n(.*?)\n    \}", m.group(1), re.S):
                out[("cpp-stub", D, mm.group(1))] = mm.group(2) + "\n" + mm.group(3)
    rs = os.path.join(od, "rust")
    for D in tops:
        for Y in chain_names(fs, D):
            txt = scrape.rd(scrape.rust_file_for(rs, Y))
            m = re.search(r"\nimpl %s \{(.*?)\n\}\n" % re.escape(Y), txt, re.S)
            if m:
                for mm in re.finditer(r"pub fn (r#\w+|\w+)\((.*?)\n    \}", m.group(1), re.S):
                    out[("rust-stub", D, scrape.unraw(mm.group(1)))] = mm.group(2)
        txt = scrape.rd(scrape.rust_file_for(rs, D))
        m = re.search(r"unsafe extern \"C\" fn invoke\((.*?)\n\}\n", txt, re.S)
        if m:
            parts = re.split(r"\n        (\d+) => \{", m.group(1))
            for k in range(1, len(parts), 2):
                body = parts[k + 1].split("\n        crate::object::OP_RELEASE")[0]
                call = re.search(r"\|mut cx\|\s*\{?\s*cx\s*\.\s*(r#\w+|\w+)\(", body)
                if call:
                    out[("rust-skel", D, scrape.unraw(call.group(1)))] = parts[k] + body
    return out


def glist(pairs):
    return "[%s]" % "; ".join('("%s", "%s")' % p for p in pairs)


def run(ctx):
    prop, tier, seed, work = ctx["prop"], ctx["tier"], ctx["seed"], ctx["work"]
    n = 80 if tier == "quick" else 1500
    pairs = []
    if ctx.get("replay"):
        rp = json.load(open(ctx["replay"]))
        pairs.append((rp["A"], rp["B"], rp["X"], rp["new"]))
    else:
        rng = vlib.mkrng(seed, prop)
        pairs += directed_pairs()
        while len(pairs) < n:
            A, _ = gen.gen_fileset(rng, allow_obj_struct=False)
            if not all_ifaces(A):
                continue
            if len(pairs) % 6 == 5:
                # a large interface with interleaved member kinds (sorting or grouping members is
                # only visible beyond small sizes)
                cands = [(f, di) for f in A["files"] for di, d in enumerate(f["decls"]) if d[0] == "iface"]
                f, di = rng.choice(cands)
                kind, name, base, members = f["decls"][di]
                extra = []
                for j in range(rng.randint(30, 45)):
                    r = rng.random()
                    if r < 0.6:
                        extra.append(("method", "big_m%d_%d" % (len(pairs), j), [("in", "uint32", None, "x")] if j % 2 else [], False, None))
                    elif r < 0.85:
                        extra.append(("error", "BIG_E%d_%d" % (len(pairs), j)))
                    else:
                        extra.append(("const", "uint32", "BIG_K%d_%d" % (len(pairs), j), str(j)))
                f["decls"][di] = (kind, name, base, list(members) + extra)
            B, X, new = make_revision(rng, A)
            pairs.append((A, B, X, new))
    res = {"coverage": {}, "failures": [], "corr_broken": []}
    if not ctx["harness"] or not ctx["checks_vo"]:
        res["coverage"] = {"evaluations": 0, "distinct_nontrivial": 0, "rule": "not run", "samples": []}
        return res
    lines = []
    for k, (A, B, X, new) in enumerate(pairs):
        for tag, fs in (("A", A), ("B", B)):
            mainp = gen.write_fileset(fs, os.path.join(work, "cases", "%d%s" % (k, tag)))
            lines.append("%d%s\tcli\t-\t%s\t" % (k, tag, mainp))
    cf = os.path.join(work, "cases.txt")
    open(cf, "w").write("\n".join(lines) + "\n")
    rc, out, err = vlib.run([ctx["harness"], "front", cf, "--plans"], timeout=900)
    hres = vlib.parse_harness(out)

    def emit(kt):
        k, tag = kt
        fs = pairs[k][0] if tag == "A" else pairs[k][1]
        root = os.path.join(work, "cases", "%d%s" % (k, tag))
        return kt, scrape.emit_all(ctx["idlc"], root, [f["path"] for f in fs["files"]], fs["main"], langs=("c", "cpp", "rust"))

    with ThreadPoolExecutor(max_workers=vlib.NCPU) as ex:
        emitted = dict(ex.map(emit, [(k, t) for k in range(len(pairs)) for t in "AB"]))
    defs, meta = [], {}
    for k, (A, B, X, new) in enumerate(pairs):
        ha, hb = hres.get("%dA" % k), hres.get("%dB" % k)
        if not ha or not hb or "files" not in ha or "files" not in hb:
            continue
        if ha["result"] != "ok":
            continue
        if hb["result"] != "ok":
            res["failures"].append({"property": prop, "A": A, "B": B, "X": X, "new": new,
                                    "what": "the appended revision is rejected: " + hb["result"]})
            continue
        ms, es = stable_rows(A, X)
        newm = [(X, m[1]) for m in new if m[0] == "method"] if X in top_ifaces(A) else []
        fa = fragments(os.path.join(work, "cases", "%dA" % k), A)
        fb = fragments(os.path.join(work, "cases", "%dB" % k), B)
        stable = set(ms)
        fdiff = [key for key, txt in fa.items() if (key[1], key[2]) in stable and fb.get(key) != txt]
        # the error constants every backend prints for the stable (interface, error) pairs: each value
        # an old name had must still be a value of that name (names compared without letter case: the
        # Rust backend upper-cases them)
        ediff = []
        try:
            ta = dict(scrape_tables(os.path.join(work, "cases", "%dA" % k), A, emitted[(k, "A")], "errs_raw"))
            tb = dict(scrape_tables(os.path.join(work, "cases", "%dB" % k), B, emitted[(k, "B")], "errs_raw"))
            for lab in ta:
                ra, rb = dict(ta[lab]), dict(tb.get(lab, []))
                for (D, e) in es:
                    va = {v for n, v in ra.get(D, []) if n.lower() == e.lower()}
                    vb = {v for n, v in rb.get(D, []) if n.lower() == e.lower()}
                    if va and not va <= vb:
                        ediff.append((lab, D, e, sorted(va), sorted(vb)))
            # ... and the op-code every backend's stub and skeleton uses for a pre-existing method
            # (resolved to its number: a macro that is redefined or renamed changes it silently)
            oa = dict(scrape_tables(os.path.join(work, "cases", "%dA" % k), A, emitted[(k, "A")], "ops"))
            ob = dict(scrape_tables(os.path.join(work, "cases", "%dB" % k), B, emitted[(k, "B")], "ops"))
            for lab in oa:
                ra, rb = dict(oa[lab]), dict(ob.get(lab, []))
                for (D, mth) in ms:
                    va = {v for n, v in ra.get(D, []) if n == mth}
                    vb = {v for n, v in rb.get(D, []) if n == mth}
                    if va and va != vb:
                        ediff.append((lab, D, mth, sorted(va, key=str), sorted(vb, key=str)))
        except Exception as ex:
            res["corr_broken"].append({"kind": "scraper", "detail": "error tables of pair %d could not be scraped: %r" % (k, ex)})
            ediff = []
        meta[k] = {"frag_checked": sum(1 for key in fa if (key[1], key[2]) in stable), "fdiff": fdiff, "nstable": len(ms), "ediff": ediff}
        d = ""
        for tag, h in (("a", ha), ("b", hb)):
            d += "Definition f%s_%d : list ast := %s.\nDefinition o%s_%d : sx := SL [SA 1; %s].\nDefinition p%s_%d : sx := %s.\n" % (
                tag, k, h["files"], tag, k, h["mir"], tag, k, h.get("plans", "SL []"))
        defs.append((k, d, "chk_c15 fa_%d fb_%d oa_%d ob_%d pa_%d pb_%d %s %s %s" % (k, k, k, k, k, k, glist(ms), glist(es), glist(newm))))
    results, errors = vlib.eval_cases(os.path.join(work, "coq"), "cases", "", defs, shard_size=20)
    for e in errors:
        res["corr_broken"].append({"kind": "case-evaluation", "detail": e})
    distinct, nfrag = 0, 0
    for k, d, _ in defs:
        fl = results.get(k)
        if fl is None:
            continue
        A, B, X, new = pairs[k]
        payload = {"property": prop, "A": A, "B": B, "X": X, "new": new, "flags": fl,
                   "textA": {f["path"]: gen.render_file(f) for f in A["files"]},
                   "textB": {f["path"]: gen.render_file(f) for f in B["files"]},
                   "flags_meaning": "[model=impl A; model=impl B; plans agree A; plans agree B; #stable methods changed; #stable errors changed; #new methods reusing an old op-code]"}
        if 0 in fl[:4]:
            res["corr_broken"].append({"kind": "correspondence", "detail": "model vs implementation disagree on revision pair %d (flags %s)" % (k, fl), "case": payload})
        if fl[4] or fl[5]:
            res["failures"].append(dict(payload, what="a pre-existing member changed its number or plan after an append-only revision"))
        if fl[6]:
            res["failures"].append(dict(payload, what="an appended method reuses an op-code the old revision dispatches"))
        if meta[k].get("ediff"):
            res["failures"].append(dict(payload, what="the number a backend uses for a pre-existing error or method changed: %s" % meta[k]["ediff"][:4]))
        if meta[k]["fdiff"]:
            res["failures"].append(dict(payload, what="generated fragment of a pre-existing method changed: %s" % meta[k]["fdiff"][:4]))
        nfrag += meta[k]["frag_checked"]
        if meta[k]["nstable"] >= 2:
            distinct += 1
    sample = []
    for k in list(results)[:2]:
        A, B, X, new = pairs[k]
        sample.append({"X": X, "appended": [list(m[:2]) for m in new], "flags": results[k],
                       "B": {f["path"]: gen.render_file(f) for f in B["files"]}})
    res["coverage"] = {
        "evaluations": len(results), "distinct_nontrivial": distinct,
        "rule": "revision pairs: a generated valid file set A and B = A with 1-3 members appended to one interface X and 0-3 declarations "
                "inserted at file level; non-trivial = at least two pre-existing numbered members are promised stable",
        "samples": sample, "fragments_compared": nfrag,
        "layers": {"L0_pairs": len(results), "L1_fragments": nfrag},
    }
    return res
