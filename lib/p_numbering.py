"""C07 (op-codes) and C08 (error codes): L0 model-vs-implementation on the MIR,
Spec on the implementation's observation, L1 tables scraped from all four backends."""
import hashlib, json, os, re
from concurrent.futures import ThreadPoolExecutor
import gen, scrape, vlib
from vlib import log


def gen_case(rng, k):
    """hierarchy-focused file sets"""
    r = rng.random()
    if r < 0.15:
        # deep single chain
        ctx = gen.Ctx(rng)
        depth = rng.randint(2, 7)
        decls = []
        prev = None
        for d in range(depth):
            name = ctx.fresh("I")
            decls.append(gen.gen_iface(ctx, name, prev, nmembers=rng.randint(0, 6)))
            prev = name
            if rng.random() < 0.3:
                decls.append(gen.gen_struct(ctx, ctx.fresh("S")))
        return {"files": [{"path": "main.idl", "includes": [], "decls": decls}], "main": "main.idl", "idirs": []}
    fs, _ = gen.gen_fileset(rng, depth=1)
    return fs


def corpus_cases(which):
    """boundary cases run first: the op-code bound over whole hierarchies, and names re-declared
    at a distance along the inheritance chain"""
    out = []
    def fs1(decls, big=False):
        d = {"files": [{"path": "main.idl", "includes": [], "decls": decls}], "main": "main.idl", "idirs": []}
        if big:
            d["big"] = True
        return d
    def meths(prefix, n):
        return [("method", "%s%d" % (prefix, i), [], False, None) for i in range(n)]
    if which == "ops":
        # 0x3FFF is the last op-code: 16384 methods fit, 16385 do not - in one interface or
        # summed over a chain (any split)
        for split in ([16384], [16385], [16384, 1], [16383, 1], [10000, 6384], [10000, 6385], [1, 16384], [8000, 8000, 384], [8000, 8000, 385]):
            decls, prev = [], None
            for lvl, n in enumerate(split):
                decls.append(("iface", "IB%d" % lvl, prev, meths("m%d_" % lvl, n)))
                prev = "IB%d" % lvl
            out.append(fs1(decls, big=True))
    # the same error / constant / method names in unrelated interfaces and in siblings of one base, at
    # different positions: numbers are per flattened interface, never per name across the file
    E = lambda n: ("error", n)
    M = lambda n: ("method", n, [], False, None)
    out.append(fs1([("iface", "IBase", None, [E("INVALID"), M("open")]), ("iface", "ILogger", None, [E("NOISE"), E("INVALID"), M("open"), M("log")]),
                    ("iface", "IClient", "IBase", [E("BUSY"), E("DENIED"), M("send")]), ("iface", "IOther", "IBase", [M("send"), E("DENIED"), E("BUSY")])]))
    out.append(fs1([("iface", "IFoo", None, [E("X"), E("Y"), M("a"), M("b")]), ("iface", "IBar", None, [M("b"), E("Y"), M("a"), E("X")]),
                    ("iface", "IBaz", "IBar", [E("Z"), M("c")]), ("iface", "IQux", "IFoo", [M("c"), E("Z")])]))
    # names that differ only in letter case (one backend upper-cases error names): every spelling keeps
    # its own number in every backend; within one interface, along a chain, with methods in between
    out.append(fs1([("iface", "IDoor", None, [E("Busy"), M("open"), E("OTHER"), E("BUSY"), E("busy"), M("Open")])]))
    out.append(fs1([("iface", "IBase", None, [E("Busy"), E("Closed"), M("open")]), ("iface", "IDoor", "IBase", [E("BUSY"), M("close"), E("CLOSED"), E("closed")]),
                    ("iface", "IGate", "IDoor", [E("bUSY"), E("Late")])]))
    out.append(fs1([("iface", "ICase", None, [M("get"), M("Get"), M("GET"), E("Ab"), E("aB"), E("AB"), E("ab")])]))
    # methods called like the operations every object has (retain, release) and like other generated
    # names, followed by further methods and by derived interfaces: each is a method with its own number
    out.append(fs1([("iface", "ISession", None, [M("open"), M("release"), M("read"), M("retain"), M("close")]),
                    ("iface", "ISecure", "ISession", [M("attest"), M("invoke"), M("rekey")]),
                    ("iface", "ITop", "ISecure", [M("last")])]))
    # one interface declared twice with different members, in two files of the same name in different
    # directories, both reached: there is no single numbering of it - the file set is refused
    for order in (["common/IBase.idl", "mid.idl"], ["mid.idl", "common/IBase.idl"]):
        out.append({"files": [{"path": "main.idl", "includes": order, "decls": [("iface", "IApp", "IBase", [E("APP_FAIL"), M("run")])]},
                              {"path": "mid.idl", "includes": ["vendor/IBase.idl"], "decls": [("const", "uint32", "MID", "3")]},
                              {"path": "common/IBase.idl", "includes": [], "decls": [("iface", "IBase", None, [E("NOT_FOUND"), E("BUSY"), M("ping"), M("pong")])]},
                              {"path": "vendor/IBase.idl", "includes": [], "decls": [("iface", "IBase", None, [E("NOT_FOUND"), E("DENIED"), E("BUSY"), M("early"), M("ping"), M("pong")])]}],
                    "main": "main.idl", "idirs": [], "must_reject": "the same interface is declared twice with different members"})
    # a name of a non-immediate ancestor declared again (method, error, constant), distance 2..4
    for dist in (2, 3, 4):
        for kind in ("method", "error", "const"):
            def member(nm):
                return {"method": ("method", nm, [], False, None), "error": ("error", nm), "const": ("const", "uint32", nm, "7")}[kind]
            decls, prev = [], None
            for lvl in range(dist + 1):
                ms = [("method", "own%d" % lvl, [], False, None), ("error", "E_OWN%d" % lvl)]
                if lvl == 0 or lvl == dist:
                    ms.append(member("SHARED"))
                decls.append(("iface", "IC%d" % lvl, prev, ms))
                prev = "IC%d" % lvl
            out.append(fs1(decls))
    return out


def top_ifaces(fs):
    main = [f for f in fs["files"] if f["path"] == fs["main"]][0]
    return [d[1] for d in main["decls"] if d[0] == "iface"]


def chain_names(fs, iface):
    allif = {d[1]: d for f in fs["files"] for d in f["decls"] if d[0] == "iface"}
    out, cur, n = [], iface, 0
    while cur is not None and cur in allif and n < 100:
        out.append(cur)
        cur = allif[cur][2]
        n += 1
    return out


def gallina_table(rows, zscope=False):
    def val(v):
        if v is None:
            return "999999"
        return ("(%d)" % v) if v < 0 else str(v)
    items = []
    for iface, lst in rows:
        inner = "; ".join('("%s", %s%s)' % (m, val(v), "%Z" if zscope else "") for m, v in lst)
        items.append('("%s", [%s])' % (iface, inner))
    return "[%s]" % "; ".join(items)


def unfold_case(got, ifaces, fs):
    """Rust and Java upper-case error names.  got: emitted (NAME, value) rows; ifaces: the interfaces
    whose errors the rows cover, root first.  The rows called N, by ascending value, are given the
    IDL spellings of the declared errors that upper-case to N, in declaration order (the order in which
    values ascend); with a row missing, extra or renumbered some spelling ends up with a value the
    MIR does not give it (or with no row)."""
    allif = {d[1]: d for f in fs["files"] for d in f["decls"] if d[0] == "iface"}
    decl = {}
    for c in ifaces:
        for m in (allif[c][3] if c in allif else []):
            if m[0] == "error":
                decl.setdefault(m[1].upper(), []).append(m[1])
    if all(len(v) == 1 and v[0] == k for k, v in decl.items()):
        return got
    byn = {}
    for n, v in got:
        byn.setdefault(n, []).append(v)
    out = []
    for n, vs in byn.items():
        names = decl.get(n, [])
        for k, v in enumerate(sorted(vs)):
            out.append((names[k] if k < len(names) else n, v))
    return out


def scrape_tables(root, fs, emitted, which):
    """-> list of (label, table rows [(iface, [(name, value)])]) for the main file's interfaces"""
    tops = top_ifaces(fs)
    out = []
    java_ok = all(emitted[f["path"]].get(("java", "both"), (1,))[0] == 0 for f in fs["files"])
    od = os.path.join(root, "out")
    stems = [os.path.splitext(os.path.basename(f["path"]))[0] for f in fs["files"]]
    mstem = os.path.splitext(os.path.basename(fs["main"]))[0]
    c_texts = [scrape.rd(os.path.join(od, "c", s + ".h")) for s in stems]
    defs = scrape.c_defines(c_texts)
    # ... as the preprocessor resolves them (what a compiled stub really sends: a redefinition replaces,
    # an #ifndef-guarded definition yields); the textual reading (a name defined twice with different bodies
    # is a conflict) is the fallback when the preprocessor cannot be run on the header
    pp = scrape.c_defines_pp(os.path.join(od, "c", mstem + ".h"), [os.path.join(scrape.vlib_tests(), "c"), os.path.join(od, "c")])
    if pp is not None:
        for name_ in list(defs):
            if name_ in pp:
                defs[name_] = pp[name_]
    main_c = scrape.rd(os.path.join(od, "c", mstem + ".h"))
    if which == "ops":
        t, _ = scrape.c_stub_ops(main_c, defs, tops)
        out.append(("c-stub", [(i, t.get(i, [])) for i in tops]))
        t, _ = scrape.c_skel_ops(scrape.rd(os.path.join(od, "c", mstem + "_invoke.h")), defs, tops)
        out.append(("c-skel", [(i, t.get(i, [])) for i in tops]))
        cls = scrape.cpp_classes([scrape.rd(os.path.join(od, "cpp", s + ".hpp")) for s in stems])
        t, _ = scrape.cpp_stub_ops(scrape.rd(os.path.join(od, "cpp", mstem + ".hpp")), cls, tops)
        out.append(("cpp-stub", [(i, t.get(i, [])) for i in tops]))
        t, _ = scrape.cpp_skel_ops(scrape.rd(os.path.join(od, "cpp", mstem + "_invoke.hpp")), cls, tops)
        out.append(("cpp-skel", [(i, t.get(i, [])) for i in tops]))
        # rust: stub = own methods along the chain, skeleton = arms of the top interface
        rs = os.path.join(od, "rust")
        rows_stub, rows_skel = [], []
        for i in tops:
            st = []
            for c in chain_names(fs, i):
                st += [(m, op) for m, op, _ in scrape.rust_stub_own(scrape.rd(scrape.rust_file_for(rs, c)), c)]
            rows_stub.append((i, st))
            rows_skel.append((i, [(m, op) for op, m, _ in scrape.rust_skel(scrape.rd(scrape.rust_file_for(rs, i)))]))
        out.append(("rust-stub", rows_stub))
        out.append(("rust-skel", rows_skel))
        jd = os.path.join(od, "java")
        jconst = {}
        for fn in sorted(os.listdir(jd)) if os.path.isdir(jd) else []:
            for m in re.finditer(r"int (\w+_OP_\w+) = (-?\d+);", scrape.rd(os.path.join(jd, fn))):
                jconst.setdefault((fn, m.group(1)), int(m.group(2)))
        byname = {}
        for (fn, nm), v in jconst.items():
            byname.setdefault(nm, set()).add(v)
        rows_c, rows_p, rows_s = [], [], []
        for i in tops:
            txt = scrape.java_iface_text(jd, i)
            own = {nm[len(i) + 4:]: v for (fn, nm), v in jconst.items() if fn == i + ".java" and nm.startswith(i + "_OP_")}
            rows_c.append((i, sorted(own.items(), key=lambda x: x[1])))
            pr = []
            for c in chain_names(fs, i):
                for meth, opn in scrape.java_proxy_own(scrape.java_iface_text(jd, c)):
                    vals = byname.get(opn, set())
                    pr.append((meth, list(vals)[0] if len(vals) == 1 else None))
            rows_p.append((i, pr))
            sk = []
            for meth, opn in scrape.java_skel_own(txt):
                vals = byname.get(opn, set())
                sk.append((meth, list(vals)[0] if len(vals) == 1 else None))
            rows_s.append((i, sk))
        if java_ok:
            out.append(("java-consts", rows_c))
            out.append(("java-proxy", rows_p))
            out.append(("java-skel", rows_s))
    else:
        # errors: C re-exports under the derived prefix; C++ class constants; Rust per module; Java constants
        rows = []
        for i in tops:
            r = []
            for m in re.finditer(r"^#define %s_(\w+) INT32_C\((-?\d+)\)" % re.escape(i), main_c, re.M):
                r.append((m.group(1), int(m.group(2))))
            rows.append((i, r))
        out.append(("c-errors", rows))
        cpp = scrape.rd(os.path.join(od, "cpp", mstem + ".hpp"))
        rows = []
        for i in tops:
            m = re.search(r"\nclass I%s(?: : public I\w+(?: I\w+)*)? \{(.*?)\n\};" % re.escape(i), cpp, re.S)
            r = []
            if m:
                for mm in re.finditer(r"static const int32_t (\w+) = INT32_C\((-?\d+)\);", m.group(1)):
                    r.append((mm.group(1), int(mm.group(2))))
            rows.append((i, r))
        out.append(("cpp-errors", rows))
        rs = os.path.join(od, "rust")
        rows = []
        for i in tops:
            r = []
            for c in chain_names(fs, i):
                txt = scrape.rd(scrape.rust_file_for(rs, c))
                # the Rust backend upper-cases error names: the k-th constant called N belongs to the
                # k-th error the interface declares whose name upper-cases to N (a constant that is
                # missing or extra then shows as a missing or foreign row)
                got = [(mm.group(1), int(mm.group(2))) for mm in re.finditer(r"pub const (\w+): Error = Error\(unsafe \{ crate::object::Error::new_unchecked\((-?\d+)\) \}\);", txt)]
                r += unfold_case(got, [c], fs)
            rows.append((i, r))
        out.append(("rust-errors", rows))
        jd = os.path.join(od, "java")
        rows = []
        for i in tops:
            txt = scrape.java_iface_text(jd, i)
            body = txt.split("class Proxy")[0]
            r = []
            for mm in re.finditer(r"int %s_(\w+) = (-?\d+);" % re.escape(i), body):
                if not mm.group(1).startswith("OP_"):
                    r.append((mm.group(1), int(mm.group(2))))
            rows.append((i, unfold_case(r, list(reversed(chain_names(fs, i))), fs)))
        if java_ok:
            out.append(("java-errors", rows))
        # constants of type int32 are printed with the same pattern: keep declared error names only
        allif = {d[1]: d for f in fs["files"] for d in f["decls"] if d[0] == "iface"}
        filt = []
        for lab, rows in out:
            nr = []
            for i, r in rows:
                names = {m[1] for c in chain_names(fs, i) for m in allif[c][3] if m[0] == "error"}
                if which == "errs_raw":
                    lnames = {x.lower() for x in names}
                    nr.append((i, [(n, v) for n, v in r if n.lower() in lnames]))
                    continue
                nr.append((i, [(n, v) for n, v in r if n in names]))
            filt.append((lab, nr))
        out = filt
    return out


def nontrivial(fs):
    allif = {d[1]: d for f in fs["files"] for d in f["decls"] if d[0] == "iface"}
    for i in top_ifaces(fs):
        ch = chain_names(fs, i)
        n = sum(1 for c in ch for m in allif[c][3] if m[0] in ("method", "error"))
        if len(ch) >= 2 and n >= 2:
            return True
    return False


def run(ctx):
    prop, tier, seed, work = ctx["prop"], ctx["tier"], ctx["seed"], ctx["work"]
    which = "ops" if prop == "C07" else "errs"
    n = 150 if tier == "quick" else 2000
    cases = []
    if ctx.get("replay"):
        rp = json.load(open(ctx["replay"]))
        if "fileset" in rp:
            cases.append(rp["fileset"])
    else:
        rng = vlib.mkrng(seed, prop)
        cases += corpus_cases(which)
        for k in range(n):
            cases.append(gen_case(rng, k))
    lines = []
    for k, fs in enumerate(cases):
        root = os.path.join(work, "cases", str(k))
        mainp = gen.write_fileset(fs, root)
        lines.append("%d\tcli\t-\t%s\t" % (k, mainp))
    cf = os.path.join(work, "cases.txt")
    open(cf, "w").write("\n".join(lines) + "\n")
    res = {"coverage": {}, "failures": [], "corr_broken": []}
    if not ctx["harness"] or not ctx["checks_vo"]:
        res["coverage"] = {"evaluations": 0, "distinct_nontrivial": 0, "rule": "not run: harness or Checks.vo unavailable", "samples": []}
        return res
    rc, out, err = vlib.run([ctx["harness"], "front", cf], timeout=900)
    hres = vlib.parse_harness(out)

    def emit(k):
        fs = cases[k]
        root = os.path.join(work, "cases", str(k))
        return k, scrape.emit_all(ctx["idlc"], root, [f["path"] for f in fs["files"]], fs["main"])

    # the numbers do not depend on flags: the same file set once more with --no-typed-objects (k = 0 mod 3),
    # --marking (1) or --allow-undefined-behavior (2), all backends, tables scraped the same way
    def emit_flagged(k):
        fs = cases[k]
        if fs.get("big"):
            return k, None
        root = os.path.join(work, "cases", str(k) + "_flags")
        gen.write_fileset(fs, root)
        mk = os.path.join(root, "MARK")
        open(mk, "w").write("Copyright (c) someone\nAll rights reserved.\n")
        extra = [["--no-typed-objects"], ["--marking", mk], ["--allow-undefined-behavior"]][k % 3]
        return k, scrape.emit_all(ctx["idlc"], root, [f["path"] for f in fs["files"]], fs["main"], extra=extra)

    with ThreadPoolExecutor(max_workers=vlib.NCPU) as ex:
        emitted = dict(ex.map(emit, range(len(cases))))
        emitted_flagged = dict(ex.map(emit_flagged, range(len(cases))))
    defs, labels = [], {}
    scrape_cache = {}
    exit_mismatch = []
    big_checked = 0
    for k, fs in enumerate(cases):
        h = hres.get(str(k))
        if fs.get("big"):
            # thousands of methods: the model is not evaluated (its duplicate-name pass is quadratic);
            # the outcome is compared with the bound of the property text (op-codes end at 0x3FFF,
            # C07_too_many_rejected is the theorem) for the whole chain, through the real pipeline
            # and every backend's exit status
            split = [len(d[3]) for d in fs["files"][0]["decls"]]
            want = sum(split) <= 16384
            got = bool(h) and h.get("result") == "ok"
            bins = [(lang, role, rc2) for (lang, role), (rc2, _, diag) in emitted[k][fs["main"]].items() if not (lang == "java" and rc2 != 0)]
            big_checked += 1
            # the bound does not depend on --allow-undefined-behavior (that flag is about constant ranges)
            root = os.path.join(work, "cases", str(k))
            rub = scrape.idlc_run(ctx["idlc"], os.path.join(root, fs["main"]), os.path.join(root, "ub.h"), "c", False, extra=["--allow-undefined-behavior"])
            bins.append(("c", "stub+allow-undefined-behavior", rub[0]))
            if got != want or any((rc2 == 0) != want for _, _, rc2 in bins if _ != "java"):
                res["failures"].append({"property": prop, "big_split": split, "harness": (h or {}).get("result"), "exit_codes": bins,
                                        "how_to_build": "one file: interface IB0 with split[0] methods m0_<i>(), IB1 : IB0 with split[1] methods m1_<i>(), ...",
                                        "what": "a chain of interfaces with %s methods (%d in total, limit 16384 = op-codes 0..0x3FFF) is %s" % (split, sum(split), "accepted" if got else "rejected")})
            continue
        if fs.get("must_reject") and h is not None and h.get("result") == "ok":
            res["failures"].append({"property": prop, "fileset": fs, "text": {f["path"]: gen.render_file(f) for f in fs["files"]},
                                    "what": "accepted although %s (each copy numbers its members differently)" % fs["must_reject"]})
            continue
        if h is None or "files" not in h:
            # rejected before the include pass finished: nothing to compare at the MIR level
            continue
        accepted = h["result"] == "ok"
        impl = "SL [SA 1; %s]" % h["mir"] if accepted else "SL [SA 0; SA %s]" % h["result"].split()[1]
        root = os.path.join(work, "cases", str(k))
        # (hierarchies with thousands of methods: outcome and MIR numbering only)
        tabs = scrape_tables(root, fs, emitted[k], which) if accepted and not fs.get("big") else []
        scrape_cache[k] = tabs
        ef = emitted_flagged.get(k)
        if tabs and ef and all(v[0] == 0 for (lang, role), v in ef[fs["main"]].items() if lang != "java"):
            suffix = ["+no-typed-objects", "+marking", "+allow-undefined-behavior"][k % 3]
            tabs = tabs + [(lab + suffix, rows) for lab, rows in scrape_tables(os.path.join(work, "cases", str(k) + "_flags"), fs, ef, which)]
        labels[k] = [t[0] for t in tabs]
        # the driver's exit status must match the library-level outcome
        for (lang, role), (rc2, _, diag) in emitted[k][fs["main"]].items():
            if lang == "java" and rc2 != 0 and scrape.unsupported_java(diag):
                continue
            if (rc2 == 0) != accepted:
                exit_mismatch.append((k, lang, role, rc2))
        d = "Definition f_%d : list ast := %s.\nDefinition o_%d : sx := %s.\n" % (k, h["files"], k, impl)
        zs = which == "errs"
        d += "Definition t_%d : list %s := [%s].\n" % (k, "errtable" if zs else "optable",
                                                       "; ".join(gallina_table(t[1], zs) for t in tabs))
        fn = "chk_c07" if which == "ops" else "chk_c08"
        defs.append((k, d, "%s Cli f_%d o_%d t_%d" % (fn, k, k, k)))
    results, errors = vlib.eval_cases(os.path.join(work, "coq"), "cases", "From MinkV Require Import spec.Spec_Numbering.\n", defs)
    for e in errors:
        res["corr_broken"].append({"kind": "case-evaluation", "detail": e})
    seen, distinct = set(), 0
    nfail = 0
    for k, d, _ in defs:
        fs = cases[k]
        fl = results.get(k)
        if fl is None:
            continue
        txt = "\n".join(gen.render_file(f) for f in fs["files"])
        hh = hashlib.sha256(re.sub(r"\d+", "#", txt).encode()).hexdigest()
        if hh not in seen and nontrivial(fs):
            seen.add(hh); distinct += 1
        payload = {"property": prop, "fileset": fs, "text": {f["path"]: gen.render_file(f) for f in fs["files"]},
                   "flags": fl, "tables": labels.get(k), "harness": hres[str(k)].get("result")}
        if fl[0] == 0:
            res["corr_broken"].append({"kind": "correspondence", "detail": "front model vs implementation disagree on case %d" % k,
                                       "case": payload})
        # the tables list exactly the members the source declares, in declaration order, root first
        if hres[str(k)].get("result") == "ok" and not fs.get("big"):
            allif_ = {d_[1]: d_ for f_ in fs["files"] for d_ in f_["decls"] if d_[0] == "iface"}
            kind_ = "method" if which == "ops" else "error"
            for lab_, rows_ in (scrape_cache.get(k) or []):
                if lab_ not in ("c-stub", "c-errors"):
                    continue
                for i_, r_ in rows_:
                    want_ = [m_[1] for c_ in reversed(chain_names(fs, i_)) for m_ in allif_[c_][3] if m_[0] == kind_]
                    got_ = [n_ for n_, v_ in sorted(r_, key=lambda x_: (x_[1] is None, x_[1]))]
                    if want_ != got_:
                        res["failures"].append(dict(payload, interface=i_, declared=want_, numbered=got_,
                                                    what="the %ss numbered for interface %s are not the %ss the source declares, in declaration order" % (kind_, i_, kind_)))
        if len(fl) > 2 and fl[2] == 0:
            res["failures"].append(dict(payload, what="numbering observed in the MIR violates the specification"))
        if len(fl) > 4 and fl[4] == 0:
            res["failures"].append(dict(payload, what="a name occurs twice in a flattened interface: it carries two different numbers"))
        if len(fl) > 3 and fl[3] == 0:
            res["failures"].append(dict(payload, what="a backend prints a different number than the MIR (%s)" % labels.get(k)))
    for k, lang, role, rc2 in exit_mismatch[:5]:
        res["corr_broken"].append({"kind": "correspondence", "detail": "idlc exit status %s for %s/%s disagrees with the pass pipeline on case %d" % (rc2, lang, role, k)})
    sample = []
    for k in list(results)[:2]:
        sample.append({"idl": {f["path"]: gen.render_file(f) for f in cases[k]["files"]}, "flags": results[k],
                       "tables_scraped": labels.get(k)})
    res["coverage"] = {
        "evaluations": len(results), "distinct_nontrivial": distinct,
        "big_hierarchies_checked": big_checked,
        "rule": "corpus: chains summing to 16384 / 16385 methods in every split (outcome vs the 0x3FFF bound), names of a non-immediate ancestor declared again at distance 2-4; "
                "generated file sets (hierarchies of depth 0-7, members interleaved, ancestors in included files); "
                "non-trivial = some main-file interface has an ancestor and >= 2 numbered members; distinct after replacing numerals",
        "samples": sample,
        "layers": {"L0_cases": len(results), "L1_backend_tables_per_case": 10 if which == "ops" else 4},
        "flags_meaning": "[model=impl; reject class agrees; spec holds on impl MIR; every scraped backend table equals the MIR table]",
        "class_mismatches": sum(1 for v in results.values() if v[1] == 0),
        "rejected_before_mir": len(cases) - len(defs),
    }
    return res
