"""C10 (validation is complete): generated valid file sets and order/placement variants through
all four backends and flag combinations; each must be accepted with its outputs written; the
front-end model must accept as well."""
import copy, hashlib, json, os, re
from concurrent.futures import ThreadPoolExecutor
import gen, scrape, vlib

FLAGSETS = [[], ["--no-typed-objects"], ["--allow-undefined-behavior"], ["--marking", "MARK"],
            ["--no-typed-objects", "--allow-undefined-behavior", "--marking", "MARK"]]


def variants(rng, fs):
    out = [("orig", fs)]
    B = copy.deepcopy(fs)
    for f in B["files"]:
        rng.shuffle(f["decls"])
    out.append(("shuffled", B))
    if len(fs["files"]) >= 2:
        C = copy.deepcopy(fs)
        main = [f for f in C["files"] if f["path"] == C["main"]][0]
        incs = [f for f in C["files"] if f["path"] in main["includes"]]
        movable = [d for d in main["decls"] if d[0] in ("struct", "const")]
        if incs and movable:
            d = rng.choice(movable)
            main["decls"].remove(d)
            # the target file must see what the declaration uses: move to the last include only
            # when it uses nothing but primitives / objects
            if d[0] == "const" or all(t in gen.PRIMS or t == "interface" for t, c, n in d[2]):
                rng.choice(incs)["decls"].append(d)
                out.append(("moved", C))
    if len(fs["files"]) >= 3:
        # the same include set in another order, with shared headers repeated explicitly: a file
        # includes, in shuffled order, everything its includes reach (acceptance must not depend
        # on the order of include directives nor on a header being reached twice)
        D = copy.deepcopy(fs)
        by = {f["path"]: f for f in D["files"]}
        def reach(p, acc):
            for q in by[p]["includes"]:
                if q not in acc:
                    acc.append(q); reach(q, acc)
            return acc
        for f in D["files"]:
            allr = reach(f["path"], [])
            extra = [q for q in allr if q not in f["includes"] and rng.random() < 0.6]
            f["includes"] = f["includes"] + extra
            rng.shuffle(f["includes"])
        out.append(("include-order", D))
    # the main file named after one of its interfaces in another letter case (the Rust backend folds
    # file and interface names to lower case when it picks module files)
    mainf = [f for f in fs["files"] if f["path"] == fs["main"]][0]
    ifs = [d[1] for d in mainf["decls"] if d[0] == "iface"]
    if ifs and rng.random() < 0.5:
        nm = rng.choice(ifs)
        stem = rng.choice([nm.lower(), nm.upper()])
        if stem != nm and "/" not in fs["main"]:
            E = copy.deepcopy(fs)
            for f in E["files"]:
                if f["path"] == E["main"]:
                    f["path"] = stem + ".idl"
            E["main"] = stem + ".idl"
            out.append(("named-after-interface", E))
    return out


def has_objstruct(fs):
    for f in fs["files"]:
        for d in f["decls"]:
            if d[0] == "struct" and any(t == "interface" or (t not in gen.PRIMS and t[0] == "I") for t, c, n in d[2]):
                return True
    return False


def corpus():
    """valid file sets at the edges of what the rules allow"""
    def fs1(decls):
        return {"files": [{"path": "main.idl", "includes": [], "decls": decls}], "main": "main.idl", "idirs": []}
    M = lambda n, ps: ("method", n, ps, False, None)
    out = []
    # struct sizes far beyond 2^31 and 2^32 (array sizes stay within 1..65535)
    for tag, n in (("below_2_32", 8192), ("above_2_32", 8193), ("above_2_31", 4097)):
        out.append(("big_struct_" + tag, fs1([("struct", "Page", [("uint64", 65535, "words")]), ("struct", "Region", [("Page", n, "pages")]),
                                               ("iface", "IR", None, [M("f", [("in", "Region", "[]", "r")]), M("g", [("out", "Region", "[]", "r")])])])))
    out.append(("big_struct_2_48", fs1([("struct", "L0", [("uint8", 65535, "a"), ("uint8", 1, "b")]), ("struct", "L1", [("L0", 65535, "a")]), ("struct", "L2", [("L1", 65535, "a")]),
                                        ("iface", "IR", None, [M("f", [("in", "L2", "[]", "r")])])])))
    # the largest argument lists the counts word can describe: 15 of each class
    out.append(("counts_15_each", fs1([("iface", "IMax", None, [
        M("bi", [("in", "buffer", None, "p%d" % i) for i in range(15)]), M("bo", [("out", "buffer", None, "p%d" % i) for i in range(15)]),
        M("oi", [("in", "interface", None, "p%d" % i) for i in range(15)]), M("oo", [("out", "interface", None, "p%d" % i) for i in range(15)]),
        M("all", [("in", "buffer", None, "a%d" % i) for i in range(15)] + [("out", "buffer", None, "b%d" % i) for i in range(15)] +
                 [("in", "interface", None, "c%d" % i) for i in range(15)] + [("out", "interface", None, "d%d" % i) for i in range(15)]),
        M("bundled", [("in", "uint16", "[]", "a%d" % i) for i in range(14)] + [("in", "uint32", None, "k"), ("in", "uint8", None, "j")])])])))
    # deep nesting and a long chain
    deep = [("struct", "N0", [("uint64", 1, "x")])] + [("struct", "N%d" % i, [("N%d" % (i - 1), 2, "inner"), ("uint64", 1, "x")]) for i in range(1, 14)]
    out.append(("deep_nesting", fs1(deep + [("iface", "IDeep", None, [M("f", [("in", "N13", None, "v"), ("out", "N13", None, "w")])])])))
    chain, prev = [], None
    for i in range(14):
        chain.append(("iface", "IC%d" % i, prev, [M("m%d" % i, [("in", "uint32", None, "x")]), ("error", "E%d" % i), ("const", "uint32", "K%d" % i, str(i))]))
        prev = "IC%d" % i
    out.append(("long_chain", fs1(chain)))
    # a constant and a type whose names differ only in letter case, in one file and across files: names are
    # compared exactly, these are four different declarations
    out.append(("case_variant_names", {"files": [
        {"path": "main.idl", "includes": ["limits.idl"], "decls": [("struct", "Limits", [("uint32", 1, "lo"), ("uint32", 1, "hi")]), ("const", "uint32", "RANGE", "9"),
                                                                   ("iface", "ISensor", None, [M("read", [("in", "Limits", None, "l"), ("out", "Range", None, "r")])]), ("const", "uint32", "ISENSOR", "1")]},
        {"path": "limits.idl", "includes": [], "decls": [("const", "uint32", "LIMITS", "4"), ("struct", "Range", [("uint64", 1, "a")])]}], "main": "main.idl", "idirs": []}))
    # a shared header reached more than once, through include strings with directory parts (.., ., a
    # sub-directory): one file, loaded once, whatever the spelling
    types = [("const", "uint32", "LIMIT", "7"), ("struct", "Rec", [("uint64", 1, "id"), ("uint32", 2, "v")]), ("iface", "IRoot", None, [M("ping", [("in", "Rec", None, "r")]), ("error", "E_ROOT")])]
    for tag, sp1, sp2, sp3 in (("dotdot", "../common/types.idl", "../common/types.idl", "IBase.idl"),
                               ("mixed", "../common/types.idl", "./../common/./types.idl", "./IBase.idl"),
                               ("through_sub", "../common/types.idl", "../api/../common/types.idl", "../api/IBase.idl")):
        out.append(("diamond_" + tag, {"files": [
            {"path": "api/IService.idl", "includes": [sp3, sp1], "decls": [("iface", "IService", "IBase", [M("serve", [("in", "Rec", None, "r"), ("out", "Rec", None, "s")])])]},
            {"path": "api/IBase.idl", "includes": [sp2], "decls": [("iface", "IBase", "IRoot", [M("base", [("in", "Rec", "[]", "rs")]), ("const", "uint32", "B", "1")])]},
            {"path": "common/types.idl", "includes": [], "decls": types}], "main": "api/IService.idl", "idirs": []}))
    return out


def run(ctx):
    prop, tier, seed, work = ctx["prop"], ctx["tier"], ctx["seed"], ctx["work"]
    n = 60 if tier == "quick" else 1500
    cases = []
    if ctx.get("replay"):
        rp = json.load(open(ctx["replay"]))
        cases.append((rp.get("variant", "orig"), rp["fileset"]))
    else:
        rng = vlib.mkrng(seed, prop)
        cases += corpus()
        for k in range(n):
            fs, _ = gen.gen_fileset(rng, nfiles=(rng.choice([3, 4, 5]) if k % 4 == 0 else None))
            cases += variants(rng, fs)
    res = {"coverage": {}, "failures": [], "corr_broken": []}
    if not ctx["harness"] or not ctx["checks_vo"]:
        res["coverage"] = {"evaluations": 0, "distinct_nontrivial": 0, "rule": "not run", "samples": []}
        return res
    lines = []
    for k, (tag, fs) in enumerate(cases):
        root = os.path.join(work, "cases", str(k))
        mainp = gen.write_fileset(fs, root)
        open(os.path.join(root, "MARK"), "w").write("Copyright line one\nline two\n")
        lines.append("%d\tcli\t-\t%s\t" % (k, mainp))
    cf = os.path.join(work, "cases.txt")
    open(cf, "w").write("\n".join(lines) + "\n")
    rc, out, err = vlib.run([ctx["harness"], "front", cf], timeout=900)
    hres = vlib.parse_harness(out)

    def runall(k):
        tag, fs = cases[k]
        root = os.path.join(work, "cases", str(k))
        mainp = os.path.join(root, fs["main"])
        bad, nruns = [], 0
        fsets = FLAGSETS if k % 3 == 0 else [FLAGSETS[k % len(FLAGSETS)]]
        for fl in fsets:
            fl2 = [os.path.join(root, x) if x == "MARK" else x for x in fl]
            for lang, skel in (("c", False), ("c", True), ("cpp", False), ("cpp", True), ("rust", False), ("java", False)):
                od = os.path.join(root, "o_%s%s_%d" % (lang, "s" if skel else "", FLAGSETS.index(fl)))
                if lang in ("rust", "java"):
                    os.makedirs(od, exist_ok=True)
                    o = od
                else:
                    o = od + ".h"
                r = scrape.idlc_run(ctx["idlc"], mainp, o, lang, skel, extra=fl2)
                nruns += 1
                okout = (os.path.isfile(o) and os.path.getsize(o) > 0) if lang in ("c", "cpp") else (len(os.listdir(o)) > 0)
                if lang == "java" and r[0] != 0 and scrape.unsupported_java(r[2]):
                    continue
                if r[0] != 0 or not okout:
                    bad.append({"lang": lang, "skel": skel, "flags": fl, "rc": r[0], "diag": r[2][-300:], "output_present": okout})
        # every path of the command line given RELATIVE to a working directory that is not the input
        # file's: input, -I, -o and --marking all mean "relative to where idlc was started"
        if k % 2 == 0:
            cw = os.path.join(root, "started_here")
            os.makedirs(os.path.join(cw, "legal"), exist_ok=True)
            os.makedirs(os.path.join(cw, "gen"), exist_ok=True)
            open(os.path.join(cw, "legal", "marking.txt"), "w").write("Copyright line one\nline two\n")
            for lang, skel, o in (("c", False, os.path.join("gen", "rel.h")), ("cpp", True, os.path.join("gen", "rel_invoke.hpp")), ("rust", False, "gen")):
                r = scrape.idlc_run(ctx["idlc"], os.path.join("..", fs["main"]), o, lang, skel, idirs=[".."],
                                    extra=["--marking", os.path.join("legal", "marking.txt")], cwd=cw)
                nruns += 1
                got = os.path.join(cw, o)
                okout = (os.path.isfile(got) and os.path.getsize(got) > 0) if lang != "rust" else any(fn.endswith(".rs") for fn in os.listdir(got))
                if r[0] != 0 or not okout:
                    bad.append({"lang": lang, "skel": skel, "flags": ["(cwd = another directory)", "-I ..", "--marking legal/marking.txt", "-o " + o, "../" + fs["main"]],
                                "rc": r[0], "diag": r[2][-300:], "output_present": okout})
        return k, (bad, nruns)

    with ThreadPoolExecutor(max_workers=vlib.NCPU) as ex:
        runs = dict(ex.map(runall, range(len(cases))))
    defs = []
    for k, (tag, fs) in enumerate(cases):
        h = hres.get(str(k))
        if not h or "files" not in h:
            res["failures"].append({"property": prop, "variant": tag, "fileset": fs, "what": "valid file set rejected before the MIR: %s" % (h or {}).get("result")})
            continue
        impl = "SL [SA 1; %s]" % h["mir"] if h["result"] == "ok" else "SL [SA 0; SA %s]" % h["result"].split()[1]
        d = "Definition f_%d : list ast := %s.\nDefinition o_%d : sx := %s.\n" % (k, h["files"], k, impl)
        defs.append((k, d, "chk_front Cli f_%d o_%d" % (k, k)))
    results, errors = vlib.eval_cases(os.path.join(work, "coq"), "cases", "", defs, shard_size=40)
    for e in errors:
        res["corr_broken"].append({"kind": "case-evaluation", "detail": e})
    seen, distinct, total_runs = set(), 0, 0
    for k, (tag, fs) in enumerate(cases):
        text = {f["path"]: gen.render_file(f) for f in fs["files"]}
        payload = {"property": prop, "variant": tag, "fileset": fs, "text": text}
        fl = results.get(k)
        if fl is not None and fl[0] == 0:
            res["corr_broken"].append({"kind": "correspondence", "detail": "front model vs pipeline disagree on valid case %d (%s)" % (k, tag), "case": payload})
        h = hres.get(str(k)) or {}
        if h.get("result", "ok") != "ok":
            res["failures"].append(dict(payload, what="valid file set rejected by the pass pipeline: " + h["result"]))
        bad, nruns = runs[k]
        total_runs += nruns
        for b in bad:
            res["failures"].append(dict(payload, run=b, what="valid file set rejected (or no output) by %s%s %s" % (b["lang"], " --skel" if b["skel"] else "", " ".join(b["flags"]))))
        hh = hashlib.sha256((tag + re.sub(r"\d+", "#", "".join(text.values()))).encode()).hexdigest()
        if hh not in seen and sum(len(f["decls"]) for f in fs["files"]) >= 3:
            seen.add(hh); distinct += 1
    res["coverage"] = {
        "evaluations": len(cases), "distinct_nontrivial": distinct,
        "rule": "generated valid file sets (1-3 files; all primitives, boundary constants in decimal and hex, arrays, nested structs, hierarchies, "
                "attributes, documentation, every parameter kind) plus a declaration-order shuffle and a moved-declaration variant; every case through "
                "C/C++ stub+skeleton, Rust, Java with flag sets; non-trivial = at least 3 declarations; distinct after replacing numerals",
        "samples": [{"variant": cases[k][0], "idl": {f["path"]: gen.render_file(f) for f in cases[k][1]["files"]}} for k in range(min(2, len(cases)))],
        "binary_runs": total_runs, "flag_sets": FLAGSETS, "model_evaluated": len(results),
    }
    return res
