"""C06 (struct layout): L0 sizes (model vs implementation vs verifier), compiler probes of the
emitted types (gcc, clang, g++, clang++, rustc) against the Spec, and validation of the Layout.v
ABI model against gcc/clang on arbitrary (also padded) structs."""
import hashlib, json, os, re
from concurrent.futures import ThreadPoolExecutor
import gen, scrape, vlib

CTYPE = {"uint8": "uint8_t", "uint16": "uint16_t", "uint32": "uint32_t", "uint64": "uint64_t",
         "int8": "int8_t", "int16": "int16_t", "int32": "int32_t", "int64": "int64_t",
         "float32": "float", "float64": "double", "interface": "Object"}
TESTS = os.path.join(vlib.REPO, "tests")


def gen_case(rng, k):
    """struct-focused: nested DAGs, arrays, objects; 25% free (possibly misaligned)"""
    ctx = gen.Ctx(rng)
    nfiles = rng.choice([1, 1, 2])
    files, closures = [], []
    free = rng.random() < 0.25
    for fi in range(nfiles):
        ctx.cur = fi
        ctx.closure = {fi} | ({0} if fi else set())
        decls = []
        if rng.random() < 0.5:
            decls.append(gen.gen_iface(ctx, ctx.fresh("I"), None, nmembers=1))
        for _ in range(rng.randint(1, 6)):
            decls.append(gen.gen_struct(ctx, ctx.fresh("S"), free=free and rng.random() < 0.5,
                                        big_counts=rng.random() < 0.2, small_bias=0.3))
        if fi == nfiles - 1 and k % 2 == 1:
            # near-valid: one small perturbation of one valid struct (adjacent fields swapped, a
            # field dropped, a count changed by one, a type replaced by one of another size); the
            # verifier must still check every member, not only the first that raises the alignment
            cands = [d for d in decls if d[0] == "struct" and len(d[2]) >= 2]
            if cands:
                d = rng.choice(cands)
                fields = list(d[2])
                op = rng.choice(["swap", "swap", "drop", "count", "type"])
                i = rng.randrange(len(fields) - 1)
                if op == "swap":
                    fields[i], fields[i + 1] = fields[i + 1], fields[i]
                elif op == "drop":
                    del fields[i]
                elif op == "count":
                    t, c, n = fields[i]
                    fields[i] = (t, max(1, c + rng.choice([-1, 1])), n)
                else:
                    t, c, n = fields[i]
                    if t in gen.PSIZE:
                        fields[i] = (rng.choice([x for x in gen.PRIMS if gen.PSIZE[x] != gen.PSIZE[t]]), c, n)
                decls[decls.index(d)] = ("struct", d[1], fields)
        if fi == nfiles - 1:
            # use some structs as parameters so that they are reachable from methods too
            ms = []
            for s in ctx.vis_structs()[:3]:
                if ctx.structs[s]["objs"] == 0:
                    ms.append(("method", ctx.fresh("m"), [("in", s, None, "a"), ("out", s, None, "b")], False, None))
            decls.append(("iface", ctx.fresh("I"), None, ms))
        files.append({"path": "main.idl" if fi == nfiles - 1 else "inc%d.idl" % fi,
                      "includes": ["inc0.idl"] if fi else [], "decls": decls})
    fs = {"files": files, "main": "main.idl", "idirs": []}
    if k % 3 == 2:
        # "definitions out of order": a struct declared before the structs it contains
        gen.reorder_structs(rng, fs)
    return fs


def corpus_cases():
    # F25: a misaligned struct defined in an included file and used only as a parameter type
    inc = {"path": "inc0.idl", "includes": [], "decls": [("struct", "Mis", [("uint8", 1, "a"), ("uint32", 1, "b")])]}
    main = {"path": "main.idl", "includes": ["inc0.idl"],
            "decls": [("iface", "IUse", None, [("method", "f", [("in", "Mis", None, "m")], False, None)])]}
    out = [{"files": [inc, main], "main": "main.idl", "idirs": []}]
    # every ordering of three member sizes with a tail that makes the packed size a multiple of
    # the largest alignment: each member's offset must be checked, whichever came before it
    T = {1: ["uint8", "int8"], 2: ["uint16", "int16"], 4: ["uint32", "int32", "float32"], 8: ["uint64", "int64", "float64"]}
    n = 0
    for s1 in (1, 2, 4, 8):
        for s2 in (1, 2, 4, 8):
            for s3 in (1, 2, 4, 8):
                n += 1
                # every primitive of each size takes its turn (the alignment table is per type)
                fields = [(T[s1][n % len(T[s1])], 1, "a"), (T[s2][(n // 2) % len(T[s2])], 1, "b"), (T[s3][(n // 3) % len(T[s3])], 1, "c")]
                pad = (-(s1 + s2 + s3)) % max(s1, s2, s3)
                if pad:
                    fields.append(("uint8", pad, "d"))
                out.append({"files": [{"path": "main.idl", "includes": [], "decls": [
                    ("struct", "Tri", fields),
                    ("iface", "ITri", None, [("method", "put", [("in", "Tri", None, "r"), ("out", "Tri", None, "w")], False, None)])]}],
                    "main": "main.idl", "idirs": []})
    # a struct that needs padding, used as a member (directly, in an array, one level down) of structs whose
    # names sort before and after its own, declared before and after it: every struct is verified, in
    # whatever order the verifier walks them
    padded = ("struct", "Header", [("uint8", 1, "kind"), ("uint32", 1, "length")])
    for user in ("Frame", "Packet", "Alpha", "Zeta"):
        for shape in ([("Header", 1, "hdr"), ("uint8", 3, "tag"), ("uint64", 1, "stamp")], [("uint64", 1, "stamp"), ("Header", 2, "hdrs"), ("uint8", 6, "tag")]):
            for first in (True, False):
                ud = ("struct", user, shape)
                wrap = ("struct", "Box" + user, [(user, 1, "inner"), ("uint64", 1, "x")])
                decls = ([padded, ud, wrap] if first else [wrap, ud, padded]) + [("iface", "IUse", None, [("method", "f", [("in", "Box" + user, None, "v")], False, None)])]
                out.append({"files": [{"path": "main.idl", "includes": [], "decls": decls}], "main": "main.idl", "idirs": []})
    return out


def structs_of(f):
    return [d for d in f["decls"] if d[0] == "struct"]


def c_probe_src(header, structs, cpp=False):
    al = "alignof" if cpp else "_Alignof"
    out = ["#include <stdio.h>", "#include <stddef.h>", '#include "%s"' % header, "int main(void) {"]
    for _, name, fields in structs:
        out.append('  printf("%s %%zu %%zu", sizeof(%s), (size_t)%s(%s));' % (name, name, al, name))
        for t, c, fn in fields:
            out.append('  printf(" %%zu", offsetof(%s, %s));' % (name, fn))
        out.append('  printf("\\n");')
    out.append("  return 0; }")
    return "\n".join(out) + "\n"


def raw_header(fs):
    out = ["#include <stdint.h>", '#include "object.h"']
    for f in fs["files"]:
        for d in f["decls"]:
            if d[0] == "iface":
                out.append("typedef Object %s;" % d[1])
    # dependencies first (a struct may be declared before the structs it contains)
    allst = [(name, fields) for f in fs["files"] for _, name, fields in structs_of(f)]
    names = {n for n, _ in allst}
    done, order, todo = set(), [], list(allst)
    while todo:
        progressed = False
        for item in list(todo):
            n, fields = item
            if all(t not in names or t in done or t == n for t, c, fn in fields):
                order.append(item); done.add(n); todo.remove(item); progressed = True
        if not progressed:
            order += todo      # a containment cycle: rejected by the compiler anyway
            break
    for name, fields in order:
        out.append("typedef struct {")
        for t, c, fn in fields:
            ct = CTYPE.get(t, t)
            out.append("  %s %s%s;" % (ct, fn, "[%d]" % c if c != 1 else ""))
        out.append("} %s;" % name)
    return "\n".join(out) + "\n"


def run_probe(cc, src, exe, incs, cpp=False):
    cmd = [cc] + (["-x", "c++", "-std=c++17"] if cpp else ["-std=c11"]) + ["-w"] + ["-I" + i for i in incs] + [src, "-o", exe]
    rc, out, err = vlib.run(cmd, timeout=120)
    if rc != 0:
        return None, err[-400:]
    rc, out, err = vlib.run([exe], timeout=30)
    if rc != 0:
        return None, "probe exited %d" % rc
    res = []
    for line in out.strip().split("\n"):
        p = line.split()
        if len(p) >= 3:
            res.append((p[0], int(p[1]), int(p[2]), [int(x) for x in p[3:]]))
    return res, ""


def rust_probe(root, fs, work):
    od = os.path.join(root, "out", "rust")
    mods = sorted(fn[:-3] for fn in os.listdir(od) if fn.endswith(".rs")) if os.path.isdir(od) else []
    lines = ["#![allow(warnings)]", '#[path = "%s/src/object/mod.rs"] pub mod object;' % TESTS, "pub mod interfaces {"]
    for m in mods:
        lines.append('  pub mod r#%s { include!("%s/%s.rs"); }' % (m, od, m))
    lines.append("}")
    lines.append("fn main() {")
    for f in fs["files"]:
        stem = os.path.splitext(os.path.basename(f["path"]))[0].lower()
        if f["path"] != fs["main"]:
            continue
        for _, name, fields in structs_of(f):
            ty = "interfaces::r#%s::r#%s" % (stem, name)
            offs = "".join(', std::mem::offset_of!(%s, r#%s)' % (ty, fn) for _, _, fn in fields)
            lines.append('  println!("%s {} {}%s", std::mem::size_of::<%s>(), std::mem::align_of::<%s>()%s);' %
                         (name, " {}" * len(fields), ty, ty, offs))
    lines.append("}")
    src = os.path.join(root, "probe.rs")
    open(src, "w").write("\n".join(lines) + "\n")
    exe = os.path.join(root, "probe_rs")
    rc, out, err = vlib.run(["rustc", "--edition", "2021", "--cfg", 'feature="std"', "-O", "-o", exe, src], timeout=300)
    if rc != 0:
        return None, err[-600:]
    rc, out, err = vlib.run([exe], timeout=30)
    res = []
    for line in out.strip().split("\n"):
        p = line.split()
        if len(p) >= 3:
            res.append((p[0], int(p[1]), int(p[2]), [int(x) for x in p[3:]]))
    return res, ""


def gprobes(pr):
    return "[%s]" % "; ".join('("%s", %d, %d, [%s])' % (n, s, a, "; ".join(str(o) for o in offs)) for n, s, a, offs in pr)


def run(ctx):
    prop, tier, seed, work = ctx["prop"], ctx["tier"], ctx["seed"], ctx["work"]
    n = 120 if tier == "quick" else 3000
    nrust = 24 if tier == "quick" else 400
    cases = []
    if ctx.get("replay"):
        cases.append(json.load(open(ctx["replay"]))["fileset"])
    else:
        cases += corpus_cases()
        rng = vlib.mkrng(seed, prop)
        for k in range(n):
            cases.append(gen_case(rng, k))
    res = {"coverage": {}, "failures": [], "corr_broken": []}
    if not ctx["harness"] or not ctx["checks_vo"]:
        res["coverage"] = {"evaluations": 0, "distinct_nontrivial": 0, "rule": "not run", "samples": []}
        return res
    lines = []
    for k, fs in enumerate(cases):
        mainp = gen.write_fileset(fs, os.path.join(work, "cases", str(k)))
        lines.append("%d\tcli\t-\t%s\t" % (k, mainp))
        # the library entry point, input named by a relative path (what a build script passes)
        rel = os.path.relpath(mainp, os.getcwd())
        lines.append("%dr\tlibgen\t-\t%s\t%s" % (k, [rel, "./" + rel][k % 2], os.path.dirname(mainp)))
    cf = os.path.join(work, "cases.txt")
    open(cf, "w").write("\n".join(lines) + "\n")
    rc, out, err = vlib.run([ctx["harness"], "front", cf], timeout=900)
    hres = vlib.parse_harness(out)
    incs_c = [os.path.join(TESTS, "c")]
    incs_cpp = [os.path.join(TESTS, "c"), os.path.join(TESTS, "cpp")]

    def work_case(k):
        fs = cases[k]
        root = os.path.join(work, "cases", str(k))
        h = hres.get(str(k), {})
        info = {"emitted": [], "raw": [], "notes": []}
        # raw probes: the structs as written, with gcc and clang (validates Layout.v)
        open(os.path.join(root, "raw.h"), "w").write(raw_header(fs))
        allstructs = [s for f in fs["files"] for s in structs_of(f)]
        open(os.path.join(root, "raw_probe.c"), "w").write(c_probe_src("raw.h", allstructs))
        for cc in ("gcc", "clang"):
            pr, err = run_probe(cc, os.path.join(root, "raw_probe.c"), os.path.join(root, "raw_" + cc), incs_c + [root])
            if pr is None:
                info["notes"].append("raw probe failed with %s: %s" % (cc, err))
            else:
                info["raw"] += pr
        if h.get("result") == "ok":
            # (every other case with --no-typed-objects: the layout of a struct does not depend on how
            # object types are spelled)
            em = scrape.emit_all(ctx["idlc"], root, [f["path"] for f in fs["files"]], fs["main"], langs=("c", "cpp", "rust"),
                                 extra=(["--no-typed-objects"] if k % 2 == 1 else []))
            info["emit_rc"] = {rel: {"%s-%s" % kk: v[0] for kk, v in r.items()} for rel, r in em.items()}
            for f in fs["files"]:
                stem = os.path.splitext(os.path.basename(f["path"]))[0]
                # the assumptions observed at L0 are those of the main file's own structs
                if not structs_of(f) or f["path"] != fs["main"]:
                    continue
                src = os.path.join(root, "probe_%s.c" % stem)
                open(src, "w").write(c_probe_src(stem + ".h", structs_of(f)))
                for cc in ("gcc", "clang"):
                    pr, err = run_probe(cc, src, os.path.join(root, "p_%s_%s" % (stem, cc)), incs_c + [os.path.join(root, "out", "c")])
                    if pr is None:
                        info["notes"].append("%s on emitted %s.h: %s" % (cc, stem, err))
                    else:
                        info["emitted"] += pr
                src = os.path.join(root, "probe_%s.cpp" % stem)
                open(src, "w").write(c_probe_src(stem + ".hpp", structs_of(f), cpp=True))
                for cc in ("g++", "clang++"):
                    pr, err = run_probe(cc, src, os.path.join(root, "pp_%s_%s" % (stem, cc)),
                                        incs_cpp + [os.path.join(root, "out", "cpp")], cpp=True)
                    if pr is None:
                        info["notes"].append("%s on emitted %s.hpp: %s" % (cc, stem, err))
                    else:
                        info["emitted"] += pr
            if k < nrust:
                pr, err = rust_probe(root, fs, work)
                if pr is None:
                    info["notes"].append("rustc on emitted modules: " + err)
                else:
                    info["emitted"] += pr
                    info["rust"] = len(pr)
        return k, info

    with ThreadPoolExecutor(max_workers=vlib.NCPU) as ex:
        infos = dict(ex.map(work_case, range(len(cases))))
    defs = []
    for k, fs in enumerate(cases):
        h = hres.get(str(k))
        if h is None or "files" not in h:
            continue
        accepted = h["result"] == "ok"
        impl = "SL [SA 1; %s]" % h["mir"] if accepted else "SL [SA 0; SA %s]" % h["result"].split()[1]
        d = "Definition f_%d : list ast := %s.\nDefinition o_%d : sx := %s.\nDefinition s_%d : sx := %s.\n" % (
            k, h["files"], k, impl, k, h.get("sizes", "SL []"))
        d += "Definition pe_%d : list probe := %s.\nDefinition pr_%d : list probe := %s.\n" % (
            k, gprobes(infos[k]["emitted"]), k, gprobes(infos[k]["raw"]))
        defs.append((k, d, "(chk_c06 f_%d o_%d s_%d pe_%d ++ chk_layout f_%d pr_%d)%%list" % (k, k, k, k, k, k)))
    results, errors = vlib.eval_cases(os.path.join(work, "coq"), "cases", "From MinkV Require Import spec.Spec_C06.\n", defs, shard_size=30)
    for e in errors:
        res["corr_broken"].append({"kind": "case-evaluation", "detail": e})
    for k, fs in enumerate(cases):
        h, hr = hres.get(str(k)), hres.get("%dr" % k)
        if h and hr and h.get("result", "ok") != "ok" and hr.get("result", "").startswith("ok") and int(h["result"].split()[2]) <= 5:
            res["failures"].append({"property": prop, "fileset": fs, "text": {f["path"]: gen.render_file(f) for f in fs["files"]},
                                    "command_line": h["result"], "library_entry_relative_path": hr["result"],
                                    "what": "a file set whose structs the command line refuses (%s) is accepted by idlc::Language::generate when the input is named by a relative path" % h["result"][:120]})
    distinct, seen, nprobe, nraw, nacc, nrust_done = 0, set(), 0, 0, 0, 0
    compile_notes = []
    for k, d, _ in defs:
        fl = results.get(k)
        if fl is None:
            continue
        fs = cases[k]
        text = {f["path"]: gen.render_file(f) for f in fs["files"]}
        payload = {"property": prop, "fileset": fs, "text": text, "flags": fl, "harness": hres[str(k)].get("result"),
                   "probes_emitted": infos[k]["emitted"][:12], "notes": infos[k]["notes"][:4],
                   "flags_meaning": "[front agree; class agree; MIR sizes = impl sizes; MIR sizes = verifier sizes; Spec on emitted probes; Layout.v = raw probes; #model layouts]"}
        if fl[0] == 0 or fl[2] == 0:
            res["corr_broken"].append({"kind": "correspondence", "detail": "front/size model vs implementation disagree on case %d (flags %s)" % (k, fl), "case": payload})
        if fl[5] == 0:
            res["corr_broken"].append({"kind": "correspondence", "detail": "Layout.v disagrees with gcc/clang on the raw structs of case %d" % k, "case": payload})
        acc0 = hres[str(k)].get("result") == "ok"
        if fl[3] == 0:
            res["failures"].append(dict(payload, what="the size used for marshalling (MIR) differs from the size the verifier accepted"))
        if fl[4] == 0:
            res["failures"].append(dict(payload, what="a target compiler lays an accepted struct out differently from what the compiler assumes"))
        all_emitted = all(v == 0 for r in (infos[k].get("emit_rc") or {"x": {"y": 1}}).values() for v in r.values())
        if acc0 and all_emitted and any(("on emitted" in n or "rustc on emitted" in n) for n in infos[k]["notes"]):
            note_ = [n for n in infos[k]["notes"] if "emitted" in n][0]
            f_ = dict(payload, what="the types emitted for an accepted file set do not compile, so their layout cannot be the assumed one: %s" % note_[:300])
            # (the Rust module of a file in which a small object-bearing struct is bundled with another small
            # parameter does not compile - the bundle derives Copy for a field that is not Copy; that is the method
            # code, not a struct definition, and the C and C++ probes of the same structs are taken)
            if "rustc on emitted" in note_ and re.search(r"let mut b[io] = B[IO]\(", note_) and "does not implement the `Copy` trait" in note_:
                f_["known_class"] = "K_small_obj_struct_bundled"
            res["failures"].append(f_)
        if len(fl) > 7 and fl[7] > 0:
            res["failures"].append(dict(payload, what="a verified struct used as a parameter has a different size in the target compilers than the size used for marshalling"))
        if len(fl) > 8 and fl[8] > 0:
            res["failures"].append(dict(payload, known_class="K_unverified_include",
                                        what="an unverified struct (included file) used as a parameter has a different size in the target compilers than the size used for marshalling"))
        acc = hres[str(k)].get("result") == "ok"
        nacc += acc
        nprobe += len(infos[k]["emitted"]); nraw += len(infos[k]["raw"]); nrust_done += infos[k].get("rust", 0)
        compile_notes += [n for n in infos[k]["notes"]]
        hh = hashlib.sha256(re.sub(r"\d+", "#", "".join(text.values())).encode()).hexdigest()
        if hh not in seen and len(infos[k]["raw"]) >= 2:
            seen.add(hh); distinct += 1
    sample = []
    for k in list(results)[:2]:
        sample.append({"idl": {f["path"]: gen.render_file(f) for f in cases[k]["files"]}, "flags": results[k],
                       "probes": infos[k]["emitted"][:3] or infos[k]["raw"][:3]})
    res["coverage"] = {
        "evaluations": len(results), "distinct_nontrivial": distinct,
        "rule": "struct DAGs over all primitives, arrays (counts to 65535), nested structs, object fields, 1-2 files; 25% of the cases "
                "contain free (possibly misaligned) structs; non-trivial = at least one struct probed by two compilers; distinct after replacing numerals",
        "samples": sample, "accepted": nacc, "probes_of_emitted_types": nprobe, "probes_of_raw_types": nraw,
        "rust_probes": nrust_done, "probe_compile_notes": sorted(set(compile_notes))[:6],
        "layers": {"L0": len(results), "compiler_probes": nprobe + nraw},
    }
    return res
