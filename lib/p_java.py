"""C18 (Java proxies and skeletons): generated interfaces are compiled by the real idlc --java,
by javac against the stand-in runtime (rt/java) and driven Proxy -> capturing IMinkObject ->
MinkObject -> logging implementation (lib/l2java.py).  The arrays seen by the capture are
compared with the model's counts (Coq) and the reference encoding (the Mink rule, l2c), the
values on both sides with the caller's / implementation's.  Methods are classified by
JavaBackend.java_class; each known class is built and run in an interface of its own."""
import os, re
from concurrent.futures import ThreadPoolExecutor
import gen, l2c, l2java, scrape, vlib

RT = os.path.join(vlib.VERIF, "rt", "java")
KNOWN = {1: "K_java_array_field", 2: "K_java_dup_bundle_out", 3: "K_java_nested_struct", 4: "K_java_prim_array",
         5: "K_java_struct_array", 6: "K_java_objarr_out"}
VALS = [0, 1, 2]


def plain_struct(ctx, name, small):
    rng = ctx.rng
    while True:
        n = rng.randint(1, 4 if small else 7)
        fs = sorted((rng.choice(gen.PRIMS) for _ in range(n)), key=lambda t: -gen.PSIZE[t])
        size = sum(gen.PSIZE[t] for t in fs)
        al = max(gen.PSIZE[t] for t in fs)
        while size % al:
            fs.append("uint8"); size += 1
        if (size <= 16) == small:
            break
    fields = [(t, 1, "f%d" % i) for i, t in enumerate(fs)]
    ctx.structs[name] = {"size": size, "align": al, "objs": 0, "fields": fields, "file": 0}
    return ("struct", name, fields)


def gen_batch(rng, ncand=40):
    ctx = gen.Ctx(rng)
    decls = [("iface", "IFoo", None, [("method", "nop", [], False, None)])]
    ctx.ifaces["IFoo"] = {"base": None, "methods": set(), "consts": set(), "file": 0}
    for i in range(2):
        decls.append(plain_struct(ctx, "S%d" % i, True))
    for i in range(2):
        decls.append(plain_struct(ctx, "B%d" % i, False))
    # the shapes of the named classes
    ctx.structs["N0"] = {"size": 8 + ctx.structs["S0"]["size"] + (-ctx.structs["S0"]["size"]) % 8, "align": 8, "objs": 0,
                         "fields": [("uint64", 1, "x"), ("S0", 1, "p")] + [("uint8", 1, "q%d" % i) for i in range((-ctx.structs["S0"]["size"]) % 8)], "file": 0}
    ctx.structs["A0"] = {"size": 16, "align": 8, "objs": 0, "fields": [("uint64", 1, "x"), ("uint32", 2, "arr")], "file": 0}
    decls.append(("struct", "N0", ctx.structs["N0"]["fields"]))
    decls.append(("struct", "A0", ctx.structs["A0"]["fields"]))
    structs = ["S0", "S1", "B0", "B1"]
    # fixed shapes: a small struct next to scalars of exactly its size, in either order and in both
    # directions (the order of equal-sized bundle members is the declaration order in every backend)
    for nm, fl in (("P2", [("uint8", 1, "a"), ("uint8", 1, "b")]), ("P4", [("uint16", 1, "a"), ("uint16", 1, "b")]), ("P8", [("uint32", 1, "a"), ("uint32", 1, "b")])):
        ctx.structs[nm] = {"size": sum(gen.PSIZE[t] for t, _, _ in fl), "align": gen.PSIZE[fl[0][0]], "objs": 0, "fields": fl, "file": 0}
        decls.append(("struct", nm, fl))
    # structs with a nested struct in the middle (the bytes Java ENcodes for them follow the declared layout)
    for nm, fl, sz in (("N1", [("uint32", 1, "id"), ("P4", 1, "hdr"), ("uint32", 1, "len")], 12), ("N2", [("uint64", 1, "a"), ("P8", 1, "mid"), ("uint64", 1, "b")], 24)):
        ctx.structs[nm] = {"size": sz, "align": gen.PSIZE[fl[0][0]], "objs": 0, "fields": fl, "file": 0}
        decls.append(("struct", nm, fl))
    cands = [
        # two (and three) by-value parameters of the same big struct type in one direction
        [("in", "B0", None, "p0"), ("in", "B0", None, "p1"), ("out", "uint32", None, "p2")],
        [("in", "B1", None, "p0"), ("out", "B0", None, "p1"), ("in", "B1", None, "p2"), ("out", "B0", None, "p3"), ("in", "B1", None, "p4")],
        [("out", "N2", None, "p0"), ("in", "uint32", None, "p1")],
        [("out", "N1", None, "p0"), ("out", "uint32", None, "p1"), ("in", "uint8", None, "p2")],
        [("out", "N2", None, "p0"), ("out", "N1", None, "p1")],
        [("in", "P4", None, "p0"), ("in", "uint32", None, "p1")],
        [("in", "uint32", None, "p0"), ("in", "P4", None, "p1")],
        [("out", "P4", None, "p0"), ("out", "uint32", None, "p1"), ("in", "uint8", None, "p2")],
        [("in", "P8", None, "p0"), ("in", "uint64", None, "p1"), ("in", "float64", None, "p2"), ("out", "float64", None, "p3"), ("out", "P8", None, "p4"), ("out", "int64", None, "p5")],
        [("in", "P2", None, "p0"), ("in", "uint16", None, "p1"), ("in", "uint8", None, "p2"), ("in", "P2", None, "p3"), ("in", "int16", None, "p4")],
        [("in", "float32", None, "p0"), ("in", "P4", None, "p1"), ("in", "int32", None, "p2"), ("in", "P8", None, "p3"), ("in", "uint64", None, "p4"), ("out", "P2", None, "p5"), ("out", "uint16", None, "p6")],
    ] if ncand >= 14 else []
    while len(cands) < ncand:
        ps = []
        arr = {"in": False, "out": False}
        val = {"in": False, "out": False}
        for i in range(rng.randint(1, 7)):
            d = rng.choice(["in", "out"])
            r = rng.random()
            pn = "p%d" % len(ps)
            if r < 0.40:
                ps.append((d, rng.choice(gen.PRIMS), None, pn))
            elif r < 0.52:
                ps.append((d, "buffer", None, pn))
            elif r < 0.70:
                ps.append((d, rng.choice(structs), None, pn))
            elif r < 0.80:
                if arr[d]:
                    continue
                val[d] = True
                ps.append((d, rng.choice(["interface", "IFoo"]), None, pn))
            elif r < 0.85:
                if arr[d] or val[d]:
                    continue
                arr[d] = True
                ps.append((d, "IFoo", "[%d]" % rng.randint(1, 3), pn))
            elif r < 0.92:
                # (arrays of one-byte elements are class 0: they travel as the raw slot)
                ps.append((d, rng.choice(["uint8", "int8", "uint8", "int8", "uint16", "uint32", "uint64", "int32", "float32"]), "[]", pn))
            elif r < 0.94:
                ps.append((d, rng.choice(structs), "[]", pn))
            elif r < 0.97:
                ps.append((d, "N0", None, pn))
            else:
                ps.append((d, "A0", None, pn))
        if ps:
            cands.append(ps)
    return ctx, decls, cands


def render(decls, iface, methods):
    ds = list(decls) + [("iface", iface, None, [("method", n, ps, False, None) for n, ps in methods])]
    return gen.render_file({"path": "l2.idl", "includes": [], "decls": ds})


def javac_run(root, ctx, methods, status=0):
    out = os.path.join(root, "out")
    cls = os.path.join(root, "cls")
    os.makedirs(cls, exist_ok=True)
    open(os.path.join(out, "Drive.java"), "w").write(l2java.generate(ctx, "IJ", "l2", methods, VALS, status))
    srcs = [os.path.join(dp, f) for dp, _, fs in os.walk(RT) for f in fs if f.endswith(".java")]
    srcs += [os.path.join(out, f) for f in sorted(os.listdir(out)) if f.endswith(".java")]
    rc, o, e = vlib.run(["javac", "-nowarn", "-d", cls] + srcs, timeout=300)
    if rc != 0:
        errs = [l for l in e.split("\n") if ": error:" in l]
        return {"stage": "javac", "errors": errs[:12], "generated_file_errors": [l for l in errs if "/Drive.java" not in l][:8]}
    rc, o, e = vlib.run(["java", "-Xss4m", "-cp", cls, "com.qualcomm.qti.mink.Drive"], timeout=120)
    return {"stage": "run", "rc": rc, "out": o, "err": e[-1500:]}


def expected(ctx, methods, status=0):
    """[(method, valuation, xport-pre, xport-post, impl, ret)] from the Mink rule alone"""
    out = []
    lg = l2c.expected_log(ctx, "IJ", methods, VALS, None, None, status)
    xp = l2c.expected_transport(ctx, methods, VALS, [m for m, _ in methods])
    for i, (mname, v, pre, post) in enumerate(xp):
        k = [m for m, _ in methods].index(mname)
        params = methods[k][1]
        plan = l2c.ref_plan(ctx, params)
        cnt = l2c.ref_counts(ctx, params)
        base = cnt[0] + cnt[1]
        j = 0
        for p, prm in plan["in"][2]:
            for jj in range(1 if prm[2] is None else int(prm[2][1:-1])):
                pre += " oi%d=obj:%d" % (base + j, l2c.in_obj(k, p, v, jj)); j += 1
        for p, prm in plan["out"][2]:
            for jj in range(1 if prm[2] is None else int(prm[2][1:-1])):
                post += " oo%d=obj:%d" % (base + j, l2c.out_obj(k, p, v, jj)); j += 1
        if status:
            post = "xport ret=%d" % status
        out.append((mname, v, pre, post, lg[2 * i][3], lg[2 * i + 1][3]))
    return out


def compare(res, exp):
    """-> (mismatches [(method, v, what, expected, got)], captured counts {method: (bi,bo,oi,oo)})"""
    lines = [l for l in res["out"].split("\n") if l.strip()]
    bad, cap = [], {}
    i = 0
    for mname, v, pre, post, impl, ret in exp:
        want = [pre, impl, post, ret]
        got = []
        # a call's lines end at its "ret <method>" line
        while i < len(lines):
            got.append(lines[i]); i += 1
            if got[-1].startswith("ret "):
                break
        if got and got[0].startswith("xport op="):
            m = re.match(r"xport op=\d+ k=(\d+),(\d+),(\d+),(\d+)", got[0])
            cap.setdefault(mname, tuple(int(x) for x in m.groups()))
        if got != want:
            for w, g in zip(want, got + ["<missing>"] * 4):
                if w != g:
                    bad.append((mname, v, w.split(" ")[0], w, g))
                    break
            else:
                bad.append((mname, v, "extra", "", " | ".join(got[len(want):])))
    return bad, cap


def run(ctx_):
    prop, tier, seed, work = ctx_["prop"], ctx_["tier"], ctx_["seed"], ctx_["work"]
    nb = 3 if tier == "quick" else 40
    res = {"coverage": {}, "failures": [], "corr_broken": []}
    if not ctx_["harness"] or not ctx_["checks_vo"]:
        res["coverage"] = {"evaluations": 0, "distinct_nontrivial": 0, "rule": "not run", "samples": []}
        return res
    rng = vlib.mkrng(seed, prop)
    batches = [gen_batch(rng) for _ in range(nb)]
    # ---- phase 1: classify the candidate methods with the model
    lines, defs = [], []
    for b, (c, decls, cands) in enumerate(batches):
        root = os.path.join(work, "cand%d" % b)
        os.makedirs(root, exist_ok=True)
        open(os.path.join(root, "l2.idl"), "w").write(render(decls, "IJ", [("c%d" % i, ps) for i, ps in enumerate(cands)]))
        lines.append("%d\tcli\t-\t%s\t" % (b, os.path.join(root, "l2.idl")))
    cf = os.path.join(work, "cases.txt")
    open(cf, "w").write("\n".join(lines) + "\n")
    rc, out, err = vlib.run([ctx_["harness"], "front", cf], timeout=600)
    hres = vlib.parse_harness(out)
    for b in range(nb):
        h = hres.get(str(b))
        if not h or h["result"] != "ok":
            res["corr_broken"].append({"kind": "generator", "detail": "candidate batch %d is rejected by the front end: %s" % (b, (h or {}).get("result"))})
            continue
        defs.append((b, "Definition f_%d : list ast := %s.\n" % (b, h["files"]), 'chk_java_classes f_%d "IJ"' % b))
    classes, errors = vlib.eval_cases(os.path.join(work, "coq1"), "cls", "", defs, shard_size=2)
    for e in errors:
        res["corr_broken"].append({"kind": "case-evaluation", "detail": e})
    # ---- phase 2: one interface per class
    groups = []       # (batch, class, ctx, decls, methods)
    for b, (c, decls, cands) in enumerate(batches):
        cl = classes.get(b)
        if cl is None or len(cl) != len(cands):
            continue
        for code in range(0, 7):
            ms = [ps for ps, k in zip(cands, cl) if k == code]
            if code != 0:
                ms = ms[:3]
            if ms:
                groups.append((b, code, c, decls, [("m%d" % i, ps) for i, ps in enumerate(ms)]))

    def do(g):
        b, code, c, decls, methods = groups[g]
        root = os.path.join(work, "g%d_b%d_c%d" % (g, b, code))
        os.makedirs(os.path.join(root, "out"), exist_ok=True)
        open(os.path.join(root, "l2.idl"), "w").write(render(decls, "IJ", methods))
        r = scrape.idlc_run(ctx_["idlc"], os.path.join(root, "l2.idl"), os.path.join(root, "out"), "java", False)
        if r[0] != 0:
            return g, {"stage": "idlc", "err": r[2][-400:]}
        r1 = javac_run(root, c, methods, 0)
        r2 = None
        if code == 0 and r1["stage"] == "run":
            r2 = javac_run(root, c, methods, 11)
        return g, (r1, r2)

    with ThreadPoolExecutor(max_workers=vlib.NCPU) as ex:
        results = dict(ex.map(do, range(len(groups))))
    # the model on the final clean files: captured counts against java_slots
    lines = ["%d\tcli\t-\t%s\t" % (g, os.path.join(work, "g%d_b%d_c%d" % (g, gr[0], gr[1]), "l2.idl")) for g, gr in enumerate(groups) if gr[1] == 0]
    open(cf, "w").write("\n".join(lines) + "\n")
    rc, out, err = vlib.run([ctx_["harness"], "front", cf], timeout=600)
    hres = vlib.parse_harness(out)
    ncalls, nmeth, khist, cdefs = 0, 0, {}, []
    shapes = {}
    for g, (b, code, c, decls, methods) in enumerate(groups):
        r = results[g]
        idl = render(decls, "IJ", methods)
        if isinstance(r, dict):
            res["corr_broken"].append({"kind": "correspondence", "detail": "idlc --java rejects a file the front-end model accepts: %s" % r["err"]})
            continue
        r1, r2 = r
        if code == 0:
            if r1["stage"] != "run":
                res["failures"].append({"property": prop, "idl": idl, "what": "generated Java of methods outside every known class does not compile",
                                        "observed": "\n".join(r1["errors"])})
                continue
            bad, cap = compare(r1, expected(c, methods, 0))
            bad2, _ = compare(r2, expected(c, methods, 11)) if r2 and r2["stage"] == "run" else ([], {})
            for mname, v, what, w, got in (bad + bad2)[:6]:
                ps = dict(methods)[mname]
                res["failures"].append({"property": prop, "idl": idl, "method": "method %s(%s)" % (mname, ", ".join("%s %s%s %s" % (d, t, sh or "", pn) for d, t, sh, pn in ps)),
                                        "valuation": v, "what": "Java Proxy -> MinkObject: the %s line differs" % what, "expected": w[:700], "observed": got[:700]})
            nmeth += len(methods)
            ncalls += len(methods) * (len(VALS) + len(VALS))
            for _, ps in methods:
                for d_, t_, sh_, _ in ps:
                    key = "%s %s%s" % (d_, "struct" if t_ in c.structs else t_, "[]" if sh_ else "")
                    shapes[key] = shapes.get(key, 0) + 1
            h = hres.get(str(g))
            if h and h["result"] == "ok":
                caps = "; ".join('("%s", (%d, %d, %d, %d))' % ((m,) + cap[m]) for m in cap)
                cdefs.append((g, "Definition f_%d : list ast := %s.\n" % (g, h["files"]), 'chk_java_counts f_%d "IJ" [%s]' % (g, caps)))
            else:
                res["corr_broken"].append({"kind": "correspondence", "detail": "front end rejects clean group %d" % g})
        else:
            cls = KNOWN[code]
            khist.setdefault(cls, [0, 0])
            khist[cls][0] += len(methods)
            failed = None
            if r1["stage"] == "javac":
                if r1["generated_file_errors"]:
                    failed = "javac: " + "; ".join(r1["generated_file_errors"][:3])
                else:
                    res["corr_broken"].append({"kind": "harness", "detail": "the Java driver itself does not compile: %s" % r1["errors"][:3]})
            else:
                bad, _ = compare(r1, expected(c, methods, 0))
                if bad:
                    failed = "%s line of %s differs: expected %s, got %s" % (bad[0][2], bad[0][0], bad[0][3][:200], bad[0][4][:200])
                    # the nested-struct class is a NullPointerException when a nested member is DEcoded; what the
                    # proxy or the skeleton ENcodes (the bytes the transport sees) works on the unchanged tree and
                    # is held to the wire model like everything else
                    ps_bad = dict(methods)[bad[0][0]]
                    pure = all(sh_ is None and t_ != "A0" for d_, t_, sh_, pn_ in ps_bad)      # no parameter of another known class beside it
                    if code == 3 and pure and bad[0][2] == "xport" and "Exception" not in bad[0][4]:
                        res["failures"].append({"property": prop, "idl": idl, "what": "Java bytes of a struct with a nested struct differ from the C-family layout: " + failed})
                        failed = None
            if failed:
                khist[cls][1] += 1
                res["failures"].append({"property": prop, "known_class": cls, "idl": idl, "what": failed})
    flags, errors = vlib.eval_cases(os.path.join(work, "coq2"), "cnt", "", cdefs, shard_size=2)
    for e in errors:
        res["corr_broken"].append({"kind": "case-evaluation", "detail": e})
    for g, fl in flags.items():
        if len(fl) != 2 or fl[0] != 0:
            res["failures"].append({"property": prop, "idl": render(groups[g][3], "IJ", groups[g][4]),
                                    "what": "the lengths of the bi/boSizes/oi/oo arrays the Java proxy passes to invoke differ from the counts of the C-family plan for %s method(s)" % (fl[0] if fl else "?")})
    res["coverage"] = {
        "evaluations": ncalls, "distinct_nontrivial": nmeth,
        "rule": "%d batches of 40 candidate methods (1-7 parameters over the ten primitives, buffers, small and big structs of primitives, objects, typed object arrays, "
                "primitive and struct arrays, a nested struct, a struct with an array field), classified by JavaBackend.java_class; the class-0 methods of a batch form one interface, "
                "run with 3 valuations (boundary lengths and capacities, null objects) under status 0 and status 11 through Proxy -> capture -> MinkObject; "
                "up to 3 methods of every other class form an interface of their own; non-trivial = a class-0 method" % nb,
        "samples": [{"idl": render(groups[0][3], "IJ", groups[0][4])[:900]}] if groups else [],
        "parameter_shapes_called": shapes, "known_class_methods_and_failing_groups": khist,
    }
    res["trusted_extra"] = ["lib/l2java.py + rt/java: generator of the Java driver (logging implementation, capturing IMinkObject, callers) and the stand-in runtime; javac/java 17",
                            "lib/l2c.py reference encoder (expected logs)"]
    return res
