"""Generator of the data nine-pairing harness (C01): for one generated interface whose methods
take DATA (primitives of several widths, untyped buffers, primitive arrays, small and big structs,
struct arrays - so bundles, discrete buffers, lengths and capacities) it writes a C side, a C++
side and a Rust side, each with a caller (drives the generated stub of its language) and an
implementation (behind the generated skeleton of its language).  rt/obj/main.c connects every
caller with every implementation.  Every side fills and logs memory only through rt/data/dpat.c,
so the nine pairings must print the same lines: what the implementation receives (values, bytes,
lengths, capacities) and what the caller gets back (status, values, bytes, returned lengths)."""
import os

PRIMS = {"uint8": ("uint8_t", "u8", 1), "uint16": ("uint16_t", "u16", 2), "uint32": ("uint32_t", "u32", 4), "uint64": ("uint64_t", "u64", 8),
         "int8": ("int8_t", "i8", 1), "int16": ("int16_t", "i16", 2), "int32": ("int32_t", "i32", 4), "int64": ("int64_t", "i64", 8),
         "float32": ("float", "f32", 4), "float64": ("double", "f64", 8)}
FLOATS = ("float32", "float64")
STRUCTS = {"SD": 8, "BD": 24, "SX": 16, "SY": 17}
IDL_PRELUDE = """struct SD { uint32 a; uint16 b; uint8 c; uint8 d; };
struct BD { uint64 x; uint64 y; uint32 z; uint32 w; };
struct SX { uint64 p; uint32 q; uint16 r; uint8 s; uint8 t; };
struct SY { uint8[17] raw; };
"""


def gen_methods(rng, n):
    ms = []
    while len(ms) < n:
        ps = []
        for i in range(rng.randint(0, 7)):
            d = rng.choice(["in", "out"])
            r = rng.random()
            if r < 0.40:
                ps.append((d, rng.choice(sorted(PRIMS)), None, "p%d" % len(ps)))
            elif r < 0.52:
                ps.append((d, "buffer", None, "p%d" % len(ps)))
            elif r < 0.66:
                ps.append((d, rng.choice(sorted(PRIMS)), "[]", "p%d" % len(ps)))
            elif r < 0.86:
                ps.append((d, rng.choice(sorted(STRUCTS)), None, "p%d" % len(ps)))
            else:
                ps.append((d, rng.choice(sorted(STRUCTS)), "[]", "p%d" % len(ps)))
        # at most 15 discrete buffers per direction: never reached with 7 parameters
        ms.append(("m%d" % len(ms), ps))
    return ms


def mark_optional(rng, methods):
    """-> {name: "impl" | "absent"} for a third of the methods: optional ones, half of them left out by
    all three implementations (every pairing must then answer with the same refusal status)"""
    return {n: rng.choice(["impl", "absent"]) for n, ps in methods if rng.random() < 0.33}


def render_idl(methods, chain=False, opt=None):
    opt = opt or {}
    def block(name, base, part):
        out = ["interface %s%s {" % (name, " : " + base if base else "")]
        for n, ps in part:
            if n in opt:
                out.append("  #[optional]")
            out.append("  method %s(%s);" % (n, ", ".join("%s %s%s %s" % (d, t, sh or "", pn) for d, t, sh, pn in ps)))
        out.append("};")
        return out
    out = [IDL_PRELUDE]
    if chain:
        a, b = len(methods) // 3, 2 * len(methods) // 3
        out += block("IL0", None, methods[:a]) + block("IL1", "IL0", methods[a:b]) + block("IL2", "IL1", methods[b:])
    else:
        out += block("IL2", None, methods)
    return "\n".join(out) + "\n"


def esize(t):
    return 1 if t == "buffer" else (PRIMS[t][2] if t in PRIMS else STRUCTS[t])


def ctype(t):
    return "void" if t == "buffer" else (PRIMS[t][0] if t in PRIMS else t)


def kind(t, sh):
    if sh == "[]" or t == "buffer":
        return "seq"
    return "prim" if t in PRIMS else "struct"


# ---------------------------------------------------------------- C side
def c_side(methods, opt=None):
    opt = opt or {}
    A = ['#include <stdio.h>\n#include <stdlib.h>\n#include <string.h>\n#include "cobj.h"\n#include "dpat.h"\n#include "l2.h"\n#include "l2_invoke.h"\n',
         "typedef struct { int refs; } CImpl;\n"
         "static int32_t cimpl_retain(CImpl *me) { me->refs++; return Object_OK; }\n"
         "static int32_t cimpl_release(CImpl *me) { if (--me->refs == 0) { impl_died(); free(me); } return Object_OK; }\n"]
    for k, (name, ps) in enumerate(methods):
        sig, log, post = ["CImpl *me"], [], []
        for i, (d, t, sh, pn) in enumerate(ps):
            kd, ct, es = kind(t, sh), ctype(t), esize(t)
            if kd == "prim":
                if d == "in":
                    sig.append("%s %s_val" % (ct, pn)); log.append(("  L_f64(%d, (double)%s_val);" if t in FLOATS else "  L_u64(%d, (uint64_t)%s_val);") % (i, pn))
                else:
                    sig.append("%s *%s_ptr" % (ct, pn)); post.append("  *%s_ptr = (%s)%s(%d, %d, v, 1);" % (pn, ct, "d_f64" if t in FLOATS else "d_prim", k, i))
            elif kd == "struct":
                if d == "in":
                    sig.append("const %s *%s_ptr" % (ct, pn)); log.append("  L_hex(%d, %s_ptr, sizeof(%s));" % (i, pn, ct))
                else:
                    sig.append("%s *%s_ptr" % (ct, pn)); post.append("  d_fill(%s_ptr, sizeof(%s), %d, %d, v, 1);" % (pn, ct, k, i))
            else:
                if d == "in":
                    sig += ["const %s *%s_ptr" % (ct, pn), "size_t %s_len" % pn]
                    log.append("  L_hex(%d, %s_ptr, %s_len * %d);" % (i, pn, pn, es))
                else:
                    sig += ["%s *%s_ptr" % (ct, pn), "size_t %s_len" % pn, "size_t *%s_lenout" % pn]
                    log.append("  L_len(%d, %s_len);" % (i, pn))
                    post.append("  { size_t n = d_out_want(%d, %d, v); if (n > %s_len) n = %s_len; d_fill(%s_ptr, n * %d, %d, %d, v, 1); *%s_lenout = n; }" % (k, i, pn, pn, pn, es, k, i, pn))
        if opt.get(name) == "absent":
            continue
        # (the skeleton declares optional methods weak: their definitions have external linkage)
        A.append("%sint32_t cimpl_%s(%s) {\n  (void)me; int v = sc_val(); (void)v;\n  L_begin(\"impl\", %d, v);\n%s\n  L_end();\n"
                 "  if (sc_status()) return sc_status();\n%s\n  return Object_OK;\n}\n" % ("" if name in opt else "static ", name, ", ".join(sig), k, "\n".join(log), "\n".join(post)))
    A.append("static IL2_DEFINE_INVOKE(c_skel_invoke, cimpl_, CImpl *)\n")
    A.append("Object c_impl_new(void) { CImpl *me = malloc(sizeof *me); me->refs = 1; impl_born(); return (Object){c_skel_invoke, me}; }\n")
    for k, (name, ps) in enumerate(methods):
        L = ["static void c_call_%s(Object target, int v) {" % name]
        args, outs = ["target"], []
        for i, (d, t, sh, pn) in enumerate(ps):
            kd, ct, es = kind(t, sh), ctype(t), esize(t)
            if kd == "prim":
                if d == "in":
                    args.append("(%s)%s(%d, %d, v, 0)" % (ct, "d_f64" if t in FLOATS else "d_prim", k, i))
                else:
                    L.append("  %s %s = 0;" % (ct, pn)); args.append("&" + pn); outs.append(("  L_f64(%d, (double)%s);" if t in FLOATS else "  L_u64(%d, (uint64_t)%s);") % (i, pn))
            elif kd == "struct":
                L.append("  %s %s; memset(&%s, 0, sizeof %s);" % (ct, pn, pn, pn))
                args.append("&" + pn)
                if d == "in":
                    L.append("  d_fill(&%s, sizeof %s, %d, %d, v, 0);" % (pn, pn, k, i))
                else:
                    outs.append("  L_hex(%d, &%s, sizeof %s);" % (i, pn, pn))
            else:
                bt = "unsigned char" if t == "buffer" else ct
                if d == "in":
                    L.append("  size_t %s_n = d_in_len(%d, %d, v); %s *%s = malloc(%s_n * %d + 1); d_fill(%s, %s_n * %d, %d, %d, v, 0);" % (pn, k, i, bt, pn, pn, es, pn, pn, es, k, i))
                    args += [pn, "%s_n" % pn]
                else:
                    L.append("  size_t %s_n = d_out_cap(%d, %d, v), %s_lo = 0; %s *%s = malloc(%s_n * %d + 1); memset(%s, 0xEE, %s_n * %d + 1);" % (pn, k, i, pn, bt, pn, pn, es, pn, pn, es))
                    args += [pn, "%s_n" % pn, "&%s_lo" % pn]
                    outs.append("  L_len(%d, %s_lo); if (%s_lo <= %s_n) L_hex(%d, %s, %s_lo * %d);" % (i, pn, pn, pn, i, pn, pn, es))
        L.append("  int32_t r = IL2_%s(%s);" % (name, ", ".join(args)))
        L.append('  L_begin("ret", %d, v); L_int("status", r);' % k)
        L.append("  if (r == 0) {")
        L += outs
        L.append("  }\n  L_end();")
        for i, (d, t, sh, pn) in enumerate(ps):
            if kind(t, sh) == "seq":
                L.append("  free(%s);" % pn)
        L.append("}")
        A.append("\n".join(L) + "\n")
    A.append("void c_caller(Object target) {")
    A.append(DRIVE % {"call": "\n".join("      c_call_%s(target, v);" % name for name, _ in methods)})
    A.append("}\n")
    return "\n".join(A)


DRIVE = """  for (int st = 0; st < 2; st++)
    for (int v = 0; v < NVAL; v++) {
      sc_set(v, st ? 11 : 0);
%(call)s
    }"""


# ---------------------------------------------------------------- C++ side
def cpp_side(methods, opt=None):
    opt = opt or {}
    A = ['#include <cstdio>\n#include <cstdlib>\n#include <cstring>\n#include <stdint.h>\n#include "cobj.h"\n#include "dpat.h"\n#include "proxy_base.hpp"\n#include "impl_base.hpp"\n#include "l2.hpp"\n#include "l2_invoke.hpp"\n',
         "class CppImpl : public IL2ImplBase {\n public:\n  CppImpl() { impl_born(); }\n  virtual ~CppImpl() { impl_died(); }"]
    for k, (name, ps) in enumerate(methods):
        sig, log, post = [], [], []
        for i, (d, t, sh, pn) in enumerate(ps):
            kd, ct, es = kind(t, sh), ctype(t), esize(t)
            if kd == "prim":
                if d == "in":
                    sig.append("%s %s_val" % (ct, pn)); log.append(("    L_f64(%d, (double)%s_val);" if t in FLOATS else "    L_u64(%d, (uint64_t)%s_val);") % (i, pn))
                else:
                    sig.append("%s *%s_ptr" % (ct, pn)); post.append("    *%s_ptr = (%s)%s(%d, %d, v, 1);" % (pn, ct, "d_f64" if t in FLOATS else "d_prim", k, i))
            elif kd == "struct":
                if d == "in":
                    sig.append("const %s &%s_ref" % (ct, pn)); log.append("    L_hex(%d, &%s_ref, sizeof(%s));" % (i, pn, ct))
                else:
                    sig.append("%s &%s_ref" % (ct, pn)); post.append("    d_fill(&%s_ref, sizeof(%s), %d, %d, v, 1);" % (pn, ct, k, i))
            else:
                if d == "in":
                    sig += ["const %s *%s_ptr" % (ct, pn), "size_t %s_len" % pn]
                    log.append("    L_hex(%d, %s_ptr, %s_len * %d);" % (i, pn, pn, es))
                else:
                    sig += ["%s *%s_ptr" % (ct, pn), "size_t %s_len" % pn, "size_t *%s_lenout" % pn]
                    log.append("    L_len(%d, %s_len);" % (i, pn))
                    post.append("    { size_t n = d_out_want(%d, %d, v); if (n > %s_len) n = %s_len; d_fill(%s_ptr, n * %d, %d, %d, v, 1); *%s_lenout = n; }" % (k, i, pn, pn, pn, es, k, i, pn))
        if opt.get(name) == "absent":
            continue
        A.append("  int32_t %s(%s) override {\n    int v = sc_val(); (void)v;\n    L_begin(\"impl\", %d, v);\n%s\n    L_end();\n"
                 "    if (sc_status()) return sc_status();\n%s\n    return Object_OK;\n  }" % (name, ", ".join(sig), k, "\n".join(log), "\n".join(post)))
    A.append("};\n")
    A.append('extern "C" Object cpp_impl_new(void) { CppImpl *me = new CppImpl(); return (Object){ImplBase::invoke, me}; }\n')
    for k, (name, ps) in enumerate(methods):
        L = ["static void cpp_call_%s(IL2 &proxy, int v) {" % name]
        args, outs = [], []
        for i, (d, t, sh, pn) in enumerate(ps):
            kd, ct, es = kind(t, sh), ctype(t), esize(t)
            if kd == "prim":
                if d == "in":
                    args.append("(%s)%s(%d, %d, v, 0)" % (ct, "d_f64" if t in FLOATS else "d_prim", k, i))
                else:
                    L.append("  %s %s = 0;" % (ct, pn)); args.append("&" + pn); outs.append(("  L_f64(%d, (double)%s);" if t in FLOATS else "  L_u64(%d, (uint64_t)%s);") % (i, pn))
            elif kd == "struct":
                L.append("  %s %s; memset(&%s, 0, sizeof %s);" % (ct, pn, pn, pn))
                args.append(pn)
                if d == "in":
                    L.append("  d_fill(&%s, sizeof %s, %d, %d, v, 0);" % (pn, pn, k, i))
                else:
                    outs.append("  L_hex(%d, &%s, sizeof %s);" % (i, pn, pn))
            else:
                bt = "unsigned char" if t == "buffer" else ct
                if d == "in":
                    L.append("  size_t %s_n = d_in_len(%d, %d, v); %s *%s = (%s *)malloc(%s_n * %d + 1); d_fill(%s, %s_n * %d, %d, %d, v, 0);" % (pn, k, i, bt, pn, bt, pn, es, pn, pn, es, k, i))
                    args += [pn, "%s_n" % pn]
                else:
                    L.append("  size_t %s_n = d_out_cap(%d, %d, v), %s_lo = 0; %s *%s = (%s *)malloc(%s_n * %d + 1); memset(%s, 0xEE, %s_n * %d + 1);" % (pn, k, i, pn, bt, pn, bt, pn, es, pn, pn, es))
                    args += [pn, "%s_n" % pn, "&%s_lo" % pn]
                    outs.append("  L_len(%d, %s_lo); if (%s_lo <= %s_n) L_hex(%d, %s, %s_lo * %d);" % (i, pn, pn, pn, i, pn, pn, es))
        L.append("  int32_t r = proxy.%s(%s);" % (name, ", ".join(args)))
        L.append('  L_begin("ret", %d, v); L_int("status", r);' % k)
        L.append("  if (r == 0) {")
        L += outs
        L.append("  }\n  L_end();")
        for i, (d, t, sh, pn) in enumerate(ps):
            if kind(t, sh) == "seq":
                L.append("  free(%s);" % pn)
        L.append("}")
        A.append("\n".join(L) + "\n")
    A.append('extern "C" void cpp_caller(Object target) {\n  Object_retain(target);\n  IL2 proxy(target);')
    A.append(DRIVE % {"call": "\n".join("      cpp_call_%s(proxy, v);" % name for name, _ in methods)})
    A.append("}\n")
    return "\n".join(A)


# ---------------------------------------------------------------- Rust side
RUST_HEAD = """// C01 data harness, Rust side (generated by lib/l2data.py)
#![allow(warnings)]
#[path = "@TESTS@/src/object/mod.rs"]
pub mod object;
pub mod interfaces {
    pub mod l2 { include!("@OUT@/l2.rs"); }
@MODS@
}
use interfaces::il2::{Error, IIL2, IL2};
use interfaces::l2::{BD, SD, SX, SY};
use core::ffi::c_void;

#[repr(C)]
#[derive(Clone, Copy)]
pub struct RawObj { invoke: *const c_void, context: *mut c_void }
extern "C" {
    fn sc_val() -> i32;
    fn sc_status() -> i32;
    fn sc_set(v: i32, status: i32);
    fn L_begin(tag: *const u8, k: i32, v: i32);
    fn L_int(name: *const u8, x: i32);
    fn L_end();
    fn impl_born();
    fn impl_died();
    fn d_in_len(k: i32, i: i32, v: i32) -> usize;
    fn d_out_cap(k: i32, i: i32, v: i32) -> usize;
    fn d_out_want(k: i32, i: i32, v: i32) -> usize;
    fn d_prim(k: i32, i: i32, v: i32, salt: i32) -> u64;
    fn d_fill(p: *mut c_void, n: usize, k: i32, i: i32, v: i32, salt: i32);
    fn L_hex(idx: i32, p: *const c_void, n: usize);
    fn L_u64(idx: i32, x: u64);
    fn L_len(idx: i32, n: usize);
    fn d_f64(k: i32, i: i32, v: i32, salt: i32) -> f64;
    fn L_f64(idx: i32, x: f64);
}
struct RustImpl;
impl Drop for RustImpl { fn drop(&mut self) { unsafe { impl_died() } } }
"""


def rty(t):
    return "u8" if t == "buffer" else (PRIMS[t][1] if t in PRIMS else t)


def rust_side(methods, tests, out, nval, chain=False, opt=None):
    opt = opt or {}
    mods = "    pub mod il2 { include!(\"%s/il2.rs\"); }" % out
    if chain:
        mods += "\n    pub mod il0 { include!(\"%s/il0.rs\"); }\n    pub mod il1 { include!(\"%s/il1.rs\"); }" % (out, out)
    A = [RUST_HEAD.replace("@TESTS@", tests).replace("@OUT@", out).replace("@MODS@", mods) + "const NVAL: i32 = %d;\n" % nval]
    a, b = (len(methods) // 3, 2 * len(methods) // 3) if chain else (0, 0)
    parts = [("IIL2", methods[b:], b)] if chain else [("IIL2", methods, 0)]
    if chain:
        A.append("use interfaces::il0::IIL0;\nuse interfaces::il1::IIL1;\n")
        parts = [("IIL0", methods[:a], 0), ("IIL1", methods[a:b], a), ("IIL2", methods[b:], b)]
    for trait, part, off in parts:
        A.append("impl %s for RustImpl {" % trait)
        for kk, (name, ps) in enumerate(part):
            k = kk + off
            sig, log, pre, rets, retty = ["&mut self"], [], [], [], []
            for i, (d, t, sh, pn) in enumerate(ps):
                kd, rt, es = kind(t, sh), rty(t), esize(t)
                if kd == "prim":
                    if d == "in":
                        sig.append("%s: %s" % (pn, rt)); log.append(("        L_f64(%d, %s as f64);" if t in FLOATS else "        L_u64(%d, %s as u64);") % (i, pn))
                    else:
                        retty.append(rt); rets.append("%s(%d, %d, v, 1) as %s" % ("d_f64" if t in FLOATS else "d_prim", k, i, rt))
                elif kd == "struct":
                    if d == "in":
                        sig.append("%s: &%s" % (pn, rt)); log.append("        L_hex(%d, %s as *const %s as *const c_void, std::mem::size_of::<%s>());" % (i, pn, rt, rt))
                    else:
                        retty.append(rt)
                        pre.append("        let mut %s: %s = std::mem::zeroed(); d_fill(&mut %s as *mut %s as *mut c_void, std::mem::size_of::<%s>(), %d, %d, v, 1);" % (pn, rt, pn, rt, rt, k, i))
                        rets.append(pn)
                else:
                    if d == "in":
                        sig.append("%s: &[%s]" % (pn, rt)); log.append("        L_hex(%d, %s.as_ptr() as *const c_void, %s.len() * %d);" % (i, pn, pn, es))
                    else:
                        sig += ["%s: &mut [%s]" % (pn, rt), "%s_lenout: &mut usize" % pn]
                        log.append("        L_len(%d, %s.len());" % (i, pn))
                        pre.append("        { let mut n = d_out_want(%d, %d, v); if n > %s.len() { n = %s.len(); } d_fill(%s.as_mut_ptr() as *mut c_void, n * %d, %d, %d, v, 1); *%s_lenout = n; }" % (k, i, pn, pn, pn, es, k, i, pn))
            if opt.get(name) == "absent":
                continue
            ety = "interfaces::%s::Error" % trait[1:].lower()
            A.append("    fn r#%s(%s) -> Result<(%s), %s> {\n      unsafe {\n        let v = sc_val();\n        L_begin(b\"impl\\0\".as_ptr(), %d, v);\n%s\n        L_end();\n"
                     "        if sc_status() != 0 { return Err(std::mem::transmute::<i32, %s>(sc_status())); }\n%s\n        Ok((%s))\n      }\n    }"
                     % (name, ", ".join(sig), ", ".join(retty), ety, k, "\n".join(log), ety, "\n".join(pre), ", ".join(rets)))
        A.append("}\n")
    A.append("#[no_mangle]\npub extern \"C\" fn rust_impl_new() -> RawObj {\n    unsafe { impl_born(); }\n    let o: IL2 = IL2::from(RustImpl);\n    unsafe { std::mem::transmute::<IL2, RawObj>(o) }\n}\n")
    for k, (name, ps) in enumerate(methods):
        L = ["unsafe fn rust_call_%s(target: &IL2, v: i32) {" % name]
        args, pats, outs = [], [], []
        for i, (d, t, sh, pn) in enumerate(ps):
            kd, rt, es = kind(t, sh), rty(t), esize(t)
            if kd == "prim":
                if d == "in":
                    args.append("%s(%d, %d, v, 0) as %s" % ("d_f64" if t in FLOATS else "d_prim", k, i, rt))
                else:
                    pats.append(pn); outs.append(("            L_f64(%d, %s as f64);" if t in FLOATS else "            L_u64(%d, %s as u64);") % (i, pn))
            elif kd == "struct":
                if d == "in":
                    L.append("    let mut %s: %s = std::mem::zeroed(); d_fill(&mut %s as *mut %s as *mut c_void, std::mem::size_of::<%s>(), %d, %d, v, 0);" % (pn, rt, pn, rt, rt, k, i))
                    args.append("&" + pn)
                else:
                    pats.append(pn); outs.append("            L_hex(%d, &%s as *const %s as *const c_void, std::mem::size_of::<%s>());" % (i, pn, rt, rt))
            else:
                if d == "in":
                    L.append("    let %s_n = d_in_len(%d, %d, v); let mut %s: Vec<%s> = vec![std::mem::zeroed(); %s_n]; d_fill(%s.as_mut_ptr() as *mut c_void, %s_n * %d, %d, %d, v, 0);" % (pn, k, i, pn, rt, pn, pn, pn, es, k, i))
                    args.append("&%s[..]" % pn)
                else:
                    L.append("    let %s_n = d_out_cap(%d, %d, v); let mut %s: Vec<%s> = vec![std::mem::zeroed(); %s_n]; let mut %s_lo: usize = 0;" % (pn, k, i, pn, rt, pn, pn))
                    args += ["&mut %s[..]" % pn, "&mut %s_lo" % pn]
                    outs.append("            L_len(%d, %s_lo); if %s_lo <= %s_n { L_hex(%d, %s.as_ptr() as *const c_void, %s_lo * %d); }" % (i, pn, pn, pn, i, pn, pn, es))
        L.append("    match target.r#%s(%s) {" % (name, ", ".join(args)))
        L.append("        Ok((%s)) => {" % ", ".join(pats))
        L.append('            L_begin(b"ret\\0".as_ptr(), %d, v); L_int(b"status\\0".as_ptr(), 0);' % k)
        L += outs
        L.append("            L_end();\n        }")
        L.append("        Err(e) => {")
        L.append('            L_begin(b"ret\\0".as_ptr(), %d, v); L_int(b"status\\0".as_ptr(), std::mem::transmute_copy::<_, i32>(&e)); L_end();' % k)
        L.append("        }\n    }\n}")
        A.append("\n".join(L) + "\n")
    A.append("#[no_mangle]\npub unsafe extern \"C\" fn rust_caller(target: RawObj) {\n    let t: IL2 = std::mem::transmute::<RawObj, IL2>(target);\n    let t = std::mem::ManuallyDrop::new(t);")
    A.append("    for st in 0..2 {\n        for v in 0..NVAL {\n            sc_set(v, if st == 1 { 11 } else { 0 });")
    for name, _ in methods:
        A.append("            rust_call_%s(&t, v);" % name)
    A.append("        }\n    }\n}\n")
    return "\n".join(A)


# ---------------------------------------------------------------- build, run, compare
def build_and_run(idlc, root, methods, chain=False, san=True, opt=None, extra_env=None):
    """-> {"stage": ..., ...}; on success "out" is the program's log"""
    import scrape, vlib, p_refcount
    TESTS, RT = p_refcount.TESTS, p_refcount.RT
    DRT = os.path.join(os.path.dirname(RT), "data")
    os.makedirs(root, exist_ok=True)
    open(os.path.join(root, "l2.idl"), "w").write(render_idl(methods, chain, opt))
    err = p_refcount.emit(idlc, root)
    if err:
        return {"stage": "emit", "err": err}
    nval = 4
    open(os.path.join(root, "c_side.c"), "w").write(c_side(methods, opt))
    open(os.path.join(root, "cpp_side.cpp"), "w").write(cpp_side(methods, opt))
    open(os.path.join(root, "rust_side.rs"), "w").write(rust_side(methods, TESTS, os.path.join(root, "rs"), nval, chain, opt))
    inc = ["-I" + os.path.join(TESTS, "c"), "-I" + os.path.join(TESTS, "cpp"), "-I" + root, "-I" + RT, "-I" + DRT]
    sanf = ["-fsanitize=address,undefined", "-fno-sanitize-recover=undefined"] if san else []
    warn = ["-Wall", "-Wextra", "-Werror", "-Wno-unused-parameter", "-Wno-unused-function", "-Wno-missing-field-initializers", "-Wno-unused-variable"]
    defs = ["-DNVAL=%d" % nval, "-DNVAL_CPP=%d" % nval]
    jobs = [
        ["gcc", "-std=gnu11", "-g", "-O1"] + sanf + warn + defs + inc + ["-c", os.path.join(RT, "cobj.c"), "-o", os.path.join(root, "cobj.o")],
        ["gcc", "-std=gnu11", "-g", "-O1"] + sanf + warn + defs + inc + ["-c", os.path.join(DRT, "dpat.c"), "-o", os.path.join(root, "dpat.o")],
        ["gcc", "-std=gnu11", "-g", "-O1"] + sanf + warn + defs + inc + ["-c", os.path.join(RT, "main.c"), "-o", os.path.join(root, "main.o")],
        ["gcc", "-std=gnu11", "-g", "-O1"] + sanf + warn + defs + inc + ["-c", os.path.join(root, "c_side.c"), "-o", os.path.join(root, "c_side.o")],
        ["g++", "-std=c++17", "-g", "-O1"] + sanf + warn + defs + inc + ["-c", os.path.join(root, "cpp_side.cpp"), "-o", os.path.join(root, "cpp_side.o")],
        ["rustc", "--edition", "2021", "--cfg", 'feature="std"', "--crate-type", "staticlib", "-C", "panic=abort", "-C", "opt-level=1",
         "-o", os.path.join(root, "librust_side.a"), os.path.join(root, "rust_side.rs")],
    ]
    for cmd in jobs:
        rc, o, e = vlib.run(cmd, timeout=600)
        if rc != 0:
            return {"stage": "compile", "cmd": " ".join(cmd[:3]) + " ... " + cmd[-1], "err": e[-3000:]}
    exe = os.path.join(root, "l2data")
    cmd = ["g++"] + sanf + [os.path.join(root, x) for x in ("main.o", "cobj.o", "dpat.o", "c_side.o", "cpp_side.o", "librust_side.a")] + ["-lpthread", "-ldl", "-o", exe]
    rc, o, e = vlib.run(cmd, timeout=300)
    if rc != 0:
        return {"stage": "link", "cmd": "g++ link", "err": e[-2500:]}
    rc, o, e = vlib.run([exe], timeout=300, env=dict(vlib.ENV, ASAN_OPTIONS="detect_leaks=0", L2_WIRE="1", **(extra_env or {})))
    return {"stage": "run", "rc": rc, "out": o, "err": e[-2500:]}


def compare(out, tags=("impl ", "ret ")):
    """the nine pairings must print the same lines (tags: impl/ret = what the implementation
    receives and the caller gets back; wire/wired = the bytes at the transport) -> list of (pairing,
    first differing line of that pairing, the reference pairing's line)"""
    runs, cur = {}, None
    for l in out.split("\n"):
        if l.startswith("pairing "):
            cur = l[8:]
            runs[cur] = []
        elif cur and l.startswith(tuple(tags)):
            runs[cur].append(l)
    if not runs:
        return [("*", "no pairing ran", "")]
    ref_name = "c c" if "c c" in runs else sorted(runs)[0]
    ref, bad = runs[ref_name], []
    for name, lines in sorted(runs.items()):
        if lines != ref:
            k = next((j for j, (a, b) in enumerate(zip(lines, ref)) if a != b), min(len(lines), len(ref)))
            bad.append((name, lines[k] if k < len(lines) else "<missing line>", ref[k] if k < len(ref) else "<no such line in c c>"))
    if len(runs) < 9:
        bad.append(("*", "only %d pairings ran" % len(runs), ""))
    return bad


def perturb_verdicts(out):
    """{pairing: [(op, slot, delta, refused, entered)]} from a run with L2_PERTURB set"""
    runs, cur, pend, entered = {}, None, None, False
    for l in out.split("\n"):
        if l.startswith("pairing "):
            cur = l[8:]; runs[cur] = []
        elif l.startswith("perturb "):
            pend, entered = l, False
        elif l.startswith("impl ") and pend:
            entered = True
        elif l.startswith("perturbed ") and cur is not None:
            try:
                f = dict(x.split("=") for x in l.split()[1:])
                runs[cur].append((int(f["op"]), int(f["slot"]), int(f["delta"]), int(f["refused"]), entered))
            except (ValueError, KeyError):
                pass            # a line cut short by an abort: the exit status reports it
            pend = None
    return runs
