"""L2 for the C backend: generates, for one interface of object-free methods, a C program that
links the generated stub, a copying transport, and the generated skeleton instantiated with a
logging implementation; and computes the log the property prescribes (the implementation
receives exactly what the caller supplied, the caller receives exactly what the implementation
produced).  The transport logs (op, counts) and the bytes of every input buffer; it allocates
each buffer with exactly the declared size so that ASan sees any access outside the extents."""
import os
import gen

CT = {"uint8": "uint8_t", "uint16": "uint16_t", "uint32": "uint32_t", "uint64": "uint64_t", "int8": "int8_t",
      "int16": "int16_t", "int32": "int32_t", "int64": "int64_t", "float32": "float", "float64": "double"}


def pat(k, p, j, v, out):
    return (17 * k + 31 * p + 7 * j + 13 * v + (101 if out else 1)) & 0xFF


class Kinds:
    def __init__(self, ctx):
        self.ctx = ctx

    def elem_size(self, t):
        if t in gen.PSIZE:
            return gen.PSIZE[t]
        if t == "buffer":
            return 1
        return self.ctx.structs[t]["size"]

    def ctype(self, t):
        if t == "buffer":
            return "uint8_t"
        return CT.get(t, t)

    def is_float(self, t):
        return t in ("float32", "float64")


def in_len(k, p, v):
    return [0, 1, 3, 5][(k + p + v) % 4]


def out_cap(k, p, v):
    return [4, 0, 1, 6][(k + 2 * p + v) % 4]


def out_want(k, p, v):
    return [2, 0, 5, 1][(k + p + 3 * v) % 4]


def in_obj(k, p, v, j=0):
    """object id passed for an input object (-1 = NULL)"""
    r = (k + p + v + j) % 5
    return -1 if r == 0 else (1 + (k * 7 + p * 3 + j) % 20)


def out_obj(k, p, v, j=0):
    r = (k + 2 * p + v + j) % 4
    return -1 if r == 0 else (30 + (k * 5 + p + j) % 20)


def fbytes(n, k, p, v, out, t=None, isfloat=False, elem=None):
    b = [pat(k, p, j, v, out) for j in range(n)]
    if isfloat and elem:
        for e in range(0, n - elem + 1, elem):
            if v % 3 == 2 and elem in (4, 8):
                # a signalling NaN with a payload: floating-point values travel as their bit patterns
                b[e + elem - 1] = (b[e + elem - 1] & 0x80) | 0x7F
                b[e + elem - 2] = ((b[e + elem - 2] & 0x3F) | 0x80) if elem == 4 else ((b[e + elem - 2] & 0x07) | 0xF0)
                b[e] |= 1
            else:
                b[e + elem - 1] &= 0x3F
    return b


def hexs(b):
    return "".join("%02x" % x for x in b)


def generate(ctx, iface, methods, valuations, error_status=0, only=None, refdrive=False, perturb=False, omit_impl=(), optional=()):
    """-> c source. methods: [(name, params)] (the whole interface: the skeleton needs every
    implementation function); only: names of the methods to call (default all)"""
    only = set(only) if only is not None else {m for m, _ in methods}
    K = Kinds(ctx)
    src = []
    A = src.append
    A("#include <stdio.h>\n#include <stdlib.h>\n#include <string.h>\n#include <stdint.h>\n#include \"object.h\"\n#include \"l2.h\"\n#include \"l2_invoke.h\"\n")
    A("""
static int g_val = 0, g_status = 0, g_entered = 0;
static void hexp(const char *tag, const void *p, size_t n) { const uint8_t *b = p; printf(" %s=", tag); for (size_t i = 0; i < n; i++) printf("%02x", b[i]); }
static void fillp(void *p, size_t n, int k, int pi, int v, int out, size_t elem, int isf) {
  uint8_t *b = p; for (size_t j = 0; j < n; j++) b[j] = (uint8_t)(17 * k + 31 * pi + 7 * (int)j + 13 * v + (out ? 101 : 1));
  if (isf && elem) for (size_t e = 0; e + elem <= n; e += elem) {
    if (v % 3 == 2 && (elem == 4 || elem == 8)) { b[e + elem - 1] = (uint8_t)((b[e + elem - 1] & 0x80) | 0x7F);
      b[e + elem - 2] = (uint8_t)(elem == 4 ? ((b[e + elem - 2] & 0x3F) | 0x80) : ((b[e + elem - 2] & 0x07) | 0xF0)); b[e] |= 1; }
    else b[e + elem - 1] &= 0x3F; } }
typedef struct { int id; int refs; } CObj;
static CObj pool[64];
static int32_t cobj_invoke(ObjectCxt h, ObjectOp op, ObjectArg *a, ObjectCounts k) {
  CObj *o = (CObj *)h; (void)a; (void)k;
  if (ObjectOp_methodID(op) == Object_OP_retain) { o->refs++; printf("rc retain %d\\n", o->id); return Object_OK; }
  if (ObjectOp_methodID(op) == Object_OP_release) { o->refs--; printf("rc release %d\\n", o->id); return Object_OK; }
  return Object_ERROR_INVALID; }
static Object mkobj(int id) { if (id < 0) return Object_NULL; pool[id].id = id; return (Object){cobj_invoke, &pool[id]}; }
static int objid(Object o) { if (Object_isNull(o)) return -1; if (o.invoke == cobj_invoke) return ((CObj *)o.context)->id; return -2; }
typedef struct { int tag; } Ctx;
static int32_t impl_release(Ctx *me) { (void)me; return Object_OK; }
static int32_t impl_retain(Ctx *me) { (void)me; return Object_OK; }
""")
    expected = []
    protos_done = False
    # ---- implementation functions
    for k, (mname, params) in enumerate(methods):
        if mname in omit_impl:
            continue
        sig = ["Ctx *me"]
        body = ['  (void)me; g_entered++; printf("impl %s");' % mname]
        post = []
        for p, (d, t, sh, pn) in enumerate(params):
            ct = K.ctype(t)
            es = K.elem_size(t) if t != "interface" else 0
            if t == "interface" or t in ctx.ifaces:
                if sh is None:
                    if d == "in":
                        sig.append("Object %s" % pn)
                        body.append('  printf(" %s=obj:%%d", objid(%s));' % (pn, pn))
                    else:
                        sig.append("Object *%s" % pn)
                        post.append("  *%s = mkobj(out_obj_id(%d, %d, g_val, 0));" % (pn, k, p))
                else:
                    n = int(sh[1:-1])
                    if d == "in":
                        sig.append("const Object (*%s_ptr)[%d]" % (pn, n))
                        for j in range(n):
                            body.append('  printf(" %s[%d]=obj:%%d", objid((*%s_ptr)[%d]));' % (pn, j, pn, j))
                    else:
                        sig.append("Object (*%s_ptr)[%d]" % (pn, n))
                        for j in range(n):
                            post.append("  (*%s_ptr)[%d] = mkobj(out_obj_id(%d, %d, g_val, %d));" % (pn, j, k, p, j))
            elif sh is None and t != "buffer":
                isprim = t in gen.PSIZE
                if d == "in":
                    if isprim:
                        sig.append("%s %s_val" % (ct, pn))
                        body.append('  hexp("%s", &%s_val, sizeof(%s_val));' % (pn, pn, pn))
                    else:
                        sig.append("const %s *%s_ptr" % (ct, pn))
                        body.append('  hexp("%s", %s_ptr, sizeof(%s));' % (pn, pn, ct))
                else:
                    sig.append("%s *%s_ptr" % (ct, pn))
                    post.append("  fillp(%s_ptr, sizeof(%s), %d, %d, g_val, 1, %d, %d);" % (pn, ct, k, p, es, 1 if K.is_float(t) else 0))
            else:
                # buffers and arrays
                vt = "void" if t == "buffer" else ct
                if d == "in":
                    sig.append("const %s *%s_ptr" % (vt, pn))
                    sig.append("size_t %s_len" % pn)
                    body.append('  printf(" %s=len:%%zu:", %s_len); hexp("", %s_ptr, %s_len * %d);' % (pn, pn, pn, pn, es))
                else:
                    sig.append("%s *%s_ptr" % (vt, pn))
                    sig.append("size_t %s_len" % pn)
                    sig.append("size_t *%s_lenout" % pn)
                    post.append("  { size_t want = out_want_n(%d, %d, g_val); size_t n = want < %s_len ? want : %s_len;"
                                " fillp(%s_ptr, n * %d, %d, %d, g_val, 1, %d, %d); *%s_lenout = n; }" % (k, p, pn, pn, pn, es, k, p, es, 1 if K.is_float(t) else 0, pn))
        body.append('  printf("\\n");')
        A("static size_t out_want_n(int k, int p, int v);\nstatic int out_obj_id(int k, int p, int v, int j);\n" if not protos_done else "")
        protos_done = True
        A("%sint32_t impl_%s(%s) {\n%s\n  if (g_status) return g_status;\n%s\n  return Object_OK;\n}\n" % (
            "" if mname in optional else "static ", mname, ", ".join(sig), "\n".join(body), "\n".join(post)))
    A("static size_t out_want_n(int k, int p, int v) { static const size_t t[4] = {2, 0, 5, 1}; return t[(k + p + 3 * v) % 4]; }\n")
    A("static int out_obj_id(int k, int p, int v, int j) { int r = (k + 2 * p + v + j) % 4; return r == 0 ? -1 : 30 + (k * 5 + p + j) % 20; }\n")
    A("static %s_DEFINE_INVOKE(skel_invoke, impl_, Ctx *)\n" % iface)
    A("""
static Ctx g_ctx = {1};
/* the copying transport: sees (op, counts, raw slots) and nothing else */
static int32_t transport_invoke(ObjectCxt h, ObjectOp op, ObjectArg *a, ObjectCounts k) {
  (void)h;
  size_t nbi = ObjectCounts_numBI(k), nbo = ObjectCounts_numBO(k), noi = ObjectCounts_numOI(k), noo = ObjectCounts_numOO(k);
  size_t total = nbi + nbo + noi + noo;
  printf("xport op=%u k=%zu,%zu,%zu,%zu", (unsigned)op, nbi, nbo, noi, noo);
  ObjectArg *c = total ? malloc(total * sizeof *c) : NULL;
  for (size_t i = 0; i < nbi; i++) {
    size_t n = a[i].bi.size; void *m = malloc(n ? n : 1); if (n) memcpy(m, a[i].bi.ptr, n);
    c[i].bi.ptr = m; c[i].bi.size = n; char tag[32]; snprintf(tag, sizeof tag, "bi%zu", i); hexp(tag, m, n); }
  for (size_t i = nbi; i < nbi + nbo; i++) { size_t n = a[i].b.size; void *m = malloc(n ? n : 1); memset(m, 0xAA, n ? n : 1); c[i].b.ptr = m; c[i].b.size = n; printf(" bo%zu.cap=%zu", i, n); }
  for (size_t i = nbi + nbo; i < nbi + nbo + noi; i++) { c[i].o = a[i].o; printf(" oi%zu=obj:%d", i, objid(a[i].o)); }
  for (size_t i = nbi + nbo + noi; i < total; i++) c[i].o = Object_NULL;
  printf("\\n");
  int32_t r = skel_invoke(&g_ctx, op, c, k);
  printf("xport ret=%d", r);
  for (size_t i = nbi; i < nbi + nbo; i++) { size_t n = c[i].b.size < a[i].b.size ? c[i].b.size : a[i].b.size;
    if (r == 0) { if (n) memcpy(a[i].b.ptr, c[i].b.ptr, n); a[i].b.size = c[i].b.size; char tag[32]; snprintf(tag, sizeof tag, "bo%zu", i); hexp(tag, c[i].b.ptr, n); } }
  for (size_t i = nbi + nbo + noi; i < total; i++) { if (r == 0) a[i].o = c[i].o; printf(" oo%zu=obj:%d", i, objid(c[i].o)); }
  printf("\\n");
  for (size_t i = 0; i < nbi; i++) free((void *)c[i].bi.ptr);
  for (size_t i = nbi; i < nbi + nbo; i++) free(c[i].b.ptr);
  free(c);
  return r;
}
""")
    # ---- callers
    for k, (mname, params) in enumerate(methods):
        if mname not in only:
            continue
        lines = ["static void call_%s(Object target, int v) {" % mname, "  g_val = v;"]
        args = []
        outs = []
        for p, (d, t, sh, pn) in enumerate(params):
            ct = K.ctype(t)
            es = K.elem_size(t) if t != "interface" and t not in ctx.ifaces else 0
            isf = 1 if K.is_float(t) else 0
            if t == "interface" or t in ctx.ifaces:
                if sh is None:
                    if d == "in":
                        lines.append("  Object %s = mkobj(in_obj_id(%d, %d, v, 0));" % (pn, k, p))
                        args.append(pn)
                    else:
                        lines.append("  Object %s = Object_NULL;" % pn)
                        args.append("&" + pn)
                        outs.append('  printf(" %s=obj:%%d", objid(%s));' % (pn, pn))
                else:
                    n = int(sh[1:-1])
                    if d == "in":
                        lines.append("  Object %s_arr[%d]; for (int j = 0; j < %d; j++) %s_arr[j] = mkobj(in_obj_id(%d, %d, v, j));" % (pn, n, n, pn, k, p))
                        args.append("(const Object (*)[%d])&%s_arr" % (n, pn))
                    else:
                        lines.append("  Object %s_arr[%d]; for (int j = 0; j < %d; j++) %s_arr[j] = Object_NULL;" % (pn, n, n, pn))
                        args.append("&%s_arr" % pn)
                        for j in range(n):
                            outs.append('  printf(" %s[%d]=obj:%%d", objid(%s_arr[%d]));' % (pn, j, pn, j))
            elif sh is None and t != "buffer":
                if d == "in":
                    lines.append("  %s %s; fillp(&%s, sizeof(%s), %d, %d, v, 0, %d, %d);" % (ct, pn, pn, pn, k, p, es, isf))
                    args.append(pn if t in gen.PSIZE else "&" + pn)
                else:
                    lines.append("  %s %s; memset(&%s, 0xCC, sizeof(%s));" % (ct, pn, pn, pn))
                    args.append("&" + pn)
                    outs.append('  hexp("%s", &%s, sizeof(%s));' % (pn, pn, pn))
            else:
                if d == "in":
                    lines.append("  size_t %s_n = in_len_n(%d, %d, v); %s *%s_b = malloc(%s_n * %d + 1); fillp(%s_b, %s_n * %d, %d, %d, v, 0, %d, %d);" % (
                        pn, k, p, "uint8_t" if t == "buffer" else ct, pn, pn, es, pn, pn, es, k, p, es, isf))
                    args += ["%s_b" % pn, "%s_n" % pn]
                    outs.append("  free(%s_b);" % pn)
                else:
                    lines.append("  size_t %s_cap = out_cap_n(%d, %d, v); %s *%s_b = malloc(%s_cap * %d + 1); memset(%s_b, 0xCC, %s_cap * %d + 1); size_t %s_lo = 12345;" % (
                        pn, k, p, "uint8_t" if t == "buffer" else ct, pn, pn, es, pn, pn, es, pn))
                    args += ["%s_b" % pn, "%s_cap" % pn, "&%s_lo" % pn]
                    outs.append('  printf(" %s=len:%%zu:", %s_lo); hexp("", %s_b, (%s_lo <= %s_cap ? %s_lo : 0) * %d); free(%s_b);' % (pn, pn, pn, pn, pn, pn, es, pn))
        lines.append("  int32_t r = %s_%s(%s);" % (iface, mname, ", ".join(["target"] + args)))
        lines.append('  printf("ret %s status=%%d", r);' % mname)
        lines.append("  if (r == 0) {")
        lines += ["  " + o for o in outs if "free(" not in o or "printf" in o]
        lines.append("  }")
        lines += [o for o in outs if o.strip().startswith("free(")]
        lines.append('  printf("\\n");\n}')
        A("\n".join(lines) + "\n")
    A("static size_t in_len_n(int k, int p, int v);\nstatic size_t out_cap_n(int k, int p, int v);\nstatic int in_obj_id(int k, int p, int v, int j);\n")
    # forward declarations must precede the callers: emit helper definitions before callers via prototypes at top
    helpers = ("static size_t in_len_n(int k, int p, int v) { static const size_t t[4] = {0, 1, 3, 5}; return t[(k + p + v) % 4]; }\n"
               "static size_t out_cap_n(int k, int p, int v) { static const size_t t[4] = {4, 0, 1, 6}; return t[(k + 2 * p + v) % 4]; }\n"
               "static int in_obj_id(int k, int p, int v, int j) { int r = (k + p + v + j) % 5; return r == 0 ? -1 : 1 + (k * 7 + p * 3 + j) % 20; }\n")
    # move the prototypes in front of the first caller
    joined = "".join(src)
    proto = "static size_t in_len_n(int k, int p, int v);\nstatic size_t out_cap_n(int k, int p, int v);\nstatic int in_obj_id(int k, int p, int v, int j);\n"
    joined = joined.replace(proto, "")
    marker = "static void call_%s(" % [m for m, _ in methods if m in only][0]
    joined = joined.replace(marker, proto + marker, 1)
    main = ["int main(void) {", "  Object target = (Object){transport_invoke, NULL};", "  setvbuf(stdout, NULL, _IOFBF, 1 << 16);"]
    for v in valuations:
        main.append("  g_status = %d;" % error_status)
        for mname, _ in methods:
            if mname in only:
                main.append("  call_%s(target, %d);" % (mname, v))
    rd = ""
    if perturb:
        pc, pcalls, _ = perturb_code(ctx, iface, methods, only, len(methods))
        rd += pc
        main.append("  g_status = 0;")
        main += pcalls
    if refdrive:
        rd2, calls, _ = refdrive_code(ctx, iface, methods, valuations, only)
        rd += rd2
        main.append("  g_status = 0;")
        main += calls
    main.append("  return 0;\n}")
    return joined + helpers + rd + "\n".join(main) + "\n"


# ------------------------------------------------------------------ expected log (the property, computed independently)

def expected_log(ctx, iface, methods, valuations, opcodes, plans, error_status=0, only=None):
    """plans: {method: (counts tuple, [(kind 'bi'|'bo'|'oi'|'oo', descriptor)])} as the *reference*
    (Spec) envelope; returns the list of log lines the property prescribes, in order."""
    K = Kinds(ctx)
    out = []
    only = set(only) if only is not None else {m for m, _ in methods}
    for v in valuations:
        for k, (mname, params) in enumerate(methods):
            if mname not in only:
                continue
            impl = "impl %s" % mname
            ret = "ret %s status=%d" % (mname, error_status)
            for p, (d, t, sh, pn) in enumerate(params):
                isobj = t == "interface" or t in ctx.ifaces
                es = 0 if isobj else K.elem_size(t)
                isf = K.is_float(t)
                if isobj:
                    if sh is None:
                        if d == "in":
                            impl += " %s=obj:%d" % (pn, in_obj(k, p, v))
                        elif error_status == 0:
                            ret += " %s=obj:%d" % (pn, out_obj(k, p, v))
                    else:
                        n = int(sh[1:-1])
                        for j in range(n):
                            if d == "in":
                                impl += " %s[%d]=obj:%d" % (pn, j, in_obj(k, p, v, j))
                            elif error_status == 0:
                                ret += " %s[%d]=obj:%d" % (pn, j, out_obj(k, p, v, j))
                elif sh is None and t != "buffer":
                    if d == "in":
                        impl += " %s=%s" % (pn, hexs(fbytes(es, k, p, v, False, isfloat=isf, elem=es)))
                    elif error_status == 0:
                        ret += " %s=%s" % (pn, hexs(fbytes(es, k, p, v, True, isfloat=isf, elem=es)))
                else:
                    if d == "in":
                        n = in_len(k, p, v)
                        impl += " %s=len:%d: =%s" % (pn, n, hexs(fbytes(n * es, k, p, v, False, isfloat=isf, elem=es)))
                    elif error_status == 0:
                        n = min(out_cap(k, p, v), out_want(k, p, v))
                        ret += " %s=len:%d: =%s" % (pn, n, hexs(fbytes(n * es, k, p, v, True, isfloat=isf, elem=es)))
            out.append(("impl", mname, v, impl))
            out.append(("ret", mname, v, ret))
    return out


# ------------------------------------------------------------------ C03: the reference encoder (Mink bundling rule)

def is_data(ctx, t):
    return not (t == "interface" or t in ctx.ifaces)


def ref_plan(ctx, params):
    """Spec: per direction the bundle members (size-descending, stable) and the discrete data
    parameters in declaration order; objects in declaration order."""
    K = Kinds(ctx)
    plan = {}
    for d in ("in", "out"):
        small = [(p, prm) for p, prm in enumerate(params)
                 if prm[0] == d and is_data(ctx, prm[1]) and prm[2] is None and prm[1] != "buffer" and K.elem_size(prm[1]) <= 16]
        bundle = sorted(small, key=lambda x: -K.elem_size(x[1][1])) if len(small) >= 2 else []
        bidx = {p for p, _ in bundle}
        discrete = [(p, prm) for p, prm in enumerate(params) if prm[0] == d and is_data(ctx, prm[1]) and p not in bidx]
        objs = [(p, prm) for p, prm in enumerate(params) if prm[0] == d and not is_data(ctx, prm[1])]
        plan[d] = (bundle, discrete, objs)
    return plan


def ref_buffers(ctx, k, params, v):
    """-> (list of BI byte lists, list of BO capacities, list of BO byte lists the implementation's
    outputs encode to)"""
    K = Kinds(ctx)
    plan = ref_plan(ctx, params)
    bi, bocap, bo = [], [], []
    def img(p, prm, out):
        t = prm[1]
        es = K.elem_size(t)
        return fbytes(es, k, p, v, out, isfloat=K.is_float(t), elem=es)
    bundle, discrete, _ = plan["in"]
    if bundle:
        bi.append(sum((img(p, prm, False) for p, prm in bundle), []))
    for p, prm in discrete:
        t, sh = prm[1], prm[2]
        es = K.elem_size(t)
        if sh is None and t != "buffer":
            bi.append(img(p, prm, False))
        else:
            n = in_len(k, p, v)
            bi.append(fbytes(n * es, k, p, v, False, isfloat=K.is_float(t), elem=es))
    bundle, discrete, _ = plan["out"]
    if bundle:
        b = sum((img(p, prm, True) for p, prm in bundle), [])
        bocap.append(len(b)); bo.append(b)
    for p, prm in discrete:
        t, sh = prm[1], prm[2]
        es = K.elem_size(t)
        if sh is None and t != "buffer":
            b = img(p, prm, True)
            bocap.append(len(b)); bo.append(b)
        else:
            cap = out_cap(k, p, v)
            n = min(cap, out_want(k, p, v))
            bocap.append(cap * es)
            bo.append(fbytes(n * es, k, p, v, True, isfloat=K.is_float(t), elem=es))
    return bi, bocap, bo


def ref_counts(ctx, params):
    plan = ref_plan(ctx, params)
    def nobj(objs):
        return sum(1 if prm[2] is None else int(prm[2][1:-1]) for _, prm in objs)
    return ((1 if plan["in"][0] else 0) + len(plan["in"][1]), (1 if plan["out"][0] else 0) + len(plan["out"][1]),
            nobj(plan["in"][2]), nobj(plan["out"][2]))


def refdrive_code(ctx, iface, methods, valuations, only):
    """C code that drives the skeleton directly with reference-encoded arguments (no stub) and
    prints what the skeleton returns; plus the expected lines."""
    K = Kinds(ctx)
    code, calls, expected = [], [], []
    for v in valuations:
        for k, (mname, params) in enumerate(methods):
            if mname not in only:
                continue
            bi, bocap, bo = ref_buffers(ctx, k, params, v)
            cnt = ref_counts(ctx, params)
            plan = ref_plan(ctx, params)
            fn = "rd_%s_%d" % (mname, v)
            L = ["static void %s(void) {" % fn, "  g_val = %d;" % v]
            total = sum(cnt)
            L.append("  ObjectArg a[%d];" % max(total, 1))
            idx = 0
            for j, b in enumerate(bi):
                L.append("  uint8_t *bi%d = malloc(%d); { static const uint8_t t[] = {%s}; memcpy(bi%d, t, %d); }" % (
                    j, max(len(b), 1), ", ".join(str(x) for x in b) or "0", j, len(b)))
                L.append("  a[%d].bi.ptr = bi%d; a[%d].bi.size = %d;" % (idx, j, idx, len(b)))
                idx += 1
            for j, cap in enumerate(bocap):
                L.append("  uint8_t *bo%d = malloc(%d); memset(bo%d, 0xAA, %d); a[%d].b.ptr = bo%d; a[%d].b.size = %d;" % (
                    j, max(cap, 1), j, max(cap, 1), idx, j, idx, cap))
                idx += 1
            for p, prm in plan["in"][2]:
                n = 1 if prm[2] is None else int(prm[2][1:-1])
                for jj in range(n):
                    L.append("  a[%d].o = mkobj(in_obj_id(%d, %d, %d, %d));" % (idx, k, p, v, jj))
                    idx += 1
            for p, prm in plan["out"][2]:
                n = 1 if prm[2] is None else int(prm[2][1:-1])
                for jj in range(n):
                    L.append("  a[%d].o = Object_NULL;" % idx)
                    idx += 1
            L.append("  int32_t r = skel_invoke(&g_ctx, %d, a, ObjectCounts_pack(%d, %d, %d, %d));" % ((k,) + cnt))
            L.append('  printf("rd %s %d status=%%d", r);' % (mname, v))
            base = len(bi)
            for j in range(len(bocap)):
                L.append('  { size_t n = a[%d].b.size <= %d ? a[%d].b.size : %d; char tag[32]; snprintf(tag, sizeof tag, "bo%d"); if (r == 0) hexp(tag, bo%d, n); }' % (
                    base + j, bocap[j], base + j, bocap[j], j, j))
            oidx = len(bi) + len(bocap) + cnt[2]
            for j in range(cnt[3]):
                L.append('  if (r == 0) printf(" oo%d=obj:%%d", objid(a[%d].o));' % (j, oidx + j))
            L.append('  printf("\\n");')
            for j in range(len(bi)):
                L.append("  free(bi%d);" % j)
            for j in range(len(bocap)):
                L.append("  free(bo%d);" % j)
            L.append("}")
            code.append("\n".join(L))
            calls.append("  %s();" % fn)
            exp = "rd %s %d status=0" % (mname, v)
            for j, b in enumerate(bo):
                exp += " bo%d=%s" % (j, hexs(b))
            oo = []
            for p, prm in plan["out"][2]:
                n = 1 if prm[2] is None else int(prm[2][1:-1])
                for jj in range(n):
                    oo.append(out_obj(k, p, v, jj))
            for j, o in enumerate(oo):
                exp += " oo%d=obj:%d" % (j, o)
            expected.append((mname, v, exp))
    return "\n".join(code) + "\n", calls, expected


def expected_transport(ctx, methods, valuations, only):
    """the (op, counts, BI bytes, BO capacities) line the transport must log for a stub call, and the
    BO bytes line after the call — computed from the Mink rule alone"""
    out = []
    for v in valuations:
        for k, (mname, params) in enumerate(methods):
            if mname not in only:
                continue
            bi, bocap, bo = ref_buffers(ctx, k, params, v)
            cnt = ref_counts(ctx, params)
            pre = "xport op=%d k=%d,%d,%d,%d" % ((k,) + cnt)
            for j, b in enumerate(bi):
                pre += " bi%d=%s" % (j, hexs(b))
            for j, cap in enumerate(bocap):
                pre += " bo%d.cap=%d" % (len(bi) + j, cap)
            post = "xport ret=0"
            for j, b in enumerate(bo):
                post += " bo%d=%s" % (len(bi) + j, hexs(b))
            out.append((mname, v, pre, post))
    return out


# ------------------------------------------------------------------ C04: perturbed envelopes

def fixed_slots(ctx, params):
    """Spec: slot index and size of every fixed-size buffer of the reference envelope"""
    K = Kinds(ctx)
    plan = ref_plan(ctx, params)
    out, idx = [], 0
    for d in ("in", "out"):
        bundle, discrete, _ = plan[d]
        if bundle:
            out.append((idx, sum(K.elem_size(prm[1]) for _, prm in bundle)))
            idx += 1
        for p, prm in discrete:
            if prm[2] is None and prm[1] != "buffer":
                out.append((idx, K.elem_size(prm[1])))
            idx += 1
    return out


def perturb_code(ctx, iface, methods, only, nmethods_total):
    """C code driving the skeleton with perturbed envelopes; returns (code, calls, expectations)
    where expectations = [(tag, must_refuse)] in print order."""
    code, calls, exps = [], [], []
    v = 0
    for k, (mname, params) in enumerate(methods):
        if mname not in only:
            continue
        bi, bocap, bo = ref_buffers(ctx, k, params, v)
        cnt = ref_counts(ctx, params)
        plan = ref_plan(ctx, params)
        fixed = fixed_slots(ctx, params)
        sizes = [len(b) for b in bi] + list(bocap)
        nbuf = len(sizes)
        total = sum(cnt)
        perts = []          # (desc, op, counts, {slot: size}, must_refuse)
        for nib in range(4):
            for delta in (-1, 1):
                c2 = list(cnt); c2[nib] += delta
                if 0 <= c2[nib] <= 15:
                    perts.append(("k%d%+d" % (nib, delta), k, tuple(c2), {}, True))
            for ext in (0, 15):
                if cnt[nib] != ext:
                    c2 = list(cnt); c2[nib] = ext
                    perts.append(("k%d=%d" % (nib, ext), k, tuple(c2), {}, True))
        for (slot, sz) in fixed:
            for ns in (0, sz - 1, sz + 1, 4294967296):
                if ns != sz and ns >= 0:
                    perts.append(("s%d=%d" % (slot, ns), k, cnt, {slot: ns}, True))
        for op in (nmethods_total + 5, 0x3FFF, 0x7FFD):
            perts.append(("op=%d" % op, op, cnt, {}, True))
        perts.append(("op|REMOTE_BUFS", k | 0x10000, cnt, {}, False))
        perts.append(("wellformed", k, cnt, {}, False))
        fn = "pt_%s" % mname
        L = ["static void %s(void) {" % fn, "  g_val = 0; g_status = 0;"]
        for j, b in enumerate(bi):
            L.append("  static const uint8_t t%d[] = {%s};" % (j, ", ".join(str(x) for x in b) or "0"))
        L.append("  struct { const char *d; ObjectOp op; unsigned c[4]; long slot; size_t size; int must; } P[] = {")
        for desc, op, c2, ss, must in perts:
            slot, size = (list(ss.items())[0] if ss else (-1, 0))
            L.append('    {"%s", %du, {%d, %d, %d, %d}, %d, %dull, %d},' % (desc, op, c2[0], c2[1], c2[2], c2[3], slot, size, 1 if must else 0))
        L.append("  };")
        L.append("  for (size_t q = 0; q < sizeof P / sizeof P[0]; q++) {")
        L.append("    size_t tot = P[q].c[0] + P[q].c[1] + P[q].c[2] + P[q].c[3];")
        L.append("    ObjectArg *a = malloc((tot ? tot : 1) * sizeof *a); memset(a, 0, (tot ? tot : 1) * sizeof *a);")
        L.append("    void *bufs[%d]; size_t nb = 0;" % max(nbuf, 1))
        # original slots, as far as the perturbed array has room
        idx = 0
        for j, b in enumerate(bi):
            L.append("    if (%d < tot) { void *m = malloc(%d); memcpy(m, t%d, %d); bufs[nb++] = m; a[%d].bi.ptr = m; a[%d].bi.size = %d; }" % (
                idx, max(len(b), 1), j, len(b), idx, idx, len(b)))
            idx += 1
        for j, cap in enumerate(bocap):
            L.append("    if (%d < tot) { void *m = malloc(%d); memset(m, 0xAA, %d); bufs[nb++] = m; a[%d].b.ptr = m; a[%d].b.size = %d; }" % (
                idx, max(cap, 1), max(cap, 1), idx, idx, cap))
            idx += 1
        for p, prm in plan["in"][2]:
            n = 1 if prm[2] is None else int(prm[2][1:-1])
            for jj in range(n):
                L.append("    if (%d < tot) a[%d].o = mkobj(in_obj_id(%d, %d, 0, %d));" % (idx, idx, k, p, jj))
                idx += 1
        L.append("    if (P[q].slot >= 0 && (size_t)P[q].slot < tot) a[P[q].slot].b.size = P[q].size;")
        L.append("    int before = g_entered;")
        L.append("    int32_t r = skel_invoke(&g_ctx, P[q].op, a, ObjectCounts_pack(P[q].c[0], P[q].c[1], P[q].c[2], P[q].c[3]));")
        L.append('    printf("pt %s %%s status=%%d entered=%%d\\n", P[q].d, r, g_entered - before);' % mname)
        L.append("    for (size_t z = 0; z < nb; z++) free(bufs[z]);")
        L.append("    free(a);")
        L.append("  }")
        L.append("}")
        code.append("\n".join(L))
        calls.append("  %s();" % fn)
        for desc, op, c2, ss, must in perts:
            exps.append((mname, desc, must))
    return "\n".join(code) + "\n", calls, exps
