"""C12 (include resolution): real directory trees (same name in several directories, every
spelling, -I permutations, chains/diamonds/self-includes/cycles entered anywhere, missing and
unparsable files) through the real pipeline; model walk and Spec evaluated on the mirrored world."""
import hashlib, json, os, re, time
from concurrent.futures import ThreadPoolExecutor
import gen, scrape, vlib

NAMES = ["a.idl", "b.idl", "c.idl", "d.idl", "e.idl"]
DIRS = ["p", "i1", "i2", "p/sub"]


def gen_case(rng, k):
    if k % 5 == 2:
        # the same name in the main file's directory and in -I directories, with the main file's
        # own directory named by -I as well, before or after the others: first match in
        # command-line order, the implicit main directory last
        nm = rng.choice(NAMES)
        dirs = rng.sample(["i1", "i2", "p/sub"], rng.randint(1, 2))
        files = {"p/main.idl": {"includes": [nm], "garbage": False}, "p/" + nm: {"includes": [], "garbage": False}}
        for d in dirs:
            files["%s/%s" % (d, nm)] = {"includes": [], "garbage": False}
        other = rng.choice([x for x in NAMES if x != nm])
        files["%s/%s" % (rng.choice(dirs), other)] = {"includes": [], "garbage": False}
        files["p/main.idl"]["includes"].append(other)
        idirs = dirs + (["p"] if rng.random() < 0.8 else [])
        rng.shuffle(idirs)
        spell = [rng.choice(["canon", "dotdot", "dot", "symlink", "trailing"]) for _ in idirs]
        return {"files": files, "idirs": idirs, "spell": spell}
    if k % 7 == 3:
        # a file that includes its own bare name and is itself the first match for it, with a file of
        # the same name further down the search path (and, sometimes, the main file doing the same):
        # first match means itself - a one-file cycle - never "the next one"
        nm = rng.choice(NAMES)
        files = {"p/main.idl": {"includes": [nm], "garbage": False},
                 "i1/%s" % nm: {"includes": [nm], "garbage": False},
                 "i2/%s" % nm: {"includes": [], "garbage": False}}
        v = rng.randint(0, 2)
        if v == 1:
            # the main file includes its own name; its directory is searched first
            files = {"p/main.idl": {"includes": ["main.idl"], "garbage": False}, "i1/main.idl": {"includes": [], "garbage": False}}
            idirs = ["p", "i1"]
        elif v == 2:
            files["p/%s" % nm] = {"includes": [], "garbage": False}     # shadowed by i1 (searched before the main directory)
            idirs = ["i1", "i2"]
        else:
            idirs = ["i1", "i2"]
        spell = [rng.choice(["canon", "dotdot", "dot", "symlink", "trailing"]) for _ in idirs]
        return {"files": files, "idirs": idirs, "spell": spell}
    if k % 7 == 6:
        # an include with a directory part is looked up next to the including file only: the same relative
        # path under an -I directory (or under the main file's directory, for an included file) does not count
        nm = rng.choice(NAMES)
        v = rng.randint(0, 1)
        if v == 0:
            files = {"p/main.idl": {"includes": ["types/%s" % nm], "garbage": False}, "i1/types/%s" % nm: {"includes": [], "garbage": False}}
        else:
            files = {"p/main.idl": {"includes": ["../i2/mid.idl"], "garbage": False}, "i2/mid.idl": {"includes": ["sub/%s" % nm], "garbage": False},
                     "p/sub/%s" % nm: {"includes": [], "garbage": False}, "i1/sub/%s" % nm: {"includes": [], "garbage": False}}
        idirs = ["i1"]
        spell = [rng.choice(["canon", "dotdot", "dot", "symlink", "trailing"]) for _ in idirs]
        return {"files": files, "idirs": idirs, "spell": spell}
    if k % 7 == 5:
        # the same name in two search directories; the copy that is LATER in search order has been
        # included through a path with a directory part before the bare name is resolved: the bare
        # name still means the first match in search order, whatever was loaded before
        nm, user = rng.sample(NAMES, 2)
        v = rng.randint(0, 2)
        files = {"i1/%s" % nm: {"includes": [], "garbage": False}, "i2/%s" % nm: {"includes": [], "garbage": False}}
        if v == 0:
            files["p/main.idl"] = {"includes": ["../i2/%s" % nm, nm], "garbage": False}
        elif v == 1:
            files["p/main.idl"] = {"includes": ["../i2/%s" % nm, user], "garbage": False}
            files["i1/%s" % user] = {"includes": [nm], "garbage": False}
        else:
            files["p/main.idl"] = {"includes": [user, nm], "garbage": False}
            files["i2/%s" % user] = {"includes": ["./%s" % nm], "garbage": False}        # i2's own copy, by path
        idirs = ["i1", "i2"]
        spell = [rng.choice(["canon", "dotdot", "dot", "symlink", "trailing"]) for _ in idirs]
        return {"files": files, "idirs": idirs, "spell": spell}
    if k % 5 == 4:
        # a file reached through a path with a directory part, in a directory that is neither an -I
        # directory nor the main file's: its own BARE includes are searched in the -I directories and
        # the main file's directory only - a file that merely sits next to it is not found
        host_dir = rng.choice(["i1", "i2", "p/sub"])
        idirs = [d for d in ["i1", "i2", "p/sub"] if d != host_dir and rng.random() < 0.6]
        nm, sib = rng.sample(NAMES, 2)
        files = {"p/main.idl": {"includes": [os.path.relpath("%s/%s" % (host_dir, nm), "p")], "garbage": False},
                 "%s/%s" % (host_dir, nm): {"includes": [sib], "garbage": False},
                 "%s/%s" % (host_dir, sib): {"includes": [], "garbage": False}}
        if rng.random() < 0.5:
            # ... unless the same name is also on the search path (then THAT file is the one loaded)
            files["%s/%s" % (rng.choice(idirs + ["p"]), sib)] = {"includes": [], "garbage": False}
        spell = [rng.choice(["canon", "dotdot", "dot", "symlink", "trailing"]) for _ in idirs]
        return {"files": files, "idirs": idirs, "spell": spell}
    files = {}            # rel path -> {"includes": [...], "garbage": bool}
    nfiles = rng.randint(2, 8)
    files["p/main.idl"] = {"includes": [], "garbage": False}
    while len(files) < nfiles:
        d = rng.choice(DIRS)
        files.setdefault("%s/%s" % (d, rng.choice(NAMES)), {"includes": [], "garbage": False})
    rels = sorted(files)
    shape = rng.random()
    for rel in rels:
        d = os.path.dirname(rel)
        ninc = rng.choice([0, 1, 1, 2, 3]) if rel != "p/main.idl" else rng.choice([1, 2, 3])
        for _ in range(ninc):
            r = rng.random()
            tgt = rng.choice(rels)
            if shape < 0.5 and tgt <= rel and rng.random() < 0.8:
                continue           # mostly acyclic in half of the cases
            td, tn = os.path.dirname(tgt), os.path.basename(tgt)
            if r < 0.45:
                inc = tn                                   # bare: first match in search order
            elif r < 0.6:
                inc = "./" + os.path.relpath(tgt, d) if not os.path.relpath(tgt, d).startswith(".") else os.path.relpath(tgt, d)
            elif r < 0.8:
                inc = os.path.relpath(tgt, d)
                if "/" not in inc:
                    inc = "./" + inc
            elif r < 0.9:
                inc = "ABS:" + tgt                         # absolute spelling
            else:
                inc = rng.choice(["nowhere.idl", "../zz/q.idl"])   # unresolvable
            files[rel]["includes"].append(inc)
    if k % 4 == 1:
        # the same relative spelling in files of different directories names different files:
        # a spelling with a directory part resolves against the including file, every time
        nm = rng.choice(NAMES)
        d1, d2 = rng.sample(DIRS, 2)
        for d in (d1, d2):
            files.setdefault("%s/%s" % (d, nm), {"includes": [], "garbage": False})
            hosts = [r_ for r_ in files if os.path.dirname(r_) == d and os.path.basename(r_) != nm]
            if not hosts:
                hosts = ["%s/%s" % (d, rng.choice([x for x in NAMES if x != nm]))]
                files.setdefault(hosts[0], {"includes": [], "garbage": False})
            files[rng.choice(hosts)]["includes"].append("./" + nm)
        # make both hosts reachable from the main file
        for d in (d1, d2):
            for r_ in sorted(files):
                if os.path.dirname(r_) == d and ("./" + nm) in files[r_]["includes"]:
                    rel = os.path.relpath(r_, "p")
                    files["p/main.idl"]["includes"].append(rel if "/" in rel else "./" + rel)
                    break
        rels = sorted(files)
    if rng.random() < 0.08:
        files[rng.choice(rels)]["garbage"] = True
    idirs = [d for d in ["i1", "i2", "p/sub"] if rng.random() < 0.6]
    if rng.random() < 0.35:
        idirs.append("p")          # the main file's own directory named with -I as well (any position)
    rng.shuffle(idirs)
    # how each -I directory is spelled on the command line (the model sees the canonical directory)
    spell = [rng.choice(["canon", "canon", "dotdot", "dot", "symlink", "trailing"]) for _ in idirs]
    return {"files": files, "idirs": idirs, "spell": spell}


def spelled(root, d, how):
    """a command-line spelling of directory root/d"""
    canon = os.path.join(root, d)
    if how == "dotdot":
        first = d.split("/")[0]
        other = "i2" if first != "i2" else "i1"
        return os.path.join(root, other, "..", d)
    if how == "dot":
        return os.path.join(root, ".", d, ".")
    if how == "trailing":
        return canon + "/"
    if how == "symlink":
        ln = os.path.join(root, "ln_" + d.replace("/", "_"))
        if not os.path.lexists(ln):
            os.symlink(canon, ln)
        return ln
    return canon


def materialize(case, root):
    world_files = []
    for rel, f in sorted(case["files"].items()):
        p = os.path.join(root, rel)
        os.makedirs(os.path.dirname(p), exist_ok=True)
        incs = [os.path.join(root, i[4:]) if i.startswith("ABS:") else i for i in f["includes"]]
        tag = re.sub(r"\W", "_", rel)
        body = "".join('include "%s"\n' % i for i in incs) + "struct S_%s { uint8 a; };\n" % tag
        if f["garbage"]:
            body += "struct {{{ ;\n"
        open(p, "w").write(body)
        world_files.append((p, None if f["garbage"] else incs))
    for d in DIRS:
        os.makedirs(os.path.join(root, d), exist_ok=True)
    return world_files


def gpath(p):
    return "[%s]" % "; ".join('"%s"' % c for c in p.strip("/").split("/"))


def gworld(world_files, idirs, main):
    fl = []
    for p, incs in world_files:
        fl.append("(%s, %s)" % (gpath(p), "None" if incs is None else "Some [%s]" % "; ".join('"%s"' % i for i in incs)))
    return "(mkW [%s] [%s] %s)" % ("; ".join(fl), "; ".join(gpath(d) for d in idirs), gpath(main))


def run(ctx):
    prop, tier, seed, work = ctx["prop"], ctx["tier"], ctx["seed"], ctx["work"]
    n = 200 if tier == "quick" else 5000
    cases = []
    if ctx.get("replay"):
        cases.append(json.load(open(ctx["replay"]))["case"])
    else:
        rng = vlib.mkrng(seed, prop)
        for k in range(n):
            cases.append(gen_case(rng, k))
    res = {"coverage": {}, "failures": [], "corr_broken": []}
    if not ctx["harness"] or not ctx["checks_vo"]:
        res["coverage"] = {"evaluations": 0, "distinct_nontrivial": 0, "rule": "not run", "samples": []}
        return res
    lines, worlds = [], []
    for k, c in enumerate(cases):
        root = os.path.realpath(os.path.join(work, "cases", str(k)))
        wf = materialize(c, root)
        idirs = [os.path.join(root, d) for d in c["idirs"]]
        sp = [spelled(root, d, how) for d, how in zip(c["idirs"], c.get("spell") or ["canon"] * len(c["idirs"]))]
        worlds.append((wf, idirs, os.path.join(root, "p/main.idl"), sp))
        lines.append("%d\tcli\t-\t%s\t%s" % (k, os.path.join(root, "p/main.idl"), ":".join(sp)))
    cf = os.path.join(work, "cases.txt")
    open(cf, "w").write("\n".join(lines) + "\n")
    rc, out, err = vlib.run([ctx["harness"], "front", cf], timeout=900)
    hres = vlib.parse_harness(out)

    def binrun(k):
        wf, idirs, main, sp = worlds[k]
        t0 = time.time()
        r = scrape.idlc_run(ctx["idlc"], main, os.path.join(os.path.dirname(os.path.dirname(main)), "out.h"), "c", False, idirs=sp, timeout=60)
        dt = time.time() - t0
        # which files' declarations does the BINARY see?  A second main file with the same includes
        # uses the struct of every file the replayed pipeline loaded (must be accepted) and, in a
        # third one, the struct of a same-named file that was not loaded (must be rejected).
        use = None
        h = hres.get(str(k))
        if h and h["result"] == "ok":
            loaded = re.findall(r'\(mkAst "([^"]+)"', h.get("files", ""))
            root = os.path.dirname(os.path.dirname(main))
            def tag(pth):
                return "S_" + re.sub(r"\W", "_", os.path.relpath(pth, root))
            incs = "".join(l for l in open(main).read().split("\n") if l.startswith("include") for l in [l + "\n"])
            others = [pth for pth in loaded if os.path.realpath(pth) != os.path.realpath(main)]
            pos = os.path.join(os.path.dirname(main), "main_use.idl")
            open(pos, "w").write(incs + "interface IUse {\n" + "".join("  method u%d(in %s x);\n" % (j, tag(pth)) for j, pth in enumerate(others)) + "  method z();\n};\n")
            rp = scrape.idlc_run(ctx["idlc"], pos, os.path.join(root, "use.h"), "c", False, idirs=sp, timeout=60)
            use = {"sees_loaded": rp[0] == 0, "diag": rp[2][-300:] if rp[0] != 0 else ""}
            lset = {os.path.realpath(pth) for pth in loaded}
            shadows = [pth for pth, _ in wf if os.path.realpath(pth) not in lset and any(os.path.basename(pth) == os.path.basename(q) for q in loaded)]
            if shadows:
                neg = os.path.join(os.path.dirname(main), "main_neg.idl")
                open(neg, "w").write(incs + "interface INeg {\n  method n(in %s x);\n};\n" % tag(shadows[0]))
                rn = scrape.idlc_run(ctx["idlc"], neg, os.path.join(root, "neg.h"), "c", False, idirs=sp, timeout=60)
                use["sees_unloaded"] = rn[0] == 0
                use["unloaded"] = shadows[0]
        return k, (r[0], dt, use)

    with ThreadPoolExecutor(max_workers=vlib.NCPU) as ex:
        bins = dict(ex.map(binrun, range(len(cases))))
    defs = []
    for k, c in enumerate(cases):
        h = hres.get(str(k))
        if not h:
            continue
        ok = h["result"] == "ok"
        loaded = re.findall(r'\(mkAst "([^"]+)"', h.get("files", "")) if ok else []
        wf, idirs, main, sp = worlds[k]
        d = "Definition w_%d : world := %s.\nDefinition l_%d : list path := [%s].\n" % (
            k, gworld(wf, idirs, main), k, "; ".join(gpath(p) for p in loaded))
        defs.append((k, d, "chk_c12 w_%d %s l_%d" % (k, "true" if ok else "false", k)))
    results, errors = vlib.eval_cases(os.path.join(work, "coq"), "cases",
                                      "From MinkV Require Import Includes spec.Spec_C12.\nOpen Scope list_scope.\n", defs, shard_size=25)
    for e in errors:
        res["corr_broken"].append({"kind": "case-evaluation", "detail": e})
    hist, distinct, seen = {}, 0, set()
    for k, c in enumerate(cases):
        fl = results.get(k)
        if fl is None:
            continue
        payload = {"property": prop, "case": c, "flags": fl, "harness": hres[str(k)].get("result"), "binary": bins.get(k),
                   "flags_meaning": "[model verdict = impl; model loaded = impl; Spec verdict = impl; reachable = impl loaded; model outcome 1 ok 2 missing 3 cycle 4 parse 5 fuel]"}
        hist[fl[4]] = hist.get(fl[4], 0) + 1
        if fl[0] == 0 or fl[1] == 0:
            res["corr_broken"].append({"kind": "correspondence", "detail": "include model vs implementation disagree on case %d (flags %s)" % (k, fl), "case": payload})
        if fl[2] == 0:
            res["failures"].append(dict(payload, what="accept/reject differs from the specification (unresolvable include or cycle among reachable files)"))
        if fl[3] == 0:
            res["failures"].append(dict(payload, what="the loaded files are not exactly the reachable files"))
        b = bins.get(k)
        if b and (b[0] == 0) != (hres[str(k)]["result"] == "ok"):
            res["corr_broken"].append({"kind": "correspondence", "detail": "idlc exit status %s disagrees with the replayed pipeline on case %d" % (b[0], k), "case": payload})
        if b and (b[0] in (-9, 139, 134, -11, -6) or b[1] > 20):
            res["failures"].append(dict(payload, what="the compiler looped, crashed or ran out of stack (exit %s, %.1fs)" % b[:2]))
        if b and b[2]:
            if not b[2]["sees_loaded"]:
                res["failures"].append(dict(payload, what="the binary does not see the declarations of every file that the resolution rule selects (%s)" % b[2]["diag"][-160:]))
            if b[2].get("sees_unloaded"):
                res["failures"].append(dict(payload, what="the binary sees the declarations of %s, a same-named file that the resolution rule does not select" % b[2]["unloaded"]))
        hh = hashlib.sha256(json.dumps(c, sort_keys=True).encode()).hexdigest()
        if hh not in seen and sum(len(f["includes"]) for f in c["files"].values()) >= 2:
            seen.add(hh); distinct += 1
    # diamond ladder: 2 files per level, each including both files of the next level.  The
    # number of files is 2(L+1); a walk that re-enters loaded files visits 2^(L+1) of them.
    if not ctx.get("replay"):
        # (with the repaired walk the depth is no obstacle: 2^31 visits would never finish)
        L = 30 if tier == "quick" else 200
        lad = os.path.join(work, "ladder")
        os.makedirs(lad, exist_ok=True)
        for i in range(L + 1):
            for ab in "ab":
                inc = "".join('include "%s%d.idl"\n' % (x, i + 1) for x in "ab") if i < L else ""
                open(os.path.join(lad, "%s%d.idl" % (ab, i)), "w").write(inc + "struct S%s%d { uint8 x; };\n" % (ab.upper(), i))
        chain = os.path.join(work, "chain")
        os.makedirs(chain, exist_ok=True)
        for i in range(2 * L + 2):
            inc = 'include "c%d.idl"\n' % (i + 1) if i < 2 * L + 1 else ""
            open(os.path.join(chain, "c%d.idl" % i), "w").write(inc + "struct SC%d { uint8 x; };\n" % i)
        # (the smaller of up to three timings each: a loaded machine must not look like a slow walk)
        tc = tl = None
        for _ in range(3):
            t0 = time.time(); r1 = scrape.idlc_run(ctx["idlc"], os.path.join(chain, "c0.idl"), os.path.join(chain, "o.h"), timeout=120); d = time.time() - t0
            tc = d if tc is None else min(tc, d)
            t0 = time.time(); r2 = scrape.idlc_run(ctx["idlc"], os.path.join(lad, "a0.idl"), os.path.join(lad, "o.h"), timeout=60); d = time.time() - t0
            tl = d if tl is None else min(tl, d)
            if r2[0] in (-9, 124) or tl < 0.3:
                break
        res["coverage_ladder"] = {"levels": L, "files": 2 * L + 2, "chain_seconds": round(tc, 3), "ladder_seconds": round(tl, 3), "rc": [r1[0], r2[0]]}
        how = ("ladder: files a<i>.idl and b<i>.idl for i = 0..%d, each `include \"a<i+1>.idl\"` and `include \"b<i+1>.idl\"` (none at the last level) "
               "plus one struct; main file a0.idl; chain: c0.idl .. c%d.idl, each including the next" % (L, 2 * L + 1))
        if r2[0] in (-9, 124) or tl >= 59:
            res["failures"].append({"property": prop, "ladder_levels": L, "how_to_build": how,
                                    "what": "the include walk does not finish on a %d-level diamond ladder (%d files, killed after %.0fs); a chain of as many files takes %.3fs" % (L, 2 * L + 2, tl, tc)})
        elif r2[0] != 0 or r1[0] != 0:
            res["failures"].append({"property": prop, "how_to_build": how, "what": "a valid include ladder/chain is rejected (exit %s/%s)" % (r1[0], r2[0]), "ladder": L})
        elif tl > 20 * max(tc, 0.01) and tl > 0.3:
            res["failures"].append({"property": prop, "ladder_levels": L, "how_to_build": how,
                                    "what": "include walk re-enters already loaded files: %d-level diamond ladder (%d files) takes %.2fs, a chain of as many files %.3fs" % (L, 2 * L + 2, tl, tc)})
    res["coverage"] = {
        "ladder": res.pop("coverage_ladder", None),
        "evaluations": len(results), "distinct_nontrivial": distinct,
        "rule": "2-8 files named a..e.idl over the directories p, i1, i2, p/sub; includes spelled bare, ./, ../, nested, absolute or unresolvable; "
                "-I a shuffled subset of {i1, i2, p/sub}; half of the cases mostly acyclic; 8% contain an unparsable file; non-trivial = at least 2 includes",
        "samples": [cases[k] for k in range(min(2, len(cases)))], "model_outcomes": {str(k): v for k, v in sorted(hist.items())},
    }
    return res
