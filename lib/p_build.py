"""C11 (generated code builds warning-clean): generated valid file sets (several files with
includes, hierarchies of any depth, integer and floating-point constants, objects in structs,
parameter names taken from the locals of the generated code) are compiled by the real idlc for
C, C++, Rust and Java (stub and skeleton, typed and untyped objects); every output is compiled
with the flags of upstream's integration build (tests/build.rs: -Wall -Wextra -Werror
-Wno-unused-parameter, C++ also -Wno-missing-field-initializers; rustc with the
allow(unused, nonstandard_style) of tests/src/lib.rs; javac against the stand-in runtime), alone
and together with a conforming user translation unit that instantiates the skeleton.  The user
code of C++, Rust and Java is derived from the generated declarations themselves; the C
implementation functions from the parameter lists.  A diagnostic is attributed to a known class
only when the class's predicate holds of the input AND its pattern matches the line."""
import os, re
from concurrent.futures import ThreadPoolExecutor
import gen, scrape, vlib

TESTS = os.path.join(vlib.REPO, "tests")
RTJ = os.path.join(vlib.VERIF, "rt", "java")
CW = ["-Wall", "-Wextra", "-Werror", "-Wno-unused-parameter"]
CXXW = CW + ["-Wno-missing-field-initializers"]
NAME_POOL = ["a", "k", "op", "me", "r", "result", "self", "args", "cx", "counts", "bi", "bo", "oi", "oo", "i", "h", "n", "size",
             "ptr", "val", "len", "o", "b", "prefix", "invoke", "ret", "obj", "arg_idx", "e", "err", "value", "x", "y", "data", "buf"]
CT = {"uint8": "uint8_t", "int8": "int8_t", "uint16": "uint16_t", "int16": "int16_t", "uint32": "uint32_t", "int32": "int32_t",
      "uint64": "uint64_t", "int64": "int64_t", "float32": "float", "float64": "double"}


# ---------------------------------------------------------------- generation
def rename_params(rng, fs):
    for f in fs["files"]:
        for d in f["decls"]:
            if d[0] != "iface":
                continue
            ms = []
            for m in d[3]:
                if m[0] == "method" and m[2] and rng.random() < 0.5:
                    names = rng.sample(NAME_POOL, len(m[2])) if len(m[2]) <= len(NAME_POOL) else None
                    if names:
                        m = (m[0], m[1], [(p[0], p[1], p[2], names[i]) for i, p in enumerate(m[2])], m[3], m[4])
                ms.append(m)
            d[3][:] = ms


def safe_consts(rng, fs):
    """constants: int32/uint32/int64/uint64 in plain decimal within int32 range, or floats (C17 owns literal forms)"""
    def fix(c):
        _, prim, name, lit = c
        if prim.startswith("float"):
            return ("const", prim, name, rng.choice(["1.5", "0.25", "3", "-2.5", "100"]))
        prim = rng.choice(["int32", "uint32", "int64", "uint64"])
        return ("const", prim, name, str(rng.randint(0, 1000)))
    for f in fs["files"]:
        for i, d in enumerate(f["decls"]):
            if d[0] == "const":
                f["decls"][i] = fix(d)
            elif d[0] == "iface":
                d[3][:] = [fix(m) if m[0] == "const" else m for m in d[3]]


def make_clean(rng, fs, gctx):
    """restrict a generated file set to constructs outside every known class:
    hierarchies of any depth, typed object arrays,
    parameter names p0.."""
    idx = iface_index(fs)
    def nested_obj(t):
        s = gctx.structs.get(t)
        return bool(s) and any(ft in gctx.structs and gctx.structs[ft]["objs"] > 0 for ft, c, fn in s["fields"])
    for f in fs["files"]:
        for i, d in enumerate(f["decls"]):
            if d[0] != "iface":
                continue
            base = d[2]
            ms = []
            for m in d[3]:
                if m[0] == "method":
                    ps = []
                    for (dr, t, sh, pn) in m[2]:
                        ps.append((dr, t, sh, pn))
                    # a small object-bearing struct that is bundled with another small value travels
                    # with its handle inside the data buffer (C02 K_interleave class): drop it there,
                    # keep it when it is the only small value of its direction
                    def small(q):
                        return q[2] is None and (q[1] in gen.PSIZE or (q[1] in gctx.structs and gctx.structs[q[1]]["size"] <= 16))
                    def small_obj(q):
                        return q[2] is None and q[1] in gctx.structs and gctx.structs[q[1]]["objs"] > 0 and gctx.structs[q[1]]["size"] <= 16
                    for dr_ in ("in", "out"):
                        while sum(1 for q in ps if q[0] == dr_ and small(q)) >= 2 and any(q[0] == dr_ and small_obj(q) for q in ps):
                            ps.remove([q for q in ps if q[0] == dr_ and small_obj(q)][0])
                    m = (m[0], m[1], ps, m[3], m[4])
                ms.append(m)
            f["decls"][i] = ("iface", d[1], base, ms)
            idx = iface_index(fs)


def iface_index(fs):
    """{iface: (file path, base, members)}"""
    out = {}
    for f in fs["files"]:
        for d in f["decls"]:
            if d[0] == "iface":
                out[d[1]] = (f["path"], d[2], d[3])
    return out


def chain(idx, name):
    out = []
    while name is not None:
        out.append(name)
        name = idx[name][1]
    return out


# ---------------------------------------------------------------- predicates of the known classes (on the input)
def closure(fs, path):
    by = {f["path"]: f for f in fs["files"]}
    seen, todo = [], [path]
    while todo:
        p = todo.pop()
        if p in seen or p not in by:
            continue
        seen.append(p)
        todo += by[p]["includes"]
    return seen


def file_facts(fs, gctx, path, deep=True):
    """facts about one file of the set as main file (deep: over its include closure, since the
    generated header includes the headers of the included files)"""
    if deep:
        out = None
        for p in closure(fs, path):
            F = file_facts(fs, gctx, p, deep=False)
            out = F if out is None else {k: out[k] or F[k] for k in F}
        return out
    idx = iface_index(fs)
    f = [x for x in fs["files"] if x["path"] == path][0]
    facts = {"float_const": False, "float_int_literal": False, "deep_chain": False, "untyped_objarr": False, "nested_obj_path": False,
             "obj_struct_param": False, "objarr": False, "has_iface": False, "struct_param": False, "optional": False, "forward_ref": False}
    def nested_obj(t, depth=0):
        s = gctx.structs.get(t)
        if not s:
            return False
        for ft, cnt, fn in s["fields"]:
            if ft in gctx.structs and gctx.structs[ft]["objs"] > 0:
                return True
        return False
    for d in f["decls"]:
        cs = [d] if d[0] == "const" else ([m for m in d[3] if m[0] == "const"] if d[0] == "iface" else [])
        for c in cs:
            if c[1].startswith("float"):
                facts["float_const"] = True
                if "." not in c[3]:
                    facts["float_int_literal"] = True
        if d[0] == "iface":
            facts["has_iface"] = True
            if len(chain(idx, d[1])) >= 3:
                facts["deep_chain"] = True
            for m in d[3]:
                if m[0] != "method":
                    continue
                if m[3]:
                    facts["optional"] = True
                for (dr, t, sh, pn) in m[2]:
                    if t == "interface" and sh:
                        facts["untyped_objarr"] = True
                    if (t == "interface" or t in idx) and sh:
                        facts["objarr"] = True
                    if t in gctx.structs:
                        facts["struct_param"] = True
                        if gctx.structs[t]["objs"] > 0:
                            facts["obj_struct_param"] = True
                        if nested_obj(t):
                            facts["nested_obj_path"] = True
    facts["forward_ref"] = gen.has_forward_ref(fs, path)
    return facts


# (class, languages, predicate on facts (+ untyped flag), pattern on the diagnostic line)
# (the C++ class for untyped object arrays is gone since its repair: such arrays are ProxyBase arrays)
CLASSES = [
    # the C++ header defines each proxy class completely before the next interface: a method that names an
    # interface declared further down in the same file meets an undeclared or incomplete type.  The core symptom
    # (an interface name that is unknown where it is used) must be present; the errors a C++ compiler derives
    # from it in the same translation unit (parameters taken for int, overloads that hide, ...) are its cascade.
    ("K_cpp_forward_iface_ref", ("cpp",), lambda F, u: F["forward_ref"],
     r"'I\w+' (has not been declared|was not declared|does not name a type)|unknown type name 'I\w+'|declaration of 'I\w+' with no type|"
     r"incomplete type 'I\w+'|undeclared identifier 'I\w+'", "cascade"),
]


def attribute(lang, facts, untyped, lines):
    """-> (classes hit, unexplained lines)"""
    hit, rest = set(), []
    for l in lines:
        ok = False
        for cls, langs, pred, pat, *mode in CLASSES:
            if lang in langs and pred(facts, untyped) and re.search(pat, l):
                hit.add(cls); ok = True
                break
        if not ok:
            rest.append(l)
    # a class marked "cascade" explains the follow-up errors of the same translation unit once its
    # core symptom has been seen there
    for cls, langs, pred, pat, *mode in CLASSES:
        if mode and mode[0] == "cascade" and cls in hit:
            rest = []
    return hit, rest


def errlines(text):
    return [l for l in text.split("\n") if re.search(r"\berror\b|\bwarning\b", l) and not l.startswith("cc1") and not re.search(r"\d+ errors? generated", l)
            and "warnings being treated as errors" not in l and "warning generated" not in l and "warnings generated" not in l]


# ---------------------------------------------------------------- user code
def c_sig(gctx, idx, params, untyped=False):
    out = []
    for d, t, sh, pn in params:
        isobj = t == "interface" or t in idx
        if isobj:
            if sh is None:
                out.append(("Object %s" if d == "in" else "Object *%s") % pn)
            else:
                n = int(sh[1:-1])
                out.append(("const Object (*%s_ptr)[%d]" if d == "in" else "Object (*%s_ptr)[%d]") % (pn, n))
        elif sh is None and t != "buffer":
            ct = CT.get(t, t)
            if d == "in":
                out.append("%s %s_val" % (ct, pn) if t in CT else "const %s *%s_ptr" % (ct, pn))
            else:
                out.append("%s *%s_ptr" % (ct, pn))
        else:
            vt = "void" if t == "buffer" else CT.get(t, t)
            if d == "in":
                out += ["const %s *%s_ptr" % (vt, pn), "size_t %s_len" % pn]
            else:
                out += ["%s *%s_ptr" % (vt, pn), "size_t %s_len" % pn, "size_t *%s_lenout" % pn]
    return out


def c_user(fs, gctx, path, stem, untyped=False):
    """a translation unit instantiating the skeleton of every interface declared in the file"""
    idx = iface_index(fs)
    A = ['#include <stdint.h>\n#include <stddef.h>\n#include "object.h"\n#include "%s.h"\n#include "%s_invoke.h"\n' % (stem, stem)]
    n = 0
    for name, (p, base, members) in idx.items():
        if p != path:
            continue
        A.append("typedef struct { int refs; } Ctx_%s;" % name)
        pre = "u%d_" % n
        n += 1
        A.append("static int32_t %srelease(Ctx_%s *me) { (void)me; return Object_OK; }" % (pre, name))
        A.append("static int32_t %sretain(Ctx_%s *me) { (void)me; return Object_OK; }" % (pre, name))
        for anc in chain(idx, name):
            for m in idx[anc][2]:
                if m[0] != "method":
                    continue
                sig = ", ".join(["Ctx_%s *ctx__" % name] + c_sig(gctx, idx, m[2], untyped))
                A.append("%sint32_t %s%s(%s) { (void)ctx__; return Object_OK; }" % ("" if m[3] else "static ", pre, m[1], sig))
        A.append("static %s_DEFINE_INVOKE(dispatch_%s, %s, Ctx_%s *)" % (name, name, pre, name))
        A.append("Object make_%s(Ctx_%s *c) { return (Object){dispatch_%s, c}; }" % (name, name, name))
    return "\n".join(A) + "\n"


def cpp_user(texts, fs, path, stem):
    """subclass every <I>ImplBase of the file; overrides are the pure virtual declarations of the
    generated headers themselves (own and inherited)"""
    idx = iface_index(fs)
    virt = {}
    for t in texts:
        for m in re.finditer(r"class I(\w+)[^{;]*\{(.*?)\n\};", t, re.S):
            if m.group(1) in idx:
                virt[m.group(1)] = re.findall(r"virtual int32_t (\w+)\((.*?)\) = 0;", m.group(2), re.S)
    A = ['#include <cstdint>\n#include <cstddef>\n#include "object.h"\n#include "proxy_base.hpp"\n#include "impl_base.hpp"\n#include "%s.hpp"\n#include "%s_invoke.hpp"\n' % (stem, stem)]
    for name, (p, base, members) in idx.items():
        if p != path:
            continue
        A.append("class U_%s : public %sImplBase {\n public:" % (name, name))
        for anc in chain(idx, name):
            for mn, sig in virt.get(anc, []):
                A.append("  int32_t %s(%s) override { return Object_OK; }" % (mn, " ".join(sig.split())))
        A.append("};\nObject make_%s() { return (Object){ImplBase::invoke, new U_%s()}; }" % (name, name))
    return "\n".join(A) + "\n"


def rust_user(outdir, fs, path):
    """crate root: object runtime, every generated module, an implementation of every trait of
    the file's interfaces (signatures copied from the generated traits)"""
    mods = sorted(f[:-3] for f in os.listdir(outdir) if f.endswith(".rs"))
    A = ["#![deny(warnings)]", '#[path = "%s/src/object/mod.rs"]\n#[allow(warnings)]\npub mod object;' % TESTS,
         "#[allow(unused, nonstandard_style)]\npub mod interfaces {"]
    traits = {}
    for m in mods:
        A.append('    pub mod %s { include!("%s/%s.rs"); }' % (m, outdir, m))
        t = open(os.path.join(outdir, m + ".rs")).read()
        for tm in re.finditer(r"pub trait I(\w+)\s*:\s*([^{]*)\{", t):
            depth, i = 1, tm.end()
            while depth and i < len(t):
                depth += {"{": 1, "}": -1}.get(t[i], 0)
                i += 1
            body = t[tm.end():i - 1]
            fns, depth2, cur = [], 0, ""
            for ch in body:
                cur += ch
                if ch in "([{":
                    depth2 += 1
                elif ch in ")]}":
                    depth2 -= 1
                    if ch == "}" and depth2 == 0:
                        cur = ""            # a method with a default body (optional): nothing to implement
                elif ch == ";" and depth2 == 0:
                    if "fn " in cur:
                        fns.append(cur[cur.index("fn "):].strip())
                    cur = ""
            traits[tm.group(1)] = (m, tm.group(2).strip(), fns)
    A.append("}")
    idx = iface_index(fs)
    A.append("#[allow(unused, nonstandard_style)]\npub mod user {")
    for name, (p, base, members) in idx.items():
        if p != path or name not in traits:
            continue
        A.append("    pub struct U_%s;" % name)
        for anc in chain(idx, name):
            if anc not in traits:
                continue
            m, bounds, fns = traits[anc]
            A.append("    impl crate::interfaces::%s::I%s for U_%s {" % (m, anc, name))
            for fn in fns:
                A.append("        " + re.sub(r"\bError\b", "crate::interfaces::%s::Error" % m, " ".join(fn.split())[:-1]) + " { unimplemented!() }")
            A.append("    }")
        m = traits[name][0]
        A.append("    pub fn make_%s() -> crate::interfaces::%s::%s { crate::interfaces::%s::%s::from(U_%s) }" % (name.lower(), m, name, m, name, name))
    A.append("}")
    return "\n".join(A) + "\n"


def java_user(outdir, fs, path):
    idx = iface_index(fs)
    decl = {}
    for fn in os.listdir(outdir):
        if not fn.endswith(".java"):
            continue
        t = open(os.path.join(outdir, fn)).read()
        m = re.search(r"public interface (\w+)", t)
        if m:
            head = t.split("class Proxy")[0]
            decl[m.group(1)] = re.findall(r"\n\s*void (\w+)\((.*?)\) throws IMinkObject\.InvokeException;", head)
    A = ["package com.qualcomm.qti.mink;", "import com.qualcomm.qti.qms.api.mink.IMinkObject;"]
    A.append("public class User {")
    for name, (p, base, members) in idx.items():
        if p != path or name not in decl:
            continue
        A.append("    static class U_%s implements %s {" % (name, name))
        seen = set()
        for anc in chain(idx, name):
            for mn, sig in decl.get(anc, []):
                if mn in seen:
                    continue
                seen.add(mn)
                A.append("        public void %s(%s) throws IMinkObject.InvokeException { }" % (mn, sig))
        A.append("    }")
        A.append("    static IMinkObject make_%s() { return new %s.MinkObject(new U_%s()); }" % (name, name, name))
    A.append("}")
    return "\n".join(A) + "\n"


# ---------------------------------------------------------------- one case
def build_case(ctx_, root, fs, gctx, untyped, compilers, java=True):
    """-> list of {lang, role, file, cc, lines} for every compile that printed a diagnostic"""
    extra = ["--no-typed-objects"] if untyped else []
    paths = [f["path"] for f in fs["files"]]
    em = scrape.emit_all(ctx_["idlc"], root, paths, fs["main"], idirs=(), extra=extra)
    out = os.path.join(root, "out")
    if untyped is False:
        # generated over what an earlier, longer revision left in the output directory: every file of the
        # first run gets a stale tail, then everything is generated again; what is compiled is the second run
        for dp, _, fns in os.walk(out):
            for fn in fns:
                if fn.endswith((".h", ".hpp", ".rs", ".java")):
                    with open(os.path.join(dp, fn), "a") as fh:
                        fh.write("\n}} stale tail of an earlier, longer revision {{ ) ( \n" * 40)
        em = scrape.emit_all(ctx_["idlc"], root, paths, fs["main"], idirs=(), extra=extra)
    diags, ncomp = [], 0
    incc = ["-I" + os.path.join(TESTS, "c"), "-I" + os.path.join(out, "c")]
    inccpp = incc + ["-I" + os.path.join(TESTS, "cpp"), "-I" + os.path.join(out, "cpp")]
    emitfail = []
    for rel in paths:
        stem = os.path.splitext(os.path.basename(rel))[0]
        r = em[rel]
        for key in r:
            if r[key][0] != 0 and not (key[0] == "java" and scrape.unsupported_java(r[key][2])):
                emitfail.append((rel, key, r[key][2]))
    for rel in paths:
        stem = os.path.splitext(os.path.basename(rel))[0]
        r = em[rel]
        # ---- C
        if r[("c", "stub")][0] == 0 and r[("c", "skel")][0] == 0:
            srcs = {"stub": '#include "%s.h"\n' % stem, "skel": '#include "%s.h"\n#include "%s_invoke.h"\n' % (stem, stem), "user": c_user(fs, gctx, rel, stem, untyped)}
            for role, text in srcs.items():
                src = os.path.join(out, "c", "tu_%s_%s.c" % (stem, role))
                open(src, "w").write(text)
                for cc in compilers["c"]:
                    rc, o, e = vlib.run([cc, "-std=gnu11", "-fsyntax-only"] + CW + incc + [src], timeout=120)
                    ncomp += 1
                    ls = errlines(e)
                    if rc != 0 or ls:
                        diags.append({"lang": "c", "role": role, "file": rel, "cc": cc, "lines": ls or [e[-300:]], "src": src})
        # ---- C++
        if r[("cpp", "stub")][0] == 0 and r[("cpp", "skel")][0] == 0:
            texts = [scrape.rd(os.path.join(out, "cpp", os.path.splitext(os.path.basename(p))[0] + ".hpp")) for p in paths]
            srcs = {"stub": '#include "%s.hpp"\n' % stem, "skel": '#include "%s.hpp"\n#include "%s_invoke.hpp"\n' % (stem, stem), "user": cpp_user(texts, fs, rel, stem)}
            for role, text in srcs.items():
                src = os.path.join(out, "cpp", "tu_%s_%s.cpp" % (stem, role))
                open(src, "w").write(text)
                for cc in compilers["cpp"]:
                    rc, o, e = vlib.run([cc, "-std=c++17", "-fsyntax-only"] + CXXW + inccpp + [src], timeout=120)
                    ncomp += 1
                    ls = errlines(e)
                    if rc != 0 or ls:
                        diags.append({"lang": "cpp", "role": role, "file": rel, "cc": cc, "lines": ls or [e[-300:]], "src": src})
    # ---- Rust and Java: the main file's output directory holds every module of the set
    rel = fs["main"]
    for lang in ("rust", "java"):
        pass
    rdir = os.path.join(out, "rust")
    if em[rel][("rust", "both")][0] == 0:
        # the rust output of every file went into the same directory; compile as one crate with user impls for the main file
        src = os.path.join(out, "rust_user.rs")
        open(src, "w").write(rust_user(rdir, fs, rel))
        rc, o, e = vlib.run(["rustc", "--edition", "2021", "--cfg", 'feature="std"', "--crate-type", "lib", "--emit", "metadata", "-o", os.path.join(out, "libu.rmeta"), src], timeout=300)
        ncomp += 1
        ls = [l for l in e.split("\n") if re.match(r"^(error|warning)", l) and "aborting due to" not in l and "warning emitted" not in l and "warnings emitted" not in l]
        if rc != 0 or ls:
            diags.append({"lang": "rust", "role": "both+user", "file": rel, "cc": "rustc", "lines": ls or [e[-300:]], "src": src, "full": e[-1500:]})
    jdir = os.path.join(out, "java")
    if java and em[rel][("java", "both")][0] == 0:
        src = os.path.join(jdir, "User.java")
        open(src, "w").write(java_user(jdir, fs, rel))
        srcs = [os.path.join(dp, f) for dp, _, fns in os.walk(RTJ) for f in fns if f.endswith(".java")] + [os.path.join(jdir, f) for f in sorted(os.listdir(jdir)) if f.endswith(".java")]
        os.makedirs(os.path.join(out, "jcls"), exist_ok=True)
        rc, o, e = vlib.run(["javac", "-d", os.path.join(out, "jcls")] + srcs, timeout=300)
        ncomp += 1
        ls = [l for l in e.split("\n") if ": error:" in l or ": warning:" in l or l.startswith("Note:")]
        if rc != 0 or ls:
            diags.append({"lang": "java", "role": "both+user", "file": rel, "cc": "javac", "lines": ls or [e[-300:]], "src": src})
    return diags, ncomp, emitfail


# ---------------------------------------------------------------- fixed witnesses of the known classes
def witness_cases():
    """(class, language keys it concerns, file set, struct table)"""
    W = []
    def fs1(decls, path="main.idl"):
        return {"files": [{"path": path, "includes": [], "decls": decls}], "main": path, "idirs": []}
    W.append(("K_float_macro", ("c", "cpp"), fs1([("const", "float32", "KF", "1.5"), ("iface", "IW", None, [("const", "float64", "KD", "2.5"), ("method", "m", [], False, None)])])))
    W.append(("K_rust_float_int_literal", ("rust",), fs1([("iface", "IW", None, [("const", "float32", "KF", "3"), ("method", "m", [], False, None)])])))
    W.append(("K_java_float_const", ("java",), fs1([("iface", "IW", None, [("const", "float32", "KF", "1.5"), ("method", "m", [], False, None)])])))
    W.append(("REGRESSION_base_list", ("cpp",), fs1([("iface", "IA", None, [("method", "ma", [], False, None)]), ("iface", "IB", "IA", [("method", "mb", [], False, None)]),
                                            ("iface", "IC", "IB", [("method", "mc", [("in", "uint32", None, "x")], False, None)]),
                                            ("iface", "ID", "IC", [("method", "md", [], False, None)])])))
    W.append(("REGRESSION_cpp_untyped_objarr", ("cpp",), fs1([("iface", "IW", None, [("method", "m", [("in", "interface", "[2]", "p0"), ("out", "interface", "[2]", "p1")], False, None)])])))
    W.append(("K_nested_obj_path", ("cpp",), fs1([("struct", "SO", [("interface", 1, "o"), ("uint64", 1, "a"), ("uint64", 1, "b")]),
                                                   ("struct", "SN", [("SO", 1, "x"), ("uint64", 1, "y"), ("uint64", 1, "z")]),
                                                   ("iface", "IW", None, [("method", "m", [("in", "SN", None, "p0"), ("out", "SN", None, "p1")], False, None)])])))
    W.append(("K_cpp_forward_iface_ref", ("cpp",), fs1([("iface", "IHub", None, [("method", "open", [("out", "ILater", None, "p0")], False, None)]),
                                                        ("iface", "ILater", None, [("method", "close", [], False, None)])])))
    W.append(("REGRESSION_struct_declared_after_use", ("c", "cpp"), fs1([("struct", "Outer", [("Header", 1, "h"), ("Body", 2, "b")]), ("struct", "Header", [("uint32", 1, "a")]),
                                                                        ("struct", "Body", [("uint32", 1, "b")]), ("struct", "Deep", [("Outer", 1, "o"), ("Header", 1, "again")]),
                                                                        ("iface", "IW", None, [("method", "m", [("in", "Outer", None, "p0"), ("out", "Deep", None, "p1")], False, None)])])))
    W.append(("REGRESSION_struct_declared_after_interface", ("c", "cpp"), fs1([("iface", "IW", None, [("method", "m", [("in", "Late", None, "p0"), ("out", "Late", None, "p1"), ("in", "Late", "[]", "p2")], False, None)]),
                                                                              ("struct", "Late", [("Inner", 1, "i"), ("uint32", 1, "x")]), ("struct", "Inner", [("uint32", 1, "y")])])))
    W.append(("REGRESSION_c_forward_iface_ref", ("c",), fs1([("struct", "SH", [("ILater", 1, "l"), ("uint64", 1, "a"), ("uint64", 1, "b")]),
                                                             ("iface", "IHub", None, [("method", "open", [("out", "ILater", None, "p0"), ("in", "SH", None, "p1")], False, None),
                                                                                      ("method", "arr", [("in", "ILater", "[2]", "p0")], False, None)]),
                                                             ("iface", "ILater", None, [("method", "close", [], False, None)])])))
    W.append(("K_small_obj_struct_bundled", ("c", "rust"), fs1([("struct", "SS", [("interface", 1, "o")]),
                                                               ("iface", "IW", None, [("method", "m", [("in", "SS", None, "p0"), ("in", "uint32", None, "p1")], False, None)])])))
    W.append(("K_upper_cased_names_collide", ("rust", "java"), fs1([("iface", "IW", None, [("const", "uint32", "Lim", "3"), ("const", "uint32", "LIM", "4"), ("error", "Busy"), ("error", "BUSY"),
                                                                                        ("method", "m", [], False, None)])])))
    W.append(("K_java_iface_named_after_file", ("java",), fs1([("iface", "IWit", None, [("method", "m", [("in", "uint32", None, "p0")], False, None)])], path="IWit.idl")))
    return W


def witness_ctx(fs):
    g = gen.Ctx(None)
    for f in fs["files"]:
        for d in f["decls"]:
            if d[0] == "struct":
                objs = sum(1 for t, c, n in d[2] if t == "interface") + sum(g.structs[t]["objs"] for t, c, n in d[2] if t in g.structs)
                g.structs[d[1]] = {"size": 0, "align": 8, "objs": objs, "fields": d[2], "file": 0}
            elif d[0] == "iface":
                g.ifaces[d[1]] = {"base": d[2], "file": 0}
    return g


# names whose generated identifiers coincide with template locals (the Coq model Emit.shadows
# decides; this table only selects which combinations the quick tier always compiles)
COLLIDE = {"c": ["a", "me", "r", "result"], "cpp": ["a", "invoke", "r", "result"], "rust": ["args", "cx"],
           "java": ["bi", "bo", "boSizes", "oi", "oo", "mObj", "methodID", "bundleIn", "bundleOut", "i"]}
SAFE_NAMES = ["k", "op", "args_ptr", "counts", "h", "n", "size", "ptr", "val", "len", "o", "b", "prefix", "ret", "obj", "arg_idx", "e", "err", "value",
              "x", "y", "data", "buf", "p0", "cpy", "s", "t", "q", "idx", "index", "p_x", "minkObject", "zz"]
NKINDS = {"prim_in": ("in", "uint32", None), "prim_out": ("out", "uint32", None), "obj_in": ("in", "interface", None), "obj_out": ("out", "interface", None),
          "buf_in": ("in", "buffer", None), "buf_out": ("out", "buffer", None), "struct_in": ("in", "SB", None), "tobj_in": ("in", "IOther", None),
          "arr_in": ("in", "uint16", "[]"), "arr_out": ("out", "uint16", "[]"), "objarr_in": ("in", "IOther", "[2]"), "objarr_out": ("out", "IOther", "[2]"), "method": None}
LCODE = {"c": 0, "cpp": 1, "rust": 2, "java": 3}


def name_case(name, kind):
    d, t, sh = NKINDS[kind] or ("in", "uint32", None)
    g = gen.Ctx(None)
    g.structs["SB"] = {"size": 24, "align": 8, "objs": 0, "fields": [("uint64", 1, "f0"), ("uint64", 1, "f1"), ("uint64", 1, "f2")], "file": 0}
    g.ifaces["IOther"] = {"base": None, "file": 0}
    g.ifaces["INm"] = {"base": None, "file": 0}
    fs = {"files": [{"path": "main.idl", "includes": [], "decls": [
        ("struct", "SB", g.structs["SB"]["fields"]), ("iface", "IOther", None, [("method", "nop", [], False, None)]),
        ("iface", "INm", None, [("method", name if kind == "method" else "m", [(d, t, sh, "zz0" if kind == "method" else name), ("in", "uint64", None, "zz1")], False, None)])]}], "main": "main.idl", "idirs": []}
    return fs, g


def run(ctx_):
    prop, tier, seed, work = ctx_["prop"], ctx_["tier"], ctx_["seed"], ctx_["work"]
    ncases = 6 if tier == "quick" else 120
    res = {"coverage": {}, "failures": [], "corr_broken": []}
    rng = vlib.mkrng(seed, prop)
    compilers = {"c": ["gcc", "clang"], "cpp": ["g++", "clang++"]}
    jobs = []         # (tag, fs, gctx, untyped, meta)
    for k in range(ncases):
        fs, gctx = gen.gen_fileset(rng, nfiles=rng.choice([1, 2, 3]))
        safe_consts(rng, fs)
        make_clean(rng, fs, gctx)
        if k % 2 == 1:
            # interfaces named before the same file declares them
            gen.add_forward_refs(rng, fs, prob=0.6)
        if k % 3 == 1:
            # structs declared before the structs they contain
            gen.reorder_structs(rng, fs)
        jobs.append(("clean", fs, gctx, False, {}))
        if k % 3 == 0:
            jobs.append(("clean-untyped", fs, gctx, True, {}))
    # every parameter kind alone, as input, as output and as both (shapes random choice rarely isolates)
    kinds = {"prim": ("uint32", None), "f64": ("float64", None), "ssm": ("SSm", None), "sbg": ("SBg", None), "sos": ("SOs", None), "sob": ("SOb", None),
             "buf": ("buffer", None), "parr": ("uint16", "[]"), "sarr": ("SSm", "[]"), "obj": ("interface", None), "tobj": ("IOther", None), "oarr": ("IOther", "[2]")}
    kdecls = [("iface", "IOther", None, [("method", "nop", [], False, None)]),
              ("struct", "SSm", [("uint32", 1, "a"), ("uint16", 1, "b"), ("uint8", 1, "c"), ("uint8", 1, "d")]),
              ("struct", "SBg", [("uint64", 1, "a"), ("uint64", 1, "b"), ("uint64", 1, "c")]),
              ("struct", "SOs", [("IOther", 1, "o")]),
              ("struct", "SOb", [("interface", 1, "o"), ("uint64", 1, "a"), ("uint64", 1, "b")])]
    kms = []
    for kn, (t, sh) in kinds.items():
        kms.append(("method", "mi_" + kn, [("in", t, sh, "p")], False, None))
        kms.append(("method", "mo_" + kn, [("out", t, sh, "q")], False, None))
        kms.append(("method", "mio_" + kn, [("in", t, sh, "p"), ("out", t, sh, "q")], False, None))
    kfs = {"files": [{"path": "main.idl", "includes": [], "decls": kdecls + [("iface", "IKinds", None, kms)]}], "main": "main.idl", "idirs": []}
    kctx = witness_ctx(kfs)
    for nm, sz in (("SSm", 8), ("SBg", 24), ("SOs", 16), ("SOb", 32)):
        kctx.structs[nm]["size"] = sz
    jobs.append(("clean", kfs, kctx, False, {}))
    jobs.append(("clean-untyped", kfs, kctx, True, {}))
    for cls, langs, fs in witness_cases():
        jobs.append(("witness", fs, witness_ctx(fs), False, {"class": cls, "langs": langs}))
    # parameter names: every (language, colliding name, kind) of the table and a sample of names outside it
    pairs = []
    for lang, names in COLLIDE.items():
        for nme in names:
            for kind in (NKINDS if tier != "quick" else ["obj_in", "obj_out", "prim_in", "prim_out", "objarr_out", "method"]):
                pairs.append((nme, kind))
    pairs = sorted(set(pairs))
    safe = [(nme, kind) for nme in SAFE_NAMES for kind in NKINDS]
    rng.shuffle(safe)
    pairs += safe[:24 if tier == "quick" else 400]
    for nme, kind in pairs:
        fs, g = name_case(nme, kind)
        jobs.append(("name", fs, g, False, {"name": nme, "kind": kind}))

    def do(j):
        tag, fs, gctx, untyped, meta = jobs[j]
        root = os.path.join(work, "j%d" % j)
        gen.write_fileset(fs, root)
        cc = compilers if tag != "name" else {"c": ["gcc"], "cpp": ["g++"]}
        diags, ncomp, emitfail = build_case(ctx_, root, fs, gctx, untyped, cc, java=not tag.startswith("clean"))
        if tag.startswith("clean"):
            emitfail = [x for x in emitfail if x[1][0] != "java"]
        return j, (diags, ncomp, emitfail)

    with ThreadPoolExecutor(max_workers=vlib.NCPU) as ex:
        results = dict(ex.map(do, range(len(jobs))))
    # the model's verdict on every name case
    sdefs, order = [], []
    for j, (tag, fs, gctx, untyped, meta) in enumerate(jobs):
        if tag == "name":
            isobj = meta["kind"] in ("obj_in", "obj_out", "tobj_in", "objarr_in", "objarr_out")
            for lang in ("c", "cpp", "rust", "java"):
                order.append((j, lang))
                sdefs.append('(%d, %d, "%s")' % (LCODE[lang], 2 if meta["kind"] == "method" else (1 if isobj else 0), meta["name"]))
    shadow = {}
    if ctx_["checks_vo"] and sdefs:
        fl, errors = vlib.eval_cases(os.path.join(work, "coq"), "shadow", "", [(0, "", "(chk_shadow [%s] ++ chk_base_clause [0; 1; 2; 3])%%list" % "; ".join(sdefs))], shard_size=1)
        for e in errors:
            res["corr_broken"].append({"kind": "case-evaluation", "detail": e})
        flags = fl.get(0, [])
        if len(flags) == len(order) + 4:
            for (j, lang), v in zip(order, flags):
                shadow[(j, lang)] = v == 1
            if flags[-4:] != [1, 1, 1, 1]:
                res["corr_broken"].append({"kind": "correspondence", "detail": "base-clause model: well-formedness for depth 0..3 is %s" % flags[-4:]})
    ncomp_total, nclean, hits, nname = 0, 0, {}, 0
    for j, (tag, fs, gctx, untyped, meta) in enumerate(jobs):
        diags, ncomp, emitfail = results[j]
        ncomp_total += ncomp
        text = {f["path"]: gen.render_file(f) for f in fs["files"]}
        for rel, key, diag in emitfail:
            if tag == "name":
                continue        # a name the Rust backend cannot even emit is a reserved word there
            res["failures"].append({"property": prop, "idl": text, "what": "idlc rejects a valid file (%s %s): %s" % (rel, key, diag[-200:])})
        if tag in ("clean", "clean-untyped"):
            nclean += 1
            for d in diags:
                F = file_facts(fs, gctx, d["file"])
                hit, rest = attribute(d["lang"], F, untyped, d["lines"])
                for c in hit:
                    hits[c] = hits.get(c, 0) + 1
                    res["failures"].append({"property": prop, "known_class": c, "idl": text, "what": "%s %s of %s: %s" % (d["cc"], d["role"], d["file"], d["lines"][0][:200])})
                if rest:
                    res["failures"].append({"property": prop, "idl": text, "untyped_objects": untyped, "compiler": d["cc"], "role": d["role"], "file": d["file"],
                                            "what": "generated %s code (%s) does not build warning-clean: %s" % (d["lang"], d["role"], rest[0][:300]), "diagnostics": rest[:6]})
        elif tag == "witness":
            cls, langs = meta["class"], meta["langs"]
            bad = [d for d in diags if d["lang"] in langs]
            other = [d for d in diags if d["lang"] not in langs]
            if bad and cls.startswith("REGRESSION_"):
                res["failures"].append({"property": prop, "idl": text, "what": "a repaired defect is back (%s): %s: %s" % (cls, bad[0]["cc"], bad[0]["lines"][0][:200])})
            elif bad:
                hits[cls] = hits.get(cls, 0) + 1
                res["failures"].append({"property": prop, "known_class": cls, "idl": text, "what": "%s: %s" % (bad[0]["cc"], bad[0]["lines"][0][:200])})
        else:
            nname += 1
            failing = sorted(set(d["lang"] for d in diags))
            for lang in ("c", "cpp", "rust", "java"):
                pred = shadow.get((j, lang))
                if lang in failing:
                    d = [x for x in diags if x["lang"] == lang][0]
                    if pred:
                        hits["K_param_shadows_local"] = hits.get("K_param_shadows_local", 0) + 1
                        res["failures"].append({"property": prop, "known_class": "K_param_shadows_local", "idl": text,
                                                "what": "%s: parameter `%s` (%s): %s" % (lang, meta["name"], meta["kind"], d["lines"][0][:200])})
                    else:
                        res["failures"].append({"property": prop, "idl": text, "language": lang, "parameter_name": meta["name"], "kind": meta["kind"],
                                                "what": "generated %s code does not build for a parameter called `%s` although none of the identifiers derived from it is a template local: %s" % (lang, meta["name"], d["lines"][0][:300])})
    # ---- Java: the class-0 interfaces of one C18-style batch, compiled with user code
    import p_java
    jb = 1 if tier == "quick" else 10
    njava = 0
    if ctx_["harness"] and ctx_["checks_vo"]:
        for b in range(jb):
            c, decls, cands = p_java.gen_batch(rng)
            root = os.path.join(work, "java%d" % b)
            os.makedirs(os.path.join(root, "out"), exist_ok=True)
            open(os.path.join(root, "cand.idl"), "w").write(p_java.render(decls, "IJ", [("c%d" % i, ps) for i, ps in enumerate(cands)]))
            cf = os.path.join(root, "cases.txt")
            open(cf, "w").write("0\tcli\t-\t%s\t\n" % os.path.join(root, "cand.idl"))
            rc, out, err = vlib.run([ctx_["harness"], "front", cf], timeout=300)
            h = vlib.parse_harness(out).get("0")
            if not h or h["result"] != "ok":
                continue
            cl, errors = vlib.eval_cases(os.path.join(root, "coq"), "jcls", "", [(0, "Definition f_0 : list ast := %s.\n" % h["files"], 'chk_java_classes f_0 "IJ"')], shard_size=1)
            cl = cl.get(0)
            if not cl or len(cl) != len(cands):
                continue
            methods = [("m%d" % i, ps) for i, (ps, kk) in enumerate(zip(cands, cl)) if kk == 0]
            open(os.path.join(root, "l2.idl"), "w").write(p_java.render(decls, "IJ", methods))
            r = scrape.idlc_run(ctx_["idlc"], os.path.join(root, "l2.idl"), os.path.join(root, "out"), "java", False)
            if r[0] != 0:
                continue
            fsj = {"files": [{"path": "l2.idl", "includes": [], "decls": list(decls) + [("iface", "IJ", None, [("method", n, ps, False, None) for n, ps in methods])]}], "main": "l2.idl", "idirs": []}
            src = os.path.join(root, "out", "User.java")
            open(src, "w").write(java_user(os.path.join(root, "out"), fsj, "l2.idl"))
            srcs = [os.path.join(dp, f) for dp, _, fns in os.walk(RTJ) for f in fns if f.endswith(".java")] + [os.path.join(root, "out", f) for f in sorted(os.listdir(os.path.join(root, "out"))) if f.endswith(".java")]
            os.makedirs(os.path.join(root, "cls"), exist_ok=True)
            rc, o, e = vlib.run(["javac", "-d", os.path.join(root, "cls")] + srcs, timeout=300)
            ncomp_total += 1
            njava += len(methods)
            ls = [l for l in e.split("\n") if ": error:" in l or ": warning:" in l or l.startswith("Note:")]
            if rc != 0 or ls:
                res["failures"].append({"property": prop, "idl": p_java.render(decls, "IJ", methods), "what": "generated Java of methods outside every known class does not build clean with javac: %s" % (ls or [e[-300:]])[0][:300]})
    res["coverage"] = {
        "evaluations": ncomp_total, "distinct_nontrivial": nclean + nname,
        "rule": "%d generated valid file sets (1-3 files with includes, constants, nested structs with objects, hierarchies of any depth, every parameter kind, optional methods; "
                "every third also with --no-typed-objects), every file as main file: stub TU, skeleton TU and a conforming user TU, gcc + clang (C, -Wall -Wextra -Werror "
                "-Wno-unused-parameter) and g++ + clang++ (C++, also -Wno-missing-field-initializers); the Rust modules with implementations of every trait under deny(warnings) "
                "with allow(unused, nonstandard_style) on generated code; Java with javac against the stand-in runtime; fixed witnesses of the known classes; %d single-method "
                "interfaces whose parameter is called like a local of the generated code or not (model Emit.shadows decides which must fail); %d class-0 Java methods with user code; "
                "non-trivial = a clean case or a name case" % (ncases, nname, njava),
        "samples": [{"idl": {f["path"]: gen.render_file(f) for f in jobs[0][1]["files"]}}],
        "known_classes_hit": hits, "compiler_invocations": ncomp_total,
    }
    res["trusted_extra"] = ["gcc 12 / clang 14 / g++ / clang++ / rustc / javac 17 as the judges of 'builds warning-clean'; lib/p_build.py user-code generators"]
    return res
