"""C04 (refusal before the implementation): the compiled C skeleton is driven with perturbed
envelopes (each counts nibble +-1 and extremes, each fixed-size buffer size in {0, n-1, n+1, 2^32},
foreign and out-of-range ops, a modifier bit, optional methods without implementation); argument
arrays and buffers are allocated at exactly the sizes the perturbed envelope declares, under ASan.
The guards scraped from the emitted skeleton are compared with the Coq refusal model."""
import json, os, re
from concurrent.futures import ThreadPoolExecutor
import gen, l2c, scrape, vlib
from p_roundtrip import gen_batch, KNOWN, TESTS


def scrape_guards(text, iface):
    out = {}
    for label, body in scrape.c_skel_blocks(text, iface):
        m = re.search(r"prefix##(\w+)\(me", body)
        if not m:
            continue
        cond = body.split("{", 1)[0] if False else body
        head = body.split("break;")[0]
        out[m.group(1)] = [(int(a), int(b)) for a, b in re.findall(r"a\[(\d+)\]\.b\.size != (\d+)", head)]
    return out


def counts_first(cond):
    """the comparison of the counts word must be evaluated before any slot is read"""
    k = cond.find("ObjectCounts_pack")
    a = re.search(r"a\[\d+\]", cond)
    return k >= 0 and (a is None or k < a.start())


def scrape_guard_order_c(text, iface):
    bad = []
    for label, body in scrape.c_skel_blocks(text, iface):
        m = re.search(r"prefix##(\w+)\(me", body)
        if m and not counts_first(body.split("break;")[0]):
            bad.append(m.group(1))
    return bad


def scrape_guards_cpp(text, iface):
    """{method: ([(slot, size)], counts-first?)} from class <iface>ImplBase"""
    m = re.search(r"class %sImplBase\b.*?\n\};" % re.escape(iface), text, re.S)
    out = {}
    if not m:
        return out
    for mm in re.finditer(r"case OP_(\w+): \{\s*if \((.*?)\) \{\s*break;", m.group(0), re.S):
        cond = mm.group(2)
        out[mm.group(1)] = ([(int(a), int(b)) for a, b in re.findall(r"a\[(\d+)\]\.b\.size != (\d+)", cond)], counts_first(cond))
    return out


def skeletons_refuse_probe(ctx_, work, rng, nb):
    """refusal by the C, C++ and Rust skeletons alike: the nine-pairing program of the C05 harness
    (real skeletons of all three backends) is started in its --refuse mode (rt/obj/main.c): every
    method op is invoked directly on each implementation object with counts words that cannot be
    the method's (all nibbles 15; 14/13/12/11; for parameterless methods every single non-zero
    nibble).  The status must be non-zero and the implementation must not be entered."""
    import l2obj, p_refcount
    fails, ntry = [], 0
    for b in range(nb):
        methods = l2obj.gen_methods(rng, 5)
        # two of them are #[optional] and provided by no implementation side (names x<k>): the call is
        # refused with the 'invalid request' code, nothing is entered, and the calls that follow are served
        withobj = [j for j, (nm_, ps_) in enumerate(methods) if any(d_ == "in" and t_ != "uint32" for d_, t_, sh_, pn_ in ps_)] or list(range(len(methods)))
        for j in (withobj + [j for j in range(len(methods)) if j not in withobj])[:2]:
            methods[j] = ("x%d" % j, methods[j][1])
        k = len(methods)
        methods += [("m%d" % k, []), ("m%d" % (k + 1), [("in", "uint32", None, "p0")]), ("m%d" % (k + 2), [("out", "uint32", None, "p0")]), ("m%d" % (k + 3), []),
                    # optional, not provided, with input objects and outputs of every kind
                    ("x%d" % (k + 4), [("in", "interface", None, "p0"), ("in", "IFoo", None, "p1"), ("out", "uint32", None, "p2"), ("out", "interface", None, "p3")]),
                    ("x%d" % (k + 5), [("in", "SO", None, "p0"), ("in", "uint32", None, "p1"), ("out", "SO", None, "p2")])]
        root = os.path.join(work, "refobj%d" % b)
        os.makedirs(root, exist_ok=True)
        open(os.path.join(root, "l2.idl"), "w").write(l2obj.render_idl(methods))
        if p_refcount.emit(ctx_["idlc"], root):
            continue
        r = p_refcount.build(root, methods, sides=p_refcount.SIDES)
        if r.get("stage") != "run":
            continue
        if r["rc"] != 0:
            fails.append({"property": ctx_["prop"], "idl": l2obj.render_idl(methods), "observed": (r["out"][-300:] + r["err"][:900]),
                          "what": "the nine-pairing program faults after refused calls to optional methods nobody provides (exit %s)" % r["rc"]})
        else:
            runs_, _ends = p_refcount.parse(r["out"])
            for (caller_, impl_), recs_ in sorted(runs_.items()):
                absent_k = {j for j, (nm_, _) in enumerate(methods) if l2obj.is_absent(nm_)}
                for rec_ in recs_:
                    if rec_.get("k") in absent_k:
                        ntry += 1
                        if rec_["tag"] == "impl" or (rec_["tag"] == "ret" and rec_["ints"].get("status") != 2):
                            fails.append({"property": ctx_["prop"], "idl": l2obj.render_idl(methods), "pairing": "%s stub -> %s skeleton" % (caller_, impl_),
                                          "what": "an optional method nobody provides is %s" % ("entered" if rec_["tag"] == "impl" else "answered with status %s, not the invalid-request code 2" % rec_["ints"].get("status"))})
                            break
        mask = "".join("1" if not ps else "0" for _, ps in methods)
        rc, o, e = vlib.run([os.path.join(root, "l2obj"), "--refuse", str(len(methods)), mask], timeout=120, env=dict(vlib.ENV, ASAN_OPTIONS="detect_leaks=0"))
        side, cur, entered = None, None, False
        for l in o.split("\n"):
            if l.startswith("refusing "):
                side = l.split()[1]
            elif l.startswith("refuse "):
                cur, entered = l, False
            elif l.startswith("impl ") and cur:
                entered = True
            elif l.startswith("refused "):
                ntry += 1
                st = int(l.rsplit("status=", 1)[1])
                if st == 0 or entered:
                    fails.append({"property": ctx_["prop"], "idl": l2obj.render_idl(methods), "skeleton": side, "observed": l,
                                  "what": "the %s skeleton %s an invocation whose counts word cannot be the method's (%s)" % (
                                      side, "serves" if entered else "returns status 0 for", l)})
                cur = None
        if rc != 0:
            fails.append({"property": ctx_["prop"], "idl": l2obj.render_idl(methods), "observed": (e or o)[-600:],
                          "what": "a skeleton faults on an invocation with a wrong counts word (exit %s)" % rc})
        # the same program with the spy's size perturbations (object-bearing structs included): the
        # three skeletons must give the same verdict for the same perturbed call
        import l2data
        rc, o, e = vlib.run([os.path.join(root, "l2obj")], timeout=300, env=dict(vlib.ENV, ASAN_OPTIONS="detect_leaks=0", L2_PERTURB="1"))
        V = l2data.perturb_verdicts(o)
        for caller in ("c", "cpp", "rust"):
            ref = V.get("%s c" % caller, [])
            ntry += len(ref)
            for impl in ("cpp", "rust"):
                got = V.get("%s %s" % (caller, impl), [])
                # keyed by (op, slot, delta): an output object slot holds whatever the caller's stub left
                # there, so whether the spy takes it for a buffer can differ from caller to caller and
                # from skeleton to skeleton run; only perturbations both runs made are compared
                def keyed(rows):
                    d_ = {}
                    for op_, slot_, delta_, refused_, entered_ in rows:
                        d_.setdefault((op_, slot_, delta_), []).append((refused_, entered_))
                    return d_
                kr, kg = keyed(ref), keyed(got)
                bad = None
                for key_ in sorted(set(kr) & set(kg)):
                    for x_, y_ in zip(kr[key_], kg[key_]):
                        if x_ != y_ and bad is None:
                            bad = (key_ + x_, key_ + y_)
                if bad or (ref and not got):
                    fails.append({"property": ctx_["prop"], "idl": l2obj.render_idl(methods), "caller": caller, "skeleton": impl,
                                  "what": "the %s skeleton and the C skeleton disagree on an invocation with one buffer size changed by one: (op, slot, delta, refused, implementation entered) = %s vs C %s"
                                          % (impl, bad[1] if bad else "%d verdicts" % len(got), bad[0] if bad else "%d verdicts" % len(ref))})
        if rc != 0:
            fails.append({"property": ctx_["prop"], "idl": l2obj.render_idl(methods), "observed": (e or o)[-600:],
                          "what": "a skeleton faults on an invocation with one buffer size changed by one (exit %s)" % rc})
    return ntry, fails[:12]


def size_perturbation_probe(ctx_, work, rng, nb):
    """fixed-size buffer sizes against the C, C++ and Rust skeletons: the data nine-pairing program
    with the spy of rt/obj/main.c replaying every well-formed invocation with one input buffer one byte
    short and one byte long (scratch copies).  For the same call the three skeletons must give the
    same verdict - refused without entering the implementation, or served (variable-size arguments) -
    and the C skeleton's verdicts are the ones the guard model is compared with above."""
    import l2data
    fails, n = [], 0
    for b in range(nb):
        ms = l2data.gen_methods(rng, 9)
        r = l2data.build_and_run(ctx_["idlc"], os.path.join(work, "pertdata%d" % b), ms, chain=(b % 2 == 1), extra_env={"L2_PERTURB": "1"})
        idl = l2data.render_idl(ms, b % 2 == 1)
        if r.get("stage") != "run" or r.get("rc") != 0:
            f_ = {"property": ctx_["prop"], "idl": idl, "what": "the nine-pairing data program does not build or aborts under size perturbations (%s): %s" % (r.get("stage"), (r.get("err") or "")[-600:])}
            if re.search(r"misaligned address 0x[0-9a-f]+ for type 'struct b[io]'", r.get("err") or ""):
                f_["known_class"] = "K_bundle_alignment"
            fails.append(f_)
            continue
        V = l2data.perturb_verdicts(r["out"])
        for caller in ("c", "cpp", "rust"):
            ref = V.get("%s c" % caller, [])
            n += len(ref)
            for impl in ("cpp", "rust"):
                got = V.get("%s %s" % (caller, impl), [])
                for x, y in zip(ref, got):
                    if x != y:
                        fails.append({"property": ctx_["prop"], "idl": idl, "caller": caller, "skeleton": impl,
                                      "what": "the %s skeleton and the C skeleton disagree on an invocation with one input buffer size changed: (op, slot, delta, refused, implementation entered) = %s vs C %s" % (impl, y, x)})
                        break
                if len(ref) != len(got):
                    fails.append({"property": ctx_["prop"], "idl": idl, "what": "different number of perturbed invocations for %s -> %s (%d vs %d)" % (caller, impl, len(got), len(ref))})
            for x in ref:
                if x[4] and x[3]:
                    fails.append({"property": ctx_["prop"], "idl": idl, "what": "the C skeleton entered the implementation and reported an error for a perturbed invocation %s" % (x,)})
                    break
    return n, fails[:12]


def run(ctx_):
    prop, tier, seed, work = ctx_["prop"], ctx_["tier"], ctx_["seed"], ctx_["work"]
    nb = 6 if tier == "quick" else 120
    res = {"coverage": {}, "failures": [], "corr_broken": []}
    if not ctx_["harness"] or not ctx_["checks_vo"]:
        res["coverage"] = {"evaluations": 0, "distinct_nontrivial": 0, "rule": "not run", "samples": []}
        return res
    rng = vlib.mkrng(seed, prop)
    batches = []
    for _ in range(nb):
        c, fs, methods = gen_batch(rng)
        # mark some methods optional; half of those get no implementation
        opt, omit = set(), set()
        decl = fs["files"][0]["decls"][-1]
        mem = []
        for m in decl[3]:
            o = rng.random() < 0.25
            if o:
                opt.add(m[1])
                if rng.random() < 0.5:
                    omit.add(m[1])
            mem.append((m[0], m[1], m[2], o, m[4]))
        fs["files"][0]["decls"][-1] = (decl[0], decl[1], decl[2], mem)
        batches.append((c, fs, methods, opt, omit))
    lines = []
    for b, (c, fs, methods, opt, omit) in enumerate(batches):
        root = os.path.join(work, "b%d" % b)
        gen.write_fileset(fs, root)
        lines.append("%d\tcli\t-\t%s\t" % (b, os.path.join(root, "l2.idl")))
    cf = os.path.join(work, "cases.txt")
    open(cf, "w").write("\n".join(lines) + "\n")
    rc, out, err = vlib.run([ctx_["harness"], "front", cf], timeout=600)
    hres = vlib.parse_harness(out)
    defs, gdefs = [], []
    order_bad, ncpp = {}, {}
    for b, (c, fs, methods, opt, omit) in enumerate(batches):
        root = os.path.join(work, "b%d" % b)
        h = hres.get(str(b))
        if not h or h["result"] != "ok":
            continue
        scrape.idlc_run(ctx_["idlc"], os.path.join(root, "l2.idl"), os.path.join(root, "l2.h"), "c", False)
        scrape.idlc_run(ctx_["idlc"], os.path.join(root, "l2.idl"), os.path.join(root, "l2_invoke.h"), "c", True)
        sg = scrape_guards(scrape.rd(os.path.join(root, "l2_invoke.h")), "IL2")
        g = "[%s]" % "; ".join('("%s", [%s])' % (m, "; ".join("(%d, %d)" % x for x in gs)) for m, gs in sg.items())
        order_bad[b] = [("C", m) for m in scrape_guard_order_c(scrape.rd(os.path.join(root, "l2_invoke.h")), "IL2")]
        scrape.idlc_run(ctx_["idlc"], os.path.join(root, "l2.idl"), os.path.join(root, "l2.hpp"), "cpp", False)
        scrape.idlc_run(ctx_["idlc"], os.path.join(root, "l2.idl"), os.path.join(root, "l2_invoke.hpp"), "cpp", True)
        sgpp = scrape_guards_cpp(scrape.rd(os.path.join(root, "l2_invoke.hpp")), "IL2")
        order_bad[b] += [("C++", m) for m, (gs, first) in sgpp.items() if not first]
        gpp = "[%s]" % "; ".join('("%s", [%s])' % (m, "; ".join("(%d, %d)" % x for x in gs)) for m, (gs, first) in sgpp.items())
        ncpp[b] = len(sgpp)
        defs.append((b, "Definition f_%d : list ast := %s.\n" % (b, h["files"]),
                     '(chk_l2_classes f_%d "IL2" ++ [777] ++ chk_guards f_%d "IL2" %s ++ chk_guards f_%d "IL2" %s)%%list' % (b, b, g, b, gpp)))
    evald, errors = vlib.eval_cases(os.path.join(work, "coq"), "cls", "", defs, shard_size=4)
    for e in errors:
        res["corr_broken"].append({"kind": "case-evaluation", "detail": e})

    def do(b):
        c, fs, methods, opt, omit = batches[b]
        root = os.path.join(work, "b%d" % b)
        ev = evald.get(b)
        if ev is None or 777 not in ev:
            return b, None
        cl = ev[:ev.index(777)]
        gbad = ev[ev.index(777) + 1]
        gbad_cpp = ev[ev.index(777) + 2] if len(ev) > ev.index(777) + 2 else 999
        clean = [m[0] for m, k in zip(methods, cl) if k == 0]
        out = {"guard_mismatch": gbad, "guard_mismatch_cpp": gbad_cpp, "bad": [], "n": 0, "nclean": len(clean)}
        if not clean:
            return b, out
        src = l2c.generate(c, "IL2", methods, [0], 0, only=clean, perturb=True, omit_impl=omit, optional=opt)
        cfile = os.path.join(root, "pt.c")
        open(cfile, "w").write(src)
        exe = os.path.join(root, "pt")
        rc2, o, e = vlib.run(["gcc", "-std=gnu11", "-g", "-O1", "-fsanitize=address,undefined", "-fno-sanitize-recover=undefined", "-Wall", "-Wextra", "-Werror",
                              "-Wno-unused-parameter", "-Wno-unused-function", "-I" + os.path.join(TESTS, "c"), "-I" + root, cfile, "-o", exe], timeout=300)
        if rc2 != 0:
            out["bad"].append(("*", "build", e[-600:]))
            return b, out
        rc3, o, e = vlib.run([exe], timeout=120, env=dict(vlib.ENV, ASAN_OPTIONS="detect_leaks=0"))
        pt = [l for l in o.split("\n") if l.startswith("pt ")]
        _, _, exps = l2c.perturb_code(c, "IL2", methods, clean, len(methods))
        out["n"] = len(exps)
        for i, (m, desc, must) in enumerate(exps):
            g = pt[i] if i < len(pt) else "<missing>"
            mm = re.match(r"pt (\w+) (\S+) status=(-?\d+) entered=(\d+)", g)
            if not mm or mm.group(1) != m or mm.group(2) != desc:
                out["bad"].append((m, desc, "log line out of step: " + g)); break
            st, ent = int(mm.group(3)), int(mm.group(4))
            unimpl = m in omit
            if must or unimpl:
                if ent != 0:
                    out["bad"].append((m, desc, "the implementation was entered (status %d)" % st))
                elif not (1 <= st <= 9):
                    out["bad"].append((m, desc, "status %d is not a generic error" % st))
                elif unimpl and not must and st != 2:
                    out["bad"].append((m, desc, "unimplemented optional method returned %d, not the invalid-request code 2" % st))
            else:
                if ent != 1 or st != 0:
                    out["bad"].append((m, desc, "a well-formed call after refusals was not served normally (status %d, entered %d)" % (st, ent)))
        if rc3 != 0:
            out["bad"].append(("*", "sanitizer", "exit %s: %s" % (rc3, e[-600:])))
        return b, out

    with ThreadPoolExecutor(max_workers=vlib.NCPU) as ex:
        results = dict(ex.map(do, range(nb)))
    nenv, distinct = 0, 0
    for b, out in results.items():
        if out is None:
            continue
        c, fs, methods, opt, omit = batches[b]
        text = gen.render_file(fs["files"][0])
        nenv += out["n"]; distinct += out["nclean"]
        if out["guard_mismatch"]:
            res["corr_broken"].append({"kind": "correspondence", "detail": "%d methods of batch %d: guards scraped from the C skeleton differ from the refusal model" % (out["guard_mismatch"], b)})
        if out.get("guard_mismatch_cpp"):
            res["corr_broken"].append({"kind": "correspondence", "detail": "%s methods of batch %d: guards scraped from the C++ skeleton differ from the refusal model" % (out["guard_mismatch_cpp"], b)})
        for lang, mname in order_bad.get(b, [])[:4]:
            res["failures"].append({"property": prop, "idl": text, "method": mname,
                                    "what": "%s skeleton: the guard of %s reads argument slots before it has compared the counts word (an envelope with fewer slots than the method's is read out of bounds before it is refused)" % (lang, mname)})
        for bad in out["bad"][:8]:
            res["failures"].append({"property": prop, "idl": text, "method": bad[0], "perturbation": bad[1], "what": "skeleton: %s (%s %s)" % (bad[2][:500], bad[0], bad[1])})
    sp_n, sp_fails = size_perturbation_probe(ctx_, work, vlib.mkrng(seed, prop + "-sizes"), 1 if tier == "quick" else 12)
    res["failures"] += sp_fails
    sr_n, sr_fails = skeletons_refuse_probe(ctx_, work, vlib.mkrng(seed, prop + "-skeletons"), 1 if tier == "quick" else 10)
    res["failures"] += sr_fails
    res["coverage"] = {
        "size_perturbation_probe": {"perturbed_invocations_per_skeleton": sp_n, "skeletons": "C, C++, Rust", "disagreements": len(sp_fails)},
        "skeletons_refuse_probe": {"wrong_counts_invocations": sr_n, "skeletons": "C, C++, Rust", "served_or_status_0": len(sr_fails)},
        "evaluations": nenv, "distinct_nontrivial": distinct,
        "rule": "%d generated interfaces of 12 methods (25%% optional, half of those without implementation); per method outside the known classes: every "
                "counts nibble +-1 and set to 0/15, every fixed-size buffer size in {0, n-1, n+1, 2^32}, ops n+5 / 0x3FFF / 0x7FFD, op|REMOTE_BUFS, then a "
                "well-formed call; guards of the C and the C++ skeleton (slots, sizes, counts compared first) against the model; argument arrays sized by the perturbed counts, buffers by the declared sizes, gcc ASan+UBSan" % nb,
        "samples": [{"idl": gen.render_file(batches[0][1]["files"][0])[:500]}],
    }
    res["trusted_extra"] = ["lib/l2c.py perturb_code (C driver), gcc with ASan/UBSan"]
    return res
