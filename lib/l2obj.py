"""Generator of the C05 nine-pairing harness: for one generated interface whose methods take
objects (direct, typed, arrays, struct fields) it writes a C side, a C++ side and a Rust side.
Each side has a caller (drives the generated stub of its language) and an implementation
(behind the generated skeleton of its language); rt/obj/main.c connects every caller with every
implementation directly.  All objects are counting objects from rt/obj/cobj.c, all scenario
choices and all log lines go through cobj.c, so one expected log serves all pairings."""
import os

PRELUDE = [("iface", "IFoo", None, [("method", "nop", [], False, None)]),
           ("struct", "SO", [("interface", "o", None), ("uint64", "a", None), ("uint64", "b", None)]),
           ("struct", "ST", [("IFoo", "f", None), ("interface", "g", None)]),
           ("struct", "SN", [("SO", "x", None), ("SO", "y", None)]),
           ("struct", "SC", [("IFoo", "o", None)]),
           ("struct", "SW", [("uint64", "id", None), ("SC", "c", None), ("uint64", "f", None)]),
           ("struct", "SM", [("uint64", "a", None), ("SC", "nested", None), ("IFoo", "direct", None), ("uint64", "b", None)])]
IDL_PRELUDE = """interface IFoo { method nop(); };
struct SO { interface o; uint64 a; uint64 b; };
struct ST { IFoo f; interface g; };
struct SN { SO x; SO y; };
struct SC { IFoo o; };
struct SW { uint64 id; SC c; uint64 f; };
struct SM { uint64 a; SC nested; IFoo direct; uint64 b; };
"""
# true object fields (access path) of the object-bearing structs
FIELDS = {"SO": [("o", "interface")], "ST": [("f", "IFoo"), ("g", "interface")], "SN": [("x.o", "interface"), ("y.o", "interface")],
          # the only object sits in a nested struct that is itself exactly one object (16 bytes: "small")
          "SW": [("c.o", "IFoo")],
          # an object of a nested struct declared BEFORE an object of the struct itself
          "SM": [("direct", "IFoo"), ("nested.o", "IFoo")]}
DATA = {"SO": [("a", 1), ("b", 2)], "ST": [], "SN": [("x.a", 1), ("x.b", 2), ("y.a", 3), ("y.b", 4)],
        "SW": [("id", 5), ("f", 6)], "SM": [("a", 7), ("b", 8)]}


def gen_methods(rng, n, with_dup_path=False):
    """-> [(name, [(dir, type, shape, pname)])]"""
    ms = []
    while len(ms) < n:
        ps = []
        arr = {"in": False, "out": False}
        val = {"in": False, "out": False}
        data = {"in": False, "out": False}
        for i in range(rng.randint(1, 6)):
            d = rng.choice(["in", "out"])
            kind = rng.choice(["obj", "obj", "typed", "arr", "SO", "ST", "u32"])
            if kind in ("obj", "typed"):
                if arr[d]:
                    continue
                val[d] = True
                ps.append((d, "interface" if kind == "obj" else "IFoo", None, "p%d" % len(ps)))
            elif kind == "arr":
                # one object array per direction, never beside a single object of that direction
                if val[d] or arr[d]:
                    continue
                arr[d] = True
                ps.append((d, rng.choice(["IFoo", "IFoo", "interface"]), "[%d]" % rng.randint(1, 3), "p%d" % len(ps)))
            elif kind in ("SO", "ST"):
                ps.append((d, kind, None, "p%d" % len(ps)))
            else:
                if data[d]:
                    continue
                data[d] = True
                ps.append((d, "uint32", None, "p%d" % len(ps)))
        if not any(t != "uint32" for _, t, _, _ in ps):
            continue
        ms.append(("m%d" % len(ms), ps))
    if n >= 4:
        # shapes random choice rarely reaches: an object array in each direction beside object structs
        k = len(ms)
        ms[k - 2] = ("m%d" % (k - 2), [("out", "IFoo", "[%d]" % rng.randint(2, 3), "p0"), ("out", "SO", None, "p1"), ("out", "uint32", None, "p2")])
        ms[k - 1] = ("m%d" % (k - 1), [("in", "interface", "[%d]" % rng.randint(2, 3), "p0"), ("out", "interface", "[%d]" % rng.randint(1, 3), "p1"),
                                      ("in", "SO", None, "p2"), ("out", "ST", None, "p3")])
    if with_dup_path:
        ms.append(("m%d" % len(ms), [("in", "SN", None, "p0"), ("out", "SN", None, "p1")]))
        ms.append(("m%d" % len(ms), [("in", "SW", None, "p0"), ("out", "SW", None, "p1"), ("in", "interface", None, "p2")]))
        ms.append(("m%d" % len(ms), [("out", "SW", None, "p0")]))
        ms.append(("m%d" % len(ms), [("in", "SM", None, "p0"), ("out", "SM", None, "p1")]))
        ms.append(("m%d" % len(ms), [("out", "SM", None, "p0"), ("in", "SM", None, "p1"), ("in", "IFoo", None, "p2")]))
    return ms


def render_idl(methods):
    out = [IDL_PRELUDE, "interface IL2 {"]
    for name, ps in methods:
        if is_absent(name):
            out.append("  #[optional]")
        out.append("  method %s(%s);" % (name, ", ".join("%s %s%s %s" % (d, t, sh or "", pn) for d, t, sh, pn in ps)))
    out.append("};")
    return "\n".join(out) + "\n"


def is_absent(name):
    """methods called x<k> are #[optional] and no implementation side provides them: every skeleton
    refuses the call (Object_ERROR_INVALID) without entering anything and without touching a count"""
    return name.startswith("x")


def positions(ps, d):
    """flattened object positions of direction d: [(param index, kind, sub)] with kind in
    'obj' | 'elem' | 'field'; sub = element index or field path"""
    out = []
    for i, (pd, t, sh, pn) in enumerate(ps):
        if pd != d or t == "uint32":
            continue
        if t in FIELDS:
            for path, _ in FIELDS[t]:
                out.append((i, "field", path))
        elif sh:
            for j in range(int(sh[1:-1])):
                out.append((i, "elem", j))
        else:
            out.append((i, "obj", None))
    return out


def pos_of(ps, d):
    m = {}
    for n, (i, kind, sub) in enumerate(positions(ps, d)):
        m[(i, sub)] = n
    return m


# ---------------------------------------------------------------- python mirror of cobj.c patterns
def pat_in(k, pos, v):
    r = (k + 2 * pos + 3 * v) % 5
    return -1 if r == 0 else 1 + (k + pos + v) % 3


def pat_out(k, pos, v):
    r = (2 * k + pos + v) % 4
    return -1 if r == 0 else 1 + (k + 3 * pos + 2 * v) % 6


def pat_pre(k, pos, v):
    if v != 3:
        return -1
    r = (k + pos) % 3
    return -1 if r == 0 else (pat_out(k, pos, v) if r == 1 else 1 + (k + pos) % 6)


def holder_can_prefill(ps, d_pos):
    """only C++ proxies own something before the call: direct objects and array elements"""
    i, kind, sub = d_pos
    return kind in ("obj", "elem")


# ---------------------------------------------------------------- C side
def c_side(methods):
    A = []
    A.append('#include <stdio.h>\n#include <stdlib.h>\n#include <string.h>\n#include "cobj.h"\n#include "l2.h"\n#include "l2_invoke.h"\n')
    A.append("typedef struct { int refs; } CImpl;\n"
             "static int32_t cimpl_retain(CImpl *me) { me->refs++; return Object_OK; }\n"
             "static int32_t cimpl_release(CImpl *me) { if (--me->refs == 0) { impl_died(); free(me); } return Object_OK; }\n")
    for k, (name, ps) in enumerate(methods):
        pin, pout = pos_of(ps, "in"), pos_of(ps, "out")
        sig, log, post = ["CImpl *me"], [], []
        for i, (d, t, sh, pn) in enumerate(ps):
            if t == "uint32":
                if d == "in":
                    sig.append("uint32_t %s_val" % pn)
                    log.append('  L_int("x", (int)%s_val);' % pn)
                else:
                    sig.append("uint32_t *%s_ptr" % pn)
                    post.append("  *%s_ptr = %du;" % (pn, 1000 + k))
            elif t in FIELDS:
                if d == "in":
                    sig.append("const %s *%s_ptr" % (t, pn))
                    for path, _ in FIELDS[t]:
                        log.append("  L_obj(%d, %s_ptr->%s);" % (pin[(i, path)], pn, path))
                else:
                    sig.append("%s *%s_ptr" % (t, pn))
                    for path, _ in FIELDS[t]:
                        post.append("  %s_ptr->%s = cobj_get(pat_out(%d, %d, v));" % (pn, path, k, pout[(i, path)]))
                    for path, val in DATA[t]:
                        post.append("  %s_ptr->%s = %d;" % (pn, path, val + 10))
            elif sh:
                n = int(sh[1:-1])
                if d == "in":
                    sig.append("const Object (*%s_ptr)[%d]" % (pn, n))
                    for j in range(n):
                        log.append("  L_obj(%d, (*%s_ptr)[%d]);" % (pin[(i, j)], pn, j))
                else:
                    sig.append("Object (*%s_ptr)[%d]" % (pn, n))
                    for j in range(n):
                        post.append("  (*%s_ptr)[%d] = cobj_get(pat_out(%d, %d, v));" % (pn, j, k, pout[(i, j)]))
            else:
                if d == "in":
                    sig.append("Object %s" % pn)
                    log.append("  L_obj(%d, %s);" % (pin[(i, None)], pn))
                else:
                    sig.append("Object *%s" % pn)
                    post.append("  *%s = cobj_get(pat_out(%d, %d, v));" % (pn, k, pout[(i, None)]))
        if is_absent(name):
            continue
        A.append("static int32_t cimpl_%s(%s) {\n  (void)me; int v = sc_val(); (void)v;\n  L_begin(\"impl\", %d, v);\n%s\n  L_end();\n"
                 "  if (sc_status()) return sc_status();\n%s\n  return Object_OK;\n}\n" % (name, ", ".join(sig), k, "\n".join(log), "\n".join(post)))
    A.append("static IL2_DEFINE_INVOKE(c_skel_invoke, cimpl_, CImpl *)\n")
    A.append("Object c_impl_new(void) { CImpl *me = malloc(sizeof *me); me->refs = 1; impl_born(); return (Object){c_skel_invoke, me}; }\n")
    A.append("static void drop(Object o) { if (!Object_isNull(o)) Object_release(o); }\n")
    for k, (name, ps) in enumerate(methods):
        pin, pout = pos_of(ps, "in"), pos_of(ps, "out")
        L = ["static void c_call_%s(Object target, int v) {" % name]
        args, outs, drops = ["target"], [], []
        for i, (d, t, sh, pn) in enumerate(ps):
            if t == "uint32":
                if d == "in":
                    args.append("%du" % (7 + k))
                else:
                    L.append("  uint32_t %s = 0;" % pn)
                    args.append("&" + pn)
            elif t in FIELDS:
                L.append("  %s %s; memset(&%s, 0, sizeof %s);" % (t, pn, pn, pn))
                args.append("&" + pn)
                for path, _ in FIELDS[t]:
                    if d == "in":
                        L.append("  %s.%s = cobj_get(pat_in(%d, %d, v));" % (pn, path, k, pin[(i, path)]))
                    else:
                        outs.append("  L_obj(%d, %s.%s);" % (pout[(i, path)], pn, path))
                    drops.append("  drop(%s.%s);" % (pn, path))
                if d == "in":
                    for path, val in DATA[t]:
                        L.append("  %s.%s = %d;" % (pn, path, val))
            elif sh:
                n = int(sh[1:-1])
                if d == "in":
                    L.append("  Object %s[%d];" % (pn, n))
                    for j in range(n):
                        L.append("  %s[%d] = cobj_get(pat_in(%d, %d, v));" % (pn, j, k, pin[(i, j)]))
                    args.append("(const Object (*)[%d])&%s" % (n, pn))
                else:
                    L.append("  Object %s[%d]; for (int j = 0; j < %d; j++) %s[j] = Object_NULL;" % (pn, n, n, pn))
                    args.append("&" + pn)
                    for j in range(n):
                        outs.append("  L_obj(%d, %s[%d]);" % (pout[(i, j)], pn, j))
                for j in range(n):
                    drops.append("  drop(%s[%d]);" % (pn, j))
            else:
                if d == "in":
                    L.append("  Object %s = cobj_get(pat_in(%d, %d, v));" % (pn, k, pin[(i, None)]))
                    args.append(pn)
                else:
                    L.append("  Object %s = Object_NULL;" % pn)
                    args.append("&" + pn)
                    outs.append("  L_obj(%d, %s);" % (pout[(i, None)], pn))
                drops.append("  drop(%s);" % pn)
        L.append("  int32_t r = IL2_%s(%s);" % (name, ", ".join(args)))
        L.append('  L_begin("ret", %d, v); L_int("status", r);' % k)
        L += outs
        L.append("  L_counts(); L_end();")
        L += drops
        L.append('  L_begin("drop", %d, v); L_counts(); L_end();\n}' % k)
        A.append("\n".join(L) + "\n")
    A.append("void c_caller(Object target) {")
    A.append(DRIVE % {"call": "\n".join("      c_call_%s(target, v);" % name for name, _ in methods)})
    A.append("}\n")
    return "\n".join(A)


DRIVE = """  for (int st = 0; st < 2; st++)
    for (int v = 0; v < NVAL; v++) {
      sc_set(v, st ? 11 : 0);
%(call)s
    }"""


# ---------------------------------------------------------------- C++ side
def cpp_side(methods):
    A = []
    A.append('#include <cstdio>\n#include <cstdlib>\n#include <cstring>\n#include <stdint.h>\n#include "cobj.h"\n#include "proxy_base.hpp"\n#include "impl_base.hpp"\n#include "l2.hpp"\n#include "l2_invoke.hpp"\n')
    A.append("static void drop(Object o) { if (!Object_isNull(o)) Object_release(o); }\n")
    A.append("class CppImpl : public IL2ImplBase {\n public:\n  CppImpl() { impl_born(); }\n  virtual ~CppImpl() { impl_died(); }")
    for k, (name, ps) in enumerate(methods):
        pin, pout = pos_of(ps, "in"), pos_of(ps, "out")
        sig, log, post = [], [], []
        for i, (d, t, sh, pn) in enumerate(ps):
            if t == "uint32":
                if d == "in":
                    sig.append("uint32_t %s_val" % pn)
                    log.append('    L_int("x", (int)%s_val);' % pn)
                else:
                    sig.append("uint32_t *%s_ptr" % pn)
                    post.append("    *%s_ptr = %du;" % (pn, 1000 + k))
            elif t in FIELDS:
                if d == "in":
                    sig.append("const %s &%s_ref" % (t, pn))
                    for path, _ in FIELDS[t]:
                        log.append("    L_obj(%d, %s_ref.%s);" % (pin[(i, path)], pn, path))
                else:
                    sig.append("%s &%s_ref" % (t, pn))
                    for path, _ in FIELDS[t]:
                        post.append("    %s_ref.%s = cobj_get(pat_out(%d, %d, v));" % (pn, path, k, pout[(i, path)]))
                    for path, val in DATA[t]:
                        post.append("    %s_ref.%s = %d;" % (pn, path, val + 10))
            elif sh:
                n = int(sh[1:-1])
                if d == "in":
                    sig.append("const %s (&%s_ref)[%d]" % ("ProxyBase" if t == "interface" else "IFoo", pn, n))
                    for j in range(n):
                        log.append("    L_obj(%d, %s_ref[%d].get());" % (pin[(i, j)], pn, j))
                else:
                    sig.append("%s (&%s_ref)[%d]" % ("ProxyBase" if t == "interface" else "IFoo", pn, n))
                    for j in range(n):
                        post.append("    { Object o = cobj_get(pat_out(%d, %d, v)); %s_ref[%d].consume(o); }" % (k, pout[(i, j)], pn, j))
            else:
                cls = "ProxyBase" if t == "interface" else "IFoo"
                if d == "in":
                    sig.append("const %s &%s" % (cls, pn))
                    log.append("    L_obj(%d, %s.get());" % (pin[(i, None)], pn))
                else:
                    sig.append("%s &%s" % (cls, pn))
                    post.append("    { Object o = cobj_get(pat_out(%d, %d, v)); %s.consume(o); }" % (k, pout[(i, None)], pn))
        if is_absent(name):
            continue
        A.append("  int32_t %s(%s) override {\n    int v = sc_val(); (void)v;\n    L_begin(\"impl\", %d, v);\n%s\n    L_end();\n"
                 "    if (sc_status()) return sc_status();\n%s\n    return Object_OK;\n  }" % (name, ", ".join(sig), k, "\n".join(log), "\n".join(post)))
    A.append("};\n")
    A.append('extern "C" Object cpp_impl_new(void) { CppImpl *me = new CppImpl(); return (Object){ImplBase::invoke, me}; }\n')
    for k, (name, ps) in enumerate(methods):
        pin, pout = pos_of(ps, "in"), pos_of(ps, "out")
        L = ["static void cpp_call_%s(IL2 &proxy, int v) {" % name, "  {"]
        args, outs, drops = [], [], []
        for i, (d, t, sh, pn) in enumerate(ps):
            if t == "uint32":
                if d == "in":
                    args.append("%du" % (7 + k))
                else:
                    L.append("  uint32_t %s = 0;" % pn)
                    args.append("&" + pn)
            elif t in FIELDS:
                L.append("  %s %s; memset(&%s, 0, sizeof %s);" % (t, pn, pn, pn))
                args.append(pn)
                for path, _ in FIELDS[t]:
                    if d == "in":
                        L.append("  %s.%s = cobj_get(pat_in(%d, %d, v));" % (pn, path, k, pin[(i, path)]))
                    else:
                        outs.append("  L_obj(%d, %s.%s);" % (pout[(i, path)], pn, path))
                    drops.append("  drop(%s.%s);" % (pn, path))
                if d == "in":
                    for path, val in DATA[t]:
                        L.append("  %s.%s = %d;" % (pn, path, val))
            elif sh:
                n = int(sh[1:-1])
                if d == "in":
                    acls = "ProxyBase" if t == "interface" else "IFoo"
                    L.append("  %s %s[%d] = { %s };" % (acls, pn, n, ", ".join("%s(cobj_get(pat_in(%d, %d, v)))" % (acls, k, pin[(i, j)]) for j in range(n))))
                else:
                    L.append("  %s %s[%d];" % ("ProxyBase" if t == "interface" else "IFoo", pn, n))
                    for j in range(n):
                        L.append("  { Object o = cobj_get(pat_pre(%d, %d, v)); %s[%d].consume(o); }" % (k, pout[(i, j)], pn, j))
                        outs.append("  L_obj(%d, %s[%d].get());" % (pout[(i, j)], pn, j))
                args.append(pn)
            else:
                cls = "ProxyBase" if t == "interface" else "IFoo"
                if d == "in":
                    L.append("  %s %s(cobj_get(pat_in(%d, %d, v)));" % (cls, pn, k, pin[(i, None)]))
                else:
                    L.append("  %s %s; { Object o = cobj_get(pat_pre(%d, %d, v)); %s.consume(o); }" % (cls, pn, k, pout[(i, None)], pn))
                    outs.append("  L_obj(%d, %s.get());" % (pout[(i, None)], pn))
                args.append(pn)
        L.append("  int32_t r = proxy.%s(%s);" % (name, ", ".join(args)))
        L.append('  L_begin("ret", %d, v); L_int("status", r);' % k)
        L += outs
        L.append("  L_counts(); L_end();")
        L += drops
        L.append("  }")
        L.append('  L_begin("drop", %d, v); L_counts(); L_end();\n}' % k)
        A.append("\n".join(L) + "\n")
    A.append('extern "C" void cpp_caller(Object target) {\n  Object_retain(target);\n  IL2 proxy(target);')
    A.append(DRIVE.replace("NVAL", "NVAL_CPP") % {"call": "\n".join("      cpp_call_%s(proxy, v);" % name for name, _ in methods)})
    A.append("}\n")
    return "\n".join(A)


# ---------------------------------------------------------------- Rust side
RUST_HEAD = """// C05 harness, Rust side (generated by lib/l2obj.py)
#![allow(warnings)]
#[path = "@TESTS@/src/object/mod.rs"]
pub mod object;
pub mod interfaces {
    pub mod l2 { include!("@OUT@/l2.rs"); }
    pub mod ifoo { include!("@OUT@/ifoo.rs"); }
    pub mod il2 { include!("@OUT@/il2.rs"); }
}
use interfaces::ifoo::IFoo;
use interfaces::il2::{Error, IIL2, IL2};
use interfaces::l2::{SC, SM, SN, SO, ST, SW};
use object::Object;
use std::mem::ManuallyDrop;

#[repr(C)]
#[derive(Clone, Copy)]
pub struct RawObj { invoke: *const core::ffi::c_void, context: *mut core::ffi::c_void }
extern "C" {
    fn cobj_get(id: i32) -> RawObj;
    fn sc_val() -> i32;
    fn sc_status() -> i32;
    fn sc_set(v: i32, status: i32);
    fn pat_in(k: i32, pos: i32, v: i32) -> i32;
    fn pat_out(k: i32, pos: i32, v: i32) -> i32;
    fn L_begin(tag: *const u8, k: i32, v: i32);
    fn L_obj(pos: i32, o: RawObj);
    fn L_int(name: *const u8, x: i32);
    fn L_counts();
    fn L_end();
    fn impl_born();
    fn impl_died();
}
const NULLRAW: RawObj = RawObj { invoke: core::ptr::null(), context: core::ptr::null_mut() };
// a new reference to counting object id, as an owned Option<T> (T = Object or a typed wrapper)
unsafe fn mk<T>(id: i32) -> Option<T> {
    assert_eq!(std::mem::size_of::<Option<T>>(), std::mem::size_of::<RawObj>());
    let raw = cobj_get(id);
    std::mem::transmute_copy::<RawObj, Option<T>>(&raw)
}
// the handle behind a borrowed object, without touching its count
unsafe fn raw<T>(o: Option<&T>) -> RawObj {
    match o { Some(r) => { assert_eq!(std::mem::size_of::<T>(), std::mem::size_of::<RawObj>()); std::ptr::read(r as *const T as *const RawObj) } None => NULLRAW }
}
struct RustImpl;
impl Drop for RustImpl { fn drop(&mut self) { unsafe { impl_died() } } }
"""


def rust_ty(t, owned):
    base = {"interface": "Object", "IFoo": "IFoo"}[t]
    return "Option<%s>" % base if owned else "Option<&%s>" % base


def rust_side(methods, tests, out, nval):
    A = [RUST_HEAD.replace("@TESTS@", tests).replace("@OUT@", out) + "const NVAL: i32 = %d;\n" % nval]
    A.append("impl IIL2 for RustImpl {")
    for k, (name, ps) in enumerate(methods):
        pin, pout = pos_of(ps, "in"), pos_of(ps, "out")
        sig, log, rets, retty = ["&mut self"], [], [], []
        for i, (d, t, sh, pn) in enumerate(ps):
            if t == "uint32":
                if d == "in":
                    sig.append("%s: u32" % pn)
                    log.append('        L_int(b"x\\0".as_ptr(), %s as i32);' % pn)
                else:
                    retty.append("u32")
                    rets.append("%du32" % (1000 + k))
            elif t in FIELDS:
                if d == "in":
                    sig.append("%s: &%s" % (pn, t))
                    for path, _ in FIELDS[t]:
                        log.append("        L_obj(%d, raw(%s.%s.as_ref()));" % (pin[(i, path)], pn, path))
                else:
                    retty.append(t)
                    rets.append(rust_struct_lit(t, lambda path: "mk(pat_out(%d, %d, v))" % (k, pout[(i, path)]), 10))
            elif sh:
                n = int(sh[1:-1])
                if d == "in":
                    sig.append("%s: &[%s; %d]" % (pn, rust_ty(t, True), n))
                    for j in range(n):
                        log.append("        L_obj(%d, raw(%s[%d].as_ref()));" % (pin[(i, j)], pn, j))
                else:
                    retty.append("[%s; %d]" % (rust_ty(t, True), n))
                    rets.append("[%s]" % ", ".join("mk(pat_out(%d, %d, v))" % (k, pout[(i, j)]) for j in range(n)))
            else:
                if d == "in":
                    sig.append("%s: %s" % (pn, rust_ty(t, False)))
                    log.append("        L_obj(%d, raw(%s));" % (pin[(i, None)], pn))
                else:
                    retty.append(rust_ty(t, True))
                    rets.append("mk(pat_out(%d, %d, v))" % (k, pout[(i, None)]))
        if is_absent(name):
            continue
        A.append("    fn r#%s(%s) -> Result<(%s), Error> {\n      unsafe {\n        let v = sc_val();\n        L_begin(b\"impl\\0\".as_ptr(), %d, v);\n%s\n        L_end();\n"
                 "        if sc_status() != 0 { return Err(std::mem::transmute::<i32, Error>(sc_status())); }\n        Ok((%s))\n      }\n    }"
                 % (name, ", ".join(sig), ", ".join(retty), k, "\n".join(log), ", ".join(rets)))
    A.append("}\n")
    A.append("#[no_mangle]\npub extern \"C\" fn rust_impl_new() -> RawObj {\n    unsafe { impl_born(); }\n    let o: IL2 = IL2::from(RustImpl);\n    unsafe { std::mem::transmute::<IL2, RawObj>(o) }\n}\n")
    for k, (name, ps) in enumerate(methods):
        pin, pout = pos_of(ps, "in"), pos_of(ps, "out")
        L = ["unsafe fn rust_call_%s(target: &IL2, v: i32) {" % name, "    {"]
        args, pats, outs, nulls = [], [], [], []
        for i, (d, t, sh, pn) in enumerate(ps):
            if t == "uint32":
                if d == "in":
                    args.append("%du32" % (7 + k))
                else:
                    pats.append("_" + pn)
            elif t in FIELDS:
                if d == "in":
                    L.append("    let %s: %s = %s;" % (pn, t, rust_struct_lit(t, lambda path: "mk(pat_in(%d, %d, v))" % (k, pin[(i, path)]), 0)))
                    args.append("&" + pn)
                else:
                    pats.append(pn)
                    for path, _ in FIELDS[t]:
                        outs.append("            L_obj(%d, raw(%s.%s.as_ref()));" % (pout[(i, path)], pn, path))
                        nulls.append("            L_obj(%d, NULLRAW);" % pout[(i, path)])
            elif sh:
                n = int(sh[1:-1])
                if d == "in":
                    L.append("    let %s: [%s; %d] = [%s];" % (pn, rust_ty(t, True), n, ", ".join("mk(pat_in(%d, %d, v))" % (k, pin[(i, j)]) for j in range(n))))
                    args.append("&" + pn)
                else:
                    pats.append(pn)
                    for j in range(n):
                        outs.append("            L_obj(%d, raw(%s[%d].as_ref()));" % (pout[(i, j)], pn, j))
                        nulls.append("            L_obj(%d, NULLRAW);" % pout[(i, j)])
            else:
                if d == "in":
                    L.append("    let %s: %s = mk(pat_in(%d, %d, v));" % (pn, rust_ty(t, True), k, pin[(i, None)]))
                    args.append("%s.as_ref()" % pn)
                else:
                    pats.append(pn)
                    outs.append("            L_obj(%d, raw(%s.as_ref()));" % (pout[(i, None)], pn))
                    nulls.append("            L_obj(%d, NULLRAW);" % pout[(i, None)])
        L.append("    match target.r#%s(%s) {" % (name, ", ".join(args)))
        L.append("        Ok((%s)) => {" % ", ".join(pats))
        L.append('            L_begin(b"ret\\0".as_ptr(), %d, v); L_int(b"status\\0".as_ptr(), 0);' % k)
        L += outs
        L.append("            L_counts(); L_end();\n        }")
        L.append("        Err(e) => {")
        L.append('            L_begin(b"ret\\0".as_ptr(), %d, v); L_int(b"status\\0".as_ptr(), std::mem::transmute::<Error, i32>(e));' % k)
        L += nulls
        L.append("            L_counts(); L_end();\n        }\n    }")
        L.append("    }")
        L.append('    L_begin(b"drop\\0".as_ptr(), %d, v); L_counts(); L_end();\n}' % k)
        A.append("\n".join(L) + "\n")
    A.append("#[no_mangle]\npub extern \"C\" fn rust_caller(target: RawObj) {\n    unsafe {\n        let t: ManuallyDrop<IL2> = ManuallyDrop::new(std::mem::transmute::<RawObj, IL2>(target));")
    A.append("        for st in 0..2 {\n            for v in 0..NVAL {\n                sc_set(v, if st == 1 { 11 } else { 0 });")
    for name, _ in methods:
        A.append("                rust_call_%s(&t, v);" % name)
    A.append("            }\n        }\n    }\n}\n")
    return "\n".join(A)


def rust_struct_lit(t, objexpr, add):
    if t == "SO":
        return "SO { o: %s, a: %d, b: %d }" % (objexpr("o"), 1 + add, 2 + add)
    if t == "ST":
        return "ST { f: %s, g: %s }" % (objexpr("f"), objexpr("g"))
    if t == "SN":
        return "SN { x: SO { o: %s, a: %d, b: %d }, y: SO { o: %s, a: %d, b: %d } }" % (objexpr("x.o"), 1 + add, 2 + add, objexpr("y.o"), 3 + add, 4 + add)
    if t == "SW":
        return "SW { id: %d, c: SC { o: %s }, f: %d }" % (5 + add, objexpr("c.o"), 6 + add)
    if t == "SM":
        return "SM { a: %d, nested: SC { o: %s }, direct: %s, b: %d }" % (7 + add, objexpr("nested.o"), objexpr("direct"), 8 + add)
    raise KeyError(t)


# ---------------------------------------------------------------- scenarios (what the harness does), for the model
def scenarios(methods, nval, side):
    """-> [(k, v, ok, ins, [(pre, out)])] in the order the caller side runs them"""
    out = []
    nv = nval + 1 if side == "cpp" else nval
    for st in (0, 1):
        for v in range(nv):
            for k, (name, ps) in enumerate(methods):
                ins = [pat_in(k, n, v) for n, _ in enumerate(positions(ps, "in"))]
                po = []
                for n, dp in enumerate(positions(ps, "out")):
                    pre = pat_pre(k, n, v) if (side == "cpp" and holder_can_prefill(ps, dp)) else -1
                    po.append((pre, pat_out(k, n, v)))
                out.append((k, v, st == 0, ins, po))
    return out
