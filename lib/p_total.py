"""C16 (total, memory-safe, debug = release): byte-level inputs through the debug and the
release binary (exit status / signal, time, stderr, output bytes compared); for every input pest
accepts, the dumped pair tree goes through the Coq PST -> AST model in both modes, compared
with the real parser, and the model's Release outcome (UB site) classifies mode disagreements."""
import hashlib, json, os, re, signal, time
from concurrent.futures import ThreadPoolExecutor
import gen, pstdump, scrape, vlib

TIME_LIMIT = 20


def mutate_text(rng, txt):
    r = rng.random()
    toks = list(re.finditer(r"[A-Za-z_0-9]+|[^\sA-Za-z_0-9]", txt))
    if not toks:
        return txt + "x"
    t = rng.choice(toks)
    a, b = t.start(), t.end()
    if r < 0.15:
        return txt[:a] + txt[b:]                                     # delete a token
    if r < 0.3:
        return txt[:b] + " " + txt[a:b] + txt[b:]                    # duplicate a token
    if r < 0.45:
        nums = list(re.finditer(r"\[(\d+)\]", txt))
        if nums:
            n = rng.choice(nums)
            v = rng.choice(["0", "1", "65535", "65536", "4294967296", "18446744073709551616", "9" * 40])
            return txt[:n.start(1)] + v + txt[n.end(1):]
        return txt + "struct ZA { uint8[%s] a; };\n" % rng.choice(["0", "65536", "99999999999999999999"])
    if r < 0.55:
        return txt[:a] + rng.choice(["/*c*/", "// c\n", "/**\n * d\n */"]) + txt[a:]   # comment at a token boundary
    if r < 0.65:
        return txt[:a] + rng.choice(["\x00", "\xff", "é", "\t\t", "\r\n", "@", "#[", "\"", "0x", "-"]) + txt[a:]
    if r < 0.72:
        return txt[:a] + "A" * rng.choice([300, 5000]) + txt[a:]    # very long identifier
    if r < 0.8:
        k = rng.randint(0, len(txt))
        return txt[:k]                                               # truncated file
    if r < 0.9:
        consts = list(re.finditer(r"= (-?[0-9xA-Fa-f.]+);", txt))
        if consts:
            c = rng.choice(consts)
            v = rng.choice(["256", "-1", "0x", "1.", ".5", "99999999999999999999999999", "0x1e5", "-0x80", "1e5"])
            return txt[:c.start(1)] + v + txt[c.end(1):]
    return txt[:a] + rng.choice(["interface", "struct", "method", "in", "out", "const", "error", "include"]) + " " + txt[a:]


def corpus():
    out = []
    # bytes that are not UTF-8 (written through surrogate escapes): a lead byte inside a comment
    # with more declarations after it, a lead byte as the very last byte, an overlong form, a lone
    # continuation byte, a truncated sequence inside an identifier position
    out.append(("bad_utf8_lead_in_comment", "// caf\udce9\nconst uint32 A = 1;\nconst uint32 VERSION = 2;\n"))
    out.append(("bad_utf8_lead_at_eof", "const uint32 A = 1;\n// x \udcf0"))
    out.append(("bad_utf8_lead_at_eof_block", "const uint32 A = 1;\n/* x \udce2\udc82"))
    out.append(("bad_utf8_overlong", "/* \udcc0\udc80 */\nconst uint32 A = 1;\n"))
    out.append(("bad_utf8_continuation", "// \udc80\nconst uint32 A = 1;\n"))
    out.append(("bad_utf8_in_doc", "interface I {\n/**\n * \udcff\udcfe\n */\n  method f();\n};\n"))
    out.append(("bad_utf8_f8", "// \udcf8\udc88\udc80\udc80\udc80\nstruct S { uint8 a; };\n"))
    out.append(("array_size_0", "struct S { uint8[0] a; };\n"))
    out.append(("array_size_65536", "struct S { uint8[65536] a; };\n"))
    nest = "struct L0 { uint8[65535] a; };\n"
    for i in range(1, 6):
        nest += "struct L%d { L%d[65535] a; };\n" % (i, i - 1)
    out.append(("usize_overflow", nest + "interface I { method f(in L5 x); };\n"))
    # struct sizes around 2^16, 2^31 and 2^32 built from in-range array counts: both builds must agree
    out.append(("size_just_below_2_32", "struct Page { uint64[65535] words; };\nstruct Region { Page[8192] pages; };\ninterface IR { method f(in Region[] r); };\n"))
    out.append(("size_above_2_32", "struct Page { uint64[65535] words; };\nstruct Region { Page[8193] pages; };\ninterface IR { method f(in Region[] r); };\n"))
    out.append(("size_above_2_31", "struct Page { uint64[65535] words; };\nstruct Region { Page[4097] pages; };\ninterface IR { method f(in Region[] r); };\n"))
    out.append(("size_2_16", "struct Page { uint8[65535] b; uint8 c; };\nstruct Two { Page a; Page b; };\n"))
    out.append(("count_wrap", "interface I { method f(in interface[200] a, in interface p0, " +
                ", ".join("in interface p%d" % i for i in range(1, 60)) + "); };\n".replace("in interface p0, ", "")))
    out.append(("count_sum_wrap", "struct B { uint64 a; uint64 b; interface o; };\ninterface I { method f(%s); };\n" %
                ", ".join("in interface[255] a%d" % i for i in range(2))))
    # every way a method comes to need 16 (or 15) arguments of one class: direct objects, an object
    # array, objects embedded in a struct argument, discrete buffers, a bundle beside 15 buffers,
    # outputs; both builds must give the same verdict and the same bytes
    roster = "struct Roster { " + " ".join("interface o%d;" % i for i in range(9)) + " };\n"
    for extra in (6, 7):
        out.append(("limit_struct_objs_in_%d" % (9 + extra), roster + "interface I { method f(in Roster all, %s); };\n" % ", ".join("in interface p%d" % i for i in range(extra))))
        out.append(("limit_struct_objs_out_%d" % (9 + extra), roster + "interface I { method f(out Roster all, %s); };\n" % ", ".join("out interface p%d" % i for i in range(extra))))
    for n_ in (15, 16):
        out.append(("limit_direct_objs_%d" % n_, "interface I { method f(%s); };\n" % ", ".join("in interface p%d" % i for i in range(n_))))
        out.append(("limit_objarr_%d" % n_, "interface I { method f(in interface[%d] a); };\n" % n_))
        out.append(("limit_buffers_%d" % n_, "interface I { method f(%s); };\n" % ", ".join("in buffer p%d" % i for i in range(n_))))
        out.append(("limit_out_buffers_%d" % n_, "interface I { method f(%s); };\n" % ", ".join("out buffer p%d" % i for i in range(n_))))
        out.append(("limit_buffers_plus_small_%d" % n_, "interface I { method f(%s, in uint32 k); };\n" % ", ".join("in buffer p%d" % i for i in range(n_ - 1))))
        out.append(("limit_buffers_plus_bundle_%d" % n_, "interface I { method f(%s, in uint32 k, in uint8 j); };\n" % ", ".join("in uint16[] p%d" % i for i in range(n_ - 1))))
    out.append(("comment_in_param", "interface I { method f(in /*c*/ uint32 x); };\n"))
    out.append(("comment_in_array_size", "struct S { uint64[1// c\n] f; };\n"))
    out.append(("nonascii_doc_and_array_size_0", "interface I2 {\n  /**\n   * doc 0\n   \u00e9*/\n  method m3();\n};\nstruct ZA { uint8[0] a; };\n"))
    out.append(("comment_in_const", "const uint32 X /* c */ = 1;\n"))
    out.append(("comment_in_iname", "interface B { method g(); };\ninterface I /*c*/ : B { method f(); };\n"))
    out.append(("comment_after_method", "interface I { method /*c*/ f(); };\n"))
    out.append(("empty", ""))
    out.append(("bom", "﻿const uint8 A = 1;\n"))
    out.append(("nul", "const uint8 A = 1;\x00\n"))
    out.append(("deep_nest", "".join("struct N%d { %s a; };\n" % (i, "uint8" if i == 0 else "N%d" % (i - 1)) for i in range(64))))
    # every single-base inheritance graph over three interfaces (none / self / either other as
    # base): chains, rings, and tails that lead into a ring must all terminate
    names = ["IA", "IB", "IC"]
    import itertools
    for bases in itertools.product([None, 0, 1, 2], repeat=3):
        txt = "".join("interface %s%s { method m%d(); };\n" % (names[i], (" : " + names[b]) if b is not None else "", i) for i, b in enumerate(bases))
        out.append(("inherit_graph_%s" % "".join("n" if b is None else str(b) for b in bases), txt))
    # containment graphs over three structs (a field of every other struct in the chosen set)
    sn = ["SA", "SB", "SC"]
    for mask in range(0, 512, 7):
        rows = [[j for j in range(3) if mask >> (3 * i + j) & 1] for i in range(3)]
        txt = "".join("struct %s { uint64 x; %s};\n" % (sn[i], "".join("%s f%d; " % (sn[j], j) for j in rows[i])) for i in range(3))
        out.append(("contain_graph_%03d" % mask, txt + "interface IU { method f(in SA a); };\n"))
    return out


def run_bin(binp, src, out, extra=()):
    t0 = time.time()
    r = scrape.idlc_run(binp, src, out, "c", False, extra=extra, timeout=TIME_LIMIT + 10)
    dt = time.time() - t0
    data = None
    if r[0] == 0 and os.path.isfile(out):
        data = hashlib.sha256(open(out, "rb").read()).hexdigest()
    return {"rc": r[0], "time": round(dt, 2), "out": data, "diag": (r[2] or "")[-160:].replace("\n", " ")}


def run(ctx):
    prop, tier, seed, work = ctx["prop"], ctx["tier"], ctx["seed"], ctx["work"]
    n = 220 if tier == "quick" else 6000
    res = {"coverage": {}, "failures": [], "corr_broken": []}
    if not ctx["harness"] or not ctx["checks_vo"]:
        res["coverage"] = {"evaluations": 0, "distinct_nontrivial": 0, "rule": "not run", "samples": []}
        return res
    rel, err = vlib.build_idlc("release")
    if not rel:
        raise RuntimeError("release build failed: " + err)
    inputs = []
    replay_set = None
    if ctx.get("replay"):
        rp = json.load(open(ctx["replay"]))
        if rp.get("fileset"):
            replay_set = rp["fileset"]
        else:
            inputs.append((rp["tag"], rp["text"]))
    else:
        inputs += corpus()
        rng = vlib.mkrng(seed, prop)
        while len(inputs) < n:
            fs, _ = gen.gen_fileset(rng, nfiles=1)
            txt = gen.render_file(fs["files"][0])
            k = rng.choice([0, 1, 1, 1, 2])
            for _ in range(k):
                txt = mutate_text(rng, txt)
            inputs.append(("gen%d" % len(inputs), txt))
    lines = []
    for k, (tag, txt) in enumerate(inputs):
        d = os.path.join(work, "cases", str(k))
        os.makedirs(d, exist_ok=True)
        open(os.path.join(d, "in.idl"), "wb").write(txt.encode("utf-8", "surrogateescape") if "\xff" not in txt else txt.encode("latin-1", "replace"))
        lines.append("%d\t-\t%s" % (k, os.path.join(d, "in.idl")))
    lf = os.path.join(work, "list.txt")
    open(lf, "w").write("\n".join(lines) + "\n")
    rc, out, err = vlib.run([ctx["harness"], "ast", lf], timeout=900)
    hres = vlib.parse_harness(out)

    def one(k):
        d = os.path.join(work, "cases", str(k))
        src = os.path.join(d, "in.idl")
        dbg = run_bin(ctx["idlc"], src, os.path.join(d, "dbg.h"))
        rls = run_bin(rel, src, os.path.join(d, "rel.h"))
        r = vlib.run([ctx["idlc"], "--dump", "pst", src], timeout=TIME_LIMIT + 10)
        tree = None
        if r[0] == 0 and r[1].lstrip().startswith("["):
            try:
                tree = pstdump.parse(r[1])
            except Exception as e:
                tree = ("PARSE-ERROR", str(e), [])
        return k, (dbg, rls, tree)

    with ThreadPoolExecutor(max_workers=vlib.NCPU) as ex:
        runs = dict(ex.map(one, range(len(inputs))))
    defs = []
    for k, (tag, txt) in enumerate(inputs):
        dbg, rls, tree = runs[k]
        h = hres.get(str(k))
        if tree is None or tree[0] == "PARSE-ERROR" or not h:
            continue
        ok = h["result"] == "ok"
        # characters outside printable ASCII only occur inside comments, documentation and
        # identifiers-to-be-rejected; both sides get the same placeholder so that the model is
        # evaluated on these inputs too
        san = lambda x: "".join(c if (32 <= ord(c) < 127 or c in "\n\t\r") else "?" for c in x)
        d = "Definition t_%d : tree := %s.\nDefinition a_%d : list node := %s.\n" % (
            k, san(pstdump.gallina(tree)), k, ("a_nodes " + san(h["ast"])) if ok else "[]")
        defs.append((k, d, "chk_pst false t_%d %s a_%d" % (k, "true" if ok else "false", k)))
    results, errors = vlib.eval_cases(os.path.join(work, "coq"), "cases", "From MinkV Require Import Pst.\nOpen Scope list_scope.\n", defs, shard_size=20)
    for e in errors:
        res["corr_broken"].append({"kind": "case-evaluation", "detail": e})
    # text -> pair tree: the PEG model on the regenerated grammar against pest's own output
    # (every input that idlc can read as UTF-8, accepted or not, up to a size limit)
    pdefs = []
    for k, (tag, txt) in enumerate(inputs):
        raw = open(os.path.join(work, "cases", str(k), "in.idl"), "rb").read()
        try:
            raw.decode("utf-8")
        except UnicodeDecodeError:
            continue
        tree = runs[k][2]
        if len(raw) > 6000 or (tree is not None and tree[0] == "PARSE-ERROR"):
            continue
        dump = "None" if tree is None else "(Some %s)" % pstdump.gallina(pstdump.san_bytes_tree(tree))
        pdefs.append((k, "", "[chk_peg [%s]%%N %s]" % ("; ".join(str(b) for b in raw), dump)))
    presults, perrors = vlib.eval_cases(os.path.join(work, "coqp"), "pegcases", "From MinkV Require Import Pst.\nOpen Scope list_scope.\n", pdefs, shard_size=20)
    for e in perrors:
        res["corr_broken"].append({"kind": "case-evaluation", "detail": e})
    peg_hist = {"agree": 0, "differ": 0, "fuel": 0, "accepted": 0}
    for k, fl in presults.items():
        tag, txt = inputs[k]
        if fl[0] == 1:
            peg_hist["agree"] += 1
            peg_hist["accepted"] += 1 if runs[k][2] is not None else 0
        else:
            peg_hist["differ" if fl[0] == 0 else "fuel"] += 1
            res["corr_broken"].append({"kind": "correspondence", "detail": "PEG model (regenerated grammar) vs pest disagree on input %d (%s): %s" % (k, tag, "different pair tree or verdict" if fl[0] == 0 else "the model ran out of fuel (contradicts C16_parser_total)"),
                                       "case": {"property": prop, "tag": tag, "text": txt if len(txt) < 4000 else txt[:2000] + "..."}})
    hist, distinct, seen = {"agree": 0}, 0, set()
    crash_codes = (-signal.SIGSEGV, -signal.SIGBUS, -signal.SIGILL, -signal.SIGABRT, 139, 134, 135, 132)
    for k, (tag, txt) in enumerate(inputs):
        dbg, rls, tree = runs[k]
        fl = results.get(k)
        payload = {"property": prop, "tag": tag, "text": txt if len(txt) < 4000 else txt[:2000] + "...", "debug": dbg, "release": rls, "model_flags": fl,
                   "flags_meaning": "[Debug model = real parser; Release model 0 ok / 1 reject / 100+site UB; wf tree; Debug model = Release model]"}
        hh = hashlib.sha256(txt.encode("utf-8", "replace")).hexdigest()
        if hh not in seen:
            seen.add(hh); distinct += 1
        if fl is not None and fl[0] == 0:
            res["corr_broken"].append({"kind": "correspondence", "detail": "PST->AST model vs real parser disagree on input %d (%s), flags %s" % (k, tag, fl), "case": payload})
        if fl is not None and fl[2] == 1 and fl[3] == 0:
            res["corr_broken"].append({"kind": "proof-instance", "detail": "well-formed tree with differing modes (contradicts C16_pst_modes_agree) on input %d" % k, "case": payload})
        for nm, rr in (("debug", dbg), ("release", rls)):
            if rr["rc"] in crash_codes or rr["rc"] == -9 or rr["time"] > TIME_LIMIT:
                cls = None
                if nm == "release" and fl is not None and fl[1] >= 100:
                    # the model says the release build is in undefined behaviour here
                    cls = "K_array_size_release" if fl[1] - 100 in (2, 16) else "K_comment_pairs"
                elif nm == "release" and tag == "usize_overflow":
                    cls = "K_overflow_release"
                f = dict(payload, what="%s build crashed, hung or overflowed its stack (exit %s, %.1fs)" % (nm, rr["rc"], rr["time"]))
                if cls:
                    f["known_class"] = cls
                res["failures"].append(f)
        same = (dbg["rc"] == 0) == (rls["rc"] == 0) and (dbg["rc"] != 0 or dbg["out"] == rls["out"])
        if same:
            hist["agree"] += 1
            continue
        # debug and release disagree: classify by what the model says about the Release build
        cls = None
        if fl is not None and fl[1] >= 100:
            site = fl[1] - 100
            cls = "K_array_size_release" if site in (2, 16) else "K_comment_pairs"
        elif tag in ("usize_overflow",):
            cls = "K_overflow_release"
        elif tag in ("count_wrap", "count_sum_wrap"):
            cls = "K_count_wrap_release"
        hist[cls or "unknown"] = hist.get(cls or "unknown", 0) + 1
        f = dict(payload, what="debug and release builds disagree (exit %s vs %s%s)" % (dbg["rc"], rls["rc"], "" if dbg["rc"] else ", output bytes differ"))
        if cls:
            f["known_class"] = cls
        res["failures"].append(f)
    # debug and release builds over whole file sets and every backend: same verdicts, same files, same bytes
    import p_determinism
    nsets, set_diffs = (6 if tier == "quick" else 100), 0
    if not ctx.get("replay") or replay_set is not None:
        srng = vlib.mkrng(seed, prop + "-sets")
        directed_sets = p_determinism.corpus_cases() if replay_set is None else []      # one declaration depending on many others
        for m in range((nsets + len(directed_sets)) if replay_set is None else 1):
            if m >= nsets and replay_set is None:
                fs = directed_sets[m - nsets]
            else:
                fs, _ = gen.gen_fileset(srng, nfiles=srng.choice([2, 3, 3]))
            if replay_set is not None:
                fs = replay_set
            root = os.path.join(work, "sets", str(m))
            mainp = gen.write_fileset(fs, root)
            idir = os.path.join(root, "inc") if any(f["path"].startswith("inc/") for f in fs["files"]) else root
            rd = p_determinism.compile_all(ctx["idlc"], mainp, idir, root, os.path.join(root, "o_debug"))
            rr = p_determinism.compile_all(rel, mainp, idir, root, os.path.join(root, "o_release"))
            for tagb in rd:
                if rd[tagb][0] != rr[tagb][0] or rd[tagb][1] != rr[tagb][1]:
                    set_diffs += 1
                    res["failures"].append({"property": prop, "tag": "fileset", "fileset": fs, "backend": tagb,
                                            "text": "\n".join("// %s\n%s" % (f["path"], gen.render_file(f)) for f in fs["files"]),
                                            "debug": {"rc": rd[tagb][0]}, "release": {"rc": rr[tagb][0]},
                                            "what": "debug and release builds disagree on a file set (%s: exit %s vs %s, %s)" % (
                                                tagb, rd[tagb][0], rr[tagb][0], "files or bytes differ" if rd[tagb][0] == rr[tagb][0] else "verdict differs")})
                    break
    # file sets every backend must refuse, in both builds: the reason lies in an included file
    refuse_sets = []
    if not ctx.get("replay"):
        F = lambda path, incs, decls: {"path": path, "includes": incs, "decls": decls}
        I = lambda n: ("iface", n, None, [("method", "m", [], False, None)])
        S = lambda n: ("struct", n, [("uint32", 1, "x")])
        refuse_sets = [
            ("cycle_below_main", [F("main.idl", ["a.idl"], [I("IMain")]), F("a.idl", ["b.idl"], [S("SA")]), F("b.idl", ["a.idl"], [S("SB")])]),
            ("self_include_below_main", [F("main.idl", ["selfish.idl"], [I("IMain")]), F("selfish.idl", ["selfish.idl"], [S("SA")])]),
            ("long_cycle_below_main", [F("main.idl", ["x.idl", "a.idl"], [I("IMain")]), F("x.idl", [], [S("SX")]), F("a.idl", ["b.idl"], [S("SA")]),
                                       F("b.idl", ["c.idl"], [S("SB")]), F("c.idl", ["x.idl", "a.idl"], [S("SC")])]),
            ("cycle_reached_twice", [F("main.idl", ["a.idl", "b.idl"], [I("IMain")]), F("a.idl", ["b.idl"], [S("SA")]), F("b.idl", ["a.idl"], [S("SB")])]),
            ("missing_below_main", [F("main.idl", ["a.idl"], [I("IMain")]), F("a.idl", ["nowhere.idl"], [S("SA")])]),
            ("oversized_struct_in_include", [F("main.idl", ["inc.idl"], [("iface", "IMain", None, [("method", "f", [("in", "L4", None, "v")], False, None)])]),
                                             F("inc.idl", [], [("struct", "L0", [("uint8", 65535, "a"), ("uint8", 1, "b")])] +
                                               [("struct", "L%d" % i, [("L%d" % (i - 1), 65535, "a")]) for i in range(1, 5)])]),
            ("oversized_struct_array_in_include", [F("main.idl", ["inc.idl"], [("iface", "IMain", None, [("method", "f", [("out", "L3", "[]", "v")], False, None)])]),
                                                   F("inc.idl", [], [("struct", "L0", [("uint64", 65535, "a")])] +
                                                     [("struct", "L%d" % i, [("L%d" % (i - 1), 65535, "a")]) for i in range(1, 4)])]),
            # every member fits, their sum does not
            ("oversized_struct_sum_in_include", [F("main.idl", ["inc.idl"], [("iface", "IMain", None, [("method", "f", [("in", "H", None, "v")], False, None)])]),
                                                 F("inc.idl", [], [("struct", "L0", [("uint64", 65535, "a")]), ("struct", "L1", [("L0", 65535, "a")]), ("struct", "L2", [("L1", 65535, "a")]),
                                                                   ("struct", "H", [("L2", 4097, "a"), ("L2", 4096, "b")])])]),
            ("duplicate_across_includes", [F("main.idl", ["a.idl", "b.idl"], [I("IMain")]), F("a.idl", [], [S("Same")]), F("b.idl", [], [S("Same")])]),
        ]
        for tag_, files_ in refuse_sets:
            fs_ = {"files": files_, "main": "main.idl", "idirs": []}
            root = os.path.join(work, "refuse", tag_)
            mainp = gen.write_fileset(fs_, root)
            for bname, binp in (("debug", ctx["idlc"]), ("release", rel)):
                rr_ = p_determinism.compile_all(binp, mainp, root, root, os.path.join(root, "o_" + bname))
                for tagb, (rc_, snap_, diag_) in rr_.items():
                    if rc_ == 0 or snap_:
                        res["failures"].append({"property": prop, "tag": "refuse:" + tag_, "fileset": fs_, "backend": tagb, "build": bname,
                                                "text": "\n".join("// %s\n%s" % (f["path"], gen.render_file(f)) for f in files_),
                                                "what": "a file set that must be refused (%s) is accepted or leaves output behind: %s build, %s, exit %s, files %s" % (
                                                    tag_, bname, tagb, rc_, sorted(snap_)[:3])})
                        break
    # an output that cannot be written (a full device): never exit status 0, for small and for large outputs,
    # in both builds
    unwritable = 0
    if not ctx.get("replay") and os.path.exists("/dev/full"):
        small = os.path.join(work, "unwritable_small.idl")
        large = os.path.join(work, "unwritable_large.idl")
        open(small, "w").write("interface ISmall { method f(in uint32 x); };\n")
        open(large, "w").write("interface ILarge {\n%s};\n" % "".join("  method m%d(in uint32 a, out uint64 b, in buffer c);\n" % i for i in range(120)))
        for bname, binp in (("debug", ctx["idlc"]), ("release", rel)):
            for src_ in (small, large):
                for lang_, skel_ in (("c", False), ("c", True), ("cpp", False), ("cpp", True)):
                    r_ = scrape.idlc_run(binp, src_, "/dev/full", lang_, skel_)
                    unwritable += 1
                    if r_[0] == 0:
                        res["failures"].append({"property": prop, "tag": "unwritable-output", "build": bname, "backend": lang_ + ("_skel" if skel_ else ""),
                                                "input": open(src_).read()[:300], "command": "idlc %s -o /dev/full%s%s" % (os.path.basename(src_), "" if lang_ == "c" else " --" + lang_, " --skel" if skel_ else ""),
                                                "what": "exit status 0 although nothing could be written to the output (/dev/full: every write fails with ENOSPC)"})
    res["coverage"] = {
        "unwritable_output_runs": unwritable,
        "must_refuse_sets": [t for t, _ in refuse_sets],
        "filesets_all_backends_debug_vs_release": {"sets": nsets, "differing": set_diffs},
        "evaluations": len(inputs), "distinct_nontrivial": distinct,
        "peg_model": peg_hist,
        "rule": "corpus of boundary inputs (array sizes 0/65536, usize-overflowing nests, counts beyond u8, comments between tokens, BOM, NUL, 64-deep "
                "nesting) plus generated single-file programs with 0-2 byte-level mutations (token deletion/duplication, numeral boundaries, comments at "
                "token boundaries, control and non-ASCII bytes, very long identifiers, truncation, keyword insertion); each through the debug and release "
                "binaries (exit/signal, time <= %ds, output hash) and, when pest accepts, the PST model in both modes against the real parser" % TIME_LIMIT,
        "samples": [{"tag": t, "text": x[:200]} for t, x in inputs[:3]], "mode_comparison": hist, "pst_trees_evaluated": len(results),
        "stated_bounds": {"time_limit_s": TIME_LIMIT, "nesting_depth": 64},
    }
    return res
