"""L1: run the real idlc binary on a file set for every backend and role, and scrape
facts from the emitted text.  The scrapers are deliberately dumb and line-oriented."""
import os, re, subprocess
from vlib import run, ENV

BACKENDS = [("c", "stub"), ("c", "skel"), ("cpp", "stub"), ("cpp", "skel"), ("rust", "both"), ("java", "both")]


def idlc_run(idlc, main, out, lang="c", skel=False, idirs=(), extra=(), cwd=None, timeout=60, env=None):
    cmd = [idlc, main, "-o", out]
    if lang != "c":
        cmd.append("--" + lang)
    if skel:
        cmd.append("--skel")
    for d in idirs:
        cmd += ["-I", d]
    cmd += list(extra)
    return run(cmd, timeout=timeout, cwd=cwd, env=env)


def emit_all(idlc, root, paths, main, idirs=(), extra=(), langs=("c", "cpp", "rust", "java")):
    """compile every file of the set as a main file, for every backend/role.
    returns {rel: {(lang, role): (rc, outpath)}}"""
    res = {}
    for rel in paths:
        stem = os.path.splitext(os.path.basename(rel))[0]
        src = os.path.join(root, rel)
        incs = list(idirs)
        r = {}
        out = os.path.join(root, "out")
        for lang in langs:
            os.makedirs(os.path.join(out, lang), exist_ok=True)
        if "c" in langs:
            o = os.path.join(out, "c", stem + ".h")
            r[("c", "stub")] = _res(idlc_run(idlc, src, o, "c", False, incs, extra), o)
            o = os.path.join(out, "c", stem + "_invoke.h")
            r[("c", "skel")] = _res(idlc_run(idlc, src, o, "c", True, incs, extra), o)
        if "cpp" in langs:
            o = os.path.join(out, "cpp", stem + ".hpp")
            r[("cpp", "stub")] = _res(idlc_run(idlc, src, o, "cpp", False, incs, extra), o)
            o = os.path.join(out, "cpp", stem + "_invoke.hpp")
            r[("cpp", "skel")] = _res(idlc_run(idlc, src, o, "cpp", True, incs, extra), o)
        if "rust" in langs:
            o = os.path.join(out, "rust")
            r[("rust", "both")] = _res(idlc_run(idlc, src, o, "rust", False, incs, extra), o)
        if "java" in langs:
            o = os.path.join(out, "java")
            r[("java", "both")] = _res(idlc_run(idlc, src, o, "java", False, incs, extra), o)
        res[rel] = r
    return res


def _res(r, o):
    """(exit status, output path, short diagnostic)"""
    return (r[0], o, (r[2] or "")[-300:])


def unsupported_java(diag):
    return "not implemented" in diag or "not yet implemented" in diag


def rd(p):
    try:
        return open(p, encoding="utf-8", errors="replace").read()
    except (FileNotFoundError, IsADirectoryError):
        return ""


def cnum(s):
    s = s.strip()
    m = re.fullmatch(r"(?:U?INT\d+_C)\((-?\w+)\)", s)
    if m:
        s = m.group(1)
    try:
        return int(s, 0)
    except ValueError:
        return None


# ------------------------------------------------------------------ C

def c_defines(texts):
    d = {}
    for t in texts:
        for m in re.finditer(r"^#define (\w+) (.+)$", t, re.M):
            v = m.group(2).strip()
            if d.setdefault(m.group(1), v) != v:
                # one macro name with two different bodies: the name no longer stands for one number
                d[m.group(1)] = "<redefined: %s | %s>" % (d[m.group(1)], v)
    return d


def vlib_tests():
    import vlib
    return os.path.join(vlib.REPO, "tests")


def c_defines_pp(header, incdirs):
    """the object-like macros of a generated header as the C preprocessor ends up with them
    (gcc -E -dM: a redefinition replaces, an #ifndef-guarded definition yields to an earlier one);
    None when the preprocessor cannot be run on the file"""
    cmd = ["gcc", "-E", "-dM", "-w", "-x", "c"] + ["-I" + d for d in incdirs] + [header]
    rc, out, err = run(cmd, timeout=60)
    if rc != 0:
        return None
    d = {}
    for m in re.finditer(r"^#define (\w+) (.+)$", out, re.M):
        d[m.group(1)] = m.group(2).strip()
    return d


def c_functions(text, iface):
    """stub functions of one interface: name -> body"""
    out = {}
    for m in re.finditer(r"static inline int32_t\s+%s_(\w+)\((.*?)\)\n\{\n" % re.escape(iface), text):
        start = m.end()
        end = text.find("\n}\n", start)
        out[m.group(1)] = (m.group(2), text[start:end if end >= 0 else len(text)])
    return out


def c_stub_ops(text, defs, ifaces):
    """{iface: [(method, op value)]} and {(iface, method): counts}"""
    tbl, counts = {}, {}
    for i in ifaces:
        rows = []
        for meth, (_, body) in c_functions(text, i).items():
            m = re.search(r"Object_invoke\(self, (\w+), (\w+), (?:ObjectCounts_pack\(([^)]*)\)|0)\)", body)
            if not m or m.group(1) in ("Object_OP_release", "Object_OP_retain"):
                continue        # the two operations every object has (a method may be CALLED release or retain)
            v = cnum(defs.get(m.group(1), ""))
            rows.append((meth, v))
            if m.group(3):
                counts[(i, meth)] = tuple(int(x) for x in m.group(3).split(","))
            else:
                counts[(i, meth)] = (0, 0, 0, 0)
        tbl[i] = rows
    return tbl, counts


def c_skel_blocks(text, iface):
    """case blocks of <iface>_DEFINE_INVOKE: list of (label, body)"""
    m = re.search(r"#define %s_DEFINE_INVOKE\(func, prefix, type\)" % re.escape(iface), text)
    if not m:
        return []
    start = m.end()
    nxt = re.search(r"\n#define \w+_DEFINE_INVOKE|\ntypedef Object", text[start:])
    blk = text[start:start + nxt.start()] if nxt else text[start:]
    blk = blk.replace("\\\n", "\n")
    parts = re.split(r"\n\s*case (\w+): \{", blk)
    out = []
    for k in range(1, len(parts), 2):
        out.append((parts[k], parts[k + 1]))
    return out


def c_skel_ops(text, defs, ifaces):
    tbl, counts = {}, {}
    for i in ifaces:
        rows = []
        for label, body in c_skel_blocks(text, i):
            if label in ("Object_OP_release", "Object_OP_retain"):
                continue
            m = re.search(r"prefix##(\w+)\(me", body)
            if not m:
                continue
            rows.append((m.group(1), cnum(defs.get(label, ""))))
            k = re.search(r"k != ObjectCounts_pack\(([^)]*)\)", body)
            if k:
                counts[(i, m.group(1))] = tuple(int(x) for x in k.group(1).split(","))
        tbl[i] = rows
    return tbl, counts


# ------------------------------------------------------------------ C++

def cpp_classes(texts):
    """II<name> classes: name -> (base or None, {OP_x: n})"""
    cls = {}
    for t in texts:
        for m in re.finditer(r"\nclass I(\w+)(?: : public I(\w+)(?: I\w+)*)? \{(.*?)\n\};", t, re.S):
            name, base, body = m.group(1), m.group(2), m.group(3)
            if "static const ObjectOp" not in body and "virtual ~I" + name not in body:
                continue
            ops = {mm.group(1): int(mm.group(2)) for mm in
                   re.finditer(r"static const ObjectOp (OP_\w+) = (\d+);", body)}
            cls.setdefault(name, (base, ops))
    return cls


def cpp_resolve(cls, iface, opname):
    seen = 0
    cur = iface
    while cur is not None and cur in cls and seen < 200:
        base, ops = cls[cur]
        if opname in ops:
            return ops[opname]
        cur = base
        seen += 1
    return None


def cpp_stub_ops(text, cls, ifaces):
    tbl, counts = {}, {}
    for i in ifaces:
        m = re.search(r"\nclass %s : public I%s, public ProxyBase \{(.*?)\n\};" % (re.escape(i), re.escape(i)), text, re.S)
        rows = []
        if m:
            for mm in re.finditer(r"virtual int32_t (\w+)\(([^\n]*)\) \{\n(.*?)\n    \}", m.group(1), re.S):
                inv = re.search(r"invoke\((OP_\w+), (\w+), (?:ObjectCounts_pack\(([^)]*)\)|0)\)", mm.group(3))
                if inv:
                    rows.append((mm.group(1), cpp_resolve(cls, i, inv.group(1))))
                    counts[(i, mm.group(1))] = tuple(int(x) for x in inv.group(3).split(",")) if inv.group(3) else (0, 0, 0, 0)
        tbl[i] = rows
    return tbl, counts


def cpp_skel_ops(text, cls, ifaces):
    tbl, counts = {}, {}
    for i in ifaces:
        m = re.search(r"\nclass %sImplBase : protected ImplBase, public I%s \{(.*?)\n\};" % (re.escape(i), re.escape(i)), text, re.S)
        rows = []
        if m:
            parts = re.split(r"\n\s*case (\w+): \{", m.group(1))
            for k in range(1, len(parts), 2):
                body = parts[k + 1]
                call = re.search(r"int32_t r = (\w+)\(", body)
                if call:
                    rows.append((call.group(1), cpp_resolve(cls, i, parts[k])))
                    kk = re.search(r"k != ObjectCounts_pack\(([^)]*)\)", body)
                    if kk:
                        counts[(i, call.group(1))] = tuple(int(x) for x in kk.group(1).split(","))
        tbl[i] = rows
    return tbl, counts


# ------------------------------------------------------------------ Rust

def unraw(s):
    return s[2:] if s.startswith("r#") else s


def rust_file_for(outdir, iface):
    return os.path.join(outdir, iface.lower() + ".rs")


def rust_stub_own(text, iface):
    """own stub methods of `impl <iface> {`: [(method, op, counts)]"""
    m = re.search(r"\nimpl %s \{(.*?)\n\}\n" % re.escape(iface), text, re.S)
    rows = []
    if m:
        for mm in re.finditer(r"pub fn (r#\w+|\w+)\((.*?)\n    \}", m.group(1), re.S):
            inv = re.search(r"\.invoke\(\s*(\d+),.*?pack_counts\(([^)]*)\)", mm.group(2), re.S)
            if inv:
                rows.append((unraw(mm.group(1)), int(inv.group(1)),
                             tuple(int(x) for x in inv.group(2).split(","))))
    return rows


def rust_skel_slots(text):
    """per match arm of the Rust skeleton: {method: sorted list of argument slots the arm touches}
    (args[i] and args[a..b])"""
    m = re.search(r"unsafe extern \"C\" fn invoke\((.*?)\n\}\n", text, re.S)
    out = {}
    if m:
        parts = re.split(r"\n        (\d+) => \{", m.group(1))
        for k in range(1, len(parts), 2):
            body = parts[k + 1].split("\n        crate::object::OP_RELEASE")[0]
            call = re.search(r"\|mut cx\|\s*\{?\s*cx\s*\.\s*(r#\w+|\w+)\(", body)
            if not call:
                continue
            used = []
            for a, b in re.findall(r"args\[(\d+)\.\.(\d+)\]", body):
                used += list(range(int(a), int(b)))
            used += [int(x) for x in re.findall(r"args\[(\d+)\]", body)]
            out[unraw(call.group(1))] = sorted(set(used))
    return out


def rust_skel(text):
    """match arms of `unsafe extern "C" fn invoke`: [(op, method, counts)]"""
    m = re.search(r"unsafe extern \"C\" fn invoke\((.*?)\n\}\n", text, re.S)
    rows = []
    if m:
        parts = re.split(r"\n        (\d+) => \{", m.group(1))
        for k in range(1, len(parts), 2):
            body = parts[k + 1]
            call = re.search(r"\|mut cx\|\s*\{?\s*cx\s*\.\s*(r#\w+|\w+)\(", body)
            kk = re.search(r"counts != crate::object::pack_counts\(([^)]*)\)", body)
            if call:
                rows.append((int(parts[k]), unraw(call.group(1)),
                             tuple(int(x) for x in kk.group(1).split(",")) if kk else None))
    return rows


# ------------------------------------------------------------------ Java

def java_consts(text, iface):
    return {m.group(1): int(m.group(2)) for m in re.finditer(r"int (%s_OP_\w+|\w+_OP_\w+) = (-?\d+);" % re.escape(iface), text)}


def java_iface_text(outdir, iface):
    return rd(os.path.join(outdir, iface + ".java"))


def java_proxy_own(text):
    """methods of `class Proxy`: [(method, opname)]"""
    m = re.search(r"class Proxy extends .*?\{(.*?)\n    class MinkObject", text, re.S)
    rows = []
    if m:
        for mm in re.finditer(r"public void (\w+)\((.*?)\n        \}", m.group(1), re.S):
            inv = re.search(r"minkObject\.invoke\((\w+),", mm.group(2))
            if inv:
                rows.append((mm.group(1), inv.group(1)))
    return rows


def java_skel_own(text):
    m = re.search(r"class MinkObject extends .*?\{(.*)", text, re.S)
    rows = []
    if m:
        parts = re.split(r"\n\s*case (\w+): \{", m.group(1))
        for k in range(1, len(parts), 2):
            call = re.search(r"\(\(\w+\)mObj\)\.(\w+)\(", parts[k + 1])
            if call:
                rows.append((call.group(1), parts[k]))
    return rows


# ------------------------------------------------------------------ slot sequences (C02/C01/C03)
# c_slot_kinds: 0 BI, 1 BO, 2 OI, 3 OO (by spelling; heuristic).  *_envelopes: raw kinds 0 buffer, 1 object

def c_slot_kinds(body):
    """ObjectArg a[] initialisers of a C / C++ stub body -> [(kind, text)]"""
    m = re.search(r"ObjectArg a\[\] = \{(.*?)\n\s*\};", body, re.S)
    if not m:
        return []
    out = []
    for mm in re.finditer(r"\{\.(bi|b|o) = (.*?)\s*\},", m.group(1), re.S):
        fld, rhs = mm.group(1), mm.group(2).strip()
        if fld == "bi":
            k = 0
        elif fld == "b":
            k = 0 if re.search(r"\{\s*&(\w+_val|i)\s*,", rhs) else 1
        else:
            k = 3 if re.match(r"(Object_NULL|\(Object\)\s*\{\s*NULL,\s*NULL\s*\})", rhs) else 2
        out.append((k, rhs))
    return out


def c_stub_envelopes(text, ifaces, cpp=False):
    """{(iface, method): (counts, [kinds])}"""
    env = {}
    for i in ifaces:
        if cpp:
            m = re.search(r"\nclass %s : public I%s, public ProxyBase \{(.*?)\n\};" % (re.escape(i), re.escape(i)), text, re.S)
            funcs = {}
            if m:
                for mm in re.finditer(r"virtual int32_t (\w+)\(([^\n]*)\) \{\n(.*?)\n    \}", m.group(1), re.S):
                    funcs[mm.group(1)] = mm.group(3)
        else:
            funcs = {k: v[1] for k, v in c_functions(text, i).items()}
        for meth, body in funcs.items():
            if meth in ("release", "retain") and re.search(r"Object_OP_(release|retain)", body):
                continue
            inv = re.search(r"(?:Object_invoke\(self|invoke\()\s*,?\s*\w+, (\w+), (?:ObjectCounts_pack\(([^)]*)\)|0)\)", body)
            if not inv:
                continue
            counts = tuple(int(x) for x in inv.group(2).split(",")) if inv.group(2) else (0, 0, 0, 0)
            env[(i, meth)] = (counts, [0 if k < 2 else 1 for k, _ in c_slot_kinds(body)])
    return env


def rust_stub_envelopes(text, iface):
    env = {}
    m = re.search(r"\nimpl %s \{(.*?)\n\}\n" % re.escape(iface), text, re.S)
    if not m:
        return env
    for mm in re.finditer(r"pub fn (r#\w+|\w+)\((.*?)\n    \}", m.group(1), re.S):
        body = mm.group(2)
        inv = re.search(r"\.invoke\(\s*(\d+),.*?pack_counts\(([^)]*)\)", body, re.S)
        if not inv:
            continue
        counts = tuple(int(x) for x in inv.group(2).split(","))
        kinds = []
        am = re.search(r"let mut args = \[(.*?)\n        \];", body, re.S)
        if am:
            for a in re.split(r"\n            crate::object::Arg \{", "\n" + am.group(1))[1:]:
                a = a.strip()
                if a.startswith("bi:") or a.startswith("b:"):
                    kinds.append(0)      # raw: buffer (the union field spelled is not observable)
                elif a.startswith("o:"):
                    kinds.append(1)      # raw: object
        env[unraw(mm.group(1))] = (counts, kinds)
    return env
