"""C02 (canonical envelope): L0 plan correspondence, L1 envelopes scraped from the C, C++ and
Rust stubs (counts + slot classes) and skeleton counts; Spec evaluated on the scraped envelopes."""
import hashlib, json, os, re
from concurrent.futures import ThreadPoolExecutor
import gen, scrape, vlib
from p_numbering import top_ifaces, chain_names

KNOWN = {2: "K_interleave", 3: "K_objarr_after_out", 4: "K_no_limit"}


def gen_case(rng, k):
    if rng.random() < 0.45:
        return gen.gen_wild_fileset(rng)
    fs, _ = gen.gen_fileset(rng)
    return fs


def corpus_cases():
    """hand-written edge cases, run first (multiplicity boundaries, known classes)"""
    out = []
    def one(body, structs=""):
        txt = structs + "interface IX {\n" + body + "\n};\n"
        return {"files": [{"path": "main.idl", "includes": [], "decls": [], "text": txt}], "main": "main.idl", "idirs": []}
    big = "struct Big { uint64 a; uint64 b; interface o; };\nstruct SmallObj { interface o; };\n"
    out.append(one("  method f(in Big s, in buffer b, out uint32 x);", big))
    out.append(one("  method g(in SmallObj s);", big))
    out.append(one("  method h(in SmallObj s, in uint32 y);", big))
    out.append(one("  method k(in interface[2] a, out interface o);"))
    for n in (14, 15, 16, 17):
        out.append(one("  method l(in interface[%d] a);" % n))
        out.append(one("  method m(%s);" % ", ".join("in interface p%d" % i for i in range(n))))
        out.append(one("  method n(%s);" % ", ".join("out uint8[] p%d" % i for i in range(n))))
    # multiplicities that only differ from a small one beyond 8 bits
    for n in (255, 256, 257, 260, 512, 65535):
        out.append(one("  method l(in interface[%d] a);" % n))
        out.append(one("  method lo(out interface[%d] a, in interface[%d] b);" % (n, n + 3 if n + 3 <= 65535 else n)))
    out.append(one("  method o(in Big s);", big))
    out.append(one("  method p(out Big s, in interface q);", big))
    return out


def scrape_envs(root, fs, emitted):
    """[(label, iface, method, counts, kinds)] for stubs and [(label, iface, method, counts)] for skeletons"""
    tops = top_ifaces(fs)
    od = os.path.join(root, "out")
    mstem = os.path.splitext(os.path.basename(fs["main"]))[0]
    stems = [os.path.splitext(os.path.basename(f["path"]))[0] for f in fs["files"]]
    envs, skel = [], []
    ctext = scrape.rd(os.path.join(od, "c", mstem + ".h"))
    for (i, m), (c, kinds) in scrape.c_stub_envelopes(ctext, tops).items():
        envs.append(("c-stub", i, m, c, kinds))
    cpptext = scrape.rd(os.path.join(od, "cpp", mstem + ".hpp"))
    for (i, m), (c, kinds) in scrape.c_stub_envelopes(cpptext, tops, cpp=True).items():
        envs.append(("cpp-stub", i, m, c, kinds))
    rs = os.path.join(od, "rust")
    for i in tops:
        for c_ in chain_names(fs, i):
            for m, (c, kinds) in scrape.rust_stub_envelopes(scrape.rd(scrape.rust_file_for(rs, c_)), c_).items():
                envs.append(("rust-stub", i, m, c, kinds))
    defs = scrape.c_defines([scrape.rd(os.path.join(od, "c", s + ".h")) for s in stems])
    _, cs = scrape.c_skel_ops(scrape.rd(os.path.join(od, "c", mstem + "_invoke.h")), defs, tops)
    for (i, m), c in cs.items():
        skel.append(("c-skel", i, m, c))
    cls = scrape.cpp_classes([scrape.rd(os.path.join(od, "cpp", s + ".hpp")) for s in stems])
    _, cs = scrape.cpp_skel_ops(scrape.rd(os.path.join(od, "cpp", mstem + "_invoke.hpp")), cls, tops)
    for (i, m), c in cs.items():
        skel.append(("cpp-skel", i, m, c))
    for i in tops:
        slots = scrape.rust_skel_slots(scrape.rd(scrape.rust_file_for(rs, i)))
        for op, m, c in scrape.rust_skel(scrape.rd(scrape.rust_file_for(rs, i))):
            # the arm reads or writes every slot the counts word announces, and no other
            # (a slot beyond the announced ones is the known class of uncounted objects of small structs)
            if c is not None and sum(c) > 0 and m in slots and not set(range(sum(c))) <= set(slots[m]):
                skel.append(("rust-skel-slots", i, m, ("touches slots %s of %d" % (slots[m], sum(c)),)))
            if c is not None:
                skel.append(("rust-skel", i, m, c))
            else:
                skel.append(("rust-skel", i, m, None))
    return envs, skel


def gallina_envs(envs):
    items = []
    for lab, i, m, c, kinds in envs:
        items.append('("%s", "%s", ((%d, %d, %d, %d), [%s]))' % (i, m, c[0], c[1], c[2], c[3], "; ".join(str(k) for k in kinds)))
    return "[%s]" % "; ".join(items)


def run(ctx):
    prop, tier, seed, work = ctx["prop"], ctx["tier"], ctx["seed"], ctx["work"]
    n = 160 if tier == "quick" else 3000
    cases = []
    if ctx.get("replay"):
        rp = json.load(open(ctx["replay"]))
        cases.append(rp["fileset"])
    else:
        cases += corpus_cases()
        rng = vlib.mkrng(seed, prop)
        for k in range(n):
            cases.append(gen_case(rng, k))
    res = {"coverage": {}, "failures": [], "corr_broken": []}
    if not ctx["harness"] or not ctx["checks_vo"]:
        res["coverage"] = {"evaluations": 0, "distinct_nontrivial": 0, "rule": "not run", "samples": []}
        return res
    lines = []
    for k, fs in enumerate(cases):
        mainp = gen.write_fileset(fs, os.path.join(work, "cases", str(k)))
        lines.append("%d\tcli\t-\t%s\t" % (k, mainp))
    cf = os.path.join(work, "cases.txt")
    open(cf, "w").write("\n".join(lines) + "\n")
    rc, out, err = vlib.run([ctx["harness"], "front", cf, "--plans"], timeout=900)
    hres = vlib.parse_harness(out)

    def emit(k):
        fs = cases[k]
        root = os.path.join(work, "cases", str(k))
        return k, scrape.emit_all(ctx["idlc"], root, [f["path"] for f in fs["files"]], fs["main"], langs=("c", "cpp", "rust"))

    with ThreadPoolExecutor(max_workers=vlib.NCPU) as ex:
        emitted = dict(ex.map(emit, range(len(cases))))
    defs, meta = [], {}
    for k, fs in enumerate(cases):
        h = hres.get(str(k))
        if h is None or "files" not in h:
            continue
        accepted = h["result"] == "ok"
        impl = "SL [SA 1; %s]" % h["mir"] if accepted else "SL [SA 0; SA %s]" % h["result"].split()[1]
        root = os.path.join(work, "cases", str(k))
        envs, skel = ([], [])
        backend_ok = all(v[0] == 0 for v in emitted[k][fs["main"]].values())
        if accepted and backend_ok:
            envs, skel = scrape_envs(root, fs, emitted[k])
        # skeleton counts must equal the stub's counts (same backend family and across backends)
        stub_counts = {}
        for lab, i, m, c, _ in envs:
            stub_counts.setdefault((i, m), set()).add(c)
        sk_bad = []
        present = {}
        for lab, i, m, c in [x for x in skel if x[0] == "rust-skel-slots"]:
            sk_bad.append((lab, i, m, c[0], None))
        skel = [x for x in skel if x[0] != "rust-skel-slots"]
        for lab, i, m, c in skel:
            present.setdefault(lab, set()).add((i, m))
            if c is not None and (i, m) in stub_counts and stub_counts[(i, m)] != {c}:
                sk_bad.append((lab, i, m, c, sorted(stub_counts[(i, m)])))
        # every method a stub can invoke on an interface (own or inherited, any depth) has an arm in the
        # skeleton of that interface in every backend
        if skel:
            for lab in ("c-skel", "cpp-skel", "rust-skel"):
                for key in sorted(stub_counts):
                    if key not in present.get(lab, set()):
                        sk_bad.append((lab, key[0], key[1], "no arm for this method in the skeleton", sorted(stub_counts[key])))
        for key, cs in stub_counts.items():
            if len(cs) > 1:
                sk_bad.append(("stubs-disagree", key[0], key[1], sorted(cs), None))
        meta[k] = {"envs": envs, "skel_bad": sk_bad, "backend_ok": backend_ok, "accepted": accepted,
                   "nskel": len(skel)}
        d = "Definition f_%d : list ast := %s.\nDefinition o_%d : sx := %s.\nDefinition p_%d : sx := %s.\n" % (
            k, h["files"], k, impl, k, h.get("plans", "SL []"))
        d += "Definition e_%d : list (string * string * envelope) := %s.\n" % (k, gallina_envs(envs))
        defs.append((k, d, "chk_c02 Cli f_%d o_%d p_%d e_%d" % (k, k, k, k)))
    results, errors = vlib.eval_cases(os.path.join(work, "coq"), "cases", "", defs, shard_size=40)
    for e in errors:
        res["corr_broken"].append({"kind": "case-evaluation", "detail": e})
    seen, distinct, nenv, hist = set(), 0, 0, {}
    for k, d, _ in defs:
        fl = results.get(k)
        if fl is None:
            continue
        fs, mt = cases[k], meta[k]
        text = {f["path"]: f.get("text") or gen.render_file(f) for f in fs["files"]}
        payload = {"property": prop, "fileset": fs, "text": text, "flags": fl, "harness": hres[str(k)].get("result"),
                   "flags_meaning": "[front agree; class agree; plans agree; #envelopes != model; #canonical; #violations; #K_interleave; #K_objarr_after_out; #K_no_limit]"}
        nenv += len(mt["envs"])
        hh = hashlib.sha256(re.sub(r"\d+", "#", "".join(text.values())).encode()).hexdigest()
        if hh not in seen and len(mt["envs"]) >= 1:
            seen.add(hh); distinct += 1
        if fl[0] == 0 or fl[2] == 0:
            res["corr_broken"].append({"kind": "correspondence", "detail": "plan model vs implementation disagree on case %d (flags %s)" % (k, fl), "case": payload})
        if fl[3] > 0:
            res["corr_broken"].append({"kind": "correspondence", "detail": "%d scraped envelopes differ from the model's slot/count prediction on case %d" % (fl[3], k), "case": payload})
        if fl[5] > 0:
            res["failures"].append(dict(payload, what="a stub emits a non-canonical envelope outside every known class"))
        for code, cls in KNOWN.items():
            if fl[4 + code] > 0:
                hist[cls] = hist.get(cls, 0) + fl[4 + code]
                res["failures"].append(dict(payload, known_class=cls, what="non-canonical envelope, class " + cls))
        for bad in mt["skel_bad"]:
            res["failures"].append(dict(payload, what="skeleton/stub counts disagree: %s" % (bad,)))
        if mt["accepted"] and not mt["backend_ok"]:
            hist["backend_reject"] = hist.get("backend_reject", 0) + 1
    sample = []
    for k in list(results)[:2]:
        sample.append({"idl": {f["path"]: f.get("text") or gen.render_file(f) for f in cases[k]["files"]}, "flags": results[k],
                       "envelopes": [list(e) for e in meta[k]["envs"][:4]]})
    res["coverage"] = {
        "evaluations": len(results), "distinct_nontrivial": distinct,
        "rule": "corpus of multiplicity boundaries and known classes, then generated file sets (rule-respecting 55%, rule-bending 45%); "
                "non-trivial = at least one stub envelope scraped; distinct after replacing numerals",
        "samples": sample, "envelopes_checked": nenv, "known_class_hits": hist,
        "layers": {"L0_plans": len(results), "L1_stub_envelopes": nenv},
    }
    return res
