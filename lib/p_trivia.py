"""C14 (edits and flags without interface meaning): metamorphic runs of the real binary.
(a) whitespace / line-break variants, (b) ordinary comments between declarations, fields and
members, (c) comments between the tokens of a declaration, (d) documentation added / changed /
removed, (e) documentation followed by an ordinary comment, (f) --marking, (g) --no-typed-objects.
For (a)-(c) the pair trees go through the Coq PST model as well."""
import copy, hashlib, json, os, re, shutil
from concurrent.futures import ThreadPoolExecutor
import gen, pstdump, scrape, vlib

OUTS = [("c", False), ("c", True), ("cpp", False), ("cpp", True), ("rust", False), ("java", False)]


def compile_all(idlc, src, outdir, extra=(), keep=False):
    """keep: generate over whatever an earlier run left in the output directories"""
    res = {}
    for lang, skel in OUTS:
        tag = lang + ("_skel" if skel else "")
        od = os.path.join(outdir, tag)
        if not keep:
            shutil.rmtree(od, ignore_errors=True)
        os.makedirs(od, exist_ok=True)
        o = od if lang in ("rust", "java") else os.path.join(od, "out.h")
        r = scrape.idlc_run(idlc, src, o, lang, skel, extra=extra)
        files = {}
        for root, _, fns in os.walk(od):
            for fn in fns:
                files[os.path.relpath(os.path.join(root, fn), od)] = open(os.path.join(root, fn), encoding="utf8", errors="replace").read()
        res[tag] = (r[0], files, r[2][-200:])
    return res


def c_strip(txt):
    """comments removed the way a C/C++ translator does it: line splices first (phase 2), then
    comments outside string and character literals (phase 3)"""
    txt = txt.replace("\\\r\n", "").replace("\\\n", "")
    out, i, n = [], 0, len(txt)
    while i < n:
        c = txt[i]
        if c == '"' or c == "'":
            j = i + 1
            while j < n and txt[j] != c and txt[j] != "\n":
                j += 2 if txt[j] == "\\" else 1
            out.append(txt[i:j + 1]); i = j + 1
        elif txt.startswith("//", i):
            j = txt.find("\n", i)
            i = n if j < 0 else j
        elif txt.startswith("/*", i):
            j = txt.find("*/", i + 2)
            out.append(" "); i = n if j < 0 else j + 2
        else:
            out.append(c); i += 1
    return "".join(out)


def strip_comments(txt, lang):
    if lang in ("c", "cpp"):
        return re.sub(r"\s+", " ", c_strip(txt)).strip()
    txt = re.sub(r"/\*.*?\*/", "", txt, flags=re.S)
    txt = re.sub(r"//[^\n]*", "", txt)
    return re.sub(r"\s+", " ", txt).strip()


DOC_POOL = ["/**\n   * changed %s: ünïcödé /* not a comment start\n   @param x   y\n   */",
            "/**\n   * %s writes below C:\\logs\\\n   */",                      # one line, ends in a backslash
            "/**\n  µm  %s: text left of the asterisk column\n   */",            # multi-byte character at the margin
            "/**\n * %s \"quoted\" ??/ trigraph // slashes \\\n */",
            "/**\n\t* %s\ttabs\n\t*/",
            # texts that look like markup or directives of a target language or of a documentation tool:
            # documentation is text, nothing in it is interpreted
            "/**\n   * %s\n   * @deprecated Prefer the 64-bit variant.\n   * @param x the value\n   * @return Object_OK\n   */",
            "/**\n   @deprecated %s\n   @Deprecated\n   #[deprecated]\n   __attribute__((deprecated))\n   */",
            "/**\n   * %s\n   * \\deprecated \\brief #pragma once #define X 1 #include <x.h>\n   * @since 1.2 @see other @throws never {@link x} <pre> </pre> <b>bold</b>\n   */",
            "/**\n   * @optional @unsafe #[optional] %s [[nodiscard]] [[deprecated]] TODO: FIXME: NOLINT\n   * #[must_use] #[inline] @Override @SuppressWarnings(\"all\") @Nullable\n   */"]


def tokens(txt):
    return re.findall(r"[A-Za-z_][A-Za-z_0-9]*|\d+|[^\sA-Za-z_0-9]", txt)


def diff_outputs(ref, var, mode="bytes"):
    """list of (backend, what)"""
    out = []
    for tag in ref:
        if (ref[tag][0] == 0) != (var[tag][0] == 0):
            out.append((tag, "exit status %s vs %s: %s" % (ref[tag][0], var[tag][0], var[tag][2][-120:])))
            continue
        if ref[tag][0] != 0:
            continue
        a, b = ref[tag][1], var[tag][1]
        if set(a) != set(b):
            out.append((tag, "file names differ: %s" % sorted(set(a) ^ set(b))))
            continue
        for fn in a:
            x, y = a[fn], b[fn]
            if mode == "nocomments":
                lang = tag.split("_")[0]
                x, y = strip_comments(x, lang), strip_comments(y, lang)
            if x != y:
                out.append((tag, "content of %s differs" % fn))
    return out


def run(ctx):
    prop, tier, seed, work = ctx["prop"], ctx["tier"], ctx["seed"], ctx["work"]
    n = 24 if tier == "quick" else 600
    res = {"coverage": {}, "failures": [], "corr_broken": []}
    if not ctx["harness"] or not ctx["checks_vo"]:
        res["coverage"] = {"evaluations": 0, "distinct_nontrivial": 0, "rule": "not run", "samples": []}
        return res
    rng = vlib.mkrng(seed, prop)
    bases = []
    replay_set = None
    if ctx.get("replay"):
        rp = json.load(open(ctx["replay"]))
        if "file" in rp:
            bases.append(rp["file"])
        else:
            replay_set = rp.get("fileset")
    else:
        for k in range(n):
            fs, _ = gen.gen_fileset(rng, nfiles=1, allow_obj_struct=(k % 2 == 0))
            if k % 4 == 1:
                # every struct declared after the interfaces that use it (their relative order kept)
                f0 = fs["files"][0]
                f0["decls"] = [d for d in f0["decls"] if d[0] != "struct"] + [d for d in f0["decls"] if d[0] == "struct"]
            bases.append(fs["files"][0])

    def one(k):
        f = bases[k]
        d = os.path.join(work, "cases", str(k))
        os.makedirs(d, exist_ok=True)
        r = vlib.mkrng(seed, "%s-%d" % (prop, k))
        out = {"variants": [], "trees": []}

        def write(name, text):
            p = os.path.join(d, name + ".idl")
            open(p, "w", newline="").write(text)
            return p
        # all variants are written under the same stem so that file-level names match
        def build(name, text, extra=()):
            vd = os.path.join(d, name)
            os.makedirs(vd, exist_ok=True)
            p = os.path.join(vd, "unit.idl")
            open(p, "w", newline="").write(text)
            return p, compile_all(ctx["idlc"], p, os.path.join(vd, "out"), extra)
        plain_text = gen.render_trivia(f, r, "plain")
        psrc, ref = build("plain", plain_text)
        for mode, count in (("ws", 2), ("level_comments", 2), ("param_comments", 2), ("inner_comments", 2)):
            for j in range(count):
                txt = gen.render_trivia(f, r, mode)
                p, o = build("%s%d" % (mode, j), txt)
                out["variants"].append((mode, txt, diff_outputs(ref, o)))
                if j == 0:
                    out["trees"].append((mode, p))
        # documentation edits: every method gets / loses / changes documentation
        g = copy.deepcopy(f)
        h = copy.deepcopy(f)
        has_method = False
        for di, dcl in enumerate(g["decls"]):
            if dcl[0] == "iface":
                mem, mem2 = [], []
                for m in dcl[3]:
                    if m[0] == "method":
                        has_method = True
                        mem.append((m[0], m[1], m[2], m[3], r.choice(DOC_POOL) % m[1]))
                        mem2.append((m[0], m[1], m[2], m[3], None))
                    else:
                        mem.append(m); mem2.append(m)
                g["decls"][di] = (dcl[0], dcl[1], dcl[2], mem)
                h["decls"][di] = (dcl[0], dcl[1], dcl[2], mem2)
        if has_method:
            _, o1 = build("doc_changed", gen.render_trivia(g, r, "plain"))
            _, o2 = build("doc_removed", gen.render_trivia(h, r, "plain"))
            out["variants"].append(("doc_changed", None, diff_outputs(ref, o1, "nocomments")))
            out["variants"].append(("doc_removed", None, diff_outputs(ref, o2, "nocomments")))
            # the same edit made in place: the documented revision is generated first, the revision without
            # documentation (and without the marking) is generated over it - what comes out is what a fresh
            # directory gets
            mk0 = os.path.join(d, "MARK_inplace")
            open(mk0, "w").write("Copyright (c) someone\nAll rights reserved.\nA third line to make the first revision longer.\n")
            vd = os.path.join(d, "inplace")
            os.makedirs(vd, exist_ok=True)
            p0 = os.path.join(vd, "unit.idl")
            open(p0, "w", newline="").write(gen.render_trivia(g, r, "plain"))
            compile_all(ctx["idlc"], p0, os.path.join(vd, "out"), ["--marking", mk0])
            open(p0, "w", newline="").write(gen.render_trivia(h, r, "plain"))
            o5 = compile_all(ctx["idlc"], p0, os.path.join(vd, "out"), [], keep=True)
            out["variants"].append(("doc_removed_in_place", None, diff_outputs(o2, o5)))
            # documentation then an ordinary comment: the documentation must still be emitted
            txt = gen.render_trivia(g, r, "plain").replace("   */\n", "   */\n// ordinary\n", 1)
            _, o3 = build("doc_then_comment", txt)
            out["variants"].append(("doc_then_comment", txt, diff_outputs(o1, o3)))
        # documentation in front of constants and errors of an interface: only methods carry
        # documentation, so these blocks change nothing - in particular they do not wander to a later method
        ptxt = gen.render_trivia(f, r, "plain")
        dtxt = re.sub(r"(?m)^(\s*)(const |error )", lambda m_: "%s/**\n%s * stray %s\n%s */\n%s%s" % (m_.group(1), m_.group(1), m_.group(2).strip(), m_.group(1), m_.group(1), m_.group(2)), ptxt)
        if dtxt != ptxt:
            _, o4 = build("doc_before_nonmethod", dtxt)
            out["variants"].append(("doc_before_nonmethod", dtxt, diff_outputs(ref, o4)))
        # marking: only a comment block is prepended
        for mname, mtext in (("marking", "Copyright (c) someone\nAll rights reserved. // plain\n"),
                             ("marking_slashes", "// SPDX-License-Identifier: BSD-3-Clause\nCopyright (c) someone\n  indented line\n\n# not a directive\n//\nlast line without newline"),
                             ("marking_comment_end", "Copyright (c) someone\nAll rights reserved. */ // tricky\n")):
          mk = os.path.join(d, "MARK_" + mname)
          open(mk, "w").write(mtext)
          _, om = build(mname, plain_text, ["--marking", mk])
          md = []
          for tag in ref:
            if ref[tag][0] != 0 or om[tag][0] != 0:
                if ref[tag][0] != om[tag][0]:
                    md.append((tag, "exit status differs with --marking"))
                continue
            for fn, base in ref[tag][1].items():
                withm = om[tag][1].get(fn)
                if withm is None or not withm.endswith(base):
                    md.append((tag, "%s: output with marking does not end with the output without" % fn))
                    continue
                pre = withm[:len(withm) - len(base)]
                lang = tag.split("_")[0]
                if strip_comments(pre, lang) != "":
                    md.append((tag, "%s: the prepended block is not only comments: %r" % (fn, pre[:80])))
          out["variants"].append((mname, None, md))
        # untyped objects: only object type names in C signatures / declarations change
        _, ou = build("untyped", plain_text, ["--no-typed-objects"])
        ud, uc = [], []
        ifnames = {dcl[1] for dcl in f["decls"] if dcl[0] == "iface"}
        for tag in ref:
            if (ref[tag][0] == 0) != (ou[tag][0] == 0):
                ud.append((tag, "exit status differs with --no-typed-objects")); continue
            if ref[tag][0] != 0:
                continue
            for fn, base in ref[tag][1].items():
                other = ou[tag][1].get(fn, "")
                if tag in ("c", "c_skel"):
                    # the typed names are introduced by `typedef Object <I>;` lines: part of the spelling
                    base2 = re.sub(r"(?m)^typedef Object \w+;$", "", base)
                    ta, tb = tokens(base2), tokens(other)
                    if len(ta) != len(tb) or any(x != y and not (y == "Object" and x in ifnames) for x, y in zip(ta, tb)):
                        # second chance: the only further difference is a dropped `const` before Object
                        ta2 = tokens(re.sub(r"\bconst (\w+ \(\*)", r"\1", base2))
                        tb2 = tokens(re.sub(r"\bconst (\w+ \(\*)", r"\1", other))
                        if len(ta2) == len(tb2) and all(x == y or (y == "Object" and x in ifnames) for x, y in zip(ta2, tb2)):
                            uc.append((tag, "%s: `const` of input object arrays is dropped with --no-typed-objects" % fn))
                        else:
                            ud.append((tag, "%s: differs by more than object type spellings" % fn))
                elif base != other:
                    ud.append((tag, "%s: --no-typed-objects changed a non-C backend" % fn))
        out["variants"].append(("untyped", None, ud))
        out["variants"].append(("untyped_const", None, uc))
        return k, out

    with ThreadPoolExecutor(max_workers=vlib.NCPU) as ex:
        results = dict(ex.map(one, range(len(bases))))
    # --no-typed-objects on file sets with includes (inheritance, constants and object types that
    # come from included files): still nothing but the spelling of object types may change
    def untyped_set(m):
        r = vlib.mkrng(seed, "%s-set-%d" % (prop, m))
        if replay_set is not None:
            fs = replay_set
        else:
            fs, _ = gen.gen_fileset(r, nfiles=r.choice([2, 3]), allow_obj_struct=(m % 2 == 0))
        root = os.path.join(work, "sets", str(m))
        gen.write_fileset(fs, root)
        ifnames = {dcl[1] for f in fs["files"] for dcl in f["decls"] if dcl[0] == "iface"}
        ud = []
        for f in fs["files"]:
            src = os.path.join(root, f["path"])
            stem = os.path.splitext(os.path.basename(f["path"]))[0]
            ty = compile_all(ctx["idlc"], src, os.path.join(root, "typed_" + stem), [])
            un = compile_all(ctx["idlc"], src, os.path.join(root, "untyped_" + stem), ["--no-typed-objects"])
            for tag in ty:
                if (ty[tag][0] == 0) != (un[tag][0] == 0):
                    ud.append((tag, "%s: exit status differs with --no-typed-objects" % f["path"])); continue
                if ty[tag][0] != 0:
                    continue
                for fn, base in ty[tag][1].items():
                    other = un[tag][1].get(fn, "")
                    if tag in ("c", "c_skel"):
                        base2 = re.sub(r"(?m)^typedef Object \w+;$", "", base)
                        ta2 = tokens(re.sub(r"\bconst (\w+ \(\*)", r"\1", base2))
                        tb2 = tokens(re.sub(r"\bconst (\w+ \(\*)", r"\1", other))
                        if len(ta2) != len(tb2) or any(x != y and not (y == "Object" and x in ifnames) for x, y in zip(ta2, tb2)):
                            ud.append((tag, "%s -> %s: differs by more than object type spellings" % (f["path"], fn)))
                    elif base != other:
                        ud.append((tag, "%s -> %s: --no-typed-objects changed a non-C backend" % (f["path"], fn)))
        return m, (fs, ud)

    nsets = 6 if tier == "quick" else 120
    with ThreadPoolExecutor(max_workers=vlib.NCPU) as ex:
        set_results = dict(ex.map(untyped_set, range(nsets if not ctx.get("replay") else (1 if replay_set is not None else 0))))
    for m, (fs, ud) in set_results.items():
        if ud:
            res["failures"].append({"property": prop, "fileset": fs, "variant": "untyped (file set with includes)",
                                    "text": {f["path"]: gen.render_file(f) for f in fs["files"]},
                                    "what": "--no-typed-objects changes more than the spelling of object types: %s" % (ud[0],)})
    # PST model on the trees of the trivia variants
    lines, tree_jobs = [], []
    for k, out in results.items():
        for mode, p in out["trees"]:
            tree_jobs.append((len(tree_jobs), k, mode, p))
            lines.append("%d\t-\t%s" % (len(tree_jobs) - 1, p))
    lf = os.path.join(work, "list.txt")
    open(lf, "w").write("\n".join(lines) + "\n")
    rc, o, e = vlib.run([ctx["harness"], "ast", lf], timeout=600)
    hres = vlib.parse_harness(o)
    defs = []
    for jid, k, mode, p in tree_jobs:
        r = vlib.run([ctx["idlc"], "--dump", "pst", p], timeout=60)
        h = hres.get(str(jid))
        if r[0] != 0 or not r[1].lstrip().startswith("[") or not h:
            continue
        try:
            tree = pstdump.parse(r[1])
        except Exception:
            continue
        if not pstdump.ascii_only(tree):
            continue
        ok = h["result"] == "ok"
        d = "Definition t_%d : tree := %s.\nDefinition a_%d : list node := %s.\n" % (jid, pstdump.gallina(tree), jid, ("a_nodes " + h["ast"]) if ok else "[]")
        defs.append((jid, d, "chk_pst false t_%d %s a_%d" % (jid, "true" if ok else "false", jid)))
    mres, errors = vlib.eval_cases(os.path.join(work, "coq"), "trees", "From MinkV Require Import Pst.\nOpen Scope list_scope.\n", defs, shard_size=12)
    for e2 in errors:
        res["corr_broken"].append({"kind": "case-evaluation", "detail": e2})
    # text -> pair tree of the same variants: the PEG model on the regenerated grammar vs pest
    pdefs = []
    for jid, k, mode, p in tree_jobs:
        raw = open(p, "rb").read()
        if len(raw) > 6000:
            continue
        r = vlib.run([ctx["idlc"], "--dump", "pst", p], timeout=60)
        tree = None
        if r[0] == 0 and r[1].lstrip().startswith("["):
            try:
                tree = pstdump.parse(r[1])
            except Exception:
                continue
        dump = "None" if tree is None else "(Some %s)" % pstdump.gallina(pstdump.san_bytes_tree(tree))
        pdefs.append((jid, "", "[chk_peg [%s]%%N %s]" % ("; ".join(str(b) for b in raw), dump)))
    pres, perrors = vlib.eval_cases(os.path.join(work, "coqp"), "pegtrees", "From MinkV Require Import Pst.\nOpen Scope list_scope.\n", pdefs, shard_size=12)
    for e2 in perrors:
        res["corr_broken"].append({"kind": "case-evaluation", "detail": e2})
    peg_hist = {"agree": 0, "differ": 0}
    for jid, k, mode, p in tree_jobs:
        fl = pres.get(jid)
        if fl is None:
            continue
        if fl[0] == 1:
            peg_hist["agree"] += 1
        else:
            peg_hist["differ"] += 1
            res["corr_broken"].append({"kind": "correspondence", "detail": "PEG model (regenerated grammar) vs pest disagree on a %s variant of case %d" % (mode, k),
                                       "case": {"property": prop, "variant": mode, "text": open(p, "rb").read().decode("utf-8", "replace")[:3000]}})
    for jid, k, mode, p in tree_jobs:
        fl = mres.get(jid)
        if fl is not None and fl[0] == 0:
            res["corr_broken"].append({"kind": "correspondence", "detail": "PST->AST model vs real parser disagree on a %s variant of case %d (flags %s)" % (mode, k, fl)})
        if fl is not None and mode in ("ws", "level_comments") and fl[2] == 0:
            res["corr_broken"].append({"kind": "correspondence", "detail": "a %s variant of case %d has a pair tree outside the well-formed shapes" % (mode, k)})
    hist, nvar, distinct = {}, 0, 0
    KNOWN = {"inner_comments": "K_comment_pairs", "doc_then_comment": "K_doc_then_comment",
             "marking_comment_end": "K_marking_comment_end", "untyped_const": "K_untyped_drops_const"}
    for k, out in results.items():
        f = bases[k]
        if sum(1 for d in f["decls"]) >= 2:
            distinct += 1
        for mode, txt, diffs in out["variants"]:
            nvar += 1
            hist.setdefault(mode, [0, 0])
            hist[mode][0] += 1
            if not diffs:
                continue
            hist[mode][1] += 1
            fl = {"property": prop, "file": f, "variant": mode, "variant_text": txt, "plain_text": gen.render_trivia(f, vlib.mkrng(0, "x"), "plain"),
                  "differences": [list(x) for x in diffs[:6]],
                  "what": "%s variant changes the output: %s" % (mode, diffs[0])}
            if mode in KNOWN:
                fl["known_class"] = KNOWN[mode]
            res["failures"].append(fl)
    res["coverage"] = {
        "evaluations": nvar, "distinct_nontrivial": distinct,
        "peg_model": peg_hist,
        "rule": "per generated single-file program: 2 whitespace/line-break re-renderings, 2 with ordinary comments between declarations/fields/members, "
                "2 with comments between whole parameters (after the opening parenthesis, after commas, before the closing parenthesis), 2 with comments between tokens, documentation changed / removed / followed by a comment, --marking, --no-typed-objects; each compared "
                "with the plain rendering over 6 backend outputs; non-trivial = at least 2 declarations",
        "samples": [{"variant": v[0], "text": (v[1] or "")[:300]} for v in list(results.values())[0]["variants"][:2]] if results else [],
        "variants_run_and_differing": hist, "pst_trees_evaluated": len(mres),
    }
    return res
