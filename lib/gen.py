"""Case generators: abstract IDL file sets (python structures) and their rendering.

Abstract form
  fileset = {"files": [File], "main": name, "idirs": [dir]}   (paths relative to the case dir)
  File    = {"path": "d/x.idl", "includes": ["y.idl"], "decls": [decl]}
  decl    = ("const", prim, name, literal) | ("struct", name, [(type, count, fname)])
          | ("iface", name, base|None, [member])
  member  = ("const", prim, name, literal) | ("error", name)
          | ("method", name, [(dir, type, shape, pname)], optional, doc|None)
  shape   = None | "[]" | "[n]"
All random choices come from the rng passed in.
"""
import copy

PRIMS = ["uint8", "uint16", "uint32", "uint64", "int8", "int16", "int32", "int64", "float32", "float64"]
PSIZE = {"uint8": 1, "int8": 1, "uint16": 2, "int16": 2, "uint32": 4, "int32": 4, "float32": 4,
         "uint64": 8, "int64": 8, "float64": 8}
RANGE = {"uint8": (0, 2**8 - 1), "uint16": (0, 2**16 - 1), "uint32": (0, 2**32 - 1), "uint64": (0, 2**64 - 1),
         "int8": (-2**7, 2**7 - 1), "int16": (-2**15, 2**15 - 1), "int32": (-2**31, 2**31 - 1),
         "int64": (-2**63, 2**63 - 1)}


class Ctx:
    """bookkeeping of what exists so far: struct sizes/alignments/object-bearing, interfaces"""

    def __init__(self, rng):
        self.rng = rng
        self.structs = {}   # name -> dict(size, align, objs:int, fields)
        self.ifaces = {}    # name -> dict(base, methods:set, consts:set)
        self.n = 0
        self.cur = 0            # index of the file being generated
        self.closure = {0}      # files visible from it (itself + include closure)

    def vis_structs(self):
        return [s for s in sorted(self.structs) if self.structs[s]["file"] in self.closure]

    def vis_ifaces(self):
        return [i for i in sorted(self.ifaces) if self.ifaces[i]["file"] in self.closure]

    def fresh(self, prefix):
        self.n += 1
        return "%s%d" % (prefix, self.n)


def rand_literal(rng, prim):
    if prim.startswith("float"):
        return rng.choice(["0", "1.5", "-2.25", "3", "100.125", "-0.5"])
    lo, hi = RANGE[prim]
    v = rng.choice([lo, hi, 0, 1, rng.randint(lo, hi), rng.randint(max(lo, -100), min(hi, 100))])
    if v >= 0 and rng.random() < 0.3:
        return "0x%X" % v
    return str(v)


def gen_struct(ctx, name, allow_obj=True, max_fields=6, small_bias=0.5, free=False, big_counts=False):
    """aligned by construction: random fields, padding inserted where needed
    (free=True: no padding is inserted, so the struct may violate the alignment rules)"""
    rng = ctx.rng
    fields, off, al, objs = [], 0, 1, 0
    nf = rng.randint(1, max_fields)
    target_small = rng.random() < small_bias
    for k in range(nf):
        r = rng.random()
        if r < 0.62 or not ctx.vis_structs():
            t = rng.choice(PRIMS)
            sz, a, o = PSIZE[t], PSIZE[t], 0
        elif r < 0.72 and allow_obj:
            t = "interface"
            sz, a, o = 16, 16, 1
        elif r < 0.80 and allow_obj and ctx.vis_ifaces():
            t = rng.choice(ctx.vis_ifaces())
            sz, a, o = 16, 8, 1
        else:
            cands = [s for s in ctx.vis_structs() if allow_obj or ctx.structs[s]["objs"] == 0]
            if not cands:
                t = rng.choice(PRIMS); sz, a, o = PSIZE[t], PSIZE[t], 0
            else:
                t = rng.choice(cands)
                sz, a, o = ctx.structs[t]["size"], ctx.structs[t]["align"], ctx.structs[t]["objs"]
        cnt = 1
        if o == 0 and rng.random() < 0.25:
            cnt = rng.choice([2, 3, 4, 7, 8, 15, 16, 17] + ([255, 256, 1000, 65535] if big_counts else []))
        if target_small and off + sz * cnt > 16 and fields:
            break
        if off % a and not free:
            pad = a - off % a
            fields.append(("uint8", pad, "pad%d" % len(fields)))
            off += pad
        fields.append((t, cnt, "f%d" % len(fields)))
        off += sz * cnt
        al = max(al, a)
        objs += o * cnt
    if off % al and not free:
        pad = al - off % al
        fields.append(("uint8", pad, "pad%d" % len(fields)))
        off += pad
    ctx.structs[name] = {"size": off, "align": al, "objs": objs, "fields": fields, "file": ctx.cur}
    return ("struct", name, fields)


def data_types(ctx, want_objs=None):
    out = []
    for s in ctx.vis_structs():
        o = ctx.structs[s]["objs"]
        if want_objs is None or (o > 0) == want_objs:
            out.append(s)
    return out


def gen_params(ctx, nmax=8, allow_obj_struct=True, force=None):
    """a rule-respecting parameter list (C09 rules incl. those the compiler does not
    enforce): counts <= 15 per class, at most one object array per direction and then
    no single objects (nor object-bearing structs) in that direction."""
    rng = ctx.rng
    n = rng.randint(0, nmax)
    params = []
    objarr = {"in": False, "out": False}
    objval = {"in": False, "out": False}
    nbuf = {"in": 0, "out": 0}
    nobj = {"in": 0, "out": 0}
    small = {"in": 0, "out": 0}
    for k in range(n):
        d = rng.choice(["in", "out"])
        r = rng.random()
        name = "p%d" % k
        plain = data_types(ctx, False)
        withobj = data_types(ctx, True)
        if r < 0.30:
            t, sh = rng.choice(PRIMS), None
            small[d] += 1
        elif r < 0.40:
            t, sh = "buffer", None
            nbuf[d] += 1
        elif r < 0.52:
            t, sh = rng.choice(PRIMS), "[]"
            nbuf[d] += 1
        elif r < 0.64 and plain:
            t, sh = rng.choice(plain), None
            if ctx.structs[t]["size"] <= 16:
                small[d] += 1
            else:
                nbuf[d] += 1
        elif r < 0.70 and plain:
            t, sh = rng.choice(plain), "[]"
            nbuf[d] += 1
        elif r < 0.82:
            if objarr[d]:
                continue
            t, sh = rng.choice(["interface"] + ctx.vis_ifaces()), None
            if nobj[d] + 1 > 15:
                continue
            objval[d] = True
            nobj[d] += 1
        elif r < 0.88:
            if objarr[d] or objval[d]:
                continue
            c = rng.choice([1, 2, 3, 5, 15])
            if nobj[d] + c > 15:
                continue
            t, sh = rng.choice(["interface"] + ctx.vis_ifaces()), "[%d]" % c
            objarr[d] = True
            nobj[d] += c
        elif withobj and allow_obj_struct:
            if objarr[d]:
                continue
            t, sh = rng.choice(withobj), None
            o = ctx.structs[t]["objs"]
            if nobj[d] + o > 15:
                continue
            objval[d] = True
            nobj[d] += o
            if ctx.structs[t]["size"] <= 16:
                small[d] += 1
            else:
                nbuf[d] += 1
        else:
            continue
        if nbuf[d] + (1 if small[d] else 0) > 15:
            params_ok = False
            # undo bookkeeping is not needed: drop the parameter and stop adding to this direction
            if sh is None and t in PRIMS:
                small[d] -= 1
            continue
        params.append((d, t, sh, name))
    return params


# documentation blocks: plain, text left of the asterisk column starting with a multi-byte character,
# a line ending in a backslash, tabs, a second block-comment opener
DOCS = ["/**\n   * doc %d\n   */", "/**\n   * doc %d\n   */", "/**\n  µm  Mikrometer %d\n   */",
        "/**\n   * below C:\\logs\\ %d \\\n   */", "/**\n\t* tab %d\n\t*/", "/**\n * %d /* opener // slashes\n * second line é\n */"]


def gen_iface(ctx, name, base=None, nmembers=None, allow_obj_struct=True):
    rng = ctx.rng
    members = []
    n = rng.randint(0, 8) if nmembers is None else nmembers
    for k in range(n):
        r = rng.random()
        if r < 0.15:
            p = rng.choice(PRIMS)
            members.append(("const", p, ctx.fresh("K"), rand_literal(rng, p)))
        elif r < 0.35:
            members.append(("error", ctx.fresh("E")))
        else:
            doc = None
            if rng.random() < 0.2:
                doc = rng.choice(DOCS) % k
            members.append(("method", ctx.fresh("m"), gen_params(ctx, allow_obj_struct=allow_obj_struct),
                            rng.random() < 0.15, doc))
    ctx.ifaces[name] = {"base": base, "file": ctx.cur}
    return ("iface", name, base, members)


def gen_fileset(rng, nfiles=None, nstructs=None, nifaces=None, depth=None, allow_obj_struct=True):
    """a valid file set: includes form a DAG (file k may include files < k... reversed:
    main is the last, includes come earlier)"""
    ctx = Ctx(rng)
    nfiles = rng.choice([1, 1, 2, 3]) if nfiles is None else nfiles
    files = []
    closures = []
    for k in range(nfiles):
        is_main = k == nfiles - 1
        path = "main.idl" if is_main else "inc%d.idl" % k
        incs = []
        ctx.cur = k
        ctx.closure = {k}
        for j in range(k):
            if rng.random() < 0.6 or (is_main and j == k - 1):
                incs.append(files[j]["path"])
                ctx.closure |= closures[j]
        closures.append(set(ctx.closure))
        decls = []
        ns = rng.randint(0, 4) if nstructs is None else nstructs
        ni = rng.randint(1, 3) if nifaces is None else nifaces
        nc = rng.randint(0, 2)
        slots = ["s"] * ns + ["i"] * ni + ["c"] * nc
        rng.shuffle(slots)
        for s in slots:
            if s == "s":
                decls.append(gen_struct(ctx, ctx.fresh("S"), allow_obj=allow_obj_struct))
            elif s == "c":
                p = rng.choice(PRIMS)
                decls.append(("const", p, ctx.fresh("C"), rand_literal(rng, p)))
            else:
                base = None
                if ctx.vis_ifaces() and rng.random() < (0.6 if depth is None else 0.9):
                    base = rng.choice(ctx.vis_ifaces())
                decls.append(gen_iface(ctx, ctx.fresh("I"), base, allow_obj_struct=allow_obj_struct))
        files.append({"path": path, "includes": incs, "decls": decls})
    fs = prune_unreachable({"files": files, "main": "main.idl", "idirs": []})
    if rng.random() < 0.5:
        share_member_names(rng, fs)
    return fs, ctx


def prune_unreachable(fs):
    """keep only the files the main file reaches through includes"""
    by = {f["path"]: f for f in fs["files"]}
    seen, todo = set(), [fs["main"]]
    while todo:
        p = todo.pop()
        if p in seen or p not in by:
            continue
        seen.add(p)
        todo += by[p]["includes"]
    fs["files"] = [f for f in fs["files"] if f["path"] in seen]
    return fs


# ------------------------------------------------------------------ rendering

def render_param(p):
    d, t, sh, name = p
    return "%s %s%s %s" % (d, t, sh or "", name)


def render_member(m, ind="  "):
    if m[0] == "const":
        return "%sconst %s %s = %s;" % (ind, m[1], m[2], m[3])
    if m[0] == "error":
        return "%serror %s;" % (ind, m[1])
    _, name, params, optional, doc = m
    out = []
    if doc:
        out.append(ind + doc)
    if optional:
        out.append(ind + "#[optional]")
    out.append("%smethod %s(%s);" % (ind, name, ", ".join(render_param(p) for p in params)))
    return "\n".join(out)


def render_decl(d):
    if d[0] == "const":
        return "const %s %s = %s;" % (d[1], d[2], d[3])
    if d[0] == "struct":
        fs = "\n".join("  %s%s %s;" % (t, "[%d]" % c if c != 1 else "", n) for t, c, n in d[2])
        return "struct %s {\n%s\n};" % (d[1], fs)
    _, name, base, members = d
    head = "interface %s%s {" % (name, " : " + base if base else "")
    return head + "\n" + "\n".join(render_member(m) for m in members) + ("\n" if members else "") + "};"


def render_file(f):
    out = ['include "%s"' % i for i in f["includes"]]
    out += [render_decl(d) for d in f["decls"]]
    return "\n".join(out) + "\n"


def write_fileset(fs, root):
    import os
    for f in fs["files"]:
        p = os.path.join(root, f["path"])
        os.makedirs(os.path.dirname(p), exist_ok=True)
        txt = f.get("text")
        if txt is None:
            txt = render_file(f)
        with open(p, "w") as fh:
            fh.write(txt)
    return os.path.join(root, fs["main"])


def clone(fs):
    return copy.deepcopy(fs)


# ------------------------------------------------------------------ rule-bending signatures (search streams)

def gen_params_wild(ctx, nmax=10):
    """parameter lists that ignore the soft rules: multiplicities beyond 15, several object
    arrays, object arrays mixed with single objects in the *other* direction, object-bearing
    structs anywhere.  Still respects what the grammar admits."""
    rng = ctx.rng
    n = rng.randint(1, nmax)
    params = []
    plain = data_types(ctx, False)
    withobj = data_types(ctx, True)
    for k in range(n):
        d = rng.choice(["in", "out"])
        r = rng.random()
        name = "p%d" % k
        if r < 0.2:
            t, sh = rng.choice(PRIMS), None
        elif r < 0.28:
            t, sh = "buffer", None
        elif r < 0.36:
            t, sh = rng.choice(PRIMS), "[]"
        elif r < 0.46 and plain:
            t, sh = rng.choice(plain), rng.choice([None, None, "[]"])
        elif r < 0.62:
            t, sh = rng.choice(["interface"] + ctx.vis_ifaces()), None
        elif r < 0.78:
            t, sh = rng.choice(["interface"] + ctx.vis_ifaces()), "[%d]" % rng.choice([1, 2, 3, 14, 15, 16, 17, 255, 256, 257, 260, 271, 272, 512, 65535])
        elif withobj:
            t, sh = rng.choice(withobj), None
        else:
            t, sh = rng.choice(PRIMS), None
        params.append((d, t, sh, name))
    return params


def gen_wild_fileset(rng):
    ctx = Ctx(rng)
    decls = []
    for _ in range(rng.randint(1, 4)):
        decls.append(gen_struct(ctx, ctx.fresh("S")))
    decls.append(gen_iface(ctx, ctx.fresh("I"), None, nmembers=2))
    members = []
    for _ in range(rng.randint(1, 4)):
        members.append(("method", ctx.fresh("m"), gen_params_wild(ctx), False, None))
    name = ctx.fresh("I")
    ctx.ifaces[name] = {"base": None, "file": 0}
    decls.append(("iface", name, None, members))
    return {"files": [{"path": "main.idl", "includes": [], "decls": decls}], "main": "main.idl", "idirs": []}


# ------------------------------------------------------------------ trivia-aware rendering (G5)
# A file is rendered as a token list with gaps.  Gap kinds:
#   "sep"   the grammar skips trivia here and the neighbours need a separator (two words)
#   "opt"   the grammar skips trivia here, nothing is required
#   "kw"    after an atomic keyword rule: exactly one whitespace first, then trivia is skipped
#   "level" like "opt"/"sep" but between whole declarations / fields / members (pst.rs filters
#           COMMENT pairs here)
#   "none"  no trivia allowed

def _decl_tokens(d, out):
    """appends (token, gap_after) pairs"""
    if d[0] == "const":
        out += [("const", "kw"), (d[1], "sep"), (d[2], "opt"), ("=", "opt"), (d[3], "opt"), (";", "level")]
    elif d[0] == "struct":
        out += [("struct", "kw"), (d[1], "opt"), ("{", "level")]
        for t, c, n in d[2]:
            out.append((t, "opt" if c != 1 else "sep"))
            if c != 1:
                out += [("[", "opt"), (str(c), "opt"), ("]", "opt")]
            out += [(n, "opt"), (";", "level")]
        out.append(("};", "level"))
    else:
        _, name, base, members = d
        out += [("interface", "kw"), (name, "opt")]
        if base:
            out += [(":", "opt"), (base, "opt")]
        out.append(("{", "level"))
        for m in members:
            if m[0] == "const":
                out += [("const", "kw"), (m[1], "sep"), (m[2], "opt"), ("=", "opt"), (m[3], "opt"), (";", "level")]
            elif m[0] == "error":
                out += [("error", "kw"), (m[1], "opt"), (";", "level")]
            else:
                _, mname, params, optional, doc = m
                if doc:
                    out.append((doc, "doc"))
                if optional:
                    out += [("#[optional]", "attr")]
                out += [("method", "kw"), (mname, "opt"), ("(", "lparen")]
                for k, (dr, t, sh, pn) in enumerate(params):
                    out.append((dr, "sep"))
                    if sh is None:
                        out.append((t, "sep"))
                    elif sh == "[]":
                        out += [(t, "opt"), ("[", "opt"), ("]", "opt")]
                    else:
                        out += [(t, "opt"), ("[", "opt"), (sh[1:-1], "opt"), ("]", "opt")]
                    out.append((pn, "opt" if k != len(params) - 1 else "lastparam"))
                    if k != len(params) - 1:
                        out.append((",", "comma"))
                out.append((");", "level"))
        out.append(("};", "level"))


def render_trivia(f, rng, mode):
    """mode: 'plain' | 'ws' | 'level_comments' | 'inner_comments' | 'param_comments' (ordinary
    comments after '(', after ',' and before ')' of a method: whole parameters on either side)"""
    toks = []
    for i in f["includes"]:
        toks.append(('include "%s"' % i, "level"))
    for d in f["decls"]:
        _decl_tokens(d, toks)

    def ws():
        return "".join(rng.choice([" ", "  ", "\t", "\n", "\n\n", "\r\n"]) for _ in range(rng.randint(1, 3)))

    def comment():
        return rng.choice(["/* c */", "/*c*/", "// c\n", "/* multi\n line */", "//\n", "/* // */", "/* method f(); */"])

    out = [rng.choice(["", " ", "\n", "// head\n", "/* head */\n"]) if mode != "plain" else ""]
    for k, (tok, gap) in enumerate(toks):
        out.append(tok)
        last = k == len(toks) - 1
        if gap in ("lparen", "comma", "lastparam"):
            if mode == "param_comments" and rng.random() < 0.6:
                out.append(rng.choice(["", " ", "\n"]) + comment() + rng.choice(["", " ", "\n  "]))
                continue
            gap = "opt"
        if mode == "plain":
            out.append({"sep": " ", "opt": " " if tok in ("=", ",", ":") or gap == "opt" and False else "", "kw": " ",
                        "level": "\n", "doc": "\n", "attr": "\n", "none": ""}[gap])
            continue
        if gap == "kw":
            s = rng.choice([" ", "\t", "\n"]) + (ws() if rng.random() < 0.3 else "")
            if mode == "inner_comments" and rng.random() < 0.3:
                s += comment() + ws()
        elif gap == "attr":
            s = rng.choice(["\n", " ", "\n  ", "\n\n", " \t "])
        elif gap == "doc":
            # between a documentation block and its member: any white space, blank lines included,
            # and (the comment modes) ordinary comments - none of it has interface meaning
            s = rng.choice(["\n", " ", "\n  ", "\n\n", "\n\n\n  ", "\r\n\r\n", "\t"])
            if mode in ("level_comments", "inner_comments") and rng.random() < 0.3:
                s += comment() + rng.choice(["\n", "\n\n", " "])
        elif gap == "level":
            s = ws() if rng.random() < 0.8 or last else ""
            if mode in ("level_comments", "inner_comments") and rng.random() < 0.4:
                nxt = toks[k + 1][1] if not last else None
                # not directly before a documentation block's method: the doc token comes next only
                s += comment() + ws()
        elif gap == "sep":
            s = ws()
            if mode == "inner_comments" and rng.random() < 0.25:
                s = rng.choice(["", ws()]) + comment() + rng.choice(["", ws()])
        else:  # opt
            s = ws() if rng.random() < 0.4 else ""
            if mode == "inner_comments" and rng.random() < 0.15:
                s += comment() + (ws() if rng.random() < 0.5 else "")
        out.append(s)
    return "".join(out)


def add_forward_refs(rng, fs, prob=0.5):
    """make some object parameters of an interface name an interface that the SAME file declares
    further down (accepted by the compiler: symbols are file-global).  Returns the number of
    parameters changed.  Only single typed/untyped objects and object arrays are retargeted, so
    every rule about parameter lists keeps holding."""
    changed = 0
    all_ifaces = {d[1] for f in fs["files"] for d in f["decls"] if d[0] == "iface"}
    for f in fs["files"]:
        names = [d[1] for d in f["decls"] if d[0] == "iface"]
        for i, d in enumerate(f["decls"]):
            if d[0] != "iface":
                continue
            later = names[names.index(d[1]) + 1:]
            if not later:
                continue
            ms = []
            for m in d[3]:
                if m[0] == "method":
                    ps = []
                    for (dr, t, sh, pn) in m[2]:
                        is_obj = t == "interface" or t in all_ifaces
                        if is_obj and rng.random() < prob:
                            t = rng.choice(later)
                            changed += 1
                        ps.append((dr, t, sh, pn))
                    m = (m[0], m[1], ps, m[3], m[4])
                ms.append(m)
            f["decls"][i] = ("iface", d[1], d[2], ms)
    return changed


def has_forward_ref(fs, path=None):
    """does a method of some interface (of file `path`, or of any file) name an interface that its
    own file declares further down?"""
    for f in fs["files"]:
        if path is not None and f["path"] != path:
            continue
        names = [d[1] for d in f["decls"] if d[0] == "iface"]
        for d in f["decls"]:
            if d[0] == "iface":
                later = names[names.index(d[1]) + 1:]
                for m in d[3]:
                    if m[0] == "method" and any(t in later for (_, t, _, _) in m[2]):
                        return True
            if d[0] == "struct":
                # a struct field may name a later interface too
                idx = f["decls"].index(d)
                later = [x[1] for x in f["decls"][idx + 1:] if x[0] == "iface"]
                if any(ft in later for (ft, c, fn) in d[2]):
                    return True
    return False


def reorder_structs(rng, fs):
    """declare the structs of every file in a random order (a struct may then precede the structs
    it contains: names are resolved file-wide, so this stays valid).  Returns True if some struct
    now precedes one of its member types."""
    forward = False
    for f in fs["files"]:
        pos = [i for i, d in enumerate(f["decls"]) if d[0] == "struct"]
        if len(pos) < 2:
            continue
        ss = [f["decls"][i] for i in pos]
        rng.shuffle(ss)
        for i, d in zip(pos, ss):
            f["decls"][i] = d
        seen = set()
        for d in f["decls"]:
            if d[0] == "struct":
                names = {x[1] for x in f["decls"] if x[0] == "struct"}
                if any(ft in names and ft not in seen for ft, c, fn in d[2]):
                    forward = True
                seen.add(d[1])
    return forward


ERR_POOL = ["E_BUSY", "E_FULL", "E_DENIED", "E_AGAIN", "E_GONE"]
KON_POOL = ["K_MAX", "K_MIN", "K_LIMIT", "K_VERSION"]


def share_member_names(rng, fs, prob=0.6):
    """errors and constants of different interfaces get the same names (drawn from small pools)
    wherever that is legal: a name must stay unique along every inheritance chain, so an interface
    avoids the names of its ancestors; unrelated interfaces and siblings may and do share names,
    at different positions."""
    allif = {d[1]: d for f in fs["files"] for d in f["decls"] if d[0] == "iface"}
    taken = {}          # interface -> names used by it and its ancestors
    for f in fs["files"]:
        for i, d in enumerate(f["decls"]):
            if d[0] != "iface":
                continue
            anc = set()
            b = d[2]
            while b is not None and b in allif:
                anc |= taken.get(b, set())
                b = allif[b][2]
            own = {m[1] if m[0] in ("method", "error") else m[2] for m in d[3]}
            ms = []
            for m in d[3]:
                if m[0] == "error" and rng.random() < prob:
                    c = [n for n in ERR_POOL if n not in anc and n not in own]
                    if c:
                        n = rng.choice(c); own.discard(m[1]); own.add(n); m = ("error", n)
                elif m[0] == "const" and rng.random() < prob:
                    c = [n for n in KON_POOL if n not in anc and n not in own]
                    if c:
                        n = rng.choice(c); own.discard(m[2]); own.add(n); m = ("const", m[1], n, m[3])
                ms.append(m)
            taken[d[1]] = anc | own
            f["decls"][i] = ("iface", d[1], d[2], ms)
            allif[d[1]] = f["decls"][i]
    return fs
