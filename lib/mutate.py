"""G6: single-violation mutants.  Each operator takes a valid abstract file set and returns
(mutated file set, info) where info = {rule, where: 'main'|'inc', detail, expect: 'reject'}
or None when it cannot apply.  Text-level mutants set f['text'] on a file."""
import copy
import gen


def _ifaces(fs):
    return [(fi, di, d) for fi, f in enumerate(fs["files"]) for di, d in enumerate(f["decls"]) if d[0] == "iface"]


def _structs(fs):
    return [(fi, di, d) for fi, f in enumerate(fs["files"]) for di, d in enumerate(f["decls"]) if d[0] == "struct"]


def _where(fs, fi):
    return "main" if fs["files"][fi]["path"] == fs["main"] else "inc"


def _allif(fs):
    return {d[1]: (fi, di, d) for fi, di, d in _ifaces(fs)}


def _chain(fs, name):
    a = _allif(fs)
    out, cur, n = [], name, 0
    while cur in a and n < 64:
        out.append(cur)
        cur = a[cur][2][2]
        n += 1
    return out


def _main_cone_ifaces(fs):
    """interfaces in the chain of some main-file interface"""
    s = set()
    for fi, di, d in _ifaces(fs):
        if _where(fs, fi) == "main":
            s.update(_chain(fs, d[1]))
    return s


def _struct_defs(fs):
    return {d[1]: (fi, d) for fi, di, d in _structs(fs)}


def _main_cone_structs(fs):
    """structs contained (transitively) in a main-file struct: what the verifier sees"""
    sd = _struct_defs(fs)
    seen = set()
    todo = [d[1] for fi, di, d in _structs(fs) if _where(fs, fi) == "main"]
    while todo:
        n = todo.pop()
        if n in seen or n not in sd:
            continue
        seen.add(n)
        for t, c, fn in sd[n][1][2]:
            if t in sd:
                todo.append(t)
    return seen


def _set_members(B, fi, di, members):
    d = B["files"][fi]["decls"][di]
    B["files"][fi]["decls"][di] = (d[0], d[1], d[2], members)


def _methods(d):
    return [(k, m) for k, m in enumerate(d[3]) if m[0] == "method"]


def m_dup_param(rng, fs):
    c = [(fi, di, d, k, m) for fi, di, d in _ifaces(fs) for k, m in _methods(d) if len(m[2]) >= 2]
    if not c:
        return None
    fi, di, d, k, m = rng.choice(c)
    B = copy.deepcopy(fs)
    ps = list(m[2])
    i, j = rng.sample(range(len(ps)), 2)
    ps[j] = (ps[j][0], ps[j][1], ps[j][2], ps[i][3])
    mem = list(d[3]); mem[k] = (m[0], m[1], ps, m[3], m[4])
    _set_members(B, fi, di, mem)
    return B, {"rule": "dup_param", "where": _where(fs, fi), "in_cone": d[1] in _main_cone_ifaces(fs), "iface": d[1]}


def m_dup_field(rng, fs):
    c = [(fi, di, d) for fi, di, d in _structs(fs) if len(d[2]) >= 2]
    if not c:
        return None
    fi, di, d = rng.choice(c)
    B = copy.deepcopy(fs)
    fl = list(d[2])
    i, j = rng.sample(range(len(fl)), 2)
    fl[j] = (fl[j][0], fl[j][1], fl[i][2])
    B["files"][fi]["decls"][di] = ("struct", d[1], fl)
    return B, {"rule": "dup_field", "where": _where(fs, fi), "in_cone": d[1] in _main_cone_structs(fs), "struct": d[1]}


def m_dup_member(rng, fs, kind):
    """duplicate method / const-or-error name along a chain"""
    a = _allif(fs)
    c = []
    for fi, di, d in _ifaces(fs):
        names = []
        for anc in _chain(fs, d[1]):
            for m in a[anc][2][3]:
                if (kind == "method") == (m[0] == "method"):
                    names.append((m[0], m[1] if m[0] != "const" else m[2]))
        if names:
            c.append((fi, di, d, names))
    if not c:
        return None
    fi, di, d, names = rng.choice(c)
    B = copy.deepcopy(fs)
    k0, nm = rng.choice(names)
    if kind == "method":
        new = ("method", nm, [], False, None)
    elif rng.random() < 0.5:
        new = ("error", nm)
    else:
        new = ("const", "uint8", nm, "1")
    _set_members(B, fi, di, list(d[3]) + [new])
    return B, {"rule": "dup_" + kind, "where": _where(fs, fi), "in_cone": d[1] in _main_cone_ifaces(fs), "iface": d[1]}


def m_dup_toplevel(rng, fs):
    tops = [(fi, di, d) for fi, f in enumerate(fs["files"]) for di, d in enumerate(f["decls"])]
    types = [x for x in tops if x[2][0] in ("struct", "iface")]
    consts = [x for x in tops if x[2][0] == "const"]
    B = copy.deepcopy(fs)
    r = rng.random()
    incs_ = [f for f in fs["files"] if f["path"] != fs["main"] and "/" not in f["path"] and f["decls"]]
    if incs_ and rng.random() < 0.3:
        # a second copy of an included file under the same file name in another directory (a vendored
        # tree), one declaration changed, both copies reached: the names are declared twice
        src = rng.choice(incs_)
        cp = copy.deepcopy(src)
        cp["path"] = "vendor/" + src["path"]
        cp["includes"] = []
        j = rng.randrange(len(cp["decls"]))
        d = cp["decls"][j]
        if d[0] == "iface":
            cp["decls"][j] = (d[0], d[1], None, [("error", "E_VENDOR_ONLY")] + [m for m in d[3] if m[0] != "method"] + [("method", "vendor_only", [], False, None)])
        elif d[0] == "struct":
            cp["decls"][j] = (d[0], d[1], [("uint64", 1, "vendor_only")])
        else:
            cp["decls"][j] = ("const", "uint8", d[2], "1")
        cp["decls"] = [cp["decls"][j]]
        B["files"].append(cp)
        mainf = [f for f in B["files"] if f["path"] == B["main"]][0]
        mainf["includes"] = list(mainf["includes"]) + [cp["path"]]
        return B, {"rule": "dup_toplevel_type" if d[0] != "const" else "dup_toplevel_const", "where": "inc", "same_named_file": True}
    if r < 0.4 and types:
        fi, di, d = rng.choice(types)
        tf = rng.randrange(len(fs["files"]))
        B["files"][tf]["decls"].append(("struct", d[1], [("uint8", 1, "z")]))
        return B, {"rule": "dup_toplevel_type", "where": _where(fs, tf)}
    if r < 0.7 and consts:
        fi, di, d = rng.choice(consts)
        tf = rng.randrange(len(fs["files"]))
        B["files"][tf]["decls"].append(("const", "uint8", d[2], "1"))
        return B, {"rule": "dup_toplevel_const", "where": _where(fs, tf)}
    if types:
        fi, di, d = rng.choice(types)
        tf = rng.randrange(len(fs["files"]))
        B["files"][tf]["decls"].append(("const", "uint8", d[1], "1"))
        return B, {"rule": "const_vs_type_name", "where": _where(fs, tf)}
    return None


def m_undefined(rng, fs):
    B = copy.deepcopy(fs)
    r = rng.random()
    if r < 0.35 and _structs(fs):
        fi, di, d = rng.choice(_structs(fs))
        fl = list(d[2]) + [("Nowhere", 1, "zz")]
        B["files"][fi]["decls"][di] = ("struct", d[1], fl)
        return B, {"rule": "undefined_field_type", "where": _where(fs, fi), "in_cone": d[1] in _main_cone_structs(fs)}
    c = [(fi, di, d, k, m) for fi, di, d in _ifaces(fs) for k, m in _methods(d)]
    if r < 0.7 and c:
        fi, di, d, k, m = rng.choice(c)
        mem = list(d[3]); mem[k] = (m[0], m[1], list(m[2]) + [("in", "Nowhere", None, "zz")], m[3], m[4])
        _set_members(B, fi, di, mem)
        return B, {"rule": "undefined_param_type", "where": _where(fs, fi), "in_cone": d[1] in _main_cone_ifaces(fs)}
    c = [(fi, di, d) for fi, di, d in _ifaces(fs) if d[2] is None]
    if c:
        fi, di, d = rng.choice(c)
        B["files"][fi]["decls"][di] = ("iface", d[1], "NoBase", d[3])
        return B, {"rule": "undefined_base", "where": _where(fs, fi), "in_cone": d[1] in _main_cone_ifaces(fs)}
    return None


def m_misaligned(rng, fs):
    """a new struct that violates exactly one alignment rule, at a random depth of nesting"""
    B = copy.deepcopy(fs)
    fi = rng.randrange(len(fs["files"]))
    depth = rng.randint(0, 2)
    if rng.random() < 0.5:
        rule, fields = "misaligned_member", [(rng.choice(["uint8", "int8", "uint16"]), 1, "a"), (rng.choice(["uint32", "uint64", "float64"]), 1, "b")]
        if fields[0][0] == "uint16" and fields[1][0] == "uint32":
            fields[0] = ("uint8", 1, "a")
    else:
        t = rng.choice(["uint32", "uint64", "uint16"])
        rule, fields = "misaligned_size", [(t, 1, "a"), ("uint8", 1, "b")]
    decls = [("struct", "ZMis0", fields)]
    v = rng.randint(0, 9)
    if v < 5:
        # the violation comes from a member that is itself a (valid) struct or an array: its size
        # is not a multiple of what follows, or exceeds the widest primitive while its alignment is smaller
        inner3 = ("struct", "ZIn3", [("uint32", 1, "a"), ("uint32", 1, "b"), ("uint32", 1, "c")])          # 12 bytes, alignment 4
        inner6 = ("struct", "ZIn6", [("uint16", 1, "a"), ("uint16", 1, "b"), ("uint16", 1, "c")])          # 6 bytes, alignment 2
        mid = ("struct", "ZMid", [("uint64", 1, "q"), ("ZIn3", 1, "i"), ("uint32", 1, "pad")])               # 24 bytes, alignment 8
        wide = rng.choice(["uint64", "float64", "int64"])
        if v == 0:
            rule, decls = "misaligned_size", [inner3, ("struct", "ZMis0", [(wide, 1, "x"), ("ZIn3", 1, "i")])]                  # 20 bytes, alignment 8
        elif v == 1:
            rule, decls = "misaligned_member", [inner3, mid, ("struct", "ZMis0", [("uint32", 1, "k"), ("ZMid", 1, "m"), ("uint32", 1, "t")])]   # ZMid at offset 4
        elif v == 2:
            rule, decls = "misaligned_member", [("struct", "ZMis0", [("uint8", rng.choice([1, 3, 5, 7]), "a"), (rng.choice(["uint32", "uint64"]), 1, "b")])]
        elif v == 3:
            rule, decls = "misaligned_member", [inner6, ("struct", "ZMis0", [("ZIn6", 1, "i"), ("uint32", 1, "x"), ("uint16", 1, "y")])]        # uint32 at offset 6
        else:
            rule, decls = "misaligned_member", [inner3, ("struct", "ZMis0", [("ZIn3", rng.choice([1, 3]), "i"), (wide, 1, "x"), ("ZIn3", 1, "j")])]  # 64-bit member at offset 12 or 36
    for d in range(depth):
        # an outer struct that is itself well-formed given an aligned inner one
        decls.append(("struct", "ZMis%d" % (d + 1), [("ZMis%d" % d, 1, "inner")]))
    pos = rng.randint(0, len(B["files"][fi]["decls"]))
    for k, d in enumerate(decls):
        B["files"][fi]["decls"].insert(pos + k, d)
    return B, {"rule": rule, "where": _where(fs, fi), "in_cone": _where(fs, fi) == "main", "struct": "ZMis0", "depth": depth}


def m_const_range(rng, fs):
    B = copy.deepcopy(fs)
    p, lit = rng.choice([("uint8", "256"), ("uint8", "-1"), ("int8", "128"), ("int8", "-129"), ("uint16", "65536"),
                         ("int16", "-32769"), ("uint32", "4294967296"), ("int32", "2147483648"),
                         ("uint64", "18446744073709551616"), ("int64", "9223372036854775808"), ("uint32", "-0x1"),
                         ("uint8", "0x100"), ("int64", "-9223372036854775809")])
    fi = rng.randrange(len(fs["files"]))
    ifs = [(f2, di, d) for f2, di, d in _ifaces(fs) if f2 == fi]
    if ifs and rng.random() < 0.5:
        _, di, d = rng.choice(ifs)
        _set_members(B, fi, di, list(d[3]) + [("const", p, "ZR", lit)])
    else:
        B["files"][fi]["decls"].append(("const", p, "ZR", lit))
    return B, {"rule": "const_range", "where": _where(fs, fi)}


def m_objarr(rng, fs, which):
    a = _allif(fs)
    c = _ifaces(fs)
    if not c:
        return None
    fi, di, d = rng.choice(c)
    B = copy.deepcopy(fs)
    dr = rng.choice(["in", "out"])
    sd = _struct_defs(fs)
    extra_decls = []
    if which == "unbounded":
        others = [n for n in a if n != d[1]] or None
        if not others:
            return None
        ps = [(dr, rng.choice(others), "[]", "za")]
    elif which == "with_single":
        ps = [(dr, "interface", "[2]", "za"), (dr, "interface", None, "zb")]
        if rng.random() < 0.5:
            ps.reverse()
    elif which == "two":
        ps = [(dr, "interface", "[2]", "za"), (dr, "interface", "[3]", "zb")]
    elif which == "objstruct_array_small":
        extra_decls = [("struct", "ZSmallObj", [("interface", 1, "o")])]
        ps = [(dr, "ZSmallObj", "[]", "za")]
    elif which == "objstruct_array_big":
        extra_decls = [("struct", "ZBigObj", [("interface", 1, "o"), ("uint64", 2, "t")])]
        ps = [(dr, "ZBigObj", "[]", "za")]
    elif which == "bounded_data":
        ps = [(dr, rng.choice(["uint32", "uint8", "float64"]), "[4]", "za")]
    else:
        return None
    for e in extra_decls:
        B["files"][fi]["decls"].insert(0, e)
        di += 1
    _set_members(B, fi, di, list(d[3]) + [("method", "zm", ps, False, None)])
    return B, {"rule": "objarr_" + which, "where": _where(fs, fi), "in_cone": d[1] in _main_cone_ifaces(fs), "dir": dr}


def m_cycle(rng, fs):
    B = copy.deepcopy(fs)
    r = rng.random()
    fi = rng.randrange(len(fs["files"]))
    if r < 0.3:
        B["files"][fi]["decls"].append(("struct", "ZSelf", [("uint32", 1, "a"), ("ZSelf", 1, "s")]))
        rule = "struct_cycle"
    elif r < 0.5:
        B["files"][fi]["decls"] += [("struct", "ZA", [("ZB", 1, "b")]), ("struct", "ZB", [("ZA", 1, "a")])]
        rule = "struct_cycle"
    elif r < 0.75:
        B["files"][fi]["decls"].append(("iface", "ZI", "ZI", []))
        rule = "inherit_cycle"
    else:
        B["files"][fi]["decls"] += [("iface", "ZI", "ZJ", []), ("iface", "ZJ", "ZI", [])]
        rule = "inherit_cycle"
    return B, {"rule": rule, "where": _where(fs, fi), "in_cone": _where(fs, fi) == "main"}


def m_text(rng, fs, which):
    """text-level violations (grammar, attributes, array sizes)"""
    B = copy.deepcopy(fs)
    fi = rng.randrange(len(fs["files"]))
    f = B["files"][fi]
    txt = gen.render_file(f)
    if which == "attr_dup":
        if "method " not in txt:
            return None
        txt = txt.replace("  method ", "  #[optional]\n  #[optional]\n  method ", 1)
        rule = "attr_dup"
    elif which == "grammar":
        if ";" not in txt:
            return None
        pos = [i for i, ch in enumerate(txt) if ch in ";{}(),"]
        i = rng.choice(pos)
        txt = txt[:i] + rng.choice(["", "@", ";;", " $ "]) + txt[i + 1:]
        rule = "grammar"
    elif which == "array_size":
        txt += "struct ZArr { uint8[%s] a; };\n" % rng.choice(["0", "65536", "100000", "4294967296"])
        rule = "array_size"
    elif which == "unknown_attr":
        if "method " not in txt:
            return None
        txt = txt.replace("  method ", "  #[deprecated]\n  method ", 1)
        rule = "grammar"
    else:
        return None
    f["text"] = txt
    return B, {"rule": rule, "where": _where(fs, fi)}


def m_include(rng, fs):
    B = copy.deepcopy(fs)
    r = rng.random()
    files = B["files"]
    main = [f for f in files if f["path"] == B["main"]][0]
    if r < 0.4:
        main["includes"] = list(main["includes"]) + ["missing_file.idl"]
        return B, {"rule": "include_missing", "where": "main"}
    if r < 0.6 or len(files) < 2:
        main["includes"] = list(main["includes"]) + [B["main"]]
        return B, {"rule": "include_cycle", "where": "main"}
    inc = [f for f in files if f["path"] != B["main"]]
    f = rng.choice(inc)
    r2 = rng.random()
    if r2 < 0.4:
        f["includes"] = list(f["includes"]) + [B["main"]]          # back to the root
    elif r2 < 0.7 or len(inc) < 2:
        f["includes"] = list(f["includes"]) + [f["path"]]          # an included file includes itself
    else:
        g = rng.choice([x for x in inc if x is not f])              # a ring among included files only
        f["includes"] = list(f["includes"]) + [g["path"]]
        g["includes"] = list(g["includes"]) + [f["path"]]
    # generated sets keep only files the main file reaches, so the cycle is reachable
    return B, {"rule": "include_cycle", "where": "inc"}


OPERATORS = [
    ("dup_param", m_dup_param), ("dup_field", m_dup_field),
    ("dup_method", lambda r, f: m_dup_member(r, f, "method")), ("dup_const", lambda r, f: m_dup_member(r, f, "const")),
    ("dup_toplevel", m_dup_toplevel), ("undefined", m_undefined), ("misaligned", m_misaligned),
    ("const_range", m_const_range),
    ("objarr_unbounded", lambda r, f: m_objarr(r, f, "unbounded")),
    ("objarr_with_single", lambda r, f: m_objarr(r, f, "with_single")),
    ("objarr_two", lambda r, f: m_objarr(r, f, "two")),
    ("objstruct_array_small", lambda r, f: m_objarr(r, f, "objstruct_array_small")),
    ("objstruct_array_big", lambda r, f: m_objarr(r, f, "objstruct_array_big")),
    ("bounded_data", lambda r, f: m_objarr(r, f, "bounded_data")),
    ("cycle", m_cycle),
    ("attr_dup", lambda r, f: m_text(r, f, "attr_dup")), ("grammar", lambda r, f: m_text(r, f, "grammar")),
    ("array_size", lambda r, f: m_text(r, f, "array_size")), ("unknown_attr", lambda r, f: m_text(r, f, "unknown_attr")),
    ("include", m_include),
]
