"""C03 (wire bytes): the copying transport of the L2 harness captures the bytes of every input
buffer a compiled C stub sends and of every output buffer the compiled skeleton returns; both are
compared with the reference encoder written from the Mink rule (l2c.ref_buffers).  The
skeleton is also driven directly with reference-encoded arguments."""
import json, os, re
from concurrent.futures import ThreadPoolExecutor
import gen, l2c, scrape, vlib
from p_roundtrip import gen_batch, wide_batch, KNOWN, TESTS


def handle_words_probe(ctx_, work, rng, nb):
    """'Object handles never travel inside data buffers' for the C, C++ and Rust stubs and skeletons:
    the nine-pairing program of the C05 harness (real stubs and skeletons of all three backends) runs
    with a wire spy between every caller and every implementation (rt/obj/main.c) that looks into every
    input buffer before the call and every output buffer after it for a word that is half of an
    object handle.  -> (calls seen, failures)"""
    import l2obj, p_refcount
    fails, seen = [], 0
    for b in range(nb):
        methods = l2obj.gen_methods(rng, 8, with_dup_path=(b == 0))
        root = os.path.join(work, "obj%d" % b)
        os.makedirs(root, exist_ok=True)
        open(os.path.join(root, "l2.idl"), "w").write(l2obj.render_idl(methods))
        err = p_refcount.emit(ctx_["idlc"], root)
        if err:
            continue
        r = p_refcount.build(root, methods, sides=p_refcount.SIDES)
        if r.get("stage") != "run":
            continue
        seen += r["out"].count("\nimpl ")
        pairing = None
        for l in r["out"].split("\n"):
            if l.startswith("pairing "):
                pairing = l[8:]
            elif l.startswith("wireleak "):
                fails.append({"property": ctx_["prop"], "idl": l2obj.render_idl(methods), "pairing (caller implementation)": pairing, "observed": l,
                              "what": "half of an object handle travels inside a data buffer (%s, pairing %s)" % (l, pairing)})
    return seen, fails[:12]


def same_bytes_probe(ctx_, work, rng, nb):
    """'All backends produce and accept the same bytes for the same call': the data nine-pairing program
    (lib/l2data.py: primitives of all widths, buffers, arrays, 8/16/17/24-byte structs, struct arrays) with
    the wire spy of rt/obj/main.c printing op, counts word, input bytes, output capacities and returned
    output bytes of every invocation; the nine pairings must print the same wire lines (the C stub's
    bytes are compared with the reference encoder by the batches above)."""
    import l2data
    fails, nlines = [], 0
    for b in range(nb):
        ms = l2data.gen_methods(rng, 9)
        op = l2data.mark_optional(rng, ms)
        r = l2data.build_and_run(ctx_["idlc"], os.path.join(work, "wiredata%d" % b), ms, chain=(b % 2 == 1), opt=op)
        idl = l2data.render_idl(ms, b % 2 == 1, op)
        if r.get("stage") != "run" or r.get("rc") != 0:
            f_ = {"property": ctx_["prop"], "idl": idl, "what": "the nine-pairing data program does not build or aborts (%s): %s" % (r.get("stage"), (r.get("err") or "")[-600:])}
            if re.search(r"misaligned address 0x[0-9a-f]+ for type 'struct b[io]'", r.get("err") or ""):
                f_["known_class"] = "K_bundle_alignment"
            fails.append(f_)
            continue
        nlines += r["out"].count("\nwire ")
        for pairing, line, refline in l2data.compare(r["out"], tags=("wire ", "wired "))[:6]:
            fails.append({"property": ctx_["prop"], "idl": idl, "pairing (caller implementation)": pairing, "observed": line[:900], "expected (pairing c c)": refline[:900],
                          "what": "pairing %s puts different bytes on the wire than the C stub / C skeleton for the same call" % pairing})
    return nlines, fails[:12]


def run(ctx_):
    prop, tier, seed, work = ctx_["prop"], ctx_["tier"], ctx_["seed"], ctx_["work"]
    nb = 6 if tier == "quick" else 150
    res = {"coverage": {}, "failures": [], "corr_broken": []}
    if not ctx_["harness"] or not ctx_["checks_vo"]:
        res["coverage"] = {"evaluations": 0, "distinct_nontrivial": 0, "rule": "not run", "samples": []}
        return res
    rng = vlib.mkrng(seed, prop)
    batches = [gen_batch(rng) for _ in range(nb)]
    batches[-1] = wide_batch(rng)
    lines = []
    for b, (c, fs, methods) in enumerate(batches):
        root = os.path.join(work, "b%d" % b)
        gen.write_fileset(fs, root)
        lines.append("%d\tcli\t-\t%s\t" % (b, os.path.join(root, "l2.idl")))
    cf = os.path.join(work, "cases.txt")
    open(cf, "w").write("\n".join(lines) + "\n")
    rc, out, err = vlib.run([ctx_["harness"], "front", cf], timeout=600)
    hres = vlib.parse_harness(out)
    defs = []
    for b in range(nb):
        h = hres.get(str(b))
        if h and h["result"] == "ok":
            defs.append((b, "Definition f_%d : list ast := %s.\n" % (b, h["files"]), 'chk_l2_classes f_%d "IL2"' % b))
    classes, errors = vlib.eval_cases(os.path.join(work, "coq"), "cls", "", defs, shard_size=4)
    for e in errors:
        res["corr_broken"].append({"kind": "case-evaluation", "detail": e})
    vals = [0, 1, 2]

    def do(b):
        c, fs, methods = batches[b]
        root = os.path.join(work, "b%d" % b)
        cl = classes.get(b)
        if cl is None or len(cl) != len(methods):
            return b, None
        scrape.idlc_run(ctx_["idlc"], os.path.join(root, "l2.idl"), os.path.join(root, "l2.h"), "c", False)
        scrape.idlc_run(ctx_["idlc"], os.path.join(root, "l2.idl"), os.path.join(root, "l2_invoke.h"), "c", True)
        out = {"bad": [], "known": {}, "n": 0}
        for code, cls in [(0, None)] + list(KNOWN.items()):
            grp = [m[0] for m, k in zip(methods, cl) if k == code]
            if not grp:
                continue
            src = l2c.generate(c, "IL2", methods, vals, 0, only=grp, refdrive=True)
            cfile = os.path.join(root, "w%d.c" % code)
            open(cfile, "w").write(src)
            exe = os.path.join(root, "w%d" % code)
            rc2, o, e = vlib.run(["gcc", "-std=gnu11", "-g", "-O1", "-fsanitize=address,undefined", "-fno-sanitize-recover=undefined", "-Wall", "-Wextra", "-Werror",
                                  "-Wno-unused-parameter", "-Wno-unused-function", "-I" + os.path.join(TESTS, "c"), "-I" + root, cfile, "-o", exe], timeout=300)
            bad = []
            if rc2 != 0:
                bad.append(("*", -1, "builds", e[-500:]))
            else:
                rc3, o, e = vlib.run([exe], timeout=120, env=dict(vlib.ENV, ASAN_OPTIONS="detect_leaks=0"))
                log = o.split("\n")
                xp = [l for l in log if l.startswith("xport op=")]
                xr = [l for l in log if l.startswith("xport ret=")]
                rd = [l for l in log if l.startswith("rd ")]
                exp = l2c.expected_transport(c, methods, vals, grp)
                for i, (m, v, pre, post) in enumerate(exp):
                    g1 = xp[i] if i < len(xp) else "<missing>"
                    g2 = xr[i] if i < len(xr) else "<missing>"
                    # object slots are outside this property: compare up to the object part
                    g1c = re.sub(r" oi\d+=obj:-?\d+", "", g1)
                    g2c = re.sub(r" oo\d+=obj:-?\d+", "", g2)
                    if g1c != pre:
                        bad.append((m, v, pre, g1))
                    if g2c != post:
                        bad.append((m, v, post, g2))
                _, _, rexp = l2c.refdrive_code(c, "IL2", methods, vals, grp)
                for i, (m, v, e2) in enumerate(rexp):
                    g = rd[i] if i < len(rd) else "<missing>"
                    if g != e2:
                        bad.append((m, v, e2, g))
                if rc3 != 0:
                    bad.append(("*", -1, "clean sanitizer run", "exit %s %s" % (rc3, e[-400:])))
            if code == 0:
                out["bad"] = bad
                out["n"] = len(grp)
            else:
                out["known"][cls] = (len(grp), len(bad))
        return b, out

    with ThreadPoolExecutor(max_workers=vlib.NCPU) as ex:
        results = dict(ex.map(do, range(nb)))
    ncmp, distinct, khist = 0, 0, {}
    for b, out in results.items():
        if out is None:
            continue
        c, fs, methods = batches[b]
        text = gen.render_file(fs["files"][0])
        ncmp += out["n"] * len(vals) * 3
        distinct += out["n"]
        for bad in out["bad"][:8]:
            res["failures"].append({"property": prop, "idl": text, "method": bad[0], "valuation": bad[1], "expected": bad[2][:700], "observed": bad[3][:700],
                                    "what": "bytes on the wire differ from the reference encoding for %s" % bad[0]})
        for cls, (n, nbad) in out["known"].items():
            khist.setdefault(cls, [0, 0])
            khist[cls][0] += n
            khist[cls][1] += 1 if nbad else 0
            if nbad:
                res["failures"].append({"property": prop, "known_class": cls, "idl": text,
                                        "what": "methods of class %s: wire bytes differ from the reference encoding (%d lines)" % (cls, nbad)})
    sb_lines, sb_fails = same_bytes_probe(ctx_, work, vlib.mkrng(seed, prop + "-samebytes"), 1 if tier == "quick" else 20)
    res["failures"] += sb_fails
    hw_calls, hw_fails = handle_words_probe(ctx_, work, vlib.mkrng(seed, prop + "-handles"), 1 if tier == "quick" else 12)
    res["failures"] += hw_fails
    res["coverage"] = {
        "same_bytes_probe": {"wire_lines_per_run": sb_lines, "pairings": "C, C++, Rust stubs x C, C++, Rust skeletons", "differences": len(sb_fails)},
        "handle_words_probe": {"implementation_entries_seen": hw_calls, "pairings": "C, C++, Rust stubs x C, C++, Rust skeletons", "leaks": len(hw_fails)},
        "evaluations": ncmp, "distinct_nontrivial": distinct,
        "rule": "%d generated interfaces of 12 methods; per method outside the known classes and valuation: the (op, counts, BI bytes, BO capacities) a "
                "compiled C stub hands the transport, the BO bytes the compiled skeleton returns, and the skeleton driven directly with reference-encoded "
                "arguments, each compared with the reference encoder; gcc with ASan/UBSan; non-trivial = a method outside the known classes" % nb,
        "samples": [{"idl": gen.render_file(batches[0][1]["files"][0])[:600]}], "known_class_methods_and_failing_groups": khist,
    }
    res["trusted_extra"] = ["lib/l2c.py: reference encoder (ref_plan/ref_buffers), transport and drivers (C); gcc with ASan/UBSan"]
    return res
