"""C05 (reference-count neutrality): generated interfaces whose methods pass objects directly,
typed, in arrays and as struct fields are compiled by the real idlc for C, C++ and Rust; a C
side, a C++ side and a Rust side (lib/l2obj.py) are linked into one program in which every
caller side drives every implementation side (nine pairings) with counting objects, under
ASan/UBSan.  For every call the observed holders and counts are compared (a) with what the
property prescribes and (b) with the ledger the Coq model (Own.v) computes for that scenario."""
import os, re, shutil
from concurrent.futures import ThreadPoolExecutor
import l2obj, scrape, vlib

TESTS = os.path.join(vlib.REPO, "tests")
RT = os.path.join(vlib.VERIF, "rt", "obj")
SIDES = ["c", "cpp", "rust"]
NVAL = 3


def emit(idlc, root, extra=()):
    idl = os.path.join(root, "l2.idl")
    outs = [("c", False, "l2.h"), ("c", True, "l2_invoke.h"), ("cpp", False, "l2.hpp"), ("cpp", True, "l2_invoke.hpp")]
    for lang, skel, name in outs:
        r = scrape.idlc_run(idlc, idl, os.path.join(root, name), lang, skel, extra=extra if lang == "c" else ())
        if r[0] != 0:
            return "%s%s: %s" % (lang, " skel" if skel else "", r[2][-300:])
    rs = os.path.join(root, "rs")
    os.makedirs(rs, exist_ok=True)
    r = scrape.idlc_run(idlc, idl, rs, "rust", False)
    if r[0] != 0:
        return "rust: %s" % r[2][-300:]
    return None


def build(root, methods, san=True, sides=SIDES):
    open(os.path.join(root, "c_side.c"), "w").write(l2obj.c_side(methods))
    open(os.path.join(root, "cpp_side.cpp"), "w").write(l2obj.cpp_side(methods))
    open(os.path.join(root, "rust_side.rs"), "w").write(l2obj.rust_side(methods, TESTS, os.path.join(root, "rs"), NVAL))
    inc = ["-I" + os.path.join(TESTS, "c"), "-I" + os.path.join(TESTS, "cpp"), "-I" + root, "-I" + RT]
    sanf = ["-fsanitize=address,undefined", "-fno-sanitize-recover=undefined"] if san else []
    warn = ["-Wall", "-Wextra", "-Werror", "-Wno-unused-parameter", "-Wno-unused-function", "-Wno-missing-field-initializers"]
    defs = ["-DNVAL=%d" % NVAL, "-DNVAL_CPP=%d" % (NVAL + 1)] + (["-DNO_CPP"] if "cpp" not in sides else [])
    jobs = [
        ["gcc", "-std=gnu11", "-g", "-O1"] + sanf + warn + defs + inc + ["-c", os.path.join(RT, "cobj.c"), "-o", os.path.join(root, "cobj.o")],
        ["gcc", "-std=gnu11", "-g", "-O1"] + sanf + warn + defs + inc + ["-c", os.path.join(RT, "main.c"), "-o", os.path.join(root, "main.o")],
        ["gcc", "-std=gnu11", "-g", "-O1"] + sanf + warn + defs + inc + ["-c", os.path.join(root, "c_side.c"), "-o", os.path.join(root, "c_side.o")],
        ["g++", "-std=c++17", "-g", "-O1"] + sanf + warn + defs + inc + ["-c", os.path.join(root, "cpp_side.cpp"), "-o", os.path.join(root, "cpp_side.o")],
        ["rustc", "--edition", "2021", "--cfg", 'feature="std"', "--crate-type", "staticlib", "-C", "panic=abort", "-C", "opt-level=1",
         "-o", os.path.join(root, "librust_side.a"), os.path.join(root, "rust_side.rs")],
    ]
    if "cpp" not in sides:
        jobs = [j for j in jobs if j[0] != "g++"]
    for cmd in jobs:
        rc, o, e = vlib.run(cmd, timeout=600)
        if rc != 0:
            return {"stage": "compile", "cmd": " ".join(cmd[:3]) + " ... " + cmd[-1], "err": e[-2500:]}
    exe = os.path.join(root, "l2obj")
    cmd = ["g++"] + sanf + [os.path.join(root, x) for x in ("main.o", "cobj.o", "c_side.o", "cpp_side.o", "librust_side.a") if x != "cpp_side.o" or "cpp" in sides] + ["-lpthread", "-ldl", "-o", exe]
    rc, o, e = vlib.run(cmd, timeout=300)
    if rc != 0:
        return {"stage": "link", "cmd": "g++ link", "err": e[-2500:]}
    rc, o, e = vlib.run([exe], timeout=120, env=dict(vlib.ENV, ASAN_OPTIONS="detect_leaks=0"))
    return {"stage": "run", "rc": rc, "out": o, "err": e[-2500:]}


LINE = re.compile(r"^(impl|ret|drop) m(\d+) v=(\d+)(.*)$")


def parse(out):
    """-> {(caller, impl): [records]}, {(caller, impl): end line}"""
    runs, ends, cur = {}, {}, None
    for l in out.split("\n"):
        if l.startswith("pairing "):
            _, a, b = l.split()
            cur = (a, b)
            runs[cur] = []
        elif l.startswith("end "):
            ends[cur] = l
        else:
            m = LINE.match(l)
            if m and cur:
                toks = m.group(4).split()
                rec = {"tag": m.group(1), "k": int(m.group(2)), "v": int(m.group(3)), "objs": [], "ints": {}, "counts": None}
                for t in toks:
                    try:
                        a, b = t.split("=", 1)
                        if a == "counts":
                            rec["counts"] = [int(x) for x in b.split(",")]
                        elif b.startswith("obj:"):
                            rec["objs"].append(int(b[4:]))
                        else:
                            rec["ints"][a] = int(b)
                    except ValueError:          # a line cut short by an abort
                        rec["tag"] = "junk"; rec["text"] = l
                runs[cur].append(rec)
            elif l.strip() and cur:
                runs[cur].append({"tag": "junk", "text": l})
    return runs, ends


def mult(x, l):
    return sum(1 for y in l if y == x)


def spec_check(sc, impl_rec, ret_rec, drop_rec, base, refused=False):
    """the property, directly: -> list of what differs.  base: counts before the call"""
    k, v, ok, ins, po = sc
    bad = []
    if impl_rec["objs"] != ins:
        bad.append("the implementation sees %s, the caller passed %s" % (impl_rec["objs"], ins))
    outs = [o for _, o in po]
    pre = [p for p, _ in po]
    want_h = outs if ok else pre
    if ret_rec["ints"].get("status") != (2 if refused else 0 if ok else 11):      # Object_ERROR_INVALID = 2
        bad.append("status %s" % ret_rec["ints"].get("status"))
    if ret_rec["objs"] != want_h:
        bad.append("the caller's holders own %s after the call, expected %s" % (ret_rec["objs"], want_h))
    want_c = [base[i - 1] + mult(i, ins) + mult(i, want_h) for i in range(1, 7)]
    if ret_rec["counts"] != want_c:
        bad.append("counts of objects 1..6 after the call are %s, expected %s (one per input position owned by the caller plus one per holder)" % (ret_rec["counts"], want_c))
    if drop_rec["counts"] != base:
        bad.append("counts after the caller dropped everything are %s, expected the counts before the call %s" % (drop_rec["counts"], base))
    return bad


def object_identity_probe(ctx_, work, rng):
    """C01 (objects, object arrays, objects embedded in structs arrive as the values the caller
    supplied, in every pairing): the nested-path batch and one random batch through the nine-pairing
    program; only WHICH object the implementation sees / the caller gets back is judged here (the
    counts are C05's).  -> (calls judged, failures)"""
    fails, n = [], 0
    for b, methods in enumerate([l2obj.gen_methods(rng, 0, with_dup_path=True), l2obj.gen_methods(rng, 6)]):
        root = os.path.join(work, "objid%d" % b)
        os.makedirs(root, exist_ok=True)
        idl = l2obj.render_idl(methods)
        open(os.path.join(root, "l2.idl"), "w").write(idl)
        if emit(ctx_["idlc"], root):
            continue
        r = build(root, methods, sides=SIDES)
        if r.get("stage") != "run" or r["rc"] != 0:
            fails.append({"property": ctx_["prop"], "idl": idl, "what": "the nine-pairing object program does not build or aborts (%s)" % r.get("stage"),
                          "observed": (r.get("out", "")[-300:] + r.get("err", "")[:1200])})
            continue
        runs, ends = parse(r["out"])
        for caller in SIDES:
            scs = l2obj.scenarios(methods, NVAL, caller)
            for impl in SIDES:
                recs = runs.get((caller, impl)) or []
                if len(recs) != 3 * len(scs):
                    fails.append({"property": ctx_["prop"], "idl": idl, "pairing": "%s stub -> %s skeleton" % (caller, impl), "what": "log of the pairing is incomplete"})
                    continue
                for i_, sc in enumerate(scs):
                    im, rt, dr = recs[3 * i_: 3 * i_ + 3]
                    k, v, ok, ins, po = sc
                    n += 1
                    want_h = [o for _, o in po] if ok else [p_ for p_, _ in po]
                    bad = []
                    if im["tag"] == "impl" and im["objs"] != ins:
                        bad.append("the implementation sees objects %s, the caller passed %s" % (im["objs"], ins))
                    if rt["tag"] == "ret" and rt["objs"] != want_h:
                        bad.append("the caller receives objects %s, the implementation handed over %s" % (rt["objs"], want_h))
                    if bad:
                        fails.append({"property": ctx_["prop"], "idl": idl, "pairing": "%s stub -> %s skeleton" % (caller, impl), "valuation": v,
                                      "method": "method %s(%s)" % (methods[k][0], ", ".join("%s %s%s %s" % (d, t, sh or "", pn) for d, t, sh, pn in methods[k][1])),
                                      "what": "; ".join(bad)})
    return n, fails[:10]


def zl(l):
    return "[" + "; ".join("(%d)%%Z" % x for x in l) + "]"


def run(ctx_):
    prop, tier, seed, work = ctx_["prop"], ctx_["tier"], ctx_["seed"], ctx_["work"]
    nb = 3 if tier == "quick" else 48
    nmeth = 8
    res = {"coverage": {}, "failures": [], "corr_broken": []}
    use_model = bool(ctx_["checks_vo"] and ctx_["harness"])     # without the model the specification alone still searches for a failing call
    rng = vlib.mkrng(seed, prop)
    batches = []
    for b in range(nb):
        ms_ = l2obj.gen_methods(rng, nmeth)
        # every third method (with at least one input object where possible) is #[optional] and left out by
        # all three implementation sides
        pick = [j for j, (nm_, ps_) in enumerate(ms_) if any(d_ == "in" for d_, t_, sh_, pn_ in ps_)]
        rng.shuffle(pick)
        for j in pick[:max(1, nmeth // 3)]:
            ms_[j] = ("x%d" % j, ms_[j][1])
        kk = len(ms_)
        ms_ += [("x%d" % kk, [("in", "interface", None, "p0"), ("in", "IFoo", None, "p1"), ("out", "uint32", None, "p2"), ("out", "interface", None, "p3")]),
                ("x%d" % (kk + 1), [("in", "SO", None, "p0"), ("in", "uint32", None, "p1"), ("out", "SO", None, "p2")])]
        batches.append(ms_)
    batches.append(l2obj.gen_methods(rng, 0, with_dup_path=True))      # two fields of one object-bearing struct type (C and Rust sides: the C++ skeleton of a nested object path does not compile, C11 K_nested_obj_path)
    DUP = len(batches) - 1

    def do(b):
        methods = batches[b]
        root = os.path.join(work, "b%d" % b)
        os.makedirs(root, exist_ok=True)
        open(os.path.join(root, "l2.idl"), "w").write(l2obj.render_idl(methods))
        # every other batch: the C stub and skeleton generated with --no-typed-objects (type names only)
        err = emit(ctx_["idlc"], root, extra=(["--no-typed-objects"] if b % 2 == 1 else []))
        if err:
            return b, {"emit_failed": err}
        return b, build(root, methods, sides=SIDES)

    with ThreadPoolExecutor(max_workers=vlib.NCPU) as ex:
        results = dict(ex.map(do, range(len(batches))))

    # the front-end model on the same files: accepted, and are the enumerated object paths distinct?
    lines = ["%d\tcli\t-\t%s\t" % (b, os.path.join(work, "b%d" % b, "l2.idl")) for b in range(len(batches))]
    cf = os.path.join(work, "cases.txt")
    open(cf, "w").write("\n".join(lines) + "\n")
    hres = {}
    if use_model:
        rc, out, err = vlib.run([ctx_["harness"], "front", cf], timeout=600)
        hres = vlib.parse_harness(out)
    pdefs = []
    for b in range(len(batches) if use_model else 0):
        h = hres.get(str(b))
        if not h or h["result"] != "ok":
            res["corr_broken"].append({"kind": "generator", "detail": "batch %d is rejected by the front end: %s" % (b, (h or {}).get("result"))})
            continue
        pdefs.append((b, "Definition f_%d : list ast := %s.\n" % (b, h["files"]), 'chk_paths_distinct f_%d "IL2"' % b))
    paths, errors = vlib.eval_cases(os.path.join(work, "coqp"), "paths", "", pdefs, shard_size=4)
    for e in errors:
        res["corr_broken"].append({"kind": "case-evaluation", "detail": e})
    for b in range(len(batches)):
        fl = paths.get(b)
        if fl is None:
            continue
        want = [1] * len(batches[b])        # also for the nested-struct batch since the repair of StructInner::objects
        if fl != want:
            res["corr_broken"].append({"kind": "correspondence", "detail": "object paths of batch %d: model says distinct=%s, the generator built %s" % (b, fl, want)})

    defs, meta = [], {}
    cid = 0
    nscen, ndistinct, alias_hits, dup_bad = 0, 0, 0, 0
    shapes = {}
    for b, r in results.items():
        methods = batches[b]
        idl = l2obj.render_idl(methods)
        if "emit_failed" in r:
            res["corr_broken"].append({"kind": "generator", "detail": "idlc rejects batch %d: %s" % (b, r["emit_failed"])})
            continue
        if r["stage"] != "run":
            res["failures"].append({"property": prop, "idl": idl, "what": "the nine-pairing harness does not build (%s)" % r.get("cmd"), "observed": r["err"][-1500:]})
            continue
        runs, ends = parse(r["out"])
        base = [0] * 6          # counts before the next call: objects an earlier call leaked stay alive
        if r["rc"] != 0:
            res["failures"].append({"property": prop, "idl": idl, "what": "the harness aborts (sanitizer report, release of a dead object, or panic)",
                                    "observed": (r["out"][-500:] + "\n" + r["err"][:1800])})
            continue
        for ci, caller in enumerate(SIDES):
            scs = l2obj.scenarios(methods, NVAL, caller)
            for ii, impl in enumerate(SIDES):
                recs = runs.get((caller, impl))
                nabs = sum(1 for sc in scs if l2obj.is_absent(methods[sc[0]][0]))
                if recs is None or len(recs) != 3 * len(scs) - nabs or any(x["tag"] == "junk" for x in recs):
                    res["failures"].append({"property": prop, "idl": idl, "pairing": "%s stub -> %s skeleton" % (caller, impl),
                                            "what": "log of the pairing is incomplete (%s records for %d calls)" % (recs and len(recs), len(scs)),
                                            "observed": r["out"][-800:] + r["err"][-800:]})
                    continue
                if not (ends.get((caller, impl)) or "").endswith("impls=0"):
                    res["failures"].append({"property": prop, "idl": idl, "pairing": "%s stub -> %s skeleton" % (caller, impl),
                                            "what": "implementation objects are still alive after the pairing: %s" % ends.get((caller, impl))})
                ptr = 0
                for n, sc in enumerate(scs):
                    k, v, ok, ins, po = sc
                    absent = l2obj.is_absent(methods[k][0])
                    if absent:
                        # a method nobody implements: refused by the skeleton, nothing entered, every count
                        # as before (the caller still owns what it passed and what its holders held)
                        rt, dr = recs[ptr: ptr + 2]
                        ptr += 2
                        im = {"tag": "impl", "k": k, "objs": ins}
                        sc = (k, v, False, ins, po)
                        ok = False
                    else:
                        im, rt, dr = recs[ptr: ptr + 3]
                        ptr += 3
                    if (im["tag"], rt["tag"], dr["tag"]) != ("impl", "ret", "drop") or {im["k"], rt["k"], dr["k"]} != {k}:
                        res["failures"].append({"property": prop, "idl": idl, "pairing": "%s -> %s" % (caller, impl), "what": "log out of step at call %d" % n})
                        break
                    bad = spec_check(sc, im, rt, dr, base, refused=absent)
                    nscen += 1
                    if ins or po:
                        ndistinct += 1
                    for d_, t_, sh_, _ in methods[k][1]:
                        key = "%s %s%s" % (d_, t_, "[]" if sh_ else "")
                        shapes[key] = shapes.get(key, 0) + 1
                    meta[cid] = {"b": b, "caller": caller, "impl": impl, "sc": sc, "bad": bad, "base": list(base), "obs": (im["objs"], rt["objs"], rt["counts"], dr["counts"]),
                                 "method": "method %s(%s)" % (methods[k][0], ", ".join("%s %s%s %s" % (d, t, sh or "", pn) for d, t, sh, pn in methods[k][1]))}
                    defs.append((cid, "", "chk_c05 %d %d %s %s [%s] %s %s %s %s" % (
                        ci, ii, zl(base), zl(ins), "; ".join("((%d)%%Z, (%d)%%Z)" % p for p in po), "true" if ok else "false",
                        zl(rt["objs"]), zl(rt["counts"]), zl(dr["counts"]))))
                    cid += 1
                    base = dr["counts"] or base
    flags, errors = vlib.eval_cases(os.path.join(work, "coq"), "own", "", defs, shard_size=400) if use_model else ({}, [])
    for e in errors:
        res["corr_broken"].append({"kind": "case-evaluation", "detail": e})
    model_dis = 0
    for c, m in meta.items():
        fl = flags.get(c)
        k, v, ok, ins, po = m["sc"]
        desc = {"property": prop, "pairing": "%s stub -> %s skeleton" % (m["caller"], m["impl"]), "method": m["method"], "valuation": v,
                "implementation_returns": "Object_OK" if ok else "error 11", "counts_before_call": m["base"], "input_objects": ins, "holder_before_and_object_handed_over": po,
                "observed": {"implementation_saw": m["obs"][0], "holders_after_call": m["obs"][1], "counts_after_call": m["obs"][2], "counts_after_drop": m["obs"][3]},
                "idl": l2obj.render_idl(batches[m["b"]])}
        if fl is None or len(fl) != 5:
            if m["bad"]:
                desc["what"] = "; ".join(m["bad"])
                res["failures"].append(desc)
            continue
        agree = fl[0] == 1 and fl[1] == 1 and fl[2] == 1
        if not agree:
            model_dis += 1
            if not m["bad"]:
                res["corr_broken"].append({"kind": "correspondence", "detail": "the ledger model (Own.v) and the compiled code disagree although the property holds on this call: %s" % desc})
        if m["bad"]:
            desc["what"] = "; ".join(m["bad"])
            if fl[3] > 0 and agree and m["caller"] == "cpp":
                alias_hits += 1
                desc["known_class"] = "K_consume_alias"
            res["failures"].append(desc)
    res["coverage"] = {
        "evaluations": nscen, "distinct_nontrivial": ndistinct,
        "rule": "%d generated interfaces of %d methods (1-6 parameters over interface, IFoo, IFoo[1..3], interface[1..3], struct SO{interface;u64;u64}, struct ST{IFoo;interface}, uint32, "
                "both directions); every method is called with %d valuations (null / non-null / aliased inputs, outputs equal to inputs or fresh or null; "
                "the C++ caller also with pre-filled output proxies) x {success, error 11} x 9 pairings (C, C++, Rust stub x C, C++, Rust skeleton), "
                "counting objects freed at 0, gcc/g++ -Wall -Wextra -Werror with ASan+UBSan, rustc staticlib; non-trivial = a call with at least one object position"
                % (nb, nmeth, NVAL),
        "samples": [{"idl": l2obj.render_idl(batches[0])[:900]}],
        "parameter_shapes_called": shapes, "pairings": ["%s->%s" % (a, b) for a in SIDES for b in SIDES],
        "model_disagreements": model_dis, "known_alias_positions_hit": alias_hits,
    }
    res["trusted_extra"] = ["lib/l2obj.py + rt/obj/*.c: generator of the three caller/implementation sides and the counting objects; gcc/g++ with ASan/UBSan; rustc"]
    return res
