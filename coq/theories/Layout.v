(* Layout.v — reference layout of the emitted types under the natural-alignment rules
   of the SysV x86-64 C ABI (shared by C, C++ and Rust #[repr(C)]); the model of what
   the *target compilers* do with the structs idlc emits.  Validated against gcc, clang,
   g++, clang++ and rustc by the C06 probes on every run.  Definitions only. *)
Require Import Base Syntax Front.
Require Import gen.CodeFacts.
Open Scope N_scope.

Definition round_up (o a : N) : N :=
  if a =? 0 then o else if o mod a =? 0 then o else o + (a - o mod a).

(* x86-64 SysV: fixed-width integers, float and double are aligned to their size;
   an Object is two pointers *)
Definition c_prim_size (p : prim) : N :=
  match p with U8 | I8 => 1 | U16 | I16 => 2 | U32 | I32 | F32 => 4 | U64 | I64 | F64 => 8 end.
Definition c_prim_align (p : prim) : N := c_prim_size p.
Definition c_object_size : N := 16.
Definition c_object_align : N := 8.

(* (size, alignment) of a field's element type, given the layouts of the struct types
   the compiler has already seen *)
Definition c_field_type (cstore : list (string * (N * N))) (t : aty) : option (N * N) :=
  match t with
  | TPrim p => Some (c_prim_size p, c_prim_align p)
  | TIface => Some (c_object_size, c_object_align)
  | TCustom n => alookup n cstore
  | TBuffer => None
  end.

(* offsets of the fields, end offset, alignment *)
Fixpoint c_layout (cstore : list (string * (N * N))) (fs : list sfield) (off al : N)
  : option (list N * N * N) :=
  match fs with
  | [] => Some ([], off, al)
  | f :: r =>
      match c_field_type cstore (sf_ty f) with
      | None => None
      | Some (sz, a) =>
          let o := round_up off a in
          match c_layout cstore r (o + sz * sf_cnt f) (N.max al a) with
          | None => None
          | Some (os, e, a') => Some (o :: os, e, a')
          end
      end
  end.

(* sizeof = end offset rounded up to the struct's alignment *)
Definition c_struct (cstore : list (string * (N * N))) (fs : list sfield) : option (list N * N * N) :=
  match c_layout cstore fs 0 1 with
  | Some (os, e, a) => Some (os, round_up e a, a)
  | None => None
  end.

(* the compiler lays the structs out one after the other *)
Fixpoint c_structs (st : symtab) (cstore : list (string * (N * N))) (order : list string)
  : option (list (string * (N * N))) :=
  match order with
  | [] => Some cstore
  | n :: r =>
      match struct_lookup st n with
      | None => None
      | Some s =>
          match c_struct cstore (s_fields s) with
          | None => None
          | Some (_, sz, a) => c_structs st ((n, (sz, a)) :: cstore) r
          end
      end
  end.

(* what the property calls "summed sizes of the fields before it" *)
Fixpoint prefix_sums (sizes : list N) (acc : N) : list N :=
  match sizes with
  | [] => []
  | s :: r => acc :: prefix_sums r (acc + s)
  end.
