(* Emit.v — two fragments of the emitted text whose well-formedness is pure logic: the C++
   base clause of a generated class, and the identifiers a backend derives from a parameter
   name next to the fixed locals of its templates.  Identifiers are lists of characters.
   The tables of template locals are validated every run by compiling one method per
   (name, parameter kind) in every backend (lib/p_build.py).  Definitions only. *)
Require Import Base.
Require Import Ascii String List.
Require Import gen.EmitFacts.
Import ListNotations.
Open Scope list_scope.

(* ---- C++ base clause ---- *)
Inductive tok := TColon | TComma | TPublic | TId (s : string).

(* idlc_codegen_cpp/src/interface/mod.rs.  The emitter either names only the immediate base
   (EmitFacts.cpp_base_only_immediate) or pushes every ancestor as "I<name> " after one
   ": public " (EmitFacts.cpp_base_sep_is_space, the pinned upstream behaviour).  [ancestors]:
   nearest first. *)
Definition base_clause_spaced (ancestors : list string) : list tok :=
  match ancestors with
  | [] => []
  | a :: r => TColon :: TPublic :: TId ("I" ++ a)%string :: map (fun x => TId ("I" ++ x)%string) r
  end.
Definition base_clause_immediate (ancestors : list string) : list tok :=
  match ancestors with
  | [] => []
  | a :: _ => [TColon; TPublic; TId ("I" ++ a)%string]
  end.
Definition cpp_base_clause (ancestors : list string) : list tok :=
  if cpp_base_only_immediate then base_clause_immediate ancestors else base_clause_spaced ancestors.

(* the grammar of a base clause: ':' base-specifier (',' base-specifier)*, a base specifier
   being an optional 'public' and a class name *)
Fixpoint wf_specs (need_spec : bool) (ts : list tok) : bool :=
  match ts with
  | [] => negb need_spec
  | TPublic :: TId _ :: r => if need_spec then wf_after r else false
  | TId _ :: r => if need_spec then wf_after r else false
  | _ => false
  end
with wf_after (ts : list tok) : bool :=
  match ts with
  | [] => true
  | TComma :: r => wf_specs true r
  | _ => false
  end.
Definition wf_base_clause (ts : list tok) : bool :=
  match ts with
  | [] => true
  | TColon :: r => wf_specs true r
  | _ => false
  end.

(* ---- identifiers derived from a parameter name ---- *)
Definition ident := list ascii.
Definition id (s : string) : ident := list_ascii_of_string s.

Inductive lang := LC | LCpp | LRust | LJava.
(* how a parameter travels, as far as naming is concerned *)
Inductive pkind := KData | KObject | KMethod.   (* KMethod: the name of a method *)

(* locals and parameters of the generated method bodies that do not come from the IDL *)
Definition template_locals (l : lang) : list ident :=
  map id match l with
         | LC => ["self"; "a"; "result"; "me"; "r"; "k"; "op"; "bi"; "bo"; "i"; "o"; "func"; "prefix"; "type"]
         | LCpp => ["a"; "result"; "invoke"; "r"; "k"; "op"; "bi"; "bo"; "i"; "o"]
         | LRust => ["args"; "cx"]
         | LJava => ["bi"; "bo"; "boSizes"; "oi"; "oo"; "mObj"; "methodID"; "bundleIn"; "bundleOut"; "i"]
         end%string.

(* C and C++ suffix the names of data parameters and leave object names bare; Rust prefixes
   r# (a raw identifier is still the same identifier); Java suffixes the parameters of the
   interface methods but uses the bare names as locals of MinkObject.invoke *)
Definition suffixes : list ident := map id ["_ptr"; "_val"; "_len"; "_lenout"; "_cpy"; "_ref"]%string.

Definition generated (l : lang) (k : pkind) (name : ident) : list ident :=
  match l, k with
  | LC, KData | LCpp, KData => map (fun s => name ++ s) suffixes
  | LC, KObject | LCpp, KObject => [name]
  | LCpp, KMethod => [name]          (* called unqualified inside ImplBase::invoke *)
  | LC, KMethod => [name]            (* pasted after the macro parameter: prefix##name *)
  | _, KMethod => []                 (* called through a receiver (Rust, Java) *)
  | LRust, _ => [name]
  | LJava, _ => name :: map (fun s => name ++ s) suffixes
  end.

Definition ident_eqb (a b : ident) : bool := list_eqb Ascii.eqb a b.
Definition shadows (l : lang) (k : pkind) (name : ident) : bool :=
  existsb (fun g => existsb (ident_eqb g) (template_locals l)) (generated l k name).

Definition ends_with (suf l : ident) : bool :=
  list_eqb Ascii.eqb (firstn (List.length suf) (rev l)) (rev suf).
