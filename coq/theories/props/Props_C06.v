(* Props_C06.v — property C06 (struct sizes and offsets equal the target layouts). *)
Require Import Base Syntax Front Layout.
Require Import proofs.LayoutProofs.
Open Scope N_scope.

(* For a struct the verifier accepts — whatever the sizes and alignments it assumes for the
   struct types it contains, as long as the target agrees with them on size and needs at
   most that alignment — the natural-alignment layout of the emitted type places every
   field at the sum of the sizes before it, and sizeof equals the assumed size. *)
Theorem C06_no_padding : forall md vstore cstore fs sz al,
  stores_rel vstore cstore ->
  verify_fields md vstore [] fs 0 0 = Ok (sz, al) ->
  exists ca, c_struct cstore fs = Some (prefix_sums (field_sizes vstore fs) 0, sz, ca)
             /\ aligned_ok ca al /\ sz = sumN (field_sizes vstore fs).
Proof. exact verified_struct_no_padding. Qed.
Print Assumptions C06_no_padding.

(* ... and that premise holds along the whole dependency order, to any nesting depth *)
Theorem C06_all_structs : forall md st order vstore',
  verify_structs md st [] order = Ok vstore' ->
  exists cstore', c_structs st [] order = Some cstore' /\ stores_rel vstore' cstore'.
Proof. intros md st order vstore' H. exact (verified_order_layout md st order [] [] vstore' stores_rel_nil H). Qed.
Print Assumptions C06_all_structs.

(* the primitive table the compiler assumes (regenerated from ast.rs) is the ABI's *)
Theorem C06_primitives : forall p, CodeFacts.prim_size p = c_prim_size p /\ aligned_ok (c_prim_align p) (CodeFacts.prim_align p).
Proof. exact prim_rel. Qed.
Print Assumptions C06_primitives.

(* non-vacuity: a nested struct with an object and an array *)
Open Scope string_scope.
Example C06_nonvacuous :
  let st := mkSt [("Outer", mkS "Outer" [mkF "i" (TCustom "Inner") 2; mkF "o" TIface 1; mkF "t" (TPrim U64) 2]);
                  ("Inner", mkS "Inner" [mkF "a" (TPrim U32) 1; mkF "b" (TPrim U16) 2])] [] [] in
  verify_structs Debug st [] ["Inner"; "Outer"] = Ok [("Outer", (48, 16)); ("Inner", (8, 4))] /\
  c_structs st [] ["Inner"; "Outer"] = Some [("Outer", (48, 8)); ("Inner", (8, 4))].
Proof. split; vm_compute; reflexivity. Qed.
