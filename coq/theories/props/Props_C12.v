(* Props_C12.v — property C12 (include resolution; cycles always rejected). *)
Require Import Base Includes gen.IncludeFacts.
Require Import spec.Spec_C12 proofs.IncludesProofs.
Open Scope list_scope.

(* never loops / never exhausts: the walk's recursion depth is bounded by the number of files *)
Theorem C12_terminates : forall w, walk_main w <> WFuel.
Proof. intro w. apply walk_terminates. Qed.
Print Assumptions C12_terminates.

(* acceptance implies that every include of every reachable file resolves and parses *)
Theorem C12_accept_all_resolved : forall w l c,
  walk_main w = WOk l c ->
  forall p, reach w p ->
    exists incs, includes_of w p = Some incs /\ forall i, In i incs -> exists t, resolve w p i = Some t.
Proof. intros w l c. apply accepted_reachable_resolve. Qed.
Print Assumptions C12_accept_all_resolved.

(* acceptance implies that no reachable file lies on an include cycle (of any length,
   entered at any point) *)
Theorem C12_accept_no_cycle : forall w l c,
  walk_main w = WOk l c -> forall p, reach w p -> ~ steps w p p.
Proof. intros w l c. apply accepted_no_reachable_cycle. Qed.
Print Assumptions C12_accept_no_cycle.

(* each file is loaded once however many paths reach it, and only files are loaded *)
Theorem C12_loaded_once : forall w l c, walk_main w = WOk l c -> NoDup l /\ incl l (files_of w).
Proof. intros w l c. apply loaded_once. Qed.
Print Assumptions C12_loaded_once.

(* "an include naming a bare file resolves to the first directory, in command-line order followed
   by the directory of the main input file, that contains a file of that name; an include whose
   path has a directory part resolves relative to the including file": the model's resolution is
   the Spec's, for every world, including file and include string *)
Theorem C12_resolution_is_first_match : forall w cur inc, resolve w cur inc = spec_resolve w cur inc.
Proof. exact resolve_is_spec. Qed.
Print Assumptions C12_resolution_is_first_match.

(* "compilation fails exactly when an include cannot be resolved or the resolved include graph
   reachable from the main file contains a cycle": both directions *)
Theorem C12_accepts_exactly_when : forall w,
  (exists l c, walk_main w = WOk l c) <->
  (forall p, reach w p -> ok_node w p) /\ (forall p, reach w p -> ~ steps w p p).
Proof. intro w. apply accepts_iff. Qed.
Print Assumptions C12_accepts_exactly_when.

(* "exactly the declarations of the reachable files are visible": the store holds exactly the
   reachable files *)
Theorem C12_loaded_is_reachable : forall w l c,
  walk_main w = WOk l c -> forall p, In p l <-> reach w p.
Proof. intros w l c. apply loaded_is_reachable. Qed.
Print Assumptions C12_loaded_is_reachable.

(* all of the above hold for both variants of the walk (they are proved for
   walk_main_gen skip, any skip).  "never by looping": the pinned upstream walk visited a file
   once per path that reaches it - 1023 walks for a ladder of 9 diamonds (19 files), doubling
   with every level ... *)
Theorem C12_rewalk_refuted_upstream :
  (match walk_main_gen false (ladder 9) with WOk l c => Some (N.of_nat (List.length l), c) | _ => None end) = Some (19, 1023)%N /\
  (match walk_main_gen true (ladder 9) with WOk l c => Some (N.of_nat (List.length l), c) | _ => None end) = Some (19, 19)%N.
Proof. exact ladder_walks_upstream. Qed.
Print Assumptions C12_rewalk_refuted_upstream.

(* ... the repaired walk (regenerated fact) visits every loaded file exactly once: the number of
   walks is the number of loaded files, at most the number of files there are *)
Theorem C12_walked_once : walk_skips_walked = true -> forall w l c,
  walk_main w = WOk l c -> c = N.of_nat (List.length l) /\ (List.length l <= List.length (w_files w))%nat.
Proof. intros F w l c. unfold walk_main. rewrite F. apply walked_once. Qed.
Print Assumptions C12_walked_once.
Theorem C12_walked_once_current : forall w l c,
  walk_main w = WOk l c -> c = N.of_nat (List.length l) /\ (List.length l <= List.length (w_files w))%nat.
Proof. exact (C12_walked_once eq_refl). Qed.
Print Assumptions C12_walked_once_current.

Open Scope string_scope.
Open Scope list_scope.
(* non-vacuity: a diamond is accepted, a 2-cycle entered through a third file is rejected *)
Example C12_nonvacuous :
  let f := fun (n : string) (incs : list string) => (["r"; n], Some incs) in
  walk_main (mkW [f "m.idl" ["a.idl"; "b.idl"]; f "a.idl" ["c.idl"]; f "b.idl" ["c.idl"]; f "c.idl" []] [] ["r"; "m.idl"])
    = WOk [["r"; "b.idl"]; ["r"; "c.idl"]; ["r"; "a.idl"]; ["r"; "m.idl"]] 4 /\
  walk_main (mkW [f "m.idl" ["a.idl"]; f "a.idl" ["b.idl"]; f "b.idl" ["a.idl"]] [] ["r"; "m.idl"]) = WCycle.
Proof. split; vm_compute; reflexivity. Qed.
