(* Props_C12.v — property C12 (include resolution; cycles always rejected). *)
Require Import Base Includes.
Require Import proofs.IncludesProofs.
Open Scope list_scope.

(* never loops / never exhausts: the walk's recursion depth is bounded by the number of files *)
Theorem C12_terminates : forall w, walk_main w <> WFuel.
Proof. exact walk_terminates. Qed.
Print Assumptions C12_terminates.

(* acceptance implies that every include of every reachable file resolves and parses *)
Theorem C12_accept_all_resolved : forall w l,
  walk_main w = WOk l ->
  forall p, reach w p ->
    exists incs, includes_of w p = Some incs /\ forall i, In i incs -> exists t, resolve w p i = Some t.
Proof. exact accepted_reachable_resolve. Qed.
Print Assumptions C12_accept_all_resolved.

(* acceptance implies that no reachable file lies on an include cycle (of any length,
   entered at any point) *)
Theorem C12_accept_no_cycle : forall w l,
  walk_main w = WOk l -> forall p, reach w p -> ~ steps w p p.
Proof. exact accepted_no_reachable_cycle. Qed.
Print Assumptions C12_accept_no_cycle.

(* each file is loaded once however many paths reach it *)
Theorem C12_loaded_once : forall w l, walk_main w = WOk l -> NoDup l.
Proof. exact loaded_once. Qed.
Print Assumptions C12_loaded_once.

Open Scope string_scope.
Open Scope list_scope.
(* non-vacuity: a diamond is accepted, a 2-cycle entered through a third file is rejected *)
Example C12_nonvacuous :
  let f := fun (n : string) (incs : list string) => (["r"; n], Some incs) in
  walk_main (mkW [f "m.idl" ["a.idl"; "b.idl"]; f "a.idl" ["c.idl"]; f "b.idl" ["c.idl"]; f "c.idl" []] [] ["r"; "m.idl"])
    = WOk [["r"; "b.idl"]; ["r"; "c.idl"]; ["r"; "a.idl"]; ["r"; "m.idl"]] /\
  walk_main (mkW [f "m.idl" ["a.idl"]; f "a.idl" ["b.idl"]; f "b.idl" ["a.idl"]] [] ["r"; "m.idl"]) = WCycle.
Proof. split; vm_compute; reflexivity. Qed.
