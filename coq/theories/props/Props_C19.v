(* Props_C19.v — property C19 (rejection leaves no output; acceptance writes complete files).
   The order of effects comes from gen/DriverFacts.v, regenerated from idlc/src/main.rs. *)
Require Import Base Syntax Front Driver.
Require Import gen.DriverFacts proofs.DriverProofs.
Open Scope string_scope.
Open Scope list_scope.

(* the facts the theorems below rest on *)
Theorem C19_effect_order :
  writes_after_validation = true /\ content_before_open = true /\
  open_truncates = true /\ marking_before_content = true.
Proof. repeat split; reflexivity. Qed.
Print Assumptions C19_effect_order.

(* a rejected input (any stage up to and including generation) has no effect at all on the
   file system, whatever files exist there *)
Theorem C19_reject_no_effect : forall marking files fs,
  apply_effects fs (driver_effects false marking files) = fs.
Proof. exact reject_no_effect. Qed.
Print Assumptions C19_reject_no_effect.

(* an accepted single-file run leaves exactly marking ++ content in the named file —
   no mixture with a pre-existing file of any content — and touches nothing else *)
Theorem C19_accept_single_file : forall marking out content fs,
  let fs' := apply_effects fs (driver_effects true marking [(out, content)]) in
  fs_get fs' out = Some (marking ++ content)%string /\
  forall q, q <> out -> fs_get fs' q = fs_get fs q.
Proof. exact accept_single_file. Qed.
Print Assumptions C19_accept_single_file.

(* file names of the Rust generator: interfaces are keyed by their lower-cased name, so two
   interfaces that differ only in case collapse into one file (F17) *)
Theorem C19_casefold_collision_refuted :
  let mir := [MTIface (MI "Foo" None []); MTIface (MI "FOO" None [])] in
  rust_names "coll" mir = ["foo.rs"].
Proof. vm_compute. reflexivity. Qed.
Print Assumptions C19_casefold_collision_refuted.

Example C19_nonvacuous :
  let fs := [("out.h", "OLD CONTENT THAT IS MUCH LONGER THAN THE NEW ONE")] in
  apply_effects fs (driver_effects true "// m" [("out.h", "// banner")]) = [("out.h", "// m// banner")].
Proof. vm_compute. reflexivity. Qed.
