(* Props_C19.v — property C19 (rejection leaves no output; acceptance writes complete files).
   The order of effects comes from gen/DriverFacts.v, regenerated from idlc/src/main.rs. *)
Require Import Base Syntax Front Driver.
Require Import gen.DriverFacts proofs.DriverProofs.
Open Scope string_scope.
Open Scope list_scope.

(* the facts the theorems below rest on *)
Theorem C19_effect_order :
  writes_after_validation = true /\ content_before_open = true /\
  open_truncates = true /\ marking_before_content = true.
Proof. repeat split; reflexivity. Qed.
Print Assumptions C19_effect_order.

(* a rejected input (any stage up to and including generation) has no effect at all on the
   file system, whatever files exist there *)
Theorem C19_reject_no_effect : forall marking files fs,
  apply_effects fs (driver_effects false marking files) = fs.
Proof. exact reject_no_effect. Qed.
Print Assumptions C19_reject_no_effect.

(* an accepted single-file run leaves exactly marking ++ content in the named file —
   no mixture with a pre-existing file of any content — and touches nothing else *)
Theorem C19_accept_single_file : forall marking out content fs,
  let fs' := apply_effects fs (driver_effects true marking [(out, content)]) in
  fs_get fs' out = Some (marking ++ content)%string /\
  forall q, q <> out -> fs_get fs' q = fs_get fs q.
Proof. exact accept_single_file. Qed.
Print Assumptions C19_accept_single_file.

(* file names of the Rust generator: interfaces are keyed by their lower-cased name.  The pinned
   upstream generator let two interfaces that differ only in case collapse into one file (F17) ... *)
Theorem C19_casefold_collision_refuted_upstream :
  let mir := [MTIface (MI "Foo" None []); MTIface (MI "FOO" None [])] in
  rust_generate_gen false "coll" mir = Some ["foo.rs"] /\ rust_generate_gen true "coll" mir = None.
Proof. exact rust_generate_loses_interface_upstream. Qed.
Print Assumptions C19_casefold_collision_refuted_upstream.

(* ... the repaired one (regenerated fact) either rejects - and then nothing is written, by
   C19_reject_no_effect - or writes one distinct file per interface: the file of every interface
   is among them and their number is that of the interfaces beside the file-level module plus
   that module when it has content *)
Theorem C19_rust_one_file_per_interface : rust_collision_rejected = true -> forall stem mir l,
  rust_generate stem mir = Some l ->
  (forall i, In (MTIface i) mir -> In (lower (mi_name i) ++ ".rs")%string l) /\
  NoDup l /\
  List.length l = ((if rust_base_used stem mir then 1 else 0) + List.length (rust_others stem mir))%nat.
Proof. intros F stem mir l. unfold rust_generate. rewrite F. apply rust_generate_complete. Qed.
Print Assumptions C19_rust_one_file_per_interface.
Theorem C19_rust_one_file_per_interface_current : forall stem mir l,
  rust_generate stem mir = Some l ->
  (forall i, In (MTIface i) mir -> In (lower (mi_name i) ++ ".rs")%string l) /\
  NoDup l /\
  List.length l = ((if rust_base_used stem mir then 1 else 0) + List.length (rust_others stem mir))%nat.
Proof. exact (C19_rust_one_file_per_interface eq_refl). Qed.
Print Assumptions C19_rust_one_file_per_interface_current.
Theorem C19_rust_rejects_only_collisions : forall stem mir,
  rust_generate_gen true stem mir = None <-> nodup_str (rust_others stem mir) = false.
Proof. exact rust_generate_rejects_iff. Qed.
Print Assumptions C19_rust_rejects_only_collisions.

Example C19_nonvacuous :
  let fs := [("out.h", "OLD CONTENT THAT IS MUCH LONGER THAN THE NEW ONE")] in
  apply_effects fs (driver_effects true "// m" [("out.h", "// banner")]) = [("out.h", "// m// banner")].
Proof. vm_compute. reflexivity. Qed.
