(* Props_C13.v — property C13 (deterministic output, independent of location and spelling).
   What is proved: the one place where a hash-map iteration order can influence the front
   end's verdict — the order in which the topological sort hands the structs to the
   StructVerifier — does not: every dependency-respecting order gives the same verdict and
   the same sizes.  (The code generators consume the MIR in source order; the two
   generators that collect files in a hash map write each entry to its own file.)
   Real hash seeds, working directories, relocation and path spellings are sampled by the
   correspondence on every run. *)
Require Import Base Syntax Front.
Require Import Permutation.
Require Import proofs.OrderProofs.
Open Scope N_scope.

Theorem C13_verifier_order_independent : forall md st o1 o2 s1,
  NoDup o1 -> Permutation o1 o2 -> deps_first st [] o2 ->
  verify_structs md st [] o1 = Ok s1 ->
  exists s2, verify_structs md st [] o2 = Ok s2 /\ forall k, alookup k s2 = alookup k s1.
Proof. exact verifier_order_independent. Qed.
Print Assumptions C13_verifier_order_independent.

(* the accepted store is a fixed point: each struct verified against it yields its own entry *)
Theorem C13_store_fixpoint : forall md st order store store',
  NoDup order -> (forall k, In k order -> alookup k store = None) ->
  verify_structs md st store order = Ok store' ->
  forall n, In n order ->
    exists s v, struct_lookup st n = Some s /\ alookup n store' = Some v /\
                verify_fields md store' [] (s_fields s) 0 0 = Ok v.
Proof. exact verify_structs_fixpoint. Qed.
Print Assumptions C13_store_fixpoint.

Open Scope string_scope.
Example C13_nonvacuous :
  let st := mkSt [("A", mkS "A" [mkF "x" (TPrim U32) 1]); ("B", mkS "B" [mkF "a" (TCustom "A") 2]);
                  ("C", mkS "C" [mkF "y" (TPrim U16) 2])] [] [] in
  verify_structs Debug st [] ["A"; "B"; "C"] = Ok [("C", (4, 2)); ("B", (8, 4)); ("A", (4, 4))] /\
  verify_structs Debug st [] ["C"; "A"; "B"] = Ok [("B", (8, 4)); ("A", (4, 4)); ("C", (4, 2))] /\
  deps_first st [] ["C"; "A"; "B"].
Proof. repeat split; try (vm_compute; reflexivity); cbn; intros s c H; inversion H; subst; cbn; intuition. Qed.
