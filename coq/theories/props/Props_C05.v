(* Props_C05.v — property C05 (marshalling is reference-count neutral).  A call is a sequence
   of ledger updates (Own.v) whose per-visitor idioms are facts regenerated from the emitters
   each run (gen/OwnFacts.v).  The theorems quantify over every scenario — any number of input
   and output positions (direct objects, array elements, struct fields, flattened), any pattern
   of null / non-null / aliased objects, success and failure — all 3 x 3 backend pairings and
   every starting ledger.  Which retains and releases the compiled code really performs is
   observed at L2 with counting objects in all nine pairings (lib/p_refcount.py). *)
Require Import Base Own.
Require Import gen.OwnFacts.
Require Import proofs.OwnProofs.
Local Open Scope Z_scope.

(* input objects: no net retain or release for any pairing *)
Theorem C05_inputs_neutral : forall b1 b2, stub_in b1 + skel_in b2 = 0.
Proof. exact in_neutral. Qed.
Print Assumptions C05_inputs_neutral.

(* output objects: after a successful call the caller's holders own exactly the objects the
   implementation handed over, position by position *)
Theorem C05_outputs_arrive : forall b1 b2 s L0,
  holders_only_cpp b1 s = true -> sc_ok s = true -> fst (after_call b1 b2 s L0) = out_of s.
Proof. intros. now apply holders_after_success_gen. Qed.
Print Assumptions C05_outputs_arrive.

(* ... each exactly once: when the call has returned every object's count is its starting value
   plus one per input position the caller owns plus one per output position it arrived in *)
Theorem C05_counts_after_call : forall b1 b2 s L0 y,
  holders_only_cpp b1 s = true -> no_alias s = true -> sc_ok s = true ->
  snd (after_call b1 b2 s L0) y = L0 y + mult y (sc_ins s) + mult y (out_of s).
Proof.
  intros b1 b2 s L0 y H NA Hok. unfold after_call. rewrite counts_after_call_gen by exact H. rewrite Hok.
  unfold leaked. destruct consume_leaks; [rewrite (mult_all_none y _ (no_alias_aliased s NA))|cbn [mult]]; lia.
Qed.
Print Assumptions C05_counts_after_call.

(* once caller and implementation drop what they hold every count is back at its start *)
Theorem C05_balanced_after_drop : forall b1 b2 s L0 y,
  holders_only_cpp b1 s = true -> no_alias s = true -> after_drop b1 b2 s L0 y = L0 y.
Proof. intros. now apply balanced_after_drop_gen. Qed.
Print Assumptions C05_balanced_after_drop.

(* on a failed call no output object is adopted and nothing is retained or released *)
Theorem C05_failed_call : forall b1 b2 s L0,
  holders_only_cpp b1 s = true -> sc_ok s = false ->
  fst (after_call b1 b2 s L0) = pre_of s /\
  forall y, snd (after_call b1 b2 s L0) y = L0 y + mult y (sc_ins s) + mult y (pre_of s).
Proof.
  intros b1 b2 s L0 H Hf. split; [now apply failed_call_adopts_nothing_gen|].
  intro y. unfold after_call. rewrite counts_after_call_gen by exact H. rewrite Hf. lia.
Qed.
Print Assumptions C05_failed_call.

(* the aliased case.  With the pinned ProxyBase::consume (skips a duplicate without giving the
   reference back: consume_leaks = true) the unrestricted claim is false of the faithful model:
   exactly one leaked reference per output position whose holder already owned the returned
   object ... *)
Theorem C05_full_statement_refuted_upstream : consume_leaks = true ->
  exists b1 b2 s y, holders_only_cpp b1 s = true /\ after_drop b1 b2 s (fun _ => 0) y <> 0.
Proof.
  intro H. exists BCpp, BCpp, alias_witness, 1%N. split; [reflexivity|].
  unfold after_drop. rewrite H, alias_witness_leaks. discriminate.
Qed.
Print Assumptions C05_full_statement_refuted_upstream.

Theorem C05_leak_is_exactly_the_aliased_positions : forall b1 b2 s L0 y,
  holders_only_cpp b1 s = true ->
  after_drop b1 b2 s L0 y = L0 y + (if sc_ok s then mult y (leaked consume_leaks (sc_outs s)) else 0).
Proof. intros. now apply ledger_after_drop_gen. Qed.
Print Assumptions C05_leak_is_exactly_the_aliased_positions.

(* ... and with a consume that releases the duplicate the claim holds without the no_alias
   restriction, for every scenario *)
Theorem C05_balanced_for_every_scenario : consume_leaks = false ->
  forall b1 b2 s L0 y, holders_only_cpp b1 s = true -> after_drop b1 b2 s L0 y = L0 y.
Proof. intros Hc b1 b2 s L0 y H. unfold after_drop. rewrite Hc. now apply balanced_unconditionally. Qed.
Print Assumptions C05_balanced_for_every_scenario.

(* the tree being checked (regenerated facts: consume gives the duplicate back) *)
Theorem C05_balanced_current : forall b1 b2 s L0 y,
  holders_only_cpp b1 s = true -> after_drop b1 b2 s L0 y = L0 y.
Proof. exact (C05_balanced_for_every_scenario eq_refl). Qed.
Print Assumptions C05_balanced_current.

(* non-vacuity: a scenario with aliased inputs, an output equal to an input, a null, and a
   pre-filled C++ holder that owns a different object satisfies the hypotheses *)
Example C05_hypotheses_satisfiable :
  let s := {| sc_ins := [Some 1%N; Some 1%N; None; Some 2%N];
              sc_outs := [(None, Some 1%N); (Some 3%N, Some 4%N); (None, None)]; sc_ok := true |} in
  holders_only_cpp BCpp s = true /\ no_alias s = true /\
  snd (after_call BCpp BRust s (fun _ => 0)) 1%N = 3 /\ after_drop BCpp BRust s (fun _ => 0) 3%N = 0.
Proof. repeat split; vm_compute; reflexivity. Qed.

Theorem C05_idioms :
  c_stub_no_refcount_ops = true /\ c_skel_no_refcount_ops = true /\ cpp_stub_in_borrows = true /\
  cpp_stub_out_consumes = true /\ cpp_skel_in_adopts_then_extracts = true /\ cpp_skel_out_extracts = true /\
  rust_stub_in_manually_drop = true /\ rust_stub_out_takes = true /\ rust_skel_in_borrows = true /\
  rust_skel_out_moves = true.
Proof. repeat split; reflexivity. Qed.
Print Assumptions C05_idioms.
