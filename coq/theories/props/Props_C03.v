(* Props_C03.v — property C03 (wire bytes follow the Mink bundling rule).  Proved on the plan
   model: the small threshold is 16 bytes; a bundle exists iff two or more fixed-size data
   values of at most 16 bytes travel in that direction; its members are exactly those; they
   are ordered largest first; its size is the exact sum of the member sizes; it is the first
   buffer of its direction (Props_C02.C02_with_bundling_closed).  The bytes themselves - what
   the compiled stub puts into each buffer, what the compiled skeleton accepts and returns -
   are captured by the copying transport of the L2 harness and compared with an independently
   written reference encoder (lib/l2c.py ref_buffers); the skeleton is additionally driven
   directly with reference-encoded arguments.  Partial: L2 covers the C backend. *)
Require Import Base Syntax Front Plan.
Require Import gen.CodeFacts proofs.C02Proofs proofs.C03Proofs.
Require Import Permutation Sorting.Sorted.
Open Scope N_scope.

Theorem C03_small_threshold : bundled_size_max = 16.
Proof. exact small_threshold_is_16. Qed.
Print Assumptions C03_small_threshold.

Theorem C03_bundle_iff_two : forall (out : bool) ps,
  (if out then bo_of ps else bi_of ps) = true <->
  Nat.le 2 (List.length (filter (fun p => Bool.eqb (mp_out p) out && bundleable p) ps)).
Proof. exact bundle_iff_two. Qed.
Print Assumptions C03_bundle_iff_two.

Theorem C03_bundle_members : forall out ps,
  Permutation (packed out ps) (filter (fun p => Bool.eqb (mp_out p) out && bundleable p) ps).
Proof. exact packed_members. Qed.
Print Assumptions C03_bundle_members.

Theorem C03_bundle_largest_first : forall out ps, Sorted ge_size (packed out ps).
Proof. exact packed_sorted. Qed.
Print Assumptions C03_bundle_largest_first.

Theorem C03_bundle_size_exact_sum : forall out ps,
  packed_size (packed out ps) =
  sumN (map psize (filter (fun p => Bool.eqb (mp_out p) out && bundleable p) ps)).
Proof. exact bundle_size_is_sum. Qed.
Print Assumptions C03_bundle_size_exact_sum.

Theorem C03_bundle_members_small : forall out ps m,
  In m (packed out ps) -> is_prim (mp_ty m) = true \/ psize m <= 16.
Proof. exact bundle_members_small. Qed.
Print Assumptions C03_bundle_members_small.

(* "no object handles inside data buffers" is false of the faithful model: a struct of at most
   16 bytes that contains an object is bundleable, handle and all (F3) *)
Open Scope string_scope.
Theorem C03_small_objstruct_bundled_refuted :
  let s := MStruct "SmallObj" [("o", MIface None, 1)] in
  let ps := [mkMP false s PVal "s"; mkMP false (MPrim U32) PVal "y"] in
  with_bundling ps = [EBundle false [mkMP false s PVal "s"; mkMP false (MPrim U32) PVal "y"]] /\
  plan_slots ps = [BI].
Proof. split; vm_compute; reflexivity. Qed.
Print Assumptions C03_small_objstruct_bundled_refuted.

Example C03_nonvacuous :
  let ps := [mkMP false (MPrim U8) PVal "a"; mkMP false (MPrim U64) PVal "b"; mkMP false (MPrim U16) PVal "c"] in
  map mp_name (packed false ps) = ["b"; "c"; "a"] /\ packed_size (packed false ps) = 11.
Proof. split; vm_compute; reflexivity. Qed.
