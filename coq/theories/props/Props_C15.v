(* Props_C15.v — property C15 (append-only evolution). *)
Require Import Base Syntax Front Plan.
Require Import spec.Spec_Numbering proofs.NumberingProofs proofs.C15Proofs.
Open Scope N_scope.

Theorem C15_append_members_stable : forall sf st ifuel i extra ec oc mi' ec' oc',
  number_iface ifuel sf st (with_nodes i (i_nodes i ++ extra)) ec oc = Ok (mi', ec', oc') ->
  exists mi ec0 oc0 news,
    number_iface ifuel sf st (with_nodes i (i_nodes i)) ec oc = Ok (mi, ec0, oc0) /\
    mi_base mi' = mi_base mi /\
    mi_nodes mi' = mi_nodes mi ++ news /\
    flat_funcs mi' = flat_funcs mi ++ mnode_funcs news /\
    flat_errors mi' = flat_errors mi ++ mnode_errors news.
Proof. exact number_iface_append. Qed.
Print Assumptions C15_append_members_stable.

Theorem C15_added_decls_keep_lookups : forall files files' st st',
  gather_files st_empty files = Ok st -> gather_files st_empty files' = Ok st' ->
  (forall k i, find_iface files k = Some i -> find_iface files' k = Some i) ->
  forall k i, iface_lookup st k = Some i -> iface_lookup st' k = Some i.
Proof. exact added_decls_keep_lookups. Qed.
Print Assumptions C15_added_decls_keep_lookups.

Theorem C15_plan_depends_on_params_only : forall f g : mfunc,
  mf_params f = mf_params g ->
  with_bundling (mf_params f) = with_bundling (mf_params g) /\
  counter Debug (mf_params f) = counter Debug (mf_params g) /\
  plan_slots (mf_params f) = plan_slots (mf_params g).
Proof. exact plan_depends_on_params_only. Qed.
Print Assumptions C15_plan_depends_on_params_only.

(* non-vacuity: appending h to IA keeps f = 0, g = 1 *)
Open Scope string_scope.
Example C15_nonvacuous :
  let ia := mkI "IA" None [IFunc (mkFn "f" [] false None); IFunc (mkFn "g" [] false None)] in
  exists mi', number_iface 2 2 st_empty (with_nodes ia (i_nodes ia ++ [IFunc (mkFn "h" [] false None)])) 10 0
              = Ok (mi', 10%Z, 3) /\ map mf_id (flat_funcs mi') = [0; 1; 2].
Proof. eexists; split; vm_compute; reflexivity. Qed.
