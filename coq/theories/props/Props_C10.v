(* Props_C10.v — property C10 (validation is complete).  Proved per validation step of the
   front-end model: whatever satisfies the enforced rule is accepted by that step.  The
   composition over the whole pipeline (resolution of every reference, every backend) is not
   proved; it is decided by the correspondence on generated valid file sets (see DESIGN.md). *)
Require Import Base Syntax Front Plan gen.CounterFacts.
Require Import spec.Spec_C09 proofs.C09Proofs proofs.C10Proofs.
Open Scope N_scope.

(* distinct names over structs, interfaces and constants together: the symbol table is built *)
Theorem C10_symbols_complete_partial : forall files,
  rule_uniq_toplevel files = true -> exists st, gather_files st_empty files = Ok st.
Proof. exact gather_complete. Qed.
Print Assumptions C10_symbols_complete_partial.

Theorem C10_params_complete_partial : forall main,
  forallb (fun i => forallb (fun f => nodup_str (map p_name (f_params f))) (iface_funcs i)) (ast_ifaces main) = true ->
  functions_pass main = Ok tt.
Proof. exact functions_pass_complete. Qed.
Print Assumptions C10_params_complete_partial.

(* a parameter list that respects the rules the verifier enforces passes it *)
Theorem C10_interface_rules_complete_partial : forall ps,
  forallb enforced_param_ok ps = true ->
  rule_no_objarr_with_single (map abs_param ps) = true ->
  rule_no_two_objarr (map abs_param ps) = true ->
  check_params ps false false false false = Ok tt.
Proof. exact interface_rules_complete. Qed.
Print Assumptions C10_interface_rules_complete_partial.

(* with the repaired verifier the enforced rules are exactly the five parameter-list rules of
   the specification (Spec_C09.params_rules): whatever satisfies them is accepted *)
Theorem C10_spec_rules_complete : verifier_rejects_second_objarr = true -> verifier_small_objstruct_in_array = true ->
  forall ps, forallb (fun b => b) (params_rules (map abs_param ps)) = true ->
  check_params ps false false false false = Ok tt.
Proof. intros F1 F2 ps. unfold check_params. rewrite F1, F2. apply spec_rules_complete. Qed.
Print Assumptions C10_spec_rules_complete.
Theorem C10_spec_rules_complete_current : forall ps,
  forallb (fun b => b) (params_rules (map abs_param ps)) = true -> check_params ps false false false false = Ok tt.
Proof. exact (C10_spec_rules_complete eq_refl eq_refl). Qed.
Print Assumptions C10_spec_rules_complete_current.

(* a struct whose members sit on multiples of their alignment, whose size is a multiple of
   the largest alignment and below 2^64, with distinct field names, is accepted *)
Theorem C10_struct_verifier_complete_partial : forall md vstore fs seen size al,
  fields_aligned vstore seen fs size al = true ->
  exists r, verify_fields md vstore seen fs size al = Ok r.
Proof. exact verify_fields_complete. Qed.
Print Assumptions C10_struct_verifier_complete_partial.

Open Scope string_scope.
Example C10_nonvacuous :
  let ps := [mkMP false (MIface None) (PArr (Some 3%N)) "a"; mkMP true (MIface None) PVal "o";
             mkMP false (MPrim U32) (PArr None) "xs"] in
  forallb enforced_param_ok ps = true /\ rule_no_objarr_with_single (map abs_param ps) = true /\
  rule_no_two_objarr (map abs_param ps) = true /\ forallb (fun b => b) (params_rules (map abs_param ps)) = true.
Proof. repeat split; vm_compute; reflexivity. Qed.
