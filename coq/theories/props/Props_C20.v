(* Props_C20.v — property C20 (generated Rust objects under concurrency).  The step relation is
   instantiated with gen/ConcFacts.v (retain/release are single atomic read-modify-writes,
   release frees on previous value 1, the generated arm takes the mutex before the body and
   holds it during the call).  Sequentially consistent interleavings of any number of
   threads; weak-memory behaviour of the Relaxed/SeqCst orderings is outside the model. *)
Require Import Base Conc.
Require Import gen.ConcFacts proofs.ConcProofs.
Open Scope nat_scope.

(* (release_synchronizes: the decrement that may free is SeqCst / AcqRel, or Release followed by an
   Acquire fence before the free - the condition under which the sequentially consistent
   interleavings of the model are the executions of the code on weakly ordered hardware too) *)
Theorem C20_facts : retain_is_rmw = true /\ release_is_rmw = true /\ release_frees_on = 1 /\
  arm_locks_before_call = true /\ arm_holds_lock_during_call = true /\ release_synchronizes = true /\
  downcast_closure_under_lock = true.
Proof. exact facts. Qed.
Print Assumptions C20_facts.

Theorem C20_invariant : forall n s, reachable n s -> Inv s.
Proof. exact reachable_inv. Qed.
Print Assumptions C20_invariant.

Theorem C20_mutual_exclusion : forall n s i j a b, reachable n s ->
  i < List.length (ths s) -> j < List.length (ths s) ->
  at_ (get (ths s) i) = InBody a -> at_ (get (ths s) j) = InBody b -> i = j.
Proof. exact mutual_exclusion. Qed.
Print Assumptions C20_mutual_exclusion.

(* the generated downcast_concrete runs the caller's closure with the implementation to itself: no
   method body and no other closure runs while it does, and the state it saw when it started is still
   the state (regenerated fact downcast_closure_under_lock: the closure is called before the guard
   is dropped) *)
Theorem C20_downcast_closure_is_exclusive : forall n s i j, reachable n s ->
  i < List.length (ths s) -> j < List.length (ths s) ->
  holds (at_ (get (ths s) i)) = true -> holds (at_ (get (ths s) j)) = true -> i = j.
Proof. exact look_is_exclusive. Qed.
Print Assumptions C20_downcast_closure_is_exclusive.

Theorem C20_downcast_closure_sees_stable_state : forall n s i seen, reachable n s -> i < List.length (ths s) ->
  at_ (get (ths s) i) = InLook seen -> seen = impl s /\ seen = completed s.
Proof. exact look_sees_stable_state. Qed.
Print Assumptions C20_downcast_closure_sees_stable_state.

Theorem C20_sees_completed_effects : forall n s i a, reachable n s -> i < List.length (ths s) ->
  at_ (get (ths s) i) = InBody a -> a = completed s.
Proof. exact sees_completed_effects. Qed.
Print Assumptions C20_sees_completed_effects.

Theorem C20_dropped_at_most_once : forall n s, reachable n s -> drops s <= 1.
Proof. exact dropped_at_most_once. Qed.
Print Assumptions C20_dropped_at_most_once.

Theorem C20_dropped_only_after_last_release : forall n s, reachable n s -> drops s = 1 -> refs s = 0.
Proof. exact dropped_only_after_last_release. Qed.
Print Assumptions C20_dropped_only_after_last_release.

Theorem C20_no_drop_while_in_body : forall n s i, reachable n s -> i < List.length (ths s) ->
  idle (at_ (get (ths s) i)) = false -> drops s = 0.
Proof. exact no_drop_while_in_body. Qed.
Print Assumptions C20_no_drop_while_in_body.

Theorem C20_dropped_when_all_released : forall n s, reachable n s -> refs s = 0 -> drops s = 1.
Proof. exact dropped_when_all_released. Qed.
Print Assumptions C20_dropped_when_all_released.

(* non-vacuity: a handle is cloned, a call is made and returns, both handles are dropped *)
Definition s1 : st := mkSt' 2 None false 0 0 0 [mkT 2 Idle].
Definition s2 : st := mkSt' 2 None false 0 0 0 [mkT 2 Waiting].
Definition s3 : st := mkSt' 2 (Some 0) false 0 0 0 [mkT 2 (InBody 0)].
Definition s4 : st := mkSt' 2 None false 0 1 1 [mkT 2 Idle].
Definition s5 : st := mkSt' 1 None false 0 1 1 [mkT 1 Idle].
Definition s6 : st := mkSt' 0 None true 1 1 1 [mkT 0 Idle].

Example C20_nonvacuous : reachable 0 s6 /\ refs s6 = 0 /\ drops s6 = 1 /\ completed s6 = 1.
Proof.
  split; [|repeat split; reflexivity].
  assert (R1 : reachable 0 s1).
  { apply (r_step 0 (init 0) s1); [apply r_init|].
    exact (SClone (init 0) 0 (Nat.lt_0_succ 0) (le_n 1) eq_refl). }
  assert (R2 : reachable 0 s2).
  { apply (r_step 0 s1 s2 R1). exact (SCall s1 0 (Nat.lt_0_succ 0) eq_refl (le_S 1 1 (le_n 1))). }
  assert (R3 : reachable 0 s3).
  { apply (r_step 0 s2 s3 R2). exact (SAcq s2 0 (Nat.lt_0_succ 0) eq_refl (fun _ => eq_refl)). }
  assert (R4 : reachable 0 s4).
  { apply (r_step 0 s3 s4 R3). exact (SRet s3 0 0 (Nat.lt_0_succ 0) eq_refl). }
  assert (R5 : reachable 0 s5).
  { apply (r_step 0 s4 s5 R4). exact (SDrop s4 0 (Nat.lt_0_succ 0) (or_intror (le_n 2)) eq_refl). }
  apply (r_step 0 s5 s6 R5).
  exact (SDrop s5 0 (Nat.lt_0_succ 0) (or_introl (conj eq_refl (le_n 1))) eq_refl).
Qed.

(* non-vacuity of the downcast steps: a look starts, takes the lock, ends; a call then runs *)
Definition l1 : st := mkSt' 1 None false 0 0 0 [mkT 1 WaitLook].
Definition l2 : st := mkSt' 1 (Some 0) false 0 0 0 [mkT 1 (InLook 0)].
Definition l3 : st := mkSt' 1 None false 0 0 0 [mkT 1 Idle].
Example C20_look_nonvacuous : reachable 0 l2 /\ reachable 0 l3 /\ holds (at_ (get (ths l2) 0)) = true /\ lock l2 = Some 0.
Proof.
  assert (R1 : reachable 0 l1).
  { apply (r_step 0 (init 0) l1); [apply r_init|]. exact (SLook (init 0) 0 (Nat.lt_0_succ 0) eq_refl (le_n 1)). }
  assert (R2 : reachable 0 l2).
  { apply (r_step 0 l1 l2 R1). exact (SLookAcq l1 0 (Nat.lt_0_succ 0) eq_refl eq_refl). }
  split; [exact R2|]. split; [|split; reflexivity].
  apply (r_step 0 l2 l3 R2). exact (SLookEnd l2 0 0 (Nat.lt_0_succ 0) eq_refl).
Qed.
