(* Props_C17.v — property C17 (constants: exact value, declared type, exact range check). *)
Require Import Base Syntax Consts ConstEmit.
Require Import proofs.ConstsProofs proofs.ConstEmitProofs.
Open Scope string_scope.

(* The range check of Primitive::new is exact for every literal the grammar admits, of any
   length: hexadecimal, decimal, negative, fractional. *)
Theorem C17_range_check_hex : forall p neg c H d,
  is_int p = true -> digit_val c = Some d -> all_digitsb 16 (String c H) = true ->
  let raw := (sign_str neg ++ "0x" ++ String c H)%string in
  range_check_int p raw = Some (spec_accept_int p raw).
Proof. exact range_check_exact_hex. Qed.
Print Assumptions C17_range_check_hex.

Theorem C17_range_check_dec : forall p neg c D d,
  is_int p = true -> digit_val c = Some d -> all_digitsb 10 (String c D) = true ->
  let raw := (sign_str neg ++ String c D)%string in
  range_check_int p raw = Some (spec_accept_int p raw).
Proof. exact range_check_exact_dec. Qed.
Print Assumptions C17_range_check_dec.

Theorem C17_range_check_frac : forall p neg c D F d,
  is_int p = true -> digit_val c = Some d -> all_digitsb 10 (String c D) = true -> all_digitsb 10 F = true ->
  let raw := (sign_str neg ++ String c D ++ String "." F)%string in
  range_check_int p raw = Some false /\ spec_accept_int p raw = false.
Proof. exact range_check_exact_frac. Qed.
Print Assumptions C17_range_check_frac.

(* "evaluates in that language to the mathematical value": false for C/C++/Java when the
   literal has leading zeros (read as octal) — machine-checked witness (F14) *)
Theorem C17_leading_zero_refuted :
  math_int (parse_literal "00017") = Some 17%Z /\ eval_c_int "00017" = Some 15%Z /\ eval_rust_int "00017" = Some 17%Z.
Proof. repeat split; vm_compute; reflexivity. Qed.
Print Assumptions C17_leading_zero_refuted.

(* without leading zeros the C reading is the mathematical value *)
Theorem C17_c_value_exact : forall raw,
  leading_zero (parse_literal raw) = false -> eval_c_int raw = math_int (parse_literal raw).
Proof.
  intros raw H. unfold eval_c_int, math_int. rewrite H.
  destruct (l_frac (parse_literal raw)); [reflexivity|].
  destruct (l_hex (parse_literal raw)); reflexivity.
Qed.
Print Assumptions C17_c_value_exact.

Example C17_nonvacuous :
  range_check_int U8 "255" = Some true /\ range_check_int U8 "256" = Some false /\
  range_check_int I8 "-0x80" = Some true /\ range_check_int I8 "-0x81" = Some false /\
  range_check_int U16 "-0" = Some false /\ spec_accept_int U16 "-0" = false.
Proof. repeat split; vm_compute; reflexivity. Qed.

(* ---- the emitted text (since the repair of the emitters constants are written by VALUE) ---- *)

(* i128::to_string followed by the target's reading of a decimal literal is the identity, for
   numbers of any size *)
Theorem C17_decimal_print_roundtrip : forall n, Consts.digits 10 (show_N n) = Some n.
Proof. exact digits_show_N. Qed.
Print Assumptions C17_decimal_print_roundtrip.

Theorem C17_printed_value_reads_back : forall z, eval_c_int (show_Z z) = Some z.
Proof. exact eval_c_int_show_Z. Qed.
Print Assumptions C17_printed_value_reads_back.

(* C and C++: every accepted integer constant - whatever its spelling: leading zeros, hexadecimal,
   negated hexadecimal, the most negative 64-bit value - is emitted as an expression that compiles
   under -Werror (no literal beyond the signed range under an INTn_C macro) and evaluates to the
   mathematical value *)
Theorem C17_c_emitted_value : forall p raw v,
  is_int p = true -> spec_accept_int p raw = true -> math_int (parse_literal raw) = Some v ->
  eval_cexpr p (c_const_expr p raw) = Some v.
Proof. exact c_emitted_exact. Qed.
Print Assumptions C17_c_emitted_value.

(* Java: the emitted literal compiles for the carrier type and is congruent to the value modulo
   2^bits (Java has no unsigned types: the carrier holds the bit pattern) ... *)
Theorem C17_java_emitted_carrier : forall p raw v sg bits,
  int_bits p = Some (sg, bits) -> spec_accept_int p raw = true -> math_int (parse_literal raw) = Some v ->
  exists j, java_read p (java_const_literal p raw) = Some j /\ ((j - v) mod 2 ^ Z.of_N bits = 0)%Z.
Proof. exact java_emitted_carrier. Qed.
Print Assumptions C17_java_emitted_carrier.

(* ... and equal to the value whenever the carrier can hold it *)
Theorem C17_java_emitted_value_when_it_fits : forall p raw v sg bits,
  int_bits p = Some (sg, bits) -> spec_accept_int p raw = true -> math_int (parse_literal raw) = Some v ->
  (if (bits =? 16)%N then (0 <= v)%Z else (- 2 ^ (Z.of_N bits - 1) <= v < 2 ^ (Z.of_N bits - 1))%Z) ->
  java_read p (java_const_literal p raw) = Some v.
Proof. exact java_emitted_exact_when_it_fits. Qed.
Print Assumptions C17_java_emitted_value_when_it_fits.

(* Rust keeps the IDL spelling of an integer constant, which Rust reads as the mathematical value *)
Theorem C17_rust_emitted_value : forall p raw,
  is_int p = true -> eval_rust_int (rust_const_literal p raw) = math_int (parse_literal raw).
Proof.
  intros p raw H. unfold rust_const_literal, is_int in *. destruct (int_bits p); [reflexivity|discriminate].
Qed.
Print Assumptions C17_rust_emitted_value.

Example C17_emitted_nonvacuous :
  show_cexpr (c_const_expr I64 "-0x8000000000000000") = "(INT64_C(-9223372036854775807) - 1)" /\
  eval_cexpr I64 (c_const_expr I64 "-0x8000000000000000") = Some (- 2 ^ 63)%Z /\
  show_cexpr (c_const_expr U16 "00017") = "UINT16_C(17)" /\
  eval_cexpr U16 (c_const_expr U16 "00017") = Some 17%Z /\
  show_cexpr (c_const_expr I32 "-0x80000000") = "INT32_C(-2147483648)" /\
  java_const_literal U8 "200" = "-56" /\ java_read U8 "-56" = Some (-56)%Z /\
  java_const_literal U64 "18446744073709551615" = "-1L" /\
  java_const_literal I16 "-1" = "65535" /\
  java_const_literal F32 "1.5" = "1.5f" /\ rust_const_literal F64 "3" = "3.0" /\
  spec_accept_int I64 "-0x8000000000000000" = true.
Proof. repeat split; vm_compute; reflexivity. Qed.
