(* Props_C17.v — property C17 (constants: exact value, declared type, exact range check). *)
Require Import Base Syntax Consts.
Require Import proofs.ConstsProofs.
Open Scope string_scope.

(* The range check of Primitive::new is exact for every literal the grammar admits, of any
   length: hexadecimal, decimal, negative, fractional. *)
Theorem C17_range_check_hex : forall p neg c H d,
  is_int p = true -> digit_val c = Some d -> all_digitsb 16 (String c H) = true ->
  let raw := (sign_str neg ++ "0x" ++ String c H)%string in
  range_check_int p raw = Some (spec_accept_int p raw).
Proof. exact range_check_exact_hex. Qed.
Print Assumptions C17_range_check_hex.

Theorem C17_range_check_dec : forall p neg c D d,
  is_int p = true -> digit_val c = Some d -> all_digitsb 10 (String c D) = true ->
  let raw := (sign_str neg ++ String c D)%string in
  range_check_int p raw = Some (spec_accept_int p raw).
Proof. exact range_check_exact_dec. Qed.
Print Assumptions C17_range_check_dec.

Theorem C17_range_check_frac : forall p neg c D F d,
  is_int p = true -> digit_val c = Some d -> all_digitsb 10 (String c D) = true -> all_digitsb 10 F = true ->
  let raw := (sign_str neg ++ String c D ++ String "." F)%string in
  range_check_int p raw = Some false /\ spec_accept_int p raw = false.
Proof. exact range_check_exact_frac. Qed.
Print Assumptions C17_range_check_frac.

(* "evaluates in that language to the mathematical value": false for C/C++/Java when the
   literal has leading zeros (read as octal) — machine-checked witness (F14) *)
Theorem C17_leading_zero_refuted :
  math_int (parse_literal "00017") = Some 17%Z /\ eval_c_int "00017" = Some 15%Z /\ eval_rust_int "00017" = Some 17%Z.
Proof. repeat split; vm_compute; reflexivity. Qed.
Print Assumptions C17_leading_zero_refuted.

(* without leading zeros the C reading is the mathematical value *)
Theorem C17_c_value_exact : forall raw,
  leading_zero (parse_literal raw) = false -> eval_c_int raw = math_int (parse_literal raw).
Proof.
  intros raw H. unfold eval_c_int, math_int. rewrite H.
  destruct (l_frac (parse_literal raw)); [reflexivity|].
  destruct (l_hex (parse_literal raw)); reflexivity.
Qed.
Print Assumptions C17_c_value_exact.

Example C17_nonvacuous :
  range_check_int U8 "255" = Some true /\ range_check_int U8 "256" = Some false /\
  range_check_int I8 "-0x80" = Some true /\ range_check_int I8 "-0x81" = Some false /\
  range_check_int U16 "-0" = Some false /\ spec_accept_int U16 "-0" = false.
Proof. repeat split; vm_compute; reflexivity. Qed.
