(* Props_C11.v — property C11 (generated code builds warning-clean).  Partial: whether gcc,
   clang, rustc and javac accept a file is not something a Gallina model can decide; the
   generated files of every run are compiled by those compilers with upstream's flags
   (lib/p_build.py).  What is logic is proved here: the shape of the C++ base clause for every
   hierarchy depth, and the naming scheme of generated identifiers against the fixed locals of
   the templates, for every parameter name. *)
Require Import Base Emit.
Require Import Ascii String List.
Require Import gen.EmitFacts.
Require Import proofs.EmitProofs.
Import ListNotations.
Open Scope list_scope.

(* the base clause of a generated C++ class, for a hierarchy of any depth: when the emitter
   names only the immediate base it is always well formed ... *)
Theorem C11_cpp_base_clause : cpp_base_only_immediate = true ->
  forall ancestors, wf_base_clause (cpp_base_clause ancestors) = true.
Proof. intros H ancestors. unfold cpp_base_clause. rewrite H. apply base_clause_immediate_wf. Qed.
Print Assumptions C11_cpp_base_clause.

(* ... and when it pushes every ancestor after one ": public" (the pinned upstream emitter)
   exactly for at most one ancestor: "inheritance deeper than two levels" was refuted there *)
Theorem C11_cpp_base_clause_upstream : cpp_base_only_immediate = false ->
  forall ancestors, wf_base_clause (cpp_base_clause ancestors) = Nat.leb (List.length ancestors) 1.
Proof. intros H ancestors. unfold cpp_base_clause. rewrite H. apply base_clause_spaced_wf_iff. Qed.
Print Assumptions C11_cpp_base_clause_upstream.

(* which of the two applies to the tree being checked (regenerated fact): after the repair of
   the base clause the first one *)
Theorem C11_cpp_base_clause_current : forall ancestors, wf_base_clause (cpp_base_clause ancestors) = true.
Proof. exact (C11_cpp_base_clause eq_refl). Qed.
Print Assumptions C11_cpp_base_clause_current.

(* suffixed identifiers: whatever a parameter is called, none of the names derived from it by
   a suffix is a local of any template *)
Theorem C11_suffixed_names_are_fresh : forall l name s,
  In s suffixes -> existsb (ident_eqb (name ++ s)) (template_locals l) = false.
Proof. exact suffixed_never_local. Qed.
Print Assumptions C11_suffixed_names_are_fresh.

Theorem C11_data_params_never_shadow : forall l name, l = LC \/ l = LCpp -> shadows l KData name = false.
Proof. exact data_params_never_shadow. Qed.
Print Assumptions C11_data_params_never_shadow.

(* bare identifiers: object parameters of C / C++ (and every parameter of Rust and of the Java
   skeleton) collide exactly with the template locals; "parameter names that coincide with
   locals of the generated code" is refuted for those *)
Theorem C11_object_params_shadow_iff : forall l name, l = LC \/ l = LCpp ->
  shadows l KObject name = existsb (ident_eqb name) (template_locals l).
Proof. exact object_param_shadows_iff. Qed.
Print Assumptions C11_object_params_shadow_iff.

Theorem C11_shadowing_refuted :
  shadows LC KObject (id "result") = true /\ shadows LCpp KObject (id "a") = true /\
  shadows LRust KData (id "args") = true /\ shadows LJava KData (id "bo") = true.
Proof. repeat split; vm_compute; reflexivity. Qed.
Print Assumptions C11_shadowing_refuted.
