(* Props_C07.v — property C07 (method op-codes).  Statements only; each is closed
   by [exact] of a lemma from proofs/ and followed by Print Assumptions. *)
Require Import Base Syntax Front.
Require Import spec.Spec_Numbering proofs.NumberingProofs proofs.C07Proofs proofs.C09Proofs.
Open Scope N_scope.

(* Whatever the front end accepts (either entry point, either build mode), the
   op table of every interface of the main file is the one the property
   prescribes: declaration order, root ancestor first, consecutive from 0,
   every code <= 0x3FFF. *)
Theorem C07_ops_prescribed : forall e md files mir,
  front e md files = Ok mir -> spec_c07 files (optable_of_mir mir) = true.
Proof. exact front_ops_spec. Qed.
Print Assumptions C07_ops_prescribed.

(* uniqueness and the 0x3FFF bound follow from the spec *)
Theorem C07_unique_bounded : forall files i row,
  spec_ops_iface files i row = true ->
  NoDup (map snd (snd row)) /\ (forall x, In x (map snd (snd row)) -> x <= 16383).
Proof. exact spec_row_unique_bounded. Qed.
Print Assumptions C07_unique_bounded.

(* an interface needing more than 0x3FFF + 1 op-codes is rejected *)
Theorem C07_too_many_rejected : forall e md files main rest i,
  files = main :: rest -> In i (ast_ifaces main) -> too_many_methods files i = true ->
  is_ok (front e md files) = false.
Proof. exact too_many_methods_rejected. Qed.
Print Assumptions C07_too_many_rejected.

(* a derived interface carries its base numbered exactly as the base is numbered
   on its own (this is what makes the C names of inherited ops, which resolve
   through the base's own header, agree with the derived dispatch table) *)
Theorem C07_ancestor_shared : forall st i mi bn bi,
  number_top st i = Ok mi -> i_base i = Some bn -> iface_lookup st bn = Some bi ->
  exists mb, number_top st bi = Ok mb /\ mi_base mi = Some mb.
Proof. exact ancestor_numbering_shared. Qed.
Print Assumptions C07_ancestor_shared.

(* non-vacuity: a two-level hierarchy is accepted and numbered 0,1,2 *)

(* one number per name: in the flattened interface of an accepted main-file interface no method name
   occurs twice (a name declared again further down the chain, at any distance, is rejected by the
   interface verifier), so "the" number of a name is well defined in every derived interface *)
Theorem C07_names_unique : forall md files mir,
  front Cli md files = Ok mir -> spec_names_unique (optable_of_mir mir) = true.
Proof. intros md files mir H. exact (proj1 (front_cli_tables_names_unique md files mir H)). Qed.
Print Assumptions C07_names_unique.

Open Scope string_scope.
Example C07_nonvacuous :
  let files := [mkAst "m.idl"
     [NIface (mkI "IA" None [IFunc (mkFn "f" [] false None); IError "E"; IFunc (mkFn "g" [] false None)]);
      NIface (mkI "IB" (Some "IA") [IFunc (mkFn "h" [] false None)])]] in
  exists mir, front Cli Debug files = Ok mir /\
    optable_of_mir mir = [("IA", [("f", 0); ("g", 1)]); ("IB", [("f", 0); ("g", 1); ("h", 2)])]%N.
Proof. eexists; split; vm_compute; reflexivity. Qed.
