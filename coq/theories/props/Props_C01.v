(* Props_C01.v — property C01 (stub -> skeleton round trip through a copying transport).
   Proved: with a canonical envelope the transport hands the callee every slot in exactly the
   role the stub intended, with its payload, in order, none dropped and none added; the
   positions declared by the counts are then the intended roles.  Stub and skeleton walk the
   same event sequence with the same running index (Props_C02.C02_with_bundling_closed), so a
   slot written at index i for a parameter is read at index i for that parameter.  The byte-
   and value-level behaviour of the generated code is decided by compiling and running it
   (L2): C stub -> copying transport -> C skeleton under ASan/UBSan, with values, lengths,
   objects and status compared against the log the property prescribes.
   Partial: the C++ and Rust pairings are covered at L1 (Props_C02) but not yet at L2. *)
Require Import Base Syntax Front Plan.
Require Import spec.Spec_C02 Transport proofs.TransportProofs proofs.C02Proofs.
Open Scope N_scope.

Theorem C01_positions_are_roles : forall c kinds,
  envelope_canonical c kinds = true -> positional c = kinds.
Proof. exact canonical_positional. Qed.
Print Assumptions C01_positions_are_roles.

Theorem C01_transport_delivers_exactly : forall (P : Type) c (sl : list (N * P)),
  envelope_canonical c (map fst sl) = true -> deliver c (map raw_of sl) = Some sl.
Proof. exact @transport_delivers_exactly. Qed.
Print Assumptions C01_transport_delivers_exactly.

(* the unrestricted statement is false of the faithful model: for an object-bearing struct
   followed by another buffer (F1) the transport is handed an object where the counts promise
   a buffer, and forwards nothing *)
Theorem C01_interleave_refuted :
  deliver (2, 1, 1, 0) (map raw_of [(0, 10); (2, 11); (0, 12); (1, 13)]) = None.
Proof. vm_compute. reflexivity. Qed.
Print Assumptions C01_interleave_refuted.

(* an input object array sorted after a single output object (F4): the output slot is taken
   for an input object and the last array element for the output *)
Theorem C01_objarr_after_out_refuted :
  deliver (0, 0, 2, 1) (map raw_of [(3, 20); (2, 21); (2, 22)]) = Some [(2, 20); (2, 21); (3, 22)].
Proof. vm_compute. reflexivity. Qed.
Print Assumptions C01_objarr_after_out_refuted.

(* a bundle whose natural C layout has interior padding is not the packed bundle the size
   literal (and the Rust stub) assume: witness (F5) *)
Open Scope string_scope.
Theorem C01_padded_bundle_witness :
  let s12 := MStruct "S12" [("a", MPrim U32, 3)] in
  let ms := [mkMP false s12 PVal "s"; mkMP false (MPrim U64) PVal "x"] in
  natural_offsets ms 0 = [0; 16] /\ packed_offsets ms 0 = [0; 12] /\ bundle_padded ms = true.
Proof. repeat split; vm_compute; reflexivity. Qed.
Print Assumptions C01_padded_bundle_witness.

Example C01_nonvacuous :
  envelope_canonical (2, 1, 1, 1) (map fst [(0, 1); (0, 2); (1, 3); (2, 4); (3, 5)]) = true.
Proof. vm_compute. reflexivity. Qed.
