(* Props_C09.v — property C09 (validation is sound): what acceptance by the front-end model
   implies, rule by rule; witnesses for the rules that are not enforced (known findings). *)
Require Import Base Syntax Front Plan gen.CounterFacts.
Require Import spec.Spec_C09 spec.Spec_Numbering proofs.C07Proofs proofs.C09Proofs proofs.LayoutProofs Layout.
Open Scope N_scope.

(* duplicate struct / interface names and duplicate constant names: rejected for every
   declaration of every loaded file, both entry points *)
Theorem C09_unique_toplevel : forall e md files mir,
  front e md files = Ok mir -> rule_uniq_types files = true /\ rule_uniq_consts files = true.
Proof. exact front_names_unique. Qed.
Print Assumptions C09_unique_toplevel.

(* duplicate parameters (interfaces of the main file) *)
Theorem C09_unique_params_main : forall e md files main rest mir,
  files = main :: rest -> front e md files = Ok mir ->
  forallb (fun i => forallb (fun f => nodup_str (map p_name (f_params f))) (iface_funcs i)) (ast_ifaces main) = true.
Proof. exact front_params_unique. Qed.
Print Assumptions C09_unique_params_main.

(* command-line driver: every method reachable from a main-file interface (own or inherited)
   respects the object-array rules; member names are unique along the chain *)
Theorem C09_cli_interface_rules : forall md files mir top,
  front Cli md files = Ok mir -> In (MTIface top) mir ->
  nodup_str (flat_map (fun x => mnode_const_names (mi_nodes x)) (mi_chain top)) = true /\
  nodup_str (flat_map (fun x => map mf_name (mnode_funcs (mi_nodes x))) (mi_chain top)) = true /\
  forall f, In f (chain_funcs top) ->
    rule_no_unbounded_objarr (map abs_param (mf_params f)) = true /\
    rule_no_objarr_with_single (map abs_param (mf_params f)) = true /\
    forallb (fun p => match rp_kind p, rp_arr p with KData, Some (Some _) => false | _, _ => true end)
            (map abs_param (mf_params f)) = true /\
    forallb (fun p => negb (rp_out p) ||
                      match rp_kind p, rp_arr p with KObjStruct, Some _ => false | _, _ => true end)
            (map abs_param (mf_params f)) = true.
Proof. exact front_cli_interfaces_sound. Qed.
Print Assumptions C09_cli_interface_rules.

(* undefined bases and inheritance cycles: every main-file interface has a complete chain *)
Theorem C09_bases_defined : forall e md files mir,
  front e md files = Ok mir -> spec_c07 files (optable_of_mir mir) = true.
Proof. exact front_ops_spec. Qed.
Print Assumptions C09_bases_defined.

(* misaligned members / size not a multiple of the alignment: see Props_C06 (C06_all_structs);
   restated here for the dependency order of the main file's structs *)
Theorem C09_structs_verified : forall md st order vstore',
  verify_structs md st [] order = Ok vstore' ->
  exists cstore', c_structs st [] order = Some cstore' /\ stores_rel vstore' cstore'.
Proof. intros md st order vstore' H. exact (verified_order_layout md st order [] [] vstore' stores_rel_nil H). Qed.
Print Assumptions C09_structs_verified.

(* ---- the full statement is false of the faithful model: witnesses ---- *)
Definition C09_full : Prop := forall e md files mir,
  front e md files = Ok mir ->
  rule_uniq_toplevel files = true /\ rule_uniq_params files = true.

Theorem C09_full_refuted : ~ C09_full.
Proof.
  intro H.
  destruct included_decls_unchecked as [A B]. cbv zeta in A, B.
  match type of A with is_ok ?o = true => destruct o as [mir| | |] eqn:E; try discriminate end.
  destruct (H _ _ _ _ E) as [_ U]. rewrite B in U. discriminate.
Qed.
Print Assumptions C09_full_refuted.

(* the pinned upstream symbol table kept types and constants under separate keys: a constant
   could share its name with a struct (F22) ... *)
Theorem C09_witness_const_vs_type_upstream :
  exists files, is_ok (gather_files_gen false st_empty files) = true /\
                is_ok (gather_files_gen true st_empty files) = false /\ rule_uniq_toplevel files = false.
Proof. eexists. exact const_and_struct_same_name_accepted_upstream. Qed.
Print Assumptions C09_witness_const_vs_type_upstream.
(* ... the repaired one (regenerated fact) gives one namespace to every top-level name of every
   loaded file, both entry points *)
Theorem C09_unique_toplevel_all : symbols_one_namespace = true -> forall e md files mir,
  front e md files = Ok mir -> rule_uniq_toplevel files = true.
Proof. intros F e md files mir. now apply front_toplevel_unique. Qed.
Print Assumptions C09_unique_toplevel_all.
Theorem C09_unique_toplevel_current : forall e md files mir,
  front e md files = Ok mir -> rule_uniq_toplevel files = true.
Proof. exact (C09_unique_toplevel_all eq_refl). Qed.
Print Assumptions C09_unique_toplevel_current.

(* the pinned upstream verifier accepted a second object array of one direction and an input
   array of a small struct that contains an object (F7, F8) ... *)
Theorem C09_witness_two_objarr_upstream :
  exists ps, check_params_gen false false ps false false false false = Ok tt /\ rule_no_two_objarr (map abs_param ps) = false.
Proof. eexists. exact two_objarr_accepted_upstream. Qed.
Print Assumptions C09_witness_two_objarr_upstream.
Theorem C09_witness_in_array_small_objstruct_upstream :
  exists ps, check_params_gen false false ps false false false false = Ok tt /\ rule_no_array_of_objstruct (map abs_param ps) = false.
Proof. eexists. exact in_array_small_objstruct_accepted_upstream. Qed.
Print Assumptions C09_witness_in_array_small_objstruct_upstream.
(* ... the repaired verifier (regenerated facts) enforces all five parameter-list rules of the
   specification, for every method reachable from a main-file interface *)
Theorem C09_param_rules : verifier_rejects_second_objarr = true -> verifier_small_objstruct_in_array = true ->
  forall md files mir top, front Cli md files = Ok mir -> In (MTIface top) mir ->
  forall f, In f (chain_funcs top) -> forallb (fun b => b) (params_rules (map abs_param (mf_params f))) = true.
Proof. intros F1 F2 md files mir top. now apply front_cli_param_rules. Qed.
Print Assumptions C09_param_rules.
(* the tree being checked *)
Theorem C09_param_rules_current : forall md files mir top, front Cli md files = Ok mir -> In (MTIface top) mir ->
  forall f, In f (chain_funcs top) -> forallb (fun b => b) (params_rules (map abs_param (mf_params f))) = true.
Proof. exact (C09_param_rules eq_refl eq_refl). Qed.
Print Assumptions C09_param_rules_current.
(* the pinned upstream library entry point skipped the interface verifier ... *)
Theorem C09_witness_lib_entry_upstream :
  exists files, is_ok (front_gen false Lib Debug files) = true /\ is_ok (front_gen false Cli Debug files) = false.
Proof. eexists. exact lib_skips_interface_verifier_upstream. Qed.
Print Assumptions C09_witness_lib_entry_upstream.
(* ... the repaired one is the same function as the command line's (the tree being checked) *)
Theorem C09_entry_points_agree_current : forall md files, front Lib md files = front Cli md files.
Proof. exact entry_points_agree. Qed.
Print Assumptions C09_entry_points_agree_current.
Theorem C09_witness_included_decls :
  exists files, is_ok (front Cli Debug files) = true /\ rule_uniq_params files = false.
Proof. eexists. exact included_decls_unchecked. Qed.
Print Assumptions C09_witness_included_decls.
