(* Props_C16.v — property C16 (total, no UB, debug = release).  What is proved: on pair trees
   of the shapes the grammar produces without a comment between the tokens of a declaration
   and with array sizes in 1..65535, the PST -> AST conversion is the same function in both
   build modes and never reaches an unwrap_unchecked; the front end in Release mode either
   hits a wrapped usize operation (flagged UB) or equals Debug.  Termination of the model
   functions is by construction (structural recursion; fuel bounds proved in Props_C12).
   Memory faults, stack depth and running time of the real binary are observed, not modelled. *)
Require Import Base Syntax Front Pst.
Require Import proofs.PstProofs proofs.ModeProofs.
Require Import Peg gen.Grammar proofs.PegProofs.
Open Scope string_scope.
Open Scope list_scope.

Theorem C16_pst_modes_agree : forall ub t,
  wf_idl (canon t) = true -> pst_to_ast Debug ub t = pst_to_ast Release ub t.
Proof. exact pst_modes_agree. Qed.
Print Assumptions C16_pst_modes_agree.

Theorem C16_pst_release_no_ub : forall ub t, wf_idl (canon t) = true -> not_ub (pst_to_ast Release ub t).
Proof. exact pst_release_no_ub. Qed.
Print Assumptions C16_pst_release_no_ub.

Theorem C16_front_modes_agree : forall e files,
  no_ub (front e Release files) -> front e Debug files = front e Release files.
Proof. exact front_modes. Qed.
Print Assumptions C16_front_modes_agree.

(* with checked struct size arithmetic (the tree being checked: regenerated fact) the front end
   is the same function in both modes, with no hypothesis *)
Theorem C16_front_modes_agree_current : forall e files, front e Debug files = front e Release files.
Proof. exact (front_modes_same eq_refl). Qed.
Print Assumptions C16_front_modes_agree_current.

(* an array size of 0 (or beyond 65535).  With the pinned upstream parse through ast_unwrap! it
   is a panic in Debug and undefined behaviour in Release (F10) ... *)
Theorem C16_array_size_refuted_upstream :
  count_unwrap false Debug 16 (parse_count "0") = Reject RParse /\
  count_unwrap false Release 16 (parse_count "0") = UB 16 /\
  count_unwrap false Release 2 (parse_count "65536") = UB 2.
Proof. repeat split; vm_compute; reflexivity. Qed.
Print Assumptions C16_array_size_refuted_upstream.

(* ... with the repaired parse (the tree being checked: regenerated fact) both modes reject *)
Theorem C16_array_size_current :
  let t := T "idl" "" [T "struct" "" [T "struct_keyword" "struct " []; T "ident" "S" [];
             T "struct_field" "" [T "primitive_type" "uint8" []; T "bounded_array" "[0]" [T "array_size" "0" []]; T "ident" "a" []]]] in
  pst_to_ast Debug false t = Reject RParse /\ pst_to_ast Release false t = Reject RParse.
Proof. split; vm_compute; reflexivity. Qed.
Print Assumptions C16_array_size_current.

(* a comment between the tokens of a parameter (F12).  With the pinned positional reads the
   modes disagree (panic in Debug, unwrap_unchecked on None in Release) ... *)
Definition comment_in_param : tree :=
  T "idl" "" [T "interface" "" [T "interface_keyword" "interface " []; T "iname" "" [T "ident" "I" []];
     T "function" "" [T "function_keyword" "method " []; T "ident" "f" [];
        T "param" "" [T "mutability" "in" []; T "COMMENT" "/*c*/" []; T "param_type" "" [T "primitive_type" "uint8" []]; T "ident" "x" []]]]].

Theorem C16_comment_pair_refuted_upstream :
  (exists c, pst_to_ast_raw Debug false comment_in_param = Reject c) /\
  (exists s, pst_to_ast_raw Release false comment_in_param = UB s).
Proof. split; eexists; vm_compute; reflexivity. Qed.
Print Assumptions C16_comment_pair_refuted_upstream.

(* ... with the repaired reads (the tree being checked: regenerated fact) it is an ordinary input *)
Theorem C16_comment_pair_current :
  wf_idl (canon comment_in_param) = true /\
  pst_to_ast Release false comment_in_param = Ok [NIface (mkI "I" None [IFunc (mkFn "f" [mkP false (TPrim U8) PVal "x"] false None)])].
Proof. split; vm_compute; reflexivity. Qed.
Print Assumptions C16_comment_pair_current.

Example C16_nonvacuous :
  let t := T "idl" "" [T "const" "" [T "const_keyword" "const " []; T "primitive_type" "uint8" []; T "ident" "K" []; T "value" "7" []];
                       T "COMMENT" "// c" []; T "EOI" "" []] in
  wf_idl (canon t) = true /\ pst_to_ast Release false t = Ok [NConst (mkC "K" U8 "7")].
Proof. split; vm_compute; reflexivity. Qed.

(* text -> pair tree.  The grammar is a value regenerated from idl_grammar.pest on every run; its
   parser (Peg.v: pest's sequence / choice / repetition / lookahead semantics, implicit skipping,
   rule kinds, token production) is tied to pest itself by comparing pair trees on every input of
   the C14 and C16 runs.  "For every input the compiler terminates with accept or reject": a
   grammar whose rules can be ranked - every rule calls, in the atomicity context its body runs
   in, only rules of lower rank - is parsed without ever exhausting the depth budget, whatever
   the bytes of the input are ... *)
(* The MIR lowering computes the packed size of every struct parameter in usize - also for the
   structs of included files, which the struct verifier never sees.  With the arithmetic checked
   (regenerated fact mir_size_checked) a size that does not fit is refused, whatever the build mode
   (the model function has no mode argument any more); every lowered parameter's size fits.  The pinned
   unchecked arithmetic accepted the witness in the model and, in the real binaries, panicked in the
   debug build and wrapped in the release build (replay: the must-refuse file sets of the C16 check). *)
Theorem C16_oversized_struct_parameter_refused : CounterFacts.mir_size_checked = true ->
  forall fuel st p t, resolve_ty fuel st (p_ty p) = Ok t -> (usize_max <= mty_size t)%N ->
  resolve_param fuel st p = Reject ROverflow.
Proof. intros Hc fuel st p t H Hs. unfold resolve_param. rewrite Hc. exact (resolve_param_oversized true fuel st p t H Hs). Qed.
Print Assumptions C16_oversized_struct_parameter_refused.

Theorem C16_lowered_parameter_size_fits : CounterFacts.mir_size_checked = true ->
  forall fuel st p mp, resolve_param fuel st p = Ok mp -> (mty_size (mp_ty mp) < usize_max)%N.
Proof. intros Hc fuel st p mp. unfold resolve_param. rewrite Hc. exact (resolve_param_fits fuel st p mp). Qed.
Print Assumptions C16_lowered_parameter_size_fits.

Theorem C16_oversized_struct_parameter_refuted_upstream : forall fuel st p,
  resolve_ty fuel st (p_ty p) = Ok huge_ty ->
  exists mp, resolve_param_gen false fuel st p = Ok mp /\ (usize_max <= mty_size (mp_ty mp))%N.
Proof.
  intros fuel st p H. eexists. split.
  - rewrite (resolve_param_oversized false fuel st p huge_ty H); [reflexivity|].
    apply N.leb_le. exact huge_overflows.
  - cbn [mp_ty]. apply N.leb_le. exact huge_overflows.
Qed.
Print Assumptions C16_oversized_struct_parameter_refuted_upstream.

Theorem C16_mir_size_checked_current : CounterFacts.mir_size_checked = true.
Proof. reflexivity. Qed.
Print Assumptions C16_mir_size_checked_current.

Theorem C16_parser_total : forall g, grammar_ok g = true -> forall inp, parse_with g inp <> RFuel.
Proof. exact parse_total. Qed.
Print Assumptions C16_parser_total.
(* ... and the grammar being checked has such a ranking (computed, then checked, by evaluation) *)
Theorem C16_parser_total_current : forall inp, parse_with idl_grammar inp <> RFuel.
Proof. apply parse_total. vm_compute. reflexivity. Qed.
Print Assumptions C16_parser_total_current.
