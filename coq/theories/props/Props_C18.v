(* Props_C18.v — property C18 (Java proxies and skeletons agree with each other and with the
   wire model).  Partial: the theorems are about the wire contract the Java emitters are
   instantiated with (slot sequence of the shared walk, little-endian packed images, signed
   carriers); the behaviour of the generated classes is executed every run through the
   generated Proxy and MinkObject against the stand-in runtime (lib/p_java.py), where the
   arrays passed to invoke and the values on both sides are compared with the model's counts,
   the reference encoding and the caller's values.  Methods whose generated Java does not
   compile or throws are the named classes of JavaBackend.java_class. *)
Require Import Base Syntax Front Plan Codec JavaBackend.
Require Import gen.JavaFacts.
Require Import spec.Spec_C02 proofs.C02Proofs proofs.C03Proofs proofs.CodecProofs.
Open Scope N_scope.

(* the proxy and the skeleton partition the arguments as the C-family backends do: the same
   slot sequence, hence the same section multiplicities as the counts word *)
Theorem C18_same_partition : forall ps, java_slots ps = plan_slots ps.
Proof. intro ps. reflexivity. Qed.
Print Assumptions C18_same_partition.

Theorem C18_partition_counts : forall ps k,
  mult k (map skind_code (java_slots ps)) = mult k (plan_secs ps).
Proof. intros ps k. reflexivity. Qed.
Print Assumptions C18_partition_counts.

(* data is little-endian: an n-byte value put by one side is read back by the other, and the
   bytes are determined by the value (no two encodings) *)
Theorem C18_little_endian_round_trip : forall n v rest,
  v < 256 ^ N.of_nat n -> get_le n (put_le n v ++ rest) = Some (v, rest).
Proof. exact get_put_le. Qed.
Print Assumptions C18_little_endian_round_trip.

Theorem C18_encoding_unique : forall n bs v rest,
  get_le n bs = Some (v, rest) -> (forall b, In b bs -> b < 256) ->
  bs = put_le n v ++ rest /\ v < 256 ^ N.of_nat n.
Proof. exact put_get_le. Qed.
Print Assumptions C18_encoding_unique.

(* the bundle: members back to back in the packed order both sides compute from the parameter
   list; decoding the proxy's bundle with the skeleton's member list returns every member's
   value, for either direction, any number of members *)
Definition width (m : mparam) : nat := N.to_nat (psize m).

Theorem C18_bundle_round_trip : forall (out : bool) ps (value : mparam -> N),
  (forall m, In m (packed out ps) -> value m < 256 ^ N.of_nat (width m)) ->
  decode_bundle (map width (packed out ps))
                (encode_bundle (map (fun m => (width m, value m)) (packed out ps)))
  = Some (map value (packed out ps), []).
Proof.
  intros out ps value H.
  pose proof (decode_encode_bundle (map (fun m => (width m, value m)) (packed out ps)) []) as R.
  rewrite app_nil_r in R. rewrite !map_map in R. cbn [fst snd] in R. apply R.
  apply Forall_forall. intros x Hx. apply in_map_iff in Hx. destruct Hx as [m [<- Hm]].
  unfold member_ok. cbn [fst snd]. now apply H.
Qed.
Print Assumptions C18_bundle_round_trip.

(* same byte layout as the other backends: the bundle is exactly as long as the sum of the
   member sizes (no padding), members largest first *)
Theorem C18_bundle_length : forall (out : bool) ps (value : mparam -> N),
  List.length (encode_bundle (map (fun m => (width m, value m)) (packed out ps)))
  = fold_right Nat.add O (map width (packed out ps)).
Proof. intros. rewrite encode_bundle_length, map_map. reflexivity. Qed.
Print Assumptions C18_bundle_length.

(* unsigned values travel in signed carriers of the same width and come back unchanged *)
Theorem C18_carriers : forall bits v, 0 < bits -> v < 2 ^ bits ->
  of_carrier bits (to_carrier bits v) = v.
Proof. exact carrier_round_trip. Qed.
Print Assumptions C18_carriers.

Theorem C18_facts :
  java_proxy_shared_walk = true /\ java_skel_shared_walk = true /\ java_little_endian = true /\
  java_proxy_one_slot_per_event = true /\ java_carriers_same_width = true.
Proof. repeat split; reflexivity. Qed.
Print Assumptions C18_facts.

Example C18_bundle_example :
  decode_bundle [8; 4; 1]%nat (encode_bundle [(8%nat, 72057594037927935); (4%nat, 4294967295); (1%nat, 128)])
  = Some ([72057594037927935; 4294967295; 128], []).
Proof. vm_compute. reflexivity. Qed.
