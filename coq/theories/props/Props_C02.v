(* Props_C02.v — property C02 (canonical invocation envelope). *)
Require Import Base Syntax Front Plan.
Require Import gen.CmpTable gen.CounterFacts.
Require Import spec.Spec_C02 proofs.PlanProofs proofs.C02Proofs proofs.CountsProofs.
Open Scope N_scope.

(* tie: the model's transcription of `impl Ord for Param` equals the table printed by
   the real implementation on all 18 x 18 parameter classes (regenerated every run),
   and the real comparison ignores payloads *)
Theorem C02_cmp_table_complete : List.length cmp_table = 324%nat /\ cmp_payload_sensitive = false.
Proof. exact cmp_table_complete. Qed.
Print Assumptions C02_cmp_table_complete.

Theorem C02_cmp_table_agrees : forallb table_row_ok cmp_table = true.
Proof. exact cmp_table_agrees. Qed.
Print Assumptions C02_cmp_table_agrees.

(* the only thing the sort uses, `lt`, is a comparison of ranks:
   in-data 0, out-data 1, in-object 2, out-object 3, in-object-array 4, out-object-array 5 *)
Theorem C02_lt_is_rank : forall a b, param_lt a b = (rank a <? rank b).
Proof. exact param_lt_is_rank. Qed.
Print Assumptions C02_lt_is_rank.

(* the sorted parameter list is the six rank buckets, each in declaration order *)
Theorem C02_sort_is_buckets : forall ps, sort_params ps = buckets ps.
Proof. exact sort_is_buckets. Qed.
Print Assumptions C02_sort_is_buckets.

(* the event sequence every visitor is driven with *)
Theorem C02_with_bundling_closed : forall ps,
  with_bundling ps =
  (if bi_of ps then [EBundle false (pin_of ps)] else []) ++ map EParam (R0 ps) ++
  (if bo_of ps then [EBundle true (pout_of ps)] else []) ++ map EParam (tail_params ps).
Proof. exact with_bundling_closed. Qed.
Print Assumptions C02_with_bundling_closed.

(* full statement: the slot sequence is section-sorted for every parameter list *)
Definition C02_sections_full : Prop := forall ps, sections_sorted (plan_secs ps) = true.

(* it is false of the faithful model (F1: object slots of an object-bearing struct are
   emitted right after its buffer; F4: an input object array sorts after a single output object) *)
Open Scope string_scope.
Definition objstruct_t : mty := MStruct "Big" [("a", MPrim U64, 1); ("b", MPrim U64, 1); ("o", MIface None, 1)]%N.
Theorem C02_sections_refuted_interleave :
  sections_sorted (plan_secs [mkMP false objstruct_t PVal "s"; mkMP false MBuffer PVal "b"]) = false.
Proof. vm_compute. reflexivity. Qed.
Print Assumptions C02_sections_refuted_interleave.
Theorem C02_sections_refuted_objarr :
  sections_sorted (plan_secs [mkMP false (MIface None) (PArr (Some 2%N)) "a"; mkMP true (MIface None) PVal "o"]) = false.
Proof. vm_compute. reflexivity. Qed.
Print Assumptions C02_sections_refuted_objarr.
Theorem C02_sections_full_refuted : ~ C02_sections_full.
Proof. intro H. pose proof (H [mkMP false objstruct_t PVal "s"; mkMP false MBuffer PVal "b"]) as X.
       rewrite C02_sections_refuted_interleave in X. discriminate. Qed.
Print Assumptions C02_sections_full_refuted.
Close Scope string_scope.

(* the strongest true statement: outside the two known classes the slot sequence is
   input buffers, output buffers, input objects, output objects — for every list *)
Theorem C02_sections_sorted : forall ps,
  has_objstruct_value ps = false -> objarr_after_out ps = false ->
  sections_sorted (plan_secs ps) = true.
Proof. exact plan_sections_sorted. Qed.
Print Assumptions C02_sections_sorted.

(* the counts word: whatever parameter list the Counter accepts, the four counts it computes
   are the multiplicities of the four sections in the slot sequence the visitors emit, provided
   no small (<= 16 byte) struct value carries objects (the Counter does not count those) *)
Theorem C02_counts_are_multiplicities : forall ps c,
  small_structs_carry_no_objects ps -> counter Debug ps = Ok c ->
  nbi c = mult 0 (plan_secs ps) /\ nbo c = mult 1 (plan_secs ps) /\
  noi c = mult 2 (plan_secs ps) /\ noo c = mult 3 (plan_secs ps).
Proof. exact counts_are_multiplicities. Qed.
Print Assumptions C02_counts_are_multiplicities.

(* the property itself, for every method outside the named classes whose counts fit a nibble:
   the envelope (counts word, slot sequence) is canonical in the sense of the specification *)
Theorem C02_envelope_canonical : forall ps c,
  has_objstruct_value ps = false -> objarr_after_out ps = false ->
  counter Debug ps = Ok c ->
  nbi c <= 15 -> nbo c <= 15 -> noi c <= 15 -> noo c <= 15 ->
  envelope_canonical (nbi c, nbo c, noi c, noo c) (plan_secs ps) = true.
Proof. exact envelope_is_canonical. Qed.
Print Assumptions C02_envelope_canonical.

(* the counts word is injective exactly below 16 *)
Theorem C02_pack_unpack : forall a b c d,
  a <= 15 -> b <= 15 -> c <= 15 -> d <= 15 -> unpack_counts (pack_counts (a, b, c, d)) = (a, b, c, d).
Proof. exact pack_unpack_below_16. Qed.
Print Assumptions C02_pack_unpack.

(* "rejected rather than emitted with a counts word that overflows".  The pinned upstream Counter
   had no limit: 16 objects were accepted by the interface verifier, counted as 16 and packed
   into a word that reads back as one output object (F6): *)
Open Scope string_scope.
Theorem C02_limit_refuted_upstream :
  let ps := [mkMP false (MIface None) (PArr (Some 16%N)) "a"] in
  check_params ps false false false false = Ok tt /\
  unpack_counts (pack_counts (0, 0, 16, 0)) = (0, 0, 0, 1).
Proof. repeat split; vm_compute; reflexivity. Qed.
Print Assumptions C02_limit_refuted_upstream.

(* the repaired Counter (regenerated fact counter_checked) refuses every parameter list that
   needs more than 15 slots of a class, in both build modes: whatever it accepts fits the word *)
Theorem C02_counts_fit_the_word : counter_checked = true -> forall ps c,
  counter Debug ps = Ok c ->
  nbi c <= counter_limit /\ nbo c <= counter_limit /\ noi c <= counter_limit /\ noo c <= counter_limit.
Proof. intros H ps c. now apply counter_within_limit. Qed.
Print Assumptions C02_counts_fit_the_word.

(* hence, for the tree being checked, the envelope of every accepted method outside the two
   classes is canonical, without assuming anything about the counts *)
Theorem C02_envelope_canonical_current : forall ps c,
  has_objstruct_value ps = false -> objarr_after_out ps = false ->
  counter Debug ps = Ok c ->
  envelope_canonical (nbi c, nbo c, noi c, noo c) (plan_secs ps) = true.
Proof.
  intros ps c H1 H2 Hc.
  destruct (counter_within_limit ps c eq_refl Hc) as (A & B & C & D).
  apply envelope_is_canonical; assumption.
Qed.
Print Assumptions C02_envelope_canonical_current.

Theorem C02_limit_current :
  counter Debug [mkMP false (MIface None) (PArr (Some 16%N)) "a"] = Reject RCountLimit /\
  counter Release [mkMP false (MIface None) (PArr (Some 16%N)) "a"] = Reject RCountLimit.
Proof. split; vm_compute; reflexivity. Qed.
Print Assumptions C02_limit_current.

(* non-vacuity of the restricted theorem *)
Example C02_nonvacuous :
  let ps := [mkMP true (MPrim U32) PVal "x"; mkMP false (MIface None) PVal "p"; mkMP false MBuffer PVal "b";
             mkMP false (MPrim U8) PVal "y"; mkMP false (MPrim U64) PVal "z"; mkMP true (MIface None) PVal "q"] in
  has_objstruct_value ps = false /\ objarr_after_out ps = false /\ plan_secs ps = [0; 0; 1; 2; 3].
Proof. repeat split; vm_compute; reflexivity. Qed.
