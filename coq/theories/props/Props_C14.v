(* Props_C14.v — property C14 (edits and flags without interface meaning).  Proved on the
   PST -> AST conversion: comments at the positions pst.rs filters (between declarations,
   between struct fields, between interface members when no documentation is pending) do not
   change the AST; documentation reaches only the immediately following member and only a
   method keeps it.  That the text -> pair-tree step (pest) turns whitespace and comments into
   exactly such pairs, and the effect of --marking / --no-typed-objects on the emitted text,
   are decided by the metamorphic runs of the real binary. *)
Require Import Base Syntax Consts Pst.
Require Import gen.PstFacts.
Require Import proofs.TriviaProofs proofs.PstProofs.
Open Scope string_scope.
Open Scope list_scope.

Theorem C14_comment_between_declarations : forall md ub c l1 l2, is_comment c = true ->
  nodes_of md ub (l1 ++ c :: l2) = nodes_of md ub (l1 ++ l2).
Proof. exact comment_at_top_level. Qed.
Print Assumptions C14_comment_between_declarations.

Theorem C14_comment_between_fields : forall md c l1 l2, is_comment c = true ->
  fields_of md (l1 ++ c :: l2) = fields_of md (l1 ++ l2).
Proof. exact comment_in_struct_body. Qed.
Print Assumptions C14_comment_between_fields.

Theorem C14_ordinary_comment_after_member : forall md ub c m l1 l2, ordinary c = true ->
  is_comment m = false ->
  forall p, members_of md ub (l1 ++ m :: c :: l2) p = members_of md ub (l1 ++ m :: l2) p.
Proof. intros. now apply ordinary_comment_after_member. Qed.
Print Assumptions C14_ordinary_comment_after_member.

(* documentation reaches exactly the next member: a newer documentation block replaces an
   older one, and whether an ordinary comment in between keeps it is next_pending *)
Theorem C14_doc_binds_next_member_only : forall md ub d m rest p, is_comment d = true -> is_comment m = false ->
  members_of md ub (d :: m :: rest) p =
  (if is_rule "const" m || is_rule "function" m || is_rule "error" m
   then do x <- member_of md ub (next_pending pst_comment_keeps_doc p d) m; do xs <- members_of md ub rest None; Ok (x :: xs)
   else Reject ROther).
Proof. intros. now apply doc_binds_next_member_only. Qed.
Print Assumptions C14_doc_binds_next_member_only.

Theorem C14_only_methods_keep_doc : forall md ub d1 d2 m, is_rule "function" m = false ->
  member_of md ub d1 m = member_of md ub d2 m.
Proof. exact member_doc_only_function. Qed.
Print Assumptions C14_only_methods_keep_doc.

(* an ordinary comment anywhere in an interface body, also between a documentation block and
   its method.  With the pinned upstream handling the documentation was lost (F24) ... *)
Theorem C14_doc_then_comment_refuted_upstream :
  members_of_gen false Debug false [doc_tree; fn_tree] None = Ok [IFunc (mkFn "f" [] false (Some "*
 * d
 *"))] /\
  members_of_gen false Debug false [doc_tree; ord_tree; fn_tree] None = Ok [IFunc (mkFn "f" [] false None)].
Proof. exact doc_then_comment_loses_doc_upstream. Qed.
Print Assumptions C14_doc_then_comment_refuted_upstream.

(* ... with the repaired handling an ordinary comment changes nothing, wherever it is and
   whatever documentation is pending *)
Theorem C14_ordinary_comment_anywhere : pst_comment_keeps_doc = true ->
  forall md ub c l1 l2, ordinary c = true ->
  forall p, members_of md ub (l1 ++ c :: l2) p = members_of md ub (l1 ++ l2) p.
Proof. intros H md ub c l1 l2 HC p. unfold members_of. rewrite H. now apply ordinary_comment_anywhere. Qed.
Print Assumptions C14_ordinary_comment_anywhere.

(* the tree being checked (regenerated fact) *)
Theorem C14_ordinary_comment_anywhere_current : forall md ub c l1 l2, ordinary c = true ->
  forall p, members_of md ub (l1 ++ c :: l2) p = members_of md ub (l1 ++ l2) p.
Proof. exact (C14_ordinary_comment_anywhere eq_refl). Qed.
Print Assumptions C14_ordinary_comment_anywhere_current.

(* comments between the tokens of a declaration (inside a parameter, a constant, a struct field,
   array brackets, an interface header): with the repaired positional reads of pst.rs two pair
   trees that differ only in such comments give the same AST, in either build mode *)
Theorem C14_comments_inside_declarations : forall md ub t1 t2,
  pst_skips_comments = true -> strip_idl t1 = strip_idl t2 -> pst_to_ast md ub t1 = pst_to_ast md ub t2.
Proof. exact comments_inside_declarations_invisible. Qed.
Print Assumptions C14_comments_inside_declarations.

Example C14_comment_inside_parameter :
  let plain := T "idl" "" [T "interface" "" [T "interface_keyword" "interface " []; T "iname" "" [T "ident" "I" []];
     T "function" "" [T "function_keyword" "method " []; T "ident" "f" [];
        T "param" "" [T "mutability" "in" []; T "param_type" "" [T "primitive_type" "uint8" []]; T "ident" "x" []]]]] in
  let commented := T "idl" "" [T "interface" "" [T "interface_keyword" "interface " []; T "COMMENT" "/*a*/" []; T "iname" "" [T "ident" "I" []; T "COMMENT" "//b" []];
     T "function" "" [T "function_keyword" "method " []; T "COMMENT" "/*c*/" []; T "ident" "f" [];
        T "param" "" [T "mutability" "in" []; T "COMMENT" "/*d*/" []; T "param_type" "" [T "primitive_type" "uint8" []; T "COMMENT" "/*e*/" []]; T "ident" "x" []]]]] in
  strip_idl plain = strip_idl commented /\ pst_to_ast Release false commented = pst_to_ast Release false plain.
Proof. split; vm_compute; reflexivity. Qed.
