(* Props_C04.v — property C04 (skeletons refuse what they must not serve, before the
   implementation).  Proved on the refusal model: a refused invocation never enters the
   implementation and leaves the dispatcher state unchanged (so a later well-formed call is
   served as if the refusal had not happened); an invocation is served only if the counts are
   the method's and every fixed-size slot has exactly the parameter's size; unknown op-codes
   and unimplemented optional methods are refused with the `invalid` code.  Where the compiled
   skeleton reads and writes (extents), the status values and the continued usability are
   decided by driving the compiled skeleton with perturbed envelopes under ASan (L2, C). *)
Require Import Base Syntax Front Plan Skel.
Open Scope N_scope.

Theorem C04_refused_not_entered : forall table inv gen op e n c m,
  dispatch table inv gen op e n = (Refused c, m) -> m = n.
Proof.
  intros table inv gen op e n c m. unfold dispatch.
  destruct (find _ table) as [[o [[cc gs] impl]]|]; [|intro H; now inversion H].
  destruct (arm_accepts cc gs e); [destruct impl|]; intro H; inversion H; reflexivity.
Qed.
Print Assumptions C04_refused_not_entered.

Theorem C04_served_only_if_exact : forall table inv gen op e n m,
  dispatch table inv gen op e n = (Served, m) ->
  exists c gs, In (op, (c, gs, true)) table /\ ei_counts e = c /\
               forall g, In g gs -> size_at e (fst g) = snd g.
Proof.
  intros table inv gen op e n m. unfold dispatch.
  destruct (find (fun r => fst r =? op) table) as [[o [[cc gs] impl]]|] eqn:F; [|discriminate].
  destruct (arm_accepts cc gs e) eqn:A; [|discriminate]. destruct impl; [|discriminate]. intros _.
  apply find_some in F. destruct F as [Hin Ho]. cbn in Ho. apply N.eqb_eq in Ho. subst o.
  exists cc, gs. split; [exact Hin|]. unfold arm_accepts in A. apply andb_prop in A. destruct A as [A1 A2].
  split.
  - destruct (ei_counts e) as [[[a1 a2] a3] a4], cc as [[[b1 b2] b3] b4]. unfold quad_eq in A1.
    repeat (apply andb_prop in A1; destruct A1 as [A1 ?]).
    apply N.eqb_eq in A1, H, H0, H1. now subst.
  - intros g Hg. rewrite forallb_forall in A2. apply N.eqb_eq. now apply A2.
Qed.
Print Assumptions C04_served_only_if_exact.

Theorem C04_counts_mismatch_refused : forall table inv gen op e n c gs impl,
  find (fun r => fst r =? op) table = Some (op, (c, gs, impl)) -> quad_eq (ei_counts e) c = false ->
  dispatch table inv gen op e n = (Refused gen, n).
Proof. intros. unfold dispatch. rewrite H. unfold arm_accepts. now rewrite H0. Qed.
Print Assumptions C04_counts_mismatch_refused.

Theorem C04_size_mismatch_refused : forall table inv gen op e n c gs impl g,
  find (fun r => fst r =? op) table = Some (op, (c, gs, impl)) -> In g gs -> size_at e (fst g) <> snd g ->
  dispatch table inv gen op e n = (Refused gen, n).
Proof.
  intros. unfold dispatch. rewrite H. unfold arm_accepts.
  assert (X : forallb (fun g0 => size_at e (fst g0) =? snd g0) gs = false).
  { apply not_true_is_false. intro T. rewrite forallb_forall in T. specialize (T g H0). apply N.eqb_eq in T. contradiction. }
  rewrite X, andb_false_r. reflexivity.
Qed.
Print Assumptions C04_size_mismatch_refused.

Theorem C04_unknown_op_refused : forall table inv gen op e n,
  find (fun r => fst r =? op) table = None -> dispatch table inv gen op e n = (Refused inv, n).
Proof. intros. unfold dispatch. now rewrite H. Qed.
Print Assumptions C04_unknown_op_refused.

Theorem C04_optional_unimplemented_refused : forall table inv gen op e n c gs,
  find (fun r => fst r =? op) table = Some (op, (c, gs, false)) ->
  exists code, dispatch table inv gen op e n = (Refused code, n) /\ (arm_accepts c gs e = true -> code = inv).
Proof.
  intros. unfold dispatch. rewrite H. destruct (arm_accepts c gs e); eexists; split; try reflexivity; try discriminate.
Qed.
Print Assumptions C04_optional_unimplemented_refused.

(* the guards of a concrete method: bundle first, then the fixed-size slots in slot order *)
Open Scope string_scope.
Example C04_nonvacuous :
  guards [mkMP false (MPrim U32) PVal "x"; mkMP false MBuffer PVal "b"; mkMP false (MPrim U8) PVal "y";
          mkMP true (MPrim U64) PVal "z"] = [(0, 5); (2, 8)].
Proof. vm_compute. reflexivity. Qed.
