(* Props_C08.v — property C08 (interface error codes). *)
Require Import Base Syntax Front.
Require Import spec.Spec_Numbering proofs.NumberingProofs proofs.C07Proofs proofs.C09Proofs.
Open Scope N_scope.

(* errors of the flattened interface: declaration order, root ancestor first,
   consecutive from 10 *)
Theorem C08_errors_prescribed : forall e md files mir,
  front e md files = Ok mir -> spec_c08 files (errtable_of_mir mir) = true.
Proof. exact front_errs_spec. Qed.
Print Assumptions C08_errors_prescribed.

Theorem C08_ancestor_shared : forall st i mi bn bi,
  number_top st i = Ok mi -> i_base i = Some bn -> iface_lookup st bn = Some bi ->
  exists mb, number_top st bi = Ok mb /\ mi_base mi = Some mb.
Proof. exact ancestor_numbering_shared. Qed.
Print Assumptions C08_ancestor_shared.


(* one number per name: in the flattened interface of an accepted main-file interface no error name
   occurs twice (a name declared again further down the chain, at any distance, is rejected by the
   interface verifier), so "the" number of a name is well defined in every derived interface *)
Theorem C08_names_unique : forall md files mir,
  front Cli md files = Ok mir -> spec_names_unique (errtable_of_mir mir) = true.
Proof. intros md files mir H. exact (proj2 (front_cli_tables_names_unique md files mir H)). Qed.
Print Assumptions C08_names_unique.

Open Scope string_scope.
Example C08_nonvacuous :
  let files := [mkAst "m.idl"
     [NIface (mkI "IA" None [IError "E1"; IFunc (mkFn "f" [] false None); IError "E2"]);
      NIface (mkI "IB" (Some "IA") [IError "E3"])]] in
  exists mir, front Cli Debug files = Ok mir /\
    errtable_of_mir mir = [("IA", [("E1", 10); ("E2", 11)]); ("IB", [("E1", 10); ("E2", 11); ("E3", 12)])]%Z.
Proof. eexists; split; vm_compute; reflexivity. Qed.
