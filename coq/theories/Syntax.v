(* Syntax.v — the AST of idlc_ast::ast (what pst.rs produces).
   Numerals are N; literals stay raw strings. *)
Require Import Base.

Inductive prim := U8 | U16 | U32 | U64 | I8 | I16 | I32 | I64 | F32 | F64.

Definition prim_eqb (a b : prim) : bool :=
  match a, b with
  | U8, U8 | U16, U16 | U32, U32 | U64, U64 | I8, I8 | I16, I16
  | I32, I32 | I64, I64 | F32, F32 | F64, F64 => true
  | _, _ => false
  end.

Definition prim_code (p : prim) : N :=
  match p with U8 => 0 | U16 => 1 | U32 => 2 | U64 => 3 | I8 => 4 | I16 => 5
             | I32 => 6 | I64 => 7 | F32 => 8 | F64 => 9 end.

(* ast::Type *)
Inductive aty := TBuffer | TPrim (p : prim) | TIface | TCustom (n : string).

Record sfield := mkF { sf_name : string; sf_ty : aty; sf_cnt : N }.
Record sdef := mkS { s_name : string; s_fields : list sfield }.

Record cdef := mkC { c_name : string; c_ty : prim; c_val : string }.

(* ParamTypeIn / ParamTypeOut: Array(t, Option<Count>) | Value(t) / Reference(t) *)
Inductive pshape := PVal | PArr (cnt : option N).
Record param := mkP { p_out : bool; p_ty : aty; p_shape : pshape; p_name : string }.

Record func := mkFn { f_name : string; f_params : list param; f_optional : bool;
                      f_doc : option string }.

Inductive inode := IConst (c : cdef) | IFunc (f : func) | IError (n : string).
Record idef := mkI { i_name : string; i_base : option string; i_nodes : list inode }.

Inductive node := NInclude (p : string) | NConst (c : cdef) | NStruct (s : sdef)
                | NIface (i : idef).

Record ast := mkAst { a_tag : string; a_nodes : list node }.

(* helpers *)
Definition iface_funcs (i : idef) : list func :=
  flat_map (fun n => match n with IFunc f => [f] | _ => [] end) (i_nodes i).
Definition iface_errors (i : idef) : list string :=
  flat_map (fun n => match n with IError e => [e] | _ => [] end) (i_nodes i).
Definition iface_consts (i : idef) : list cdef :=
  flat_map (fun n => match n with IConst c => [c] | _ => [] end) (i_nodes i).

Definition ast_ifaces (a : ast) : list idef :=
  flat_map (fun n => match n with NIface i => [i] | _ => [] end) (a_nodes a).
Definition ast_structs (a : ast) : list sdef :=
  flat_map (fun n => match n with NStruct s => [s] | _ => [] end) (a_nodes a).
Definition ast_consts (a : ast) : list cdef :=
  flat_map (fun n => match n with NConst c => [c] | _ => [] end) (a_nodes a).
Definition ast_includes (a : ast) : list string :=
  flat_map (fun n => match n with NInclude p => [p] | _ => [] end) (a_nodes a).
