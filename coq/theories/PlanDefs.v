(* PlanDefs.v — derived notions over the plan used by both the proofs and the executable checks
   (slot sequence as section codes, the input classes of the known findings).  Definitions only. *)
Require Import Base Syntax Front Plan.
Open Scope N_scope.

Definition plan_secs (ps : list mparam) : list N := map skind_code (plan_slots ps).

(* a value parameter whose struct type carries objects (F1/F2/F3 classes) *)
Definition objstruct_value (p : mparam) : bool :=
  is_val p && is_mstruct (mp_ty p) && negb (n_objs (mp_ty p) =? 0).
Definition has_objstruct_value (ps : list mparam) : bool := existsb objstruct_value ps.

(* an input object array together with a single output object (F4) *)
Definition objarr_after_out (ps : list mparam) : bool :=
  existsb (fun p => rank p =? 3) ps && existsb (fun p => rank p =? 4) ps.

Definition quad_eqb (x y : N * N * N * N) : bool :=
  let '(a, b, c, d) := x in let '(a', b', c', d') := y in
  (a =? a') && (b =? b') && (c =? c') && (d =? d').

