(* Includes.v — model of include resolution and of the include walk
   (idl_store.rs:42-152, main.rs:118-128) over an abstract file system without symbolic
   links.  Paths are absolute, as lists of components.  Definitions only. *)
Require Import Base.
Require Import gen.IncludeFacts.
Open Scope string_scope.
Open Scope list_scope.

Definition path := list string.
Definition path_eqb (a b : path) : bool := list_eqb String.eqb a b.

Fixpoint mem_path (p : path) (l : list path) : bool :=
  match l with [] => false | x :: r => path_eqb p x || mem_path p r end.

(* split on '/' *)
Fixpoint split_slash (s : string) (cur : string) : list string :=
  match s with
  | EmptyString => [cur]
  | String c r =>
      if Ascii.eqb c "/"%char then cur :: split_slash r EmptyString
      else split_slash r (cur ++ String c EmptyString)%string
  end.

Definition is_absolute (s : string) : bool :=
  match s with String c _ => Ascii.eqb c "/"%char | EmptyString => false end.

(* canonicalisation of `base/comps`: drop "" and ".", pop on ".." (no symlinks) *)
Fixpoint normalize (acc_rev : list string) (comps : list string) : path :=
  match comps with
  | [] => rev acc_rev
  | c :: r =>
      if String.eqb c "" || String.eqb c "." then normalize acc_rev r
      else if String.eqb c ".." then normalize (tl acc_rev) r
      else normalize (c :: acc_rev) r
  end.

Definition parent (p : path) : path := removelast p.

(* the world: every regular file with the raw include strings it contains (None: a file that
   does not parse), the -I directories in command-line order, the main file *)
Record world := mkW {
  w_files : list (path * option (list string));
  w_idirs : list path;
  w_main : path
}.

Fixpoint lookup_file (p : path) (l : list (path * option (list string))) : option (option (list string)) :=
  match l with
  | [] => None
  | (q, c) :: r => if path_eqb p q then Some c else lookup_file p r
  end.
Definition file_exists (w : world) (p : path) : bool :=
  match lookup_file p (w_files w) with Some _ => true | None => false end.

(* main.rs:126-127: the include path list is the -I directories followed by the directory of
   the (canonical) main file *)
Definition search_dirs (w : world) : list path := w_idirs w ++ [parent (w_main w)].

Definition has_dir_part (inc : string) : bool :=
  match split_slash inc EmptyString with
  | _ :: _ :: _ => true
  | _ => false
  end.

(* change_to_canonical (idl_store.rs:101-143) *)
Definition resolve (w : world) (cur : path) (inc : string) : option path :=
  let comps := split_slash inc EmptyString in
  if has_dir_part inc then
    let p := if is_absolute inc then normalize [] comps else normalize (rev (parent cur)) comps in
    if file_exists w p then Some p else None
  else
    find (file_exists w) (map (fun d => d ++ [inc]) (search_dirs w)).

(* the walk: every include of [cur] is resolved, the edge is added and the accumulated graph
   is tested for a cycle.  [branch] = files on the current DFS path (cur excluded), [loaded] =
   store keys in load order (newest first), [calls] = number of files walked so far.
   [skip] is the regenerated fact walk_skips_walked: the repaired visit_include does not walk a
   file again that has been walked before (the pinned upstream one walked it once per path). *)
Inductive wres := WOk (loaded : list path) (calls : N) | WMissing | WCycle | WParse | WFuel.

Fixpoint walk_gen (skip : bool) (fuel : nat) (w : world) (branch : list path) (cur : path)
    (loaded : list path) (calls : N) : wres :=
  match fuel with
  | O => WFuel
  | S f =>
      match lookup_file cur (w_files w) with
      | None => WMissing
      | Some None => WParse
      | Some (Some incs) =>
          let loaded0 := if mem_path cur loaded then loaded else cur :: loaded in
          (fix go (incs : list string) (loaded : list path) (calls : N) : wres :=
             match incs with
             | [] => WOk loaded calls
             | i :: r =>
                 match resolve w cur i with
                 | None => WMissing
                 | Some t =>
                     if mem_path t (cur :: branch) then WCycle
                     else if skip && mem_path t loaded then go r loaded calls
                     else match walk_gen skip f w (cur :: branch) t loaded calls with
                          | WOk l' c' => go r l' c'
                          | e => e
                          end
                 end
             end) incs loaded0 (calls + 1)%N
      end
  end.

Definition walk_main_gen (skip : bool) (w : world) : wres :=
  walk_gen skip (S (List.length (w_files w))) w [] (w_main w) [] 0%N.
Definition walk_main (w : world) : wres := walk_main_gen walk_skips_walked w.
