(* Obs.v — canonical observations (sx) of the model's MIR, mirroring the
   printers of harness/src/gallina.rs. *)
Require Import Base Syntax Front.
Open Scope string_scope.

Definition sx_prim (p : prim) : sx := SN (prim_code p).

Fixpoint sx_mty (t : mty) : sx :=
  match t with
  | MBuffer => SL [SA 0]
  | MPrim p => SL [SA 1; sx_prim p]
  | MIface None => SL [SA 2]
  | MIface (Some n) => SL [SA 2; SS n]
  | MStruct n fs =>
      SL [SA 3; SS n; SB (is_small t);
          SL ((fix go (fs : list (string * mty * N)) : list sx :=
                 match fs with
                 | [] => []
                 | (fname, ft, c) :: r => SL [SS fname; sx_mty ft; SN c] :: go r
                 end) fs)]
  end.

Definition sx_const (tag : Z) (c : cdef) : sx :=
  SL [SA tag; SS (c_name c); sx_prim (c_ty c); SS (c_val c)].

Definition sx_shape (s : pshape) : sx :=
  match s with
  | PVal => SL [SA 0]
  | PArr None => SL [SA 1]
  | PArr (Some n) => SL [SA 1; SN n]
  end.

Definition sx_mparam (p : mparam) : sx :=
  SL [SB (mp_out p); sx_mty (mp_ty p); sx_shape (mp_shape p); SS (mp_name p)].

Definition sx_mnode (n : mnode) : sx :=
  match n with
  | MConstN c => sx_const 0 c
  | MFuncN f => SL [SA 1; SS (mf_name f); SN (mf_id f); SB (mf_optional f);
                    SL (map sx_mparam (mf_params f))]
  | MErrorN e v => SL [SA 2; SS e; SA v]
  end.

Fixpoint sx_miface (i : miface) : sx :=
  match i with
  | MI n b ns =>
      SL [SS n; match b with None => SL [] | Some bi => SL [sx_miface bi] end;
          SL (map sx_mnode ns)]
  end.

Definition sx_mtop (t : mtop) : sx :=
  match t with
  | MTInclude p => SL [SA 0; SS p]
  | MTConst c => sx_const 1 c
  | MTStruct s => SL [SA 2; sx_mty s]
  | MTIface i => SL [SA 3; sx_miface i]
  end.

Definition sx_mir (m : list mtop) : sx := SL (map sx_mtop m).

(* outcome observation: [1; obs] accepted, [0; class] rejected, [2; site] UB, [3] fuel *)
Definition sx_outcome {A} (f : A -> sx) (o : outcome A) : sx :=
  match o with
  | Ok a => SL [SA 1; f a]
  | Reject c => SL [SA 0; SN (rclass_code c)]
  | UB s => SL [SA 2; SN s]
  | OutOfFuel => SL [SA 3]
  end.

Definition accepted_sx (o : sx) : bool :=
  match o with SL (SA 1%Z :: _) => true | _ => false end.
Definition rejected_sx (o : sx) : bool :=
  match o with SL (SA 0%Z :: _) => true | _ => false end.

(* verdict-bearing comparison: accept/reject must agree; on accept the
   observations must be equal.  Reject classes are compared separately. *)
Definition outcome_agree (model impl : sx) : bool :=
  match model, impl with
  | SL [SA 1%Z; a], SL [SA 1%Z; b] => sx_eqb a b
  | SL (SA 0%Z :: _), SL (SA 0%Z :: _) => true
  | _, _ => false
  end.

Definition class_agree (model impl : sx) : bool :=
  match model, impl with
  | SL [SA 0%Z; a], SL [SA 0%Z; b] => sx_eqb a b
  | _, _ => true
  end.
