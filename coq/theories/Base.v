(* Base.v — shared basics of the model: universal observation type [sx],
   outcomes, small list utilities.  No proofs about the compiler here. *)
From Coq Require Export List NArith ZArith String Bool Lia Ascii.
Export ListNotations.
Open Scope N_scope.

Arguments N.add : simpl never.
Arguments N.sub : simpl never.
Arguments N.mul : simpl never.
Arguments N.eqb : simpl never.
Arguments N.ltb : simpl never.
Arguments N.leb : simpl never.
Arguments N.modulo : simpl never.
Arguments N.div : simpl never.
Arguments N.max : simpl never.

(* Universal, canonical observation value: what both sides print. *)
Inductive sx := SA (n : Z) | SS (s : string) | SL (l : list sx).

Fixpoint sx_eqb (a b : sx) {struct a} : bool :=
  match a, b with
  | SA x, SA y => Z.eqb x y
  | SS x, SS y => String.eqb x y
  | SL xs, SL ys =>
      (fix go (xs ys : list sx) {struct xs} : bool :=
         match xs, ys with
         | [], [] => true
         | x :: xs', y :: ys' => sx_eqb x y && go xs' ys'
         | _, _ => false
         end) xs ys
  | _, _ => false
  end.

Definition SN (n : N) : sx := SA (Z.of_N n).
Definition SB (b : bool) : sx := SA (if b then 1%Z else 0%Z).

(* Reject classes: a small enum both sides map their diagnostics to. *)
Inductive rclass :=
| RParse | RConstRange | RIncludeMissing | RIncludeCycle | RDupSymbol | RDupParam
| RTypeCycle | RUnresolved | RMisalignedMember | RMisalignedSize | RDupField
| RArraySize | RAttrDup | ROpLimit | RIfaceCollision | RObjArrUnbounded
| RObjArrMixed | RObjStructArray | RBoundedDataArray | RCountLimit | ROverflow
| RBackend | RIo | ROther.

Definition rclass_code (c : rclass) : N :=
  match c with
  | RParse => 1 | RConstRange => 2 | RIncludeMissing => 3 | RIncludeCycle => 4
  | RDupSymbol => 5 | RDupParam => 6 | RTypeCycle => 7 | RUnresolved => 8
  | RMisalignedMember => 9 | RMisalignedSize => 10 | RDupField => 11
  | RArraySize => 12 | RAttrDup => 13 | ROpLimit => 14 | RIfaceCollision => 15
  | RObjArrUnbounded => 16 | RObjArrMixed => 17 | RObjStructArray => 18
  | RBoundedDataArray => 19 | RCountLimit => 20 | ROverflow => 21
  | RBackend => 22 | RIo => 23 | ROther => 24
  end.

(* Every fallible model function.  [UB] marks a release-mode
   unwrap_unchecked on None/Err or a wrapped machine operation. *)
Inductive outcome (A : Type) :=
| Ok (a : A) | Reject (c : rclass) | UB (site : N) | OutOfFuel.
Arguments Ok {A} a.
Arguments Reject {A} c.
Arguments UB {A} site.
Arguments OutOfFuel {A}.

Definition obind {A B} (o : outcome A) (f : A -> outcome B) : outcome B :=
  match o with
  | Ok a => f a
  | Reject c => Reject c
  | UB s => UB s
  | OutOfFuel => OutOfFuel
  end.
Notation "'do' x <- o ; k" := (obind o (fun x => k))
  (at level 200, x pattern, o at level 100, k at level 200, right associativity).

Definition is_ok {A} (o : outcome A) : bool :=
  match o with Ok _ => true | _ => false end.

Inductive mode := Debug | Release.

(* association lists keyed by strings *)
Fixpoint alookup {A} (k : string) (l : list (string * A)) : option A :=
  match l with
  | [] => None
  | (k', v) :: l' => if String.eqb k k' then Some v else alookup k l'
  end.

Fixpoint mem_str (k : string) (l : list string) : bool :=
  match l with
  | [] => false
  | x :: l' => String.eqb k x || mem_str k l'
  end.

Fixpoint nodup_str (l : list string) : bool :=
  match l with
  | [] => true
  | x :: l' => negb (mem_str x l') && nodup_str l'
  end.

(* first duplicate-free prefix test used by several passes: insert one by one *)
Fixpoint first_dup (seen : list string) (l : list string) : option string :=
  match l with
  | [] => None
  | x :: l' => if mem_str x seen then Some x else first_dup (x :: seen) l'
  end.

Fixpoint nseq (start : N) (len : nat) : list N :=
  match len with
  | O => []
  | S k => start :: nseq (start + 1) k
  end.

Definition sumN (l : list N) : N := fold_left N.add l 0.

Fixpoint list_eqb {A} (eqb : A -> A -> bool) (a b : list A) : bool :=
  match a, b with
  | [], [] => true
  | x :: a', y :: b' => eqb x y && list_eqb eqb a' b'
  | _, _ => false
  end.
