(* Spec_C02.v — the canonical invocation envelope, from the property text:
   "all input buffers, then all output buffers, then all input objects, then all
    output objects; the packed counts word states exactly how many arguments of each
    class the array holds, each count is at most 15". *)
Require Import Base.
Open Scope N_scope.

(* slot classes as numbers: BI 0, BO 1, OI 2, OO 3 *)
Fixpoint sections_sorted (l : list N) : bool :=
  match l with
  | a :: (b :: _) as r => (a <=? b) && sections_sorted r
  | _ => true
  end.

Definition mult (k : N) (l : list N) : N := N.of_nat (List.length (filter (N.eqb k) l)).

Definition count_limit : N := 15.

(* counts = (bi, bo, oi, oo); kinds = class of every slot of the argument array, in order *)
Definition envelope_canonical (c : N * N * N * N) (kinds : list N) : bool :=
  let '(bi, bo, oi, oo) := c in
  sections_sorted kinds &&
  (bi =? mult 0 kinds) && (bo =? mult 1 kinds) && (oi =? mult 2 kinds) && (oo =? mult 3 kinds) &&
  (bi <=? count_limit) && (bo <=? count_limit) && (oi <=? count_limit) && (oo <=? count_limit) &&
  forallb (fun k => k <=? 3) kinds.

(* the packed word: four 4-bit fields *)
Definition pack_counts (c : N * N * N * N) : N :=
  let '(bi, bo, oi, oo) := c in
  N.lor bi (N.lor (N.shiftl bo 4) (N.lor (N.shiftl oi 8) (N.shiftl oo 12))).
Definition unpack_counts (k : N) : N * N * N * N :=
  (N.land k 15, N.land (N.shiftr k 4) 15, N.land (N.shiftr k 8) 15, N.land (N.shiftr k 12) 15).
