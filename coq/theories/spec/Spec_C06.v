(* Spec_C06.v — from the property text: "the size the compiler assumes ... equals the size
   of the emitted type as laid out by the C compiler, the C++ compiler and rustc, every
   field sits at the offset equal to the summed sizes of the fields before it, and the
   three languages agree". *)
Require Import Base.
Open Scope N_scope.

(* what the compiler assumes: struct name, size, per field its total size *)
Definition assumed := (string * N * list (string * N))%type.
(* what a target compiler reports: struct name, sizeof, alignof, offset of every field *)
Definition probe := (string * N * N * list N)%type.

Fixpoint sums_before (sizes : list N) (acc : N) : list N :=
  match sizes with [] => [] | s :: r => acc :: sums_before r (acc + s) end.

Definition spec_c06_struct (a : assumed) (p : probe) : bool :=
  let '(n, sz, fields) := a in
  let '(pn, psz, _, poffs) := p in
  String.eqb n pn && (sz =? psz) && list_eqb N.eqb poffs (sums_before (map snd fields) 0).

(* every probe of every compiler matches the assumption for its struct *)
Definition spec_c06 (assumptions : list assumed) (probes : list probe) : bool :=
  forallb (fun p => let '(pn, _, _, _) := p in
                    existsb (fun a => spec_c06_struct a p) assumptions) probes.
