(* Spec_C12.v — from the property text: first-match resolution in search order, relative
   resolution for paths with a directory part; compilation fails exactly when a reachable
   include cannot be resolved (or does not parse) or the reachable graph has a cycle;
   the visible declarations are those of the reachable files.  Computed with a plain
   reachability closure, not with the compiler's walk. *)
Require Import Base Includes.
Open Scope string_scope.
Open Scope list_scope.

(* "an include naming a bare file resolves to the first directory, in command-line order
   followed by the directory of the main input file, that contains a file of that name;
   an include whose path has a directory part resolves relative to the including file" *)
Definition spec_resolve (w : world) (including : path) (inc : string) : option path :=
  let comps := split_slash inc EmptyString in
  match comps with
  | [name] =>
      match filter (fun d => file_exists w (d ++ [name])) (w_idirs w ++ [parent (w_main w)]) with
      | d :: _ => Some (d ++ [name])
      | [] => None
      end
  | _ =>
      let p := if is_absolute inc then normalize [] comps
               else normalize (rev (parent including)) comps in
      if file_exists w p then Some p else None
  end.

Definition out_edges (w : world) (p : path) : option (list (option path)) :=
  match lookup_file p (w_files w) with
  | Some (Some incs) => Some (map (spec_resolve w p) incs)
  | _ => None
  end.

Definition add_new (l : list path) (xs : list path) : list path :=
  fold_left (fun acc x => if mem_path x acc then acc else acc ++ [x]) xs l.

Definition targets (w : world) (p : path) : list path :=
  match out_edges w p with
  | Some es => flat_map (fun e => match e with Some t => [t] | None => [] end) es
  | None => []
  end.

(* reachable set: iterate "add all targets" |files|+1 times *)
Fixpoint closure (n : nat) (w : world) (set : list path) : list path :=
  match n with
  | O => set
  | S k => closure k w (add_new set (flat_map (targets w) set))
  end.

Definition reachable (w : world) : list path :=
  closure (S (List.length (w_files w))) w [w_main w].

Definition node_bad (w : world) (p : path) : bool :=
  match out_edges w p with
  | None => true                                        (* missing or unparsable file *)
  | Some es => existsb (fun e => match e with None => true | Some _ => false end) es
  end.

(* p lies on a cycle: p is reachable from one of its own targets *)
Definition on_cycle (w : world) (p : path) : bool :=
  mem_path p (closure (S (List.length (w_files w))) w (targets w p)).

Definition spec_accepts (w : world) : bool :=
  let r := reachable w in
  negb (existsb (node_bad w) r) && negb (existsb (on_cycle w) r).

Definition same_set (a b : list path) : bool :=
  forallb (fun x => mem_path x b) a && forallb (fun x => mem_path x a) b.
