(* Spec_Numbering.v — C07 / C08 / C15, written from the property text:
   "methods receive consecutive op-codes in declaration order, numbering the root
    ancestor's methods first from 0 and continuing down the inheritance chain;
    unique; never exceeds 0x3FFF"  and
   "errors ... consecutive values starting at 10 in declaration order, root
    ancestor first; unique".
   The spec never mentions how the compiler numbers anything: it recomputes the
   expected table from the declarations and compares. *)
Require Import Base Syntax.
Open Scope N_scope.

(* all interface declarations of a file set, in file order *)
Definition all_ifaces (files : list ast) : list idef := flat_map ast_ifaces files.

Definition find_iface (files : list ast) (n : string) : option idef :=
  find (fun i => String.eqb n (i_name i)) (all_ifaces files).

(* inheritance chain, root ancestor first *)
Fixpoint chain_of (lk : string -> option idef) (fuel : nat) (i : idef) : option (list idef) :=
  match fuel with
  | O => None
  | S f =>
      match i_base i with
      | None => Some [i]
      | Some b =>
          match lk b with
          | None => None
          | Some bi => match chain_of lk f bi with
                       | Some l => Some (l ++ [i])
                       | None => None
                       end
          end
      end
  end.

Definition spec_chain (files : list ast) (i : idef) : option (list idef) :=
  chain_of (find_iface files) (S (List.length (all_ifaces files))) i.

Definition method_names (i : idef) : list string := map f_name (iface_funcs i).
Definition error_names (i : idef) : list string := iface_errors i.

(* the tables an observer sees: per top-level interface of the main file, the
   flattened (root-first) list of (name, number) *)
Definition optable := list (string * list (string * N)).
Definition errtable := list (string * list (string * Z)).

Fixpoint nat_seq_N (start : N) (len : nat) : list N :=
  match len with O => [] | S k => start :: nat_seq_N (start + 1) k end.
Fixpoint nat_seq_Z (start : Z) (len : nat) : list Z :=
  match len with O => [] | S k => start :: nat_seq_Z (start + 1) k end.

Definition op_limit : N := 16383.          (* 0x3FFF, the property's literal *)
Definition first_error : Z := 10%Z.        (* the property's literal *)

Definition spec_ops_iface (files : list ast) (i : idef) (row : string * list (string * N)) : bool :=
  match spec_chain files i with
  | None => false
  | Some chain =>
      let names := flat_map method_names chain in
      String.eqb (fst row) (i_name i) &&
      list_eqb String.eqb (map fst (snd row)) names &&
      list_eqb N.eqb (map snd (snd row)) (nat_seq_N 0 (List.length names)) &&
      forallb (fun x => x <=? op_limit) (map snd (snd row))
  end.

Fixpoint forallb2 {A B} (f : A -> B -> bool) (l1 : list A) (l2 : list B) : bool :=
  match l1, l2 with
  | [], [] => true
  | a :: r1, b :: r2 => f a b && forallb2 f r1 r2
  | _, _ => false
  end.

(* C07 on an observed op table of the main file's interfaces *)
Definition spec_c07 (files : list ast) (tbl : optable) : bool :=
  match files with
  | [] => false
  | main :: _ => forallb2 (spec_ops_iface files) (ast_ifaces main) tbl
  end.

Definition spec_errs_iface (files : list ast) (i : idef) (row : string * list (string * Z)) : bool :=
  match spec_chain files i with
  | None => false
  | Some chain =>
      let names := flat_map error_names chain in
      String.eqb (fst row) (i_name i) &&
      list_eqb String.eqb (map fst (snd row)) names &&
      list_eqb Z.eqb (map snd (snd row)) (nat_seq_Z first_error (List.length names))
  end.

Definition spec_c08 (files : list ast) (tbl : errtable) : bool :=
  match files with
  | [] => false
  | main :: _ => forallb2 (spec_errs_iface files) (ast_ifaces main) tbl
  end.

(* "a given method has the identical op-code in ... every backend": a backend's
   printed table, as a set of (interface, method, id) triples, equals the reference *)
Definition triples {V} (t : list (string * list (string * V))) : list (string * string * V) :=
  flat_map (fun r => map (fun e => (fst r, fst e, snd e)) (snd r)) t.

Definition triple_eqb {V} (veq : V -> V -> bool) (a b : string * string * V) : bool :=
  let '(i1, m1, v1) := a in let '(i2, m2, v2) := b in
  String.eqb i1 i2 && String.eqb m1 m2 && veq v1 v2.

Definition subset_b {A} (eqb : A -> A -> bool) (l1 l2 : list A) : bool :=
  forallb (fun x => existsb (eqb x) l2) l1.

Definition same_table {V} (veq : V -> V -> bool) (a b : list (string * list (string * V))) : bool :=
  subset_b (triple_eqb veq) (triples a) (triples b) &&
  subset_b (triple_eqb veq) (triples b) (triples a).

(* too many methods: the flattened interface needs more than 0x3FFF + 1 op-codes *)
Definition too_many_methods (files : list ast) (i : idef) : bool :=
  match spec_chain files i with
  | None => false
  | Some chain => (op_limit + 1) <? N.of_nat (List.length (flat_map method_names chain))
  end.

(* "a given error name has the same value ... in every derived interface that re-exports it",
   "a given method has the identical op-code": within one flattened interface a name occurs once
   (a name declared again further down the chain would carry two numbers) *)
Definition spec_names_unique {V} (tbl : list (string * list (string * V))) : bool :=
  forallb (fun row => nodup_str (map fst (snd row))) tbl.
