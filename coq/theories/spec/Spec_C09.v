(* Spec_C09.v — the documented restrictions, as computable rules over a loaded file set
   (every declaration of every reachable file) and over resolved parameter lists.
   Written from the property text / README, not from the passes. *)
Require Import Base Syntax.
Open Scope N_scope.

Definition all_structs (files : list ast) : list sdef := flat_map ast_structs files.
Definition all_ifaces9 (files : list ast) : list idef := flat_map ast_ifaces files.
Definition all_consts (files : list ast) : list cdef := flat_map ast_consts files.

(* duplicate names *)
Definition rule_uniq_types (files : list ast) : bool :=
  nodup_str (map s_name (all_structs files) ++ map i_name (all_ifaces9 files)).
Definition rule_uniq_consts (files : list ast) : bool :=
  nodup_str (map c_name (all_consts files)).
Definition rule_uniq_toplevel (files : list ast) : bool :=
  nodup_str (map s_name (all_structs files) ++ map i_name (all_ifaces9 files)
             ++ map c_name (all_consts files)).
Definition rule_uniq_params (files : list ast) : bool :=
  forallb (fun i => forallb (fun f => nodup_str (map p_name (f_params f))) (iface_funcs i))
          (all_ifaces9 files).
Definition rule_uniq_fields (files : list ast) : bool :=
  forallb (fun s => nodup_str (map sf_name (s_fields s))) (all_structs files).

(* object-array and array rules on a resolved parameter: kind of the element *)
Inductive pkind := KData | KObj | KObjStruct | KBuffer.
Record rparam := mkRP { rp_out : bool; rp_kind : pkind; rp_arr : option (option N) }.
(* rp_arr: None = value, Some None = unbounded array, Some (Some n) = bounded array *)

Definition is_objarr (p : rparam) : bool :=
  match rp_kind p, rp_arr p with KObj, Some _ => true | _, _ => false end.
Definition is_objval (p : rparam) : bool :=
  match rp_kind p, rp_arr p with KObj, None => true | _, _ => false end.

Definition rule_no_unbounded_objarr (ps : list rparam) : bool :=
  forallb (fun p => match rp_kind p, rp_arr p with KObj, Some None => false | _, _ => true end) ps.
Definition rule_no_objarr_with_single (ps : list rparam) : bool :=
  forallb (fun d => negb (existsb (fun p => Bool.eqb (rp_out p) d && is_objarr p) ps &&
                          existsb (fun p => Bool.eqb (rp_out p) d && is_objval p) ps)) [false; true].
Definition rule_no_two_objarr (ps : list rparam) : bool :=
  forallb (fun d => N.of_nat (List.length (filter (fun p => Bool.eqb (rp_out p) d && is_objarr p) ps)) <=? 1)
          [false; true].
Definition rule_no_array_of_objstruct (ps : list rparam) : bool :=
  forallb (fun p => match rp_kind p, rp_arr p with KObjStruct, Some _ => false | _, _ => true end) ps.
Definition rule_no_bounded_data_array (ps : list rparam) : bool :=
  forallb (fun p => match rp_kind p, rp_arr p with
                    | (KData | KObjStruct), Some (Some _) => false
                    | _, _ => true end) ps.

Definition params_rules (ps : list rparam) : list bool :=
  [rule_no_unbounded_objarr ps; rule_no_objarr_with_single ps; rule_no_two_objarr ps;
   rule_no_array_of_objstruct ps; rule_no_bounded_data_array ps].
