(* Transport.v — what connects a stub to a skeleton when "the two sides are connected only by
   what the invocation itself describes": a copying transport that sees (op, counts, raw slots),
   classifies slot j by the section the counts put it in, copies input buffers, provides fresh
   output buffers, passes input objects, collects output objects, and forwards nothing else.
   Definitions only. *)
Require Import Base.
Require Import spec.Spec_C02.
Open Scope N_scope.

(* a raw slot: the union member a stub filled in (buffer or object) with an abstract payload *)
Inductive raw (P : Type) := RBuf (p : P) | RObj (p : P).
Arguments RBuf {P} p.
Arguments RObj {P} p.

Definition raw_fits {P} (kind : N) (r : raw P) : bool :=
  match r with RBuf _ => kind <? 2 | RObj _ => 2 <=? kind end.
Definition raw_payload {P} (r : raw P) : P := match r with RBuf p | RObj p => p end.

(* section of every position, as the counts word declares it: BI^bi BO^bo OI^oi OO^oo *)
Definition positional (c : N * N * N * N) : list N :=
  let '(bi, bo, oi, oo) := c in
  repeat 0 (N.to_nat bi) ++ repeat 1 (N.to_nat bo) ++ repeat 2 (N.to_nat oi) ++ repeat 3 (N.to_nat oo).

(* what the callee is handed: (section, payload) for exactly total(counts) slots; None when the
   argument array is shorter than the counts say or a slot's union member does not fit *)
Fixpoint deliver_slots {P} (secs : list N) (slots : list (raw P)) : option (list (N * P)) :=
  match secs, slots with
  | [], _ => Some []
  | _ :: _, [] => None
  | k :: ks, r :: rs =>
      if raw_fits k r then
        match deliver_slots ks rs with Some l => Some ((k, raw_payload r) :: l) | None => None end
      else None
  end.

Definition deliver {P} (c : N * N * N * N) (slots : list (raw P)) : option (list (N * P)) :=
  deliver_slots (positional c) slots.

(* what a stub puts on the wire: for every slot the role it intends (0 BI, 1 BO, 2 OI, 3 OO) and
   a payload; the union member follows the role *)
Definition raw_of {P} (s : N * P) : raw P := if fst s <? 2 then RBuf (snd s) else RObj (snd s).
