(* Own.v — ownership of object references across one call, per backend and role.  The idiom
   each visitor emits is read from gen/OwnFacts.v (regenerated from the emitters and from
   proxy_base.hpp).  A ledger maps every object to its reference count; a call is a sequence of
   ledger updates by the caller, the stub, the skeleton and the implementation.  A marshalling
   side contributes a net number of retains (+) / releases (-) that is not matched by a
   reference somebody owns.  Definitions only. *)
Require Import Base.
Require Import gen.OwnFacts.
Local Open Scope Z_scope.

Inductive backend := BC | BCpp | BRust.

(* unmatched count change caused by the stub when it passes an input object the caller owns *)
Definition stub_in (b : backend) : Z :=
  match b with
  | BC => if c_stub_no_refcount_ops then 0 else 1
  | BCpp => if cpp_stub_in_borrows then 0 else 1            (* copying the proxy would retain *)
  | BRust => if rust_stub_in_manually_drop then 0 else -1   (* dropping a bit-copy would release *)
  end.

(* ... by the skeleton when it hands an input object to the implementation and returns *)
Definition skel_in (b : backend) : Z :=
  match b with
  | BC => if c_skel_no_refcount_ops then 0 else 1
  | BCpp => if cpp_skel_in_adopts_then_extracts then 0 else -1   (* the temporary proxy's destructor would release *)
  | BRust => if rust_skel_in_borrows then 0 else -1
  end.

(* an output object: the implementation hands over exactly one reference (+1 in flight).
   skel_out: unmatched change while the skeleton moves it into the OO slot *)
Definition skel_out (b : backend) : Z :=
  match b with
  | BC => if c_skel_no_refcount_ops then 0 else 1
  | BCpp => if cpp_skel_out_extracts then 0 else -1
  | BRust => if rust_skel_out_moves then 0 else -1
  end.

(* ------------------------------------------------------------------ ledger *)
Definition ledger := N -> Z.
Definition bump (x : N) (d : Z) (L : ledger) : ledger :=
  fun y => if N.eqb y x then L y + d else L y.
Definition bump_opt (o : option N) (d : Z) (L : ledger) : ledger :=
  match o with Some x => bump x d L | None => L end.
Definition bump_all (os : list (option N)) (d : Z) (L : ledger) : ledger :=
  fold_left (fun L o => bump_opt o d L) os L.

Definition opt_eqb (a b : option N) : bool :=
  match a, b with
  | Some x, Some y => N.eqb x y
  | None, None => true
  | _, _ => false
  end.

(* ProxyBase::consume leaks the incoming reference when the proxy already owns the same object
   iff it skips that case without giving the reference back *)
Definition consume_leaks : bool := cpp_consume_skips_same_object && negb cpp_consume_releases_duplicate.

(* the stub stores one returned handle (which carries one reference) into the caller's holder;
   [held]: what the holder owned before.  C stores into a plain variable and Rust returns a
   value: a holder that owns something exists only for a C++ proxy.  [leaky]: consume_leaks. *)
Definition adopt_gen (leaky : bool) (b : backend) (held incoming : option N) (L : ledger) : option N * ledger :=
  match b with
  | BC => (incoming, L)
  | BRust => if rust_stub_out_takes then (incoming, L) else (None, L)
  | BCpp =>
      if cpp_stub_out_consumes then
        if leaky && opt_eqb held incoming then (held, L)
        else (incoming, bump_opt held (-1) L)      (* the old reference released; when the objects
                                                      are equal this is the consumed one given back *)
      else (held, L)
  end.
Definition adopt := adopt_gen consume_leaks.

Fixpoint adopt_all_gen (leaky : bool) (b : backend) (po : list (option N * option N)) (L : ledger) : list (option N) * ledger :=
  match po with
  | [] => ([], L)
  | (h, o) :: r =>
      let '(h', L1) := adopt_gen leaky b h o L in
      let '(hs, L2) := adopt_all_gen leaky b r L1 in
      (h' :: hs, L2)
  end.
Definition adopt_all := adopt_all_gen consume_leaks.

(* one call.  sc_ins: the object in every input position (direct, array element, struct field);
   sc_outs: per output position (what the caller's holder owns before, what the implementation
   hands over); sc_ok: the implementation returns Object_OK (a failing one produces nothing). *)
Record scenario := { sc_ins : list (option N); sc_outs : list (option N * option N); sc_ok : bool }.

Definition pre_of (s : scenario) := map fst (sc_outs s).
Definition out_of (s : scenario) := map snd (sc_outs s).

(* state when the call has returned: (what the caller's output holders own, ledger) *)
Definition after_call_gen (leaky : bool) (b1 b2 : backend) (s : scenario) (L0 : ledger) : list (option N) * ledger :=
  let L1 := bump_all (sc_ins s) 1 L0 in            (* the caller's own references to its inputs *)
  let L2 := bump_all (pre_of s) 1 L1 in            (* what its output holders already own *)
  let L3 := bump_all (sc_ins s) (stub_in b1 + skel_in b2) L2 in
  if sc_ok s then
    let L4 := bump_all (out_of s) (1 + skel_out b2) L3 in   (* one reference handed over per output *)
    adopt_all_gen leaky b1 (sc_outs s) L4
  else (pre_of s, L3).
Definition after_call := after_call_gen consume_leaks.

(* ... and when the caller has dropped every reference it holds *)
Definition after_drop_gen (leaky : bool) (b1 b2 : backend) (s : scenario) (L0 : ledger) : ledger :=
  let '(held, L) := after_call_gen leaky b1 b2 s L0 in
  bump_all held (-1) (bump_all (sc_ins s) (-1) L).
Definition after_drop := after_drop_gen consume_leaks.

(* multiplicity of an object in a list of positions *)
Fixpoint mult (x : N) (os : list (option N)) : Z :=
  match os with
  | [] => 0
  | Some y :: r => (if N.eqb x y then 1 else 0) + mult x r
  | None :: r => mult x r
  end.

(* positions whose holder already owns the very object that is returned into it *)
Definition aliased (po : list (option N * option N)) : list (option N) :=
  map (fun p => match fst p with Some _ => if opt_eqb (fst p) (snd p) then fst p else None | None => None end) po.
(* the references nobody owns after the call *)
Definition leaked (leaky : bool) (po : list (option N * option N)) : list (option N) :=
  if leaky then aliased po else [].

Definition holders_only_cpp (b : backend) (s : scenario) : bool :=
  match b with BCpp => true | _ => forallb (fun h => match h with None => true | Some _ => false end) (pre_of s) end.
