(* JavaBackend.v — the Java proxy and skeleton: which slot sequence they use (the shared walk,
   read from gen/JavaFacts.v) and the syntactic classes of methods whose generated Java does
   not compile or throws (named known classes; each is witnessed by a run).  Definitions only. *)
Require Import Base Syntax Front Plan.
Require Import gen.JavaFacts.
Open Scope N_scope.

(* the slot kinds of the Java proxy's bi / bo / oi / oo arrays, in order of the walk *)
Definition java_slots (ps : list mparam) : list skind :=
  if java_proxy_shared_walk && java_skel_shared_walk && java_proxy_one_slot_per_event
  then plan_slots ps else [].

Fixpoint has_array_field (t : mty) : bool :=
  match t with
  | MStruct _ fs =>
      (fix go (fs : list (string * mty * N)) : bool :=
         match fs with
         | [] => false
         | (_, ft, cnt) :: r => negb (cnt =? 1) || has_array_field ft || go r
         end) fs
  | _ => false
  end.

Definition has_struct_field (t : mty) : bool :=
  match t with
  | MStruct _ fs => existsb (fun f => is_mstruct (snd (fst f))) fs
  | _ => false
  end.

(* output events that declare the local [bundleOut] in the proxy *)
Definition declares_bundle_out (e : event) : bool :=
  match e with
  | EBundle out _ => out
  | EParam p => mp_out p && is_val p && (is_prim (mp_ty p) || is_mstruct (mp_ty p))
  end.

(* 0 clean; 1 struct with an array field (does not compile); 2 two declarations of bundleOut
   (does not compile; only while the proxy does not scope them: JavaFacts.java_scopes_bundle_out); 3 struct with a struct field (null member); 4 primitive array;
   5 struct array; 6 output object array *)
(* an input array of one-byte elements is the raw slot itself (byte[]): it works; output arrays of
   bytes share the defect of the other primitive arrays *)
Definition is_byte_array_ok (p : mparam) : bool :=
  negb (mp_out p) && match mp_ty p with MPrim q => mir_prim_size q =? 1 | _ => false end.

Definition java_class (f : mfunc) : N :=
  let ps := mf_params f in
  if existsb (fun p => has_array_field (mp_ty p)) ps then 1
  else if negb java_scopes_bundle_out && (1 <? N.of_nat (List.length (filter declares_bundle_out (with_bundling ps)))) then 2
  else if existsb (fun p => has_struct_field (mp_ty p)) ps then 3
  else if existsb (fun p => is_array p && is_prim (mp_ty p) && negb (is_byte_array_ok p)) ps then 4
  else if existsb (fun p => is_array p && is_mstruct (mp_ty p)) ps then 5
  else if existsb (fun p => is_array p && is_miface (mp_ty p) && mp_out p) ps then 6
  else 0.
