(* ConcProofs.v — the invariant of the shared-object model is inductive for any number of
   threads and any schedule; mutual exclusion of method bodies, no lost effects, the
   implementation is dropped exactly once, after the last release, never during a body. *)
Require Import Base Conc.
Require Import gen.ConcFacts.
Open Scope nat_scope.

Fixpoint sum_owns (l : list thr) : nat :=
  match l with [] => 0 | t :: r => owns t + sum_owns r end.

Lemma upd_length l : forall i t, List.length (upd l i t) = List.length l.
Proof. induction l as [|x l IH]; intros [|i] t; cbn; auto. Qed.

Lemma get_upd_same l : forall i t, i < List.length l -> get (upd l i t) i = t.
Proof.
  unfold get. induction l as [|x l IH]; intros [|i] t H; cbn in *; try lia; [reflexivity|].
  apply IH. lia.
Qed.

Lemma get_upd_other l : forall i j t, i <> j -> get (upd l i t) j = get l j.
Proof.
  unfold get. induction l as [|x l IH]; intros [|i] [|j] t H; cbn; try reflexivity; try lia.
  apply IH. lia.
Qed.

Lemma sum_upd l : forall i t, i < List.length l ->
  sum_owns (upd l i t) + owns (get l i) = sum_owns l + owns t.
Proof.
  unfold get. induction l as [|x l IH]; intros [|i] t H; cbn in *; try lia.
  specialize (IH i t ltac:(lia)). lia.
Qed.

Lemma sum_ge l : forall i, i < List.length l -> owns (get l i) <= sum_owns l.
Proof.
  unfold get. induction l as [|x l IH]; intros [|i] H; cbn in *; try lia.
  specialize (IH i ltac:(lia)). lia.
Qed.

(* the thread is inside the implementation: in a method body or in a downcast closure *)
Definition holds (p : pc) : bool := match p with InBody _ | InLook _ => true | _ => false end.

Record Inv (s : st) : Prop := {
  i_refs : refs s = sum_owns (ths s);
  i_busy : forall i, i < List.length (ths s) -> idle (at_ (get (ths s) i)) = false -> 1 <= owns (get (ths s) i);
  i_lock : forall i, i < List.length (ths s) -> (holds (at_ (get (ths s) i)) = true <-> lock s = Some i);
  i_freed : freed s = true -> refs s = 0 /\ drops s = 1;
  i_nfreed : freed s = false -> drops s = 0;
  i_snap : forall i sn, i < List.length (ths s) -> at_ (get (ths s) i) = InBody sn -> sn = impl s;
  i_look : forall i sn, i < List.length (ths s) -> at_ (get (ths s) i) = InLook sn -> sn = impl s;
  i_impl : impl s = completed s
}.

Lemma inv_init n : Inv (init n).
Proof.
  constructor; cbn.
  - induction n; cbn; [reflexivity | exact IHn].
  - intros [|i] H Hi; cbn in *; [discriminate|].
    unfold get in Hi. cbn in Hi. rewrite nth_repeat in Hi. cbn in Hi. discriminate.
  - intros [|i] H; cbn; (split; [intro E | discriminate]).
    + unfold get in E; cbn in E; discriminate.
    + unfold get in E. cbn in E. rewrite nth_repeat in E. discriminate.
  - discriminate.
  - reflexivity.
  - intros [|i] sn H E; unfold get in E; cbn in E; [discriminate|]. rewrite nth_repeat in E. discriminate.
  - intros [|i] sn H E; unfold get in E; cbn in E; [discriminate|]. rewrite nth_repeat in E. discriminate.
  - reflexivity.
Qed.

Lemma facts : retain_is_rmw = true /\ release_is_rmw = true /\ release_frees_on = 1 /\
              arm_locks_before_call = true /\ arm_holds_lock_during_call = true /\ release_synchronizes = true /\
              downcast_closure_under_lock = true.
Proof. repeat split; reflexivity. Qed.

Ltac upd_simpl :=
  repeat match goal with
         | |- context [List.length (upd _ _ _)] => rewrite upd_length
         | H : context [List.length (upd _ _ _)] |- _ => rewrite upd_length in H
         end.

(* the thread whose record the step rewrites (k = i) or any other thread (record unchanged) *)
Ltac at_k i k :=
  destruct (Nat.eq_dec i k) as [->|?N];
  [ rewrite ?get_upd_same in * by (rewrite ?upd_length; assumption)
  | rewrite ?get_upd_other in * by assumption ].

Lemma inv_step s s' : Inv s -> step s s' -> Inv s'.
Proof.
  intros I H. destruct facts as (F1 & F2 & F3 & F4 & F5 & _ & F7).
  destruct I as [Irefs Ibusy Ilock Ifreed Infreed Isnap Ilook Iimpl].
  destruct H as [s i Hi Ho _ | s i Hi Hg _ | s i j Hi Hj Hij Hg | s i Hi Hat Ho | s i Hi Hat Hl | s i snap Hi Hat
                 | s i Hi Hat Ho | s i Hi Hat Hl | s i seen Hi Hat];
    constructor; cbn [refs lock freed drops impl completed ths]; upd_simpl.
  (* ---------------- SClone ---------------- *)
  - pose proof (sum_upd (ths s) i (mkT (S (owns (get (ths s) i))) (at_ (get (ths s) i))) Hi). cbn in *. lia.
  - intros k Hk Hb. at_k i k; [cbn; lia | now apply Ibusy].
  - intros k Hk. at_k i k; [cbn; now apply Ilock | now apply Ilock].
  - intro Hf. destruct (Ifreed Hf) as [R _]. pose proof (sum_ge (ths s) i Hi). lia.
  - exact Infreed.
  - intros k sn Hk E. at_k i k; [cbn in E|]; now apply (Isnap k).
  - intros k sn Hk E. at_k i k; [cbn in E|]; now apply (Ilook k).
  - exact Iimpl.
  (* ---------------- SDrop ---------------- *)
  - assert (1 <= owns (get (ths s) i)) by (destruct Hg as [[_ ?]|?]; lia).
    pose proof (sum_upd (ths s) i (mkT (owns (get (ths s) i) - 1) (at_ (get (ths s) i))) Hi). cbn in *. lia.
  - intros k Hk Hb. at_k i k; [|now apply Ibusy].
    cbn in *. destruct Hg as [[Hid _]|Hg]; [congruence | lia].
  - intros k Hk. at_k i k; [cbn; now apply Ilock | now apply Ilock].
  - rewrite F3. assert (O1 : 1 <= owns (get (ths s) i)) by (destruct Hg as [[_ ?]|?]; lia).
    pose proof (sum_ge (ths s) i Hi) as G.
    destruct (Nat.eqb (refs s) 1) eqn:E.
    + apply Nat.eqb_eq in E. intros _. split; [lia|].
      destruct (freed s) eqn:EF; [destruct (Ifreed eq_refl); lia | rewrite (Infreed eq_refl); reflexivity].
    + intro Hf. destruct (Ifreed Hf). lia.
  - rewrite F3. destruct (Nat.eqb (refs s) 1); [discriminate | exact Infreed].
  - intros k sn Hk E. at_k i k; [cbn in E|]; now apply (Isnap k).
  - intros k sn Hk E. at_k i k; [cbn in E|]; now apply (Ilook k).
  - exact Iimpl.
  (* ---------------- STransfer ---------------- *)
  - assert (1 <= owns (get (ths s) i)) by (destruct Hg as [[_ ?]|?]; lia).
    pose proof (sum_upd (ths s) i (mkT (owns (get (ths s) i) - 1) (at_ (get (ths s) i))) Hi) as S1.
    assert (Hj' : j < List.length (upd (ths s) i (mkT (owns (get (ths s) i) - 1) (at_ (get (ths s) i))))) by (rewrite upd_length; exact Hj).
    pose proof (sum_upd _ j (mkT (S (owns (get (ths s) j))) (at_ (get (ths s) j))) Hj') as S2.
    rewrite get_upd_other in S2 by assumption. cbn in *. lia.
  - intros k Hk Hb. at_k j k; [cbn; lia|].
    at_k i k; [|now apply Ibusy].
    cbn in *. destruct Hg as [[Hid _]|Hg]; [congruence | lia].
  - intros k Hk. at_k j k; [cbn; now apply Ilock|].
    at_k i k; [cbn; now apply Ilock | now apply Ilock].
  - intro Hf. destruct (Ifreed Hf) as [R _]. pose proof (sum_ge (ths s) i Hi).
    destruct Hg as [[_ ?]|?]; lia.
  - exact Infreed.
  - intros k sn Hk E. at_k j k; [cbn in E; now apply (Isnap k)|].
    at_k i k; [cbn in E|]; now apply (Isnap k).
  - intros k sn Hk E. at_k j k; [cbn in E; now apply (Ilook k)|].
    at_k i k; [cbn in E|]; now apply (Ilook k).
  - exact Iimpl.
  (* ---------------- SCall ---------------- *)
  - pose proof (sum_upd (ths s) i (mkT (owns (get (ths s) i)) Waiting) Hi). cbn in *. lia.
  - intros k Hk Hb. at_k i k; [cbn; exact Ho | now apply Ibusy].
  - intros k Hk. at_k i k; [|now apply Ilock].
    cbn. split; [discriminate|]. intro HL. apply (Ilock k Hk) in HL. rewrite Hat in HL. discriminate.
  - exact Ifreed.
  - exact Infreed.
  - intros k sn Hk E. at_k i k; [discriminate | now apply (Isnap k)].
  - intros k sn Hk E. at_k i k; [discriminate | now apply (Ilook k)].
  - exact Iimpl.
  (* ---------------- SAcq ---------------- *)
  - pose proof (sum_upd (ths s) i (mkT (owns (get (ths s) i)) (InBody (impl s))) Hi). cbn in *. lia.
  - intros k Hk Hb. at_k i k; [|now apply Ibusy].
    cbn. apply Ibusy; [assumption|]. now rewrite Hat.
  - rewrite F4. specialize (Hl F4). intros k Hk. at_k i k.
    + cbn. split; reflexivity.
    + split.
      * intro HB. apply (Ilock k Hk) in HB. congruence.
      * intro E. inversion E. congruence.
  - exact Ifreed.
  - exact Infreed.
  - intros k sn Hk E. at_k i k; [cbn in E; congruence | now apply (Isnap k)].
  - intros k sn Hk E. at_k i k; [discriminate | now apply (Ilook k)].
  - exact Iimpl.
  (* ---------------- SRet ---------------- *)
  - pose proof (sum_upd (ths s) i (mkT (owns (get (ths s) i)) Idle) Hi). cbn in *. lia.
  - intros k Hk Hb. at_k i k; [discriminate | now apply Ibusy].
  - rewrite F5. assert (HL : lock s = Some i) by (apply (Ilock i Hi); now rewrite Hat).
    intros k Hk. at_k i k.
    + cbn. split; discriminate.
    + split; [|discriminate]. intro HB. apply (Ilock k Hk) in HB. congruence.
  - exact Ifreed.
  - exact Infreed.
  - intros k sn Hk E. at_k i k; [discriminate|].
    assert (HL : lock s = Some i) by (apply (Ilock i Hi); now rewrite Hat).
    assert (HK : lock s = Some k) by (apply (Ilock k Hk); now rewrite E). congruence.
  - intros k sn Hk E. at_k i k; [discriminate|].
    assert (HL : lock s = Some i) by (apply (Ilock i Hi); now rewrite Hat).
    assert (HK : lock s = Some k) by (apply (Ilock k Hk); now rewrite E). congruence.
  - rewrite (Isnap i snap Hi Hat), Iimpl. reflexivity.
  (* ---------------- SLook ---------------- *)
  - pose proof (sum_upd (ths s) i (mkT (owns (get (ths s) i)) WaitLook) Hi). cbn in *. lia.
  - intros k Hk Hb. at_k i k; [cbn; exact Ho | now apply Ibusy].
  - intros k Hk. at_k i k; [|now apply Ilock].
    cbn. split; [discriminate|]. intro HL. apply (Ilock k Hk) in HL. rewrite Hat in HL. discriminate.
  - exact Ifreed.
  - exact Infreed.
  - intros k sn Hk E. at_k i k; [discriminate | now apply (Isnap k)].
  - intros k sn Hk E. at_k i k; [discriminate | now apply (Ilook k)].
  - exact Iimpl.
  (* ---------------- SLookAcq ---------------- *)
  - pose proof (sum_upd (ths s) i (mkT (owns (get (ths s) i)) (InLook (impl s))) Hi). cbn in *. lia.
  - intros k Hk Hb. at_k i k; [|now apply Ibusy].
    cbn. apply Ibusy; [assumption|]. now rewrite Hat.
  - rewrite F7. intros k Hk. at_k i k.
    + cbn. split; reflexivity.
    + split.
      * intro HB. apply (Ilock k Hk) in HB. congruence.
      * intro E. inversion E. congruence.
  - exact Ifreed.
  - exact Infreed.
  - intros k sn Hk E. at_k i k; [discriminate | now apply (Isnap k)].
  - intros k sn Hk E. at_k i k; [cbn in E; congruence | now apply (Ilook k)].
  - exact Iimpl.
  (* ---------------- SLookEnd ---------------- *)
  - pose proof (sum_upd (ths s) i (mkT (owns (get (ths s) i)) Idle) Hi). cbn in *. lia.
  - intros k Hk Hb. at_k i k; [discriminate | now apply Ibusy].
  - rewrite F7. assert (HL : lock s = Some i) by (apply (Ilock i Hi); now rewrite Hat).
    intros k Hk. at_k i k.
    + cbn. split; discriminate.
    + split; [|discriminate]. intro HB. apply (Ilock k Hk) in HB. congruence.
  - exact Ifreed.
  - exact Infreed.
  - intros k sn Hk E. at_k i k; [discriminate | now apply (Isnap k)].
  - intros k sn Hk E. at_k i k; [discriminate | now apply (Ilook k)].
  - exact Iimpl.
Qed.

Lemma step_length s s' : step s s' -> List.length (ths s') = List.length (ths s).
Proof. destruct 1; cbn; now rewrite ?upd_length. Qed.

Theorem reachable_inv n s : reachable n s -> Inv s.
Proof. induction 1; [apply inv_init | eapply inv_step; eassumption]. Qed.

(* ---- the properties ---- *)

(* no two method bodies of the same implementation instance execute at the same time *)
Theorem mutual_exclusion n s i j a b : reachable n s ->
  i < List.length (ths s) -> j < List.length (ths s) ->
  at_ (get (ths s) i) = InBody a -> at_ (get (ths s) j) = InBody b -> i = j.
Proof.
  intros R Hi Hj Ei Ej. destruct (reachable_inv _ _ R) as [_ _ Ilock _ _ _ _ _].
  assert (L1 : lock s = Some i) by (apply (Ilock i Hi); now rewrite Ei).
  assert (L2 : lock s = Some j) by (apply (Ilock j Hj); now rewrite Ej). congruence.
Qed.

(* ... and a downcast closure has the implementation to itself as well: no method body and no other
   closure runs while it does, and the state it saw when it started is still the state *)
Theorem look_is_exclusive n s i j : reachable n s ->
  i < List.length (ths s) -> j < List.length (ths s) ->
  holds (at_ (get (ths s) i)) = true -> holds (at_ (get (ths s) j)) = true -> i = j.
Proof.
  intros R Hi Hj Ei Ej. destruct (reachable_inv _ _ R) as [_ _ Ilock _ _ _ _ _].
  assert (L1 : lock s = Some i) by (now apply (Ilock i Hi)).
  assert (L2 : lock s = Some j) by (now apply (Ilock j Hj)). congruence.
Qed.

Theorem look_sees_stable_state n s i seen : reachable n s -> i < List.length (ths s) ->
  at_ (get (ths s) i) = InLook seen -> seen = impl s /\ seen = completed s.
Proof.
  intros R Hi E. destruct (reachable_inv _ _ R) as [_ _ _ _ _ _ Ilook Iimpl].
  pose proof (Ilook i seen Hi E). split; [assumption | congruence].
Qed.

(* every invocation observes the effects of all invocations that completed before it
   started, and no effect is lost: the state a body works on is the current state, and the
   state always equals the number of completed invocations *)
Theorem sees_completed_effects n s i a : reachable n s -> i < List.length (ths s) ->
  at_ (get (ths s) i) = InBody a -> a = completed s.
Proof.
  intros R Hi E. destruct (reachable_inv _ _ R) as [_ _ _ _ _ Isnap _ Iimpl].
  rewrite <- Iimpl. now apply (Isnap i).
Qed.

(* the implementation is dropped at most once, and only when no handle is left *)
Theorem dropped_at_most_once n s : reachable n s -> drops s <= 1.
Proof.
  intro R. destruct (reachable_inv _ _ R) as [_ _ _ Ifreed Infreed _ _ _].
  destruct (freed s) eqn:E; [destruct (Ifreed eq_refl); lia | rewrite (Infreed eq_refl); lia].
Qed.

Theorem dropped_only_after_last_release n s : reachable n s -> drops s = 1 -> refs s = 0.
Proof.
  intros R D. destruct (reachable_inv _ _ R) as [_ _ _ Ifreed Infreed _ _ _].
  destruct (freed s) eqn:E; [now destruct (Ifreed eq_refl) | rewrite (Infreed eq_refl) in D; discriminate].
Qed.

(* ... and never while a method body is running (nor while a call is pending) *)
Theorem no_drop_while_in_body n s i : reachable n s -> i < List.length (ths s) ->
  idle (at_ (get (ths s) i)) = false -> drops s = 0.
Proof.
  intros R Hi B. destruct (reachable_inv _ _ R) as [Irefs Ibusy _ Ifreed Infreed _ _ _].
  destruct (freed s) eqn:E; [|now apply Infreed].
  destruct (Ifreed eq_refl) as [R0 _]. pose proof (Ibusy i Hi B). pose proof (sum_ge (ths s) i Hi). lia.
Qed.

(* once every handle has been released the implementation has been dropped exactly once *)
Theorem dropped_when_all_released n s : reachable n s -> refs s = 0 -> drops s = 1.
Proof.
  intros R. induction R as [|s s' R IH H]; [discriminate|].
  pose proof (reachable_inv _ _ R) as I. destruct facts as (_ & _ & F3 & _ & _ & _ & _).
  destruct H; cbn [refs drops]; intro Z; try (now apply IH); try lia.
  - (* SDrop *) rewrite F3. destruct (Nat.eqb (refs s) 1) eqn:E.
    + destruct I as [_ _ _ Ifreed Infreed _ _ _].
      destruct (freed s) eqn:EF; [destruct (Ifreed eq_refl); apply Nat.eqb_eq in E; lia | now rewrite (Infreed eq_refl)].
    + apply Nat.eqb_neq in E. assert (refs s = 0) by lia.
      destruct I as [Irefs _ _ _ _ _ _ _]. pose proof (sum_ge (ths s) i H).
      destruct H0 as [[_ ?]|?]; lia.
Qed.
