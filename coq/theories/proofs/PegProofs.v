(* PegProofs.v — the parser induced by a grammar never runs out of its depth budget when the
   rule-call graph has no path longer than the budget ([okd], a boolean that is evaluated on the
   regenerated grammar), whatever the input: parsing is total. *)
Require Import Base Pst Peg.
Open Scope string_scope.
Open Scope list_scope.

(* the rules an expression may call when it is evaluated with ([na] = true) or without implicit
   skipping: a skip only calls WHITESPACE and COMMENT when the atomicity is non-atomic *)
Fixpoint refs (na : bool) (e : pexp) : list string :=
  match e with
  | PSeq a b | PAlt a b => refs na a ++ refs na b
  | PStar a | PPlus a | POpt a | PNot a => refs na a
  | PRef n => [n]
  | PSkip => if na then ["WHITESPACE"; "COMMENT"] else []
  | _ => []
  end.

Definition is_na (a : atom) : bool := atom_eqb a NonAtomic.
(* does the body of r run atomically whatever the caller's atomicity is? *)
Definition atomic_body (r : rule) : bool :=
  match r_kind r with KAtomic | KCompound => true | _ => is_trivia (r_name r) end.

Lemma is_na_inner r a : is_na (inner_atom r a) = is_na a && negb (atomic_body r).
Proof.
  unfold inner_atom, atomic_body. destruct (r_kind r); try (destruct (is_trivia (r_name r))); destruct a; reflexivity.
Qed.

(* a rank table for (rule, context): every rule only calls - in the context its body runs in -
   rules of strictly lower rank, so the dynamic call graph has no cycle.  (The static one has:
   the silent comment rules contain skips, which call COMMENT; they are only ever entered from
   COMMENT, whose compound atomicity switches those skips off.) *)
Definition rkey := (string * bool)%type.
Fixpoint rank_of (tbl : list (rkey * nat)) (n : string) (na : bool) : nat :=
  match tbl with
  | [] => O
  | ((m, b), k) :: t => if String.eqb n m && Bool.eqb na b then k else rank_of t n na
  end.
Definition defined (g : grammar) (n : string) : bool :=
  match find_rule g n with Some _ => true | None => false end.
Definition ranked (g : grammar) (tbl : list (rkey * nat)) : bool :=
  forallb (fun r => forallb (fun na =>
     let na' := na && negb (atomic_body r) in
     forallb (fun n => negb (defined g n) || Nat.ltb (rank_of tbl n na') (rank_of tbl (r_name r) na))
             (refs na' (body_of r))) [true; false]) g.
(* depth d suffices for the calls e makes in context na *)
Definition fits (g : grammar) (tbl : list (rkey * nat)) (na : bool) (d : nat) (e : pexp) : bool :=
  forallb (fun n => negb (defined g n) || Nat.ltb (rank_of tbl n na) d) (refs na e).

(* the table itself is computed: 2|g| rounds of "one more than the highest rank called" *)
Definition rank_round (g : grammar) (tbl : list (rkey * nat)) : list (rkey * nat) :=
  flat_map (fun r => map (fun na =>
     let na' := na && negb (atomic_body r) in
     ((r_name r, na), S (fold_right Nat.max O (map (fun n => if defined g n then rank_of tbl n na' else O) (refs na' (body_of r))))))
     [true; false]) g.
Definition compute_ranks (g : grammar) : list (rkey * nat) :=
  Nat.iter (2 * List.length g) (rank_round g) [].

(* ---- the combinators never invent a fuel failure ---- *)

Lemma repeat_loop_no_fuel (f : list ascii -> res) (Hf : forall x, f x <> RFuel) :
  forall n inp acc, (List.length inp < n)%nat -> repeat_loop f n inp acc <> RFuel.
Proof.
  induction n as [|n IH]; intros inp acc L; [lia|]. cbn [repeat_loop].
  destruct (f inp) as [rest toks| |] eqn:E; try discriminate; [|exfalso; exact (Hf _ E)].
  destruct (Nat.ltb (List.length rest) (List.length inp)) eqn:EL; [|discriminate].
  apply Nat.ltb_lt in EL. apply IH. lia.
Qed.

Lemma repeat_of_no_fuel f : (forall x, f x <> RFuel) -> forall inp, repeat_of f inp <> RFuel.
Proof. intros Hf inp. unfold repeat_of. apply repeat_loop_no_fuel; [exact Hf | lia]. Qed.

Lemma seq_of_no_fuel f h : (forall x, f x <> RFuel) -> (forall x, h x <> RFuel) ->
  forall inp, seq_of f h inp <> RFuel.
Proof.
  intros Hf Hh inp. unfold seq_of. destruct (f inp) as [r1 t1| |] eqn:E; try discriminate; [|exfalso; exact (Hf _ E)].
  destruct (h r1) as [r2 t2| |] eqn:E2; try discriminate. exfalso. exact (Hh _ E2).
Qed.

(* ---- one level of the evaluator, unfolded ---- *)
Section Unfold.
  Variables (g : grammar) (whole : list ascii) (d : nat) (at_ : atom).
  Let E := ev g whole (S d) at_.
  Let call := call_rule g (ev g whole d).

  Lemma ev_seq la a b inp : E la (PSeq a b) inp = seq_of (E la a) (E la b) inp.
  Proof. reflexivity. Qed.
  Lemma ev_alt la a b inp : E la (PAlt a b) inp = match E la a inp with RFail => E la b inp | r => r end.
  Proof. reflexivity. Qed.
  Lemma ev_star la a inp : E la (PStar a) inp = repeat_of (E la a) inp.
  Proof. reflexivity. Qed.
  Lemma ev_plus la a inp : E la (PPlus a) inp = seq_of (E la a) (repeat_of (E la a)) inp.
  Proof. reflexivity. Qed.
  Lemma ev_opt la a inp : E la (POpt a) inp = match E la a inp with RFail => ROk inp [] | r => r end.
  Proof. reflexivity. Qed.
  Lemma ev_not la a inp : E la (PNot a) inp =
    match E true a inp with ROk _ _ => RFail | RFail => ROk inp [] | RFuel => RFuel end.
  Proof. reflexivity. Qed.
  Lemma ev_ref la n inp : E la (PRef n) inp = call n at_ la inp.
  Proof. reflexivity. Qed.
  Lemma ev_skip la inp : E la PSkip inp =
    if atom_eqb at_ NonAtomic then
      seq_of (repeat_of (call "WHITESPACE" at_ la))
             (repeat_of (seq_of (call "COMMENT" at_ la) (repeat_of (call "WHITESPACE" at_ la)))) inp
    else ROk inp [].
  Proof. reflexivity. Qed.
End Unfold.

Lemma call_rule_no_fuel g evb n at_ la inp :
  (forall r, find_rule g n = Some r -> evb (inner_atom r at_) la (body_of r) inp <> RFuel) ->
  call_rule g evb n at_ la inp <> RFuel.
Proof.
  intros H. unfold call_rule. destruct (find_rule g n) as [r|] eqn:EF; [|discriminate].
  specialize (H r eq_refl).
  destruct (evb (inner_atom r at_) la (body_of r) inp) as [rest toks| |] eqn:EE; try discriminate.
  - match goal with |- context [if ?c then _ else _] => destruct c end; discriminate.
  - exfalso. now apply H.
Qed.

Lemma forallb_app' {A} (p : A -> bool) l1 l2 : forallb p (l1 ++ l2) = true -> forallb p l1 = true /\ forallb p l2 = true.
Proof. rewrite forallb_app. intro H. now apply andb_prop in H. Qed.

Lemma find_rule_In g n r : find_rule g n = Some r -> In r g /\ r_name r = n.
Proof.
  induction g as [|x g IH]; cbn; [discriminate|]. destruct (String.eqb (r_name x) n) eqn:E.
  - intro H. inversion H; subst. split; [now left | now apply String.eqb_eq].
  - intro H. destruct (IH H). split; [now right | assumption].
Qed.

Ltac leaf_cases :=
  match goal with
  | |- context [match_str ?s ?inp] => cbn; destruct (match_str s inp); discriminate
  | _ => idtac
  end.

(* one level: if every call that e can make (in the context of at_) is safe, so is e *)
Lemma ev_level g whole d at_
  (CALL : forall n, In n (refs (is_na at_) (PRef n)) -> True)
  : forall e,
    (forall n, In n (refs (is_na at_) e) -> forall la i, call_rule g (ev g whole d) n at_ la i <> RFuel) ->
    forall la inp, ev g whole (S d) at_ la e inp <> RFuel.
Proof.
  clear CALL.
  induction e as [s| |k| | | |a IHa b IHb|a IHa b IHb|a IHa|a IHa|a IHa|a IHa|n|]; intros H la inp.
  - cbn. destruct (match_str s inp); discriminate.
  - cbn. destruct inp; discriminate.
  - cbn. destruct inp as [|c r]; [discriminate|]. destruct (cls_match k c); discriminate.
  - cbn. destruct inp as [|c r]; [discriminate|]. destruct (Ascii.eqb c "010"); [discriminate|].
    destruct (Ascii.eqb c "013"); [|discriminate]. destruct r as [|c2 r2]; [discriminate|].
    destruct (Ascii.eqb c2 "010"); discriminate.
  - cbn. destruct (Nat.eqb _ _); discriminate.
  - cbn. destruct inp; discriminate.
  - rewrite ev_seq. cbn [refs] in H.
    apply seq_of_no_fuel; intro x; [apply IHa | apply IHb]; intros n Hn; apply H; apply in_or_app; auto.
  - rewrite ev_alt. cbn [refs] in H.
    assert (Ha : forall la inp, ev g whole (S d) at_ la a inp <> RFuel)
      by (apply IHa; intros n Hn; apply H; apply in_or_app; auto).
    assert (Hb : forall la inp, ev g whole (S d) at_ la b inp <> RFuel)
      by (apply IHb; intros n Hn; apply H; apply in_or_app; auto).
    specialize (Ha la inp). destruct (ev g whole (S d) at_ la a inp); try discriminate; [apply Hb | contradiction].
  - rewrite ev_star. apply repeat_of_no_fuel. intro x. now apply IHa.
  - rewrite ev_plus. apply seq_of_no_fuel; [intro x; now apply IHa|].
    apply repeat_of_no_fuel. intro x. now apply IHa.
  - rewrite ev_opt. specialize (IHa H la inp).
    destruct (ev g whole (S d) at_ la a inp); try discriminate. contradiction.
  - rewrite ev_not. specialize (IHa H true inp).
    destruct (ev g whole (S d) at_ true a inp); try discriminate. contradiction.
  - rewrite ev_ref. apply H. now left.
  - rewrite ev_skip. cbn [refs] in H. unfold is_na in H. destruct (atom_eqb at_ NonAtomic); [|discriminate].
    assert (W : forall la i, call_rule g (ev g whole d) "WHITESPACE" at_ la i <> RFuel) by (apply H; now left).
    assert (C : forall la i, call_rule g (ev g whole d) "COMMENT" at_ la i <> RFuel) by (apply H; right; now left).
    apply seq_of_no_fuel.
    + apply repeat_of_no_fuel. intro x. apply W.
    + apply repeat_of_no_fuel. apply seq_of_no_fuel; [intro x; apply C|].
      apply repeat_of_no_fuel. intro x. apply W.
Qed.

Theorem ev_no_fuel g whole tbl : ranked g tbl = true -> forall d e at_, fits g tbl (is_na at_) d e = true ->
  forall la inp, ev g whole (S d) at_ la e inp <> RFuel.
Proof.
  intro R. induction d as [|d IH]; intros e at_ H; apply ev_level; auto; intros n Hn la i;
    unfold fits in H; rewrite forallb_forall in H; specialize (H n Hn).
  - unfold call_rule. unfold defined in H. destruct (find_rule g n); [|discriminate]. cbn in H. discriminate.
  - apply call_rule_no_fuel. intros r Hr. apply IH.
    unfold defined in H. rewrite Hr in H. cbn [negb orb] in H. apply Nat.ltb_lt in H.
    destruct (find_rule_In _ _ _ Hr) as [Hin Hname].
    unfold ranked in R. rewrite forallb_forall in R. specialize (R r Hin).
    rewrite is_na_inner. unfold fits. rewrite forallb_forall. intros m Hm.
    assert (RR : negb (defined g m) || Nat.ltb (rank_of tbl m (is_na at_ && negb (atomic_body r))) (rank_of tbl (r_name r) (is_na at_)) = true).
    { cbn [forallb] in R. apply andb_prop in R. destruct R as [R1 R2]. apply andb_prop in R2. destruct R2 as [R2 _].
      destruct (is_na at_).
      - rewrite forallb_forall in R1. now apply R1.
      - rewrite forallb_forall in R2. now apply R2. }
    destruct (defined g m); [|reflexivity]. cbn [negb orb] in *. apply Nat.ltb_lt in RR. apply Nat.ltb_lt.
    rewrite Hname in RR. lia.
Qed.

(* the parser of a grammar with a rank table that fits the depth budget is total: every input
   is either parsed or rejected *)
Definition grammar_ok (g : grammar) : bool :=
  let tbl := compute_ranks g in
  ranked g tbl && fits g tbl true (S (List.length g)) (PRef "idl").

Theorem parse_total g : grammar_ok g = true -> forall inp, parse_with g inp <> RFuel.
Proof.
  unfold grammar_ok. intros H inp. apply andb_prop in H. destruct H as [R F].
  unfold parse_with. exact (ev_no_fuel g inp _ R _ _ NonAtomic F false inp).
Qed.

(* ---- what a successful parse returns: a suffix of the input ---- *)
