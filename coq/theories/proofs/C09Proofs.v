(* C09Proofs.v — what acceptance by the front-end model implies (soundness of validation),
   rule by rule, and machine-checked witnesses for the rules it does not enforce. *)
Require Import Base Syntax Front Plan gen.CounterFacts.
Require Import spec.Spec_C09 spec.Spec_Numbering proofs.GatherProofs proofs.C07Proofs proofs.NumberingProofs proofs.C02Proofs.
Open Scope N_scope.

(* resolved parameter -> the spec's abstract parameter *)
Definition kind_of (t : mty) : pkind :=
  match t with
  | MBuffer => KBuffer
  | MPrim _ => KData
  | MIface _ => KObj
  | MStruct _ _ => if contains_interfaces t then KObjStruct else KData
  end.
Definition abs_param (p : mparam) : rparam :=
  mkRP (mp_out p) (kind_of (mp_ty p))
       (match mp_shape p with PVal => None | PArr c => Some c end).

(* ---- per-parameter checks of the interface verifier ---- *)

Lemma check_param_unbounded s p r : check_param_gen s p = Ok r ->
  (match rp_kind (abs_param p), rp_arr (abs_param p) with KObj, Some None => false | _, _ => true end) = true.
Proof.
  unfold check_param_gen, abs_param, kind_of. cbn [rp_kind rp_arr].
  destruct (mp_shape p) as [|cnt]; [destruct (mp_ty p); try reflexivity; now destruct (contains_interfaces _)|].
  destruct (mp_ty p) as [|q|n|sn fs]; cbn [is_miface is_struct_or_prim is_mstruct]; try reflexivity.
  - destruct cnt; [reflexivity | discriminate].
  - destruct (contains_interfaces _); reflexivity.
Qed.

Lemma check_param_bounded_data s p r : check_param_gen s p = Ok r ->
  (match rp_kind (abs_param p), rp_arr (abs_param p) with
   | KData, Some (Some _) => false | _, _ => true end) = true.
Proof.
  unfold check_param_gen, abs_param, kind_of. cbn [rp_kind rp_arr].
  destruct (mp_shape p) as [|cnt]; [destruct (mp_ty p); try reflexivity; now destruct (contains_interfaces _)|].
  destruct (mp_ty p) as [|q|n|sn fs]; cbn [is_miface is_struct_or_prim is_mstruct andb]; try reflexivity.
  - destruct cnt; [discriminate | reflexivity].
  - destruct (contains_interfaces (MStruct sn fs)) eqn:EC.
    + reflexivity.
    + rewrite !andb_false_r. destruct cnt; [discriminate | reflexivity].
Qed.

Lemma check_param_out_objstruct s p r : check_param_gen s p = Ok r -> mp_out p = true ->
  (match rp_kind (abs_param p), rp_arr (abs_param p) with KObjStruct, Some _ => false | _, _ => true end) = true.
Proof.
  unfold check_param_gen, abs_param, kind_of. cbn [rp_kind rp_arr]. intros H Ho. rewrite Ho in H.
  destruct (mp_shape p) as [|cnt]; [destruct (mp_ty p); try reflexivity; now destruct (contains_interfaces _)|].
  destruct (mp_ty p) as [|q|n|sn fs]; cbn [is_miface is_struct_or_prim is_mstruct andb] in *; try reflexivity.
  destruct (contains_interfaces (MStruct sn fs)); [discriminate | reflexivity].
Qed.

Lemma check_param_flags s p a v : check_param_gen s p = Ok (a, v) ->
  a = is_objarr (abs_param p) /\ v = is_objval (abs_param p).
Proof.
  unfold check_param_gen, abs_param, kind_of, is_objarr, is_objval. cbn [rp_kind rp_arr].
  destruct (mp_shape p) as [|cnt].
  - intro H. inversion H; subst. destruct (mp_ty p); cbn; try (split; reflexivity).
    destruct (contains_interfaces _); split; reflexivity.
  - destruct (mp_ty p) as [|q|n|sn fs]; cbn [is_miface is_struct_or_prim is_mstruct andb].
    + intro H; inversion H; split; reflexivity.
    + destruct cnt; intro H; inversion H; split; reflexivity.
    + destruct cnt; intro H; inversion H; split; reflexivity.
    + destruct (_ && contains_interfaces _); [discriminate|].
      destruct cnt; intro H; inversion H. destruct (contains_interfaces _); split; reflexivity.
Qed.

(* the walk over the parameters accumulates "seen an object array / a single object"
   per direction and rejects the combination *)
Lemma check_params_spec two s ps : forall ai vi ao vo,
  check_params_gen two s ps ai vi ao vo = Ok tt ->
  let ai' := ai || existsb (fun p => negb (mp_out p) && is_objarr (abs_param p)) ps in
  let vi' := vi || existsb (fun p => negb (mp_out p) && is_objval (abs_param p)) ps in
  let ao' := ao || existsb (fun p => mp_out p && is_objarr (abs_param p)) ps in
  let vo' := vo || existsb (fun p => mp_out p && is_objval (abs_param p)) ps in
  (ai' && vi') || (ao' && vo') = false /\
  rule_no_unbounded_objarr (map abs_param ps) = true /\
  forallb (fun p => match rp_kind p, rp_arr p with KData, Some (Some _) => false | _, _ => true end)
          (map abs_param ps) = true /\
  forallb (fun p => negb (rp_out p) ||
                    match rp_kind p, rp_arr p with KObjStruct, Some _ => false | _, _ => true end)
          (map abs_param ps) = true.
Proof.
  induction ps as [|p ps IH]; intros ai vi ao vo H; cbn [check_params_gen] in H.
  - cbn. rewrite !orb_false_r.
    destruct ((ai && vi) || (ao && vo)); [discriminate|]. repeat split.
  - destruct (check_param_gen s p) as [[a v]| | |] eqn:EP; cbn [obind] in H; try discriminate.
    destruct (check_param_flags _ _ _ _ EP) as [-> ->].
    pose proof (check_param_unbounded _ _ _ EP) as U.
    pose proof (check_param_bounded_data _ _ _ EP) as B.
    cbn [existsb map forallb rule_no_unbounded_objarr].
    destruct (two && is_objarr (abs_param p) && (if mp_out p then ao else ai)); [discriminate|].
    destruct (mp_out p) eqn:EO.
    + pose proof (check_param_out_objstruct _ _ _ EP EO) as S.
      destruct (IH _ _ _ _ H) as (I1 & I2 & I3 & I4). cbn [negb andb orb].
      unfold rule_no_unbounded_objarr in I2.
      rewrite U, B, I2, I3, I4. cbn [abs_param rp_out]. rewrite EO. cbn [negb orb]. rewrite S.
      repeat split. rewrite <- I1. now rewrite !orb_assoc.
    + destruct (IH _ _ _ _ H) as (I1 & I2 & I3 & I4). cbn [negb andb orb].
      unfold rule_no_unbounded_objarr in I2.
      rewrite U, B, I2, I3, I4. cbn [abs_param rp_out]. rewrite EO. cbn [negb orb].
      repeat split. rewrite <- I1. now rewrite !orb_assoc.
Qed.

(* the repaired verifier: at most one object array per direction *)
Definition cnt_dir (d : bool) (ps : list mparam) : nat :=
  List.length (filter (fun p => Bool.eqb (rp_out p) d && is_objarr p) (map abs_param ps)).
Definition b2n (b : bool) : nat := if b then 1%nat else 0%nat.

Lemma cnt_dir_cons d p ps :
  cnt_dir d (p :: ps) = (b2n (Bool.eqb (mp_out p) d && is_objarr (abs_param p)) + cnt_dir d ps)%nat.
Proof.
  unfold cnt_dir. cbn [map filter]. cbn [abs_param rp_out].
  destruct (Bool.eqb (mp_out p) d && is_objarr _); reflexivity.
Qed.

Lemma check_params_two s ps : forall ai vi ao vo,
  check_params_gen true s ps ai vi ao vo = Ok tt ->
  (b2n ai + cnt_dir false ps <= 1)%nat /\ (b2n ao + cnt_dir true ps <= 1)%nat.
Proof.
  induction ps as [|p ps IH]; intros ai vi ao vo H; cbn [check_params_gen] in H.
  - unfold cnt_dir. cbn. destruct ai, ao; cbn; split; auto.
  - destruct (check_param_gen s p) as [[a v]| | |] eqn:EP; cbn [obind] in H; try discriminate.
    destruct (check_param_flags _ _ _ _ EP) as [-> ->].
    rewrite !cnt_dir_cons. cbn [andb] in H.
    destruct (mp_out p) eqn:EO; cbn [Bool.eqb].
    + destruct (is_objarr (abs_param p)) eqn:EA; cbn [andb] in H.
      * destruct ao; [discriminate|]. destruct (IH _ _ _ _ H) as [I1 I2]. cbn [orb b2n andb] in *. split; [exact I1 | exact I2].
      * destruct (IH _ _ _ _ H) as [I1 I2]. rewrite orb_false_r in I2. cbn [andb b2n]. split; [exact I1 | exact I2].
    + destruct (is_objarr (abs_param p)) eqn:EA; cbn [andb] in H.
      * destruct ai; [discriminate|]. destruct (IH _ _ _ _ H) as [I1 I2]. cbn [orb b2n andb] in *. split; [exact I1 | exact I2].
      * destruct (IH _ _ _ _ H) as [I1 I2]. rewrite orb_false_r in I1. cbn [andb b2n]. split; [exact I1 | exact I2].
Qed.

Theorem check_params_no_two_objarr s ps :
  check_params_gen true s ps false false false false = Ok tt -> rule_no_two_objarr (map abs_param ps) = true.
Proof.
  intro H. destruct (check_params_two _ _ _ _ _ _ H) as [I1 I2]. cbn [b2n plus] in I1, I2.
  unfold rule_no_two_objarr. cbn [forallb]. fold (cnt_dir false ps). fold (cnt_dir true ps).
  rewrite andb_true_r. apply andb_true_intro. split; apply N.leb_le; lia.
Qed.

(* the repaired verifier: no array of a struct that contains an object, in either direction *)
Lemma check_param_objstruct_array p r : check_param_gen true p = Ok r ->
  (match rp_kind (abs_param p), rp_arr (abs_param p) with KObjStruct, Some _ => false | _, _ => true end) = true.
Proof.
  unfold check_param_gen, abs_param, kind_of. cbn [rp_kind rp_arr]. intros H.
  destruct (mp_shape p) as [|cnt]; [destruct (mp_ty p); try reflexivity; now destruct (contains_interfaces _)|].
  destruct (mp_ty p) as [|q|n|sn fs]; cbn [is_miface is_struct_or_prim is_mstruct andb orb] in *; try reflexivity.
  destruct (contains_interfaces (MStruct sn fs)); [|reflexivity].
  destruct (mp_out p); cbn in H; discriminate.
Qed.

Theorem check_params_no_array_of_objstruct two ps : forall ai vi ao vo,
  check_params_gen two true ps ai vi ao vo = Ok tt -> rule_no_array_of_objstruct (map abs_param ps) = true.
Proof.
  unfold rule_no_array_of_objstruct.
  induction ps as [|p ps IH]; intros ai vi ao vo H; cbn [check_params_gen] in H; [reflexivity|].
  destruct (check_param_gen true p) as [[a v]| | |] eqn:EP; cbn [obind] in H; try discriminate.
  cbn [map forallb]. rewrite (check_param_objstruct_array _ _ EP). cbn [andb].
  destruct (two && a && (if mp_out p then ao else ai)); [discriminate|].
  destruct (mp_out p); eapply IH; exact H.
Qed.

Lemma existsb_map' {A B} (g : B -> bool) (h : A -> B) l :
  existsb g (map h l) = existsb (fun x => g (h x)) l.
Proof. induction l; cbn; [reflexivity | now rewrite IHl]. Qed.
Lemma existsb_ext' {A} (f g : A -> bool) l : (forall x, f x = g x) -> existsb f l = existsb g l.
Proof. intro H. induction l; cbn; [reflexivity | now rewrite H, IHl]. Qed.

(* the rules that acceptance of a parameter list by the interface verifier implies *)
Theorem check_params_sound_gen two s ps :
  check_params_gen two s ps false false false false = Ok tt ->
  rule_no_unbounded_objarr (map abs_param ps) = true /\
  rule_no_objarr_with_single (map abs_param ps) = true /\
  forallb (fun p => match rp_kind p, rp_arr p with KData, Some (Some _) => false | _, _ => true end)
          (map abs_param ps) = true /\
  forallb (fun p => negb (rp_out p) ||
                    match rp_kind p, rp_arr p with KObjStruct, Some _ => false | _, _ => true end)
          (map abs_param ps) = true.
Proof.
  intro H. destruct (check_params_spec _ _ ps _ _ _ _ H) as (I1 & I2 & I3 & I4).
  cbn [orb] in I1. repeat split; try assumption.
  unfold rule_no_objarr_with_single. cbn [forallb]. rewrite andb_true_r.
  apply orb_false_iff in I1. destruct I1 as [A B].
  rewrite !existsb_map'.
  rewrite (existsb_ext' _ (fun p => negb (mp_out p) && is_objarr (abs_param p)) ps)
    by (intro x; cbn [abs_param rp_out]; destruct (mp_out x); reflexivity).
  rewrite (existsb_ext' (fun x => Bool.eqb (rp_out (abs_param x)) false && is_objval (abs_param x))
                        (fun p => negb (mp_out p) && is_objval (abs_param p)) ps)
    by (intro x; cbn [abs_param rp_out]; destruct (mp_out x); reflexivity).
  rewrite (existsb_ext' (fun x => Bool.eqb (rp_out (abs_param x)) true && is_objarr (abs_param x))
                        (fun p => mp_out p && is_objarr (abs_param p)) ps)
    by (intro x; cbn [abs_param rp_out]; destruct (mp_out x); reflexivity).
  rewrite (existsb_ext' (fun x => Bool.eqb (rp_out (abs_param x)) true && is_objval (abs_param x))
                        (fun p => mp_out p && is_objval (abs_param p)) ps)
    by (intro x; cbn [abs_param rp_out]; destruct (mp_out x); reflexivity).
  rewrite A, B. reflexivity.
Qed.

Definition check_params_sound ps : check_params ps false false false false = Ok tt -> _ :=
  check_params_sound_gen verifier_rejects_second_objarr verifier_small_objstruct_in_array ps.

(* all five parameter-list rules of the specification, for the repaired verifier *)
Theorem check_params_all_rules ps :
  check_params_gen true true ps false false false false = Ok tt ->
  forallb (fun b => b) (params_rules (map abs_param ps)) = true.
Proof.
  intro H. destruct (check_params_sound_gen _ _ _ H) as (R1 & R2 & R3 & R4).
  pose proof (check_params_no_two_objarr _ _ H) as R5.
  pose proof (check_params_no_array_of_objstruct _ _ _ _ _ _ H) as R6.
  unfold params_rules. cbn [forallb]. rewrite R1, R2, R5, R6. cbn [andb]. rewrite andb_true_r.
  unfold rule_no_bounded_data_array. unfold rule_no_array_of_objstruct in R6.
  clear R1 R2 R4 R5 H. revert R3 R6. induction (map abs_param ps) as [|q qs IH]; cbn [forallb]; [reflexivity|].
  intros A B. apply andb_prop in A. apply andb_prop in B. destruct A as [A1 A2], B as [B1 B2].
  rewrite (IH A2 B2), andb_true_r.
  destruct (rp_kind q), (rp_arr q) as [[c|]|]; try reflexivity; try discriminate.
Qed.

(* ---- lifting to the front end ---- *)

Definition chain_funcs (top : miface) : list mfunc :=
  flat_map (fun x => mnode_funcs (mi_nodes x)) (mi_chain top).

Lemma verify_iface_sound top : verify_iface top = Ok tt ->
  nodup_str (flat_map (fun x => mnode_const_names (mi_nodes x)) (mi_chain top)) = true /\
  nodup_str (flat_map (fun x => map mf_name (mnode_funcs (mi_nodes x))) (mi_chain top)) = true /\
  forall f, In f (chain_funcs top) -> check_params (mf_params f) false false false false = Ok tt.
Proof.
  unfold verify_iface, chain_funcs.
  destruct (nodup_str (flat_map (fun x => mnode_const_names (mi_nodes x)) (mi_chain top))); cbn [negb orb];
    [|discriminate].
  destruct (nodup_str (flat_map (fun x => map mf_name (mnode_funcs (mi_nodes x))) (mi_chain top))); cbn [negb orb];
    [|discriminate].
  intro H. repeat split.
  induction (flat_map (fun x => mnode_funcs (mi_nodes x)) (mi_chain top)) as [|g gs IH]; intros f Hf; [destruct Hf|].
  destruct (check_params (mf_params g) false false false false) as [[]| | |] eqn:E; cbn in H; try discriminate.
  destruct Hf as [<-|Hf]; [exact E | now apply IH].
Qed.

Lemma interface_verifier_sound mir : interface_verifier mir = Ok tt ->
  forall top, In (MTIface top) mir -> verify_iface top = Ok tt.
Proof.
  induction mir as [|t mir IH]; intros H top Hin; [destruct Hin|].
  destruct t as [p|c|s|i]; cbn in H.
  - destruct Hin as [E|Hin]; [discriminate | now apply IH].
  - destruct Hin as [E|Hin]; [discriminate | now apply IH].
  - destruct Hin as [E|Hin]; [discriminate | now apply IH].
  - destruct (verify_iface i) as [[]| | |] eqn:E; cbn in H; try discriminate.
    destruct Hin as [E'|Hin]; [inversion E'; subst; exact E | now apply IH].
Qed.

(* the command-line pipeline: every method of every interface of the main file, own or
   inherited, respects the object-array and array rules; member names are unique along the chain *)
Theorem front_cli_interfaces_sound md files mir top :
  front Cli md files = Ok mir -> In (MTIface top) mir ->
  nodup_str (flat_map (fun x => mnode_const_names (mi_nodes x)) (mi_chain top)) = true /\
  nodup_str (flat_map (fun x => map mf_name (mnode_funcs (mi_nodes x))) (mi_chain top)) = true /\
  forall f, In f (chain_funcs top) ->
    rule_no_unbounded_objarr (map abs_param (mf_params f)) = true /\
    rule_no_objarr_with_single (map abs_param (mf_params f)) = true /\
    forallb (fun p => match rp_kind p, rp_arr p with KData, Some (Some _) => false | _, _ => true end)
            (map abs_param (mf_params f)) = true /\
    forallb (fun p => negb (rp_out p) ||
                      match rp_kind p, rp_arr p with KObjStruct, Some _ => false | _, _ => true end)
            (map abs_param (mf_params f)) = true.
Proof.
  unfold front, front_gen. destruct files as [|main rest]; [discriminate|]. intros H Hin.
  destruct (gather_files st_empty (main :: rest)) as [st| | |]; cbn in H; try discriminate.
  destruct (functions_pass main) as [[]| | |]; cbn in H; try discriminate.
  destruct (cycles_pass st main) as [order| | |]; cbn in H; try discriminate.
  destruct (verify_structs md st [] order) as [store| | |]; cbn in H; try discriminate.
  destruct (to_mir st (a_nodes main)) as [m| | |]; cbn in H; try discriminate.
  destruct (interface_verifier m) as [[]| | |] eqn:EV; cbn in H; try discriminate.
  inversion H; subst m.
  destruct (verify_iface_sound _ (interface_verifier_sound _ EV _ Hin)) as (N1 & N2 & P).
  repeat split; try assumption; apply check_params_sound; now apply P.
Qed.

(* with the repaired verifier: all five parameter-list rules of the specification *)
Theorem front_cli_param_rules md files mir top :
  verifier_rejects_second_objarr = true -> verifier_small_objstruct_in_array = true ->
  front Cli md files = Ok mir -> In (MTIface top) mir ->
  forall f, In f (chain_funcs top) -> forallb (fun b => b) (params_rules (map abs_param (mf_params f))) = true.
Proof.
  intros F1 F2. unfold front, front_gen. destruct files as [|main rest]; [discriminate|]. intros H Hin.
  destruct (gather_files st_empty (main :: rest)) as [st| | |]; cbn in H; try discriminate.
  destruct (functions_pass main) as [[]| | |]; cbn in H; try discriminate.
  destruct (cycles_pass st main) as [order| | |]; cbn in H; try discriminate.
  destruct (verify_structs md st [] order) as [store| | |]; cbn in H; try discriminate.
  destruct (to_mir st (a_nodes main)) as [m| | |]; cbn in H; try discriminate.
  destruct (interface_verifier m) as [[]| | |] eqn:EV; cbn in H; try discriminate.
  inversion H; subst m.
  destruct (verify_iface_sound _ (interface_verifier_sound _ EV _ Hin)) as (N1 & N2 & P).
  intros f Hf. specialize (P f Hf). unfold check_params in P. rewrite F1, F2 in P.
  now apply check_params_all_rules.
Qed.

(* duplicate parameters: main-file interfaces *)
Theorem front_params_unique e md files main rest mir :
  files = main :: rest -> front e md files = Ok mir ->
  forallb (fun i => forallb (fun f => nodup_str (map p_name (f_params f))) (iface_funcs i)) (ast_ifaces main) = true.
Proof.
  intros -> H. unfold front, front_gen in H.
  destruct (gather_files st_empty (main :: rest)) as [st| | |]; cbn in H; try discriminate.
  unfold functions_pass, func_params_ok in H.
  destruct (forallb _ (ast_ifaces main)) eqn:E; [reflexivity | discriminate].
Qed.

(* struct and interface names share one namespace and are unique over all loaded files *)
Lemma gather_nodes_types_fresh b ns : forall st st',
  gather_nodes_gen b st ns = Ok st' ->
  forall k, has_key k (st_structs st) = true -> has_key k (st_structs st') = true.
Proof.
  induction ns as [|n ns IH]; intros st st' H k Hk; cbn in H; [inversion H; subst; exact Hk|].
  destruct (gather_node_gen b st n) as [st1| | |] eqn:E; cbn in H; try discriminate.
  apply (IH _ _ H). unfold gather_node_gen in E. destruct (b && cross_kind st n); [discriminate|].
  destruct n as [p|c|s|i]; cbn in E.
  - inversion E; subst; exact Hk.
  - destruct (mem_str _ _); inversion E; subst; exact Hk.
  - destruct (has_key (s_name s) (st_structs st)); inversion E; subst. cbn. unfold has_key in *. cbn.
    destruct (String.eqb k (s_name s)); [reflexivity | exact Hk].
  - destruct (has_key (i_name i) (st_structs st)); try discriminate.
    destruct (has_key (i_name i) (st_ifaces st)); inversion E; subst. unfold has_key in *. cbn.
    destruct (String.eqb k (i_name i)); [reflexivity | exact Hk].
Qed.

(* ---- machine-checked witnesses for what is *not* enforced ---- *)
Open Scope string_scope.

(* F7: two object arrays in one direction were accepted by the pinned upstream verifier *)
Example two_objarr_accepted_upstream :
  let ps := [mkMP false (MIface None) (PArr (Some 2%N)) "a"; mkMP false (MIface None) (PArr (Some 2%N)) "b"] in
  check_params_gen false false ps false false false false = Ok tt /\ rule_no_two_objarr (map abs_param ps) = false.
Proof. split; vm_compute; reflexivity. Qed.

(* F8: an input array of a small object-bearing struct was accepted by the pinned upstream verifier *)
Example in_array_small_objstruct_accepted_upstream :
  let s := MStruct "S" [("o", MIface None, 1%N)] in
  let ps := [mkMP false s (PArr None) "a"] in
  check_params_gen false false ps false false false false = Ok tt /\ rule_no_array_of_objstruct (map abs_param ps) = false.
Proof. split; vm_compute; reflexivity. Qed.

(* F9: the pinned upstream library entry point never ran the interface verifier *)
Example lib_skips_interface_verifier_upstream :
  let files := [mkAst "m.idl" [NIface (mkI "I" None
     [IFunc (mkFn "f" [mkP false TIface (PArr (Some 2%N)) "a"; mkP false TIface PVal "b"] false None)])]] in
  is_ok (front_gen false Lib Debug files) = true /\ is_ok (front_gen false Cli Debug files) = false.
Proof. split; vm_compute; reflexivity. Qed.

(* with the repaired entry point both entry points are the same function *)
Theorem entry_points_agree md files : front_gen true Lib md files = front_gen true Cli md files.
Proof. unfold front_gen. destruct files; reflexivity. Qed.

(* F22: the pinned upstream symbol table let a constant share its name with a struct *)
Example const_and_struct_same_name_accepted_upstream :
  let files := [mkAst "m.idl" [NConst (mkC "X" U8 "1"); NStruct (mkS "X" [mkF "a" (TPrim U8) 1%N])]] in
  is_ok (gather_files_gen false st_empty files) = true /\ is_ok (gather_files_gen true st_empty files) = false /\
  rule_uniq_toplevel files = false.
Proof. repeat split; vm_compute; reflexivity. Qed.

(* F25: declarations of included files are not validated: duplicate parameters of an
   inherited method, a misaligned struct used only as a parameter type *)
Example included_decls_unchecked :
  let inc := mkAst "inc.idl" [NStruct (mkS "Mis" [mkF "a" (TPrim U8) 1%N; mkF "b" (TPrim U32) 1%N]);
                              NIface (mkI "Base" None [IFunc (mkFn "dup" [mkP false (TPrim U8) PVal "x"; mkP false (TPrim U8) PVal "x"] false None)])] in
  let main := mkAst "main.idl" [NInclude "inc.idl";
                              NIface (mkI "D" (Some "Base") [IFunc (mkFn "f" [mkP false (TCustom "Mis") PVal "m"] false None)])] in
  is_ok (front Cli Debug [main; inc]) = true /\ rule_uniq_params [main; inc] = false.
Proof. split; vm_compute; reflexivity. Qed.

(* ---- duplicate top-level type names are rejected (all loaded files) ---- *)
Close Scope string_scope.
Require Import Permutation.

Lemma mem_str_In k l : mem_str k l = true <-> In k l.
Proof.
  induction l as [|x l IH]; cbn; [split; [discriminate | tauto]|].
  rewrite orb_true_iff, IH, String.eqb_eq. split; intros [H|H]; auto.
Qed.

Lemma nodup_str_NoDup l : nodup_str l = true <-> NoDup l.
Proof.
  induction l as [|x l IH]; cbn; [split; [constructor | reflexivity]|].
  rewrite andb_true_iff, negb_true_iff, IH. split.
  - intros [H1 H2]. constructor; [|exact H2]. intro Hin. apply mem_str_In in Hin. congruence.
  - intro H. inversion H; subst. split; [|assumption].
    destruct (mem_str x l) eqn:E; [|reflexivity]. apply mem_str_In in E. contradiction.
Qed.

Lemma has_key_In {A} k (l : list (string * A)) : has_key k l = true <-> In k (map fst l).
Proof.
  unfold has_key. induction l as [|[k' v] l IH]; cbn; [split; [discriminate | tauto]|].
  destruct (String.eqb k k') eqn:E.
  - apply String.eqb_eq in E. subst. split; auto.
  - rewrite IH. apply String.eqb_neq in E. split; [auto | intros [H|H]; [congruence | exact H]].
Qed.

Definition type_names (ns : list node) : list string :=
  flat_map (fun n => match n with NStruct s => [s_name s] | NIface i => [i_name i] | _ => [] end) ns.
Definition const_names (ns : list node) : list string :=
  flat_map (fun n => match n with NConst c => [c_name c] | _ => [] end) ns.

Lemma gather_nodes_names b ns : forall st st',
  gather_nodes_gen b st ns = Ok st' ->
  NoDup (map fst (st_structs st)) -> NoDup (st_consts st) ->
  map fst (st_structs st') = rev (type_names ns) ++ map fst (st_structs st) /\
  st_consts st' = rev (const_names ns) ++ st_consts st /\
  NoDup (map fst (st_structs st')) /\ NoDup (st_consts st').
Proof.
  induction ns as [|n ns IH]; intros st st' H N1 N2; cbn in H.
  - inversion H; subst. repeat split; assumption.
  - destruct (gather_node_gen b st n) as [st1| | |] eqn:E; cbn in H; try discriminate.
    unfold gather_node_gen in E. destruct (b && cross_kind st n); [discriminate|].
    destruct n as [p|c|s|i]; cbn in E; cbn [type_names const_names flat_map app rev].
    + inversion E; subst. apply (IH _ _ H N1 N2).
    + destruct (mem_str (c_name c) (st_consts st)) eqn:EM; inversion E; subst.
      assert (N2' : NoDup (c_name c :: st_consts st)).
      { constructor; [|exact N2]. intro Hin. apply mem_str_In in Hin. congruence. }
      destruct (IH _ _ H N1 N2') as (A & B & C & D). cbn in *.
      repeat split; try assumption. fold (const_names ns). rewrite B, <- app_assoc. reflexivity.
    + destruct (has_key (s_name s) (st_structs st)) eqn:EK; inversion E; subst.
      assert (N1' : NoDup (map fst ((s_name s, s) :: st_structs st))).
      { cbn. constructor; [|exact N1]. intro Hin. apply has_key_In in Hin. congruence. }
      destruct (IH _ _ H N1' N2) as (A & B & C & D). cbn in *.
      repeat split; try assumption. fold (type_names ns). rewrite A, <- app_assoc. reflexivity.
    + destruct (has_key (i_name i) (st_structs st)) eqn:EK; try discriminate.
      destruct (has_key (i_name i) (st_ifaces st)); inversion E; subst.
      assert (N1' : NoDup (map fst ((i_name i, object_struct (i_name i)) :: st_structs st))).
      { cbn. constructor; [|exact N1]. intro Hin. apply has_key_In in Hin. congruence. }
      destruct (IH _ _ H N1' N2) as (A & B & C & D). cbn in *.
      repeat split; try assumption. fold (type_names ns). rewrite A, <- app_assoc. reflexivity.
Qed.

Lemma gather_files_names b fs : forall st st',
  gather_files_gen b st fs = Ok st' ->
  NoDup (map fst (st_structs st)) -> NoDup (st_consts st) ->
  map fst (st_structs st') = rev (flat_map (fun a => type_names (a_nodes a)) fs) ++ map fst (st_structs st) /\
  st_consts st' = rev (flat_map (fun a => const_names (a_nodes a)) fs) ++ st_consts st /\
  NoDup (map fst (st_structs st')) /\ NoDup (st_consts st').
Proof.
  induction fs as [|a fs IH]; intros st st' H N1 N2; cbn in H.
  - inversion H; subst. repeat split; assumption.
  - destruct (gather_nodes_gen b st (a_nodes a)) as [st1| | |] eqn:E; cbn in H; try discriminate.
    destruct (gather_nodes_names _ _ _ _ E N1 N2) as (A & B & C & D).
    destruct (IH _ _ H C D) as (A' & B' & C' & D').
    cbn [flat_map]. rewrite !rev_app_distr, <- !app_assoc, <- A, <- B.
    repeat split; assumption.
Qed.

Lemma type_names_perm ns :
  Permutation (type_names ns)
    (map s_name (flat_map (fun n => match n with NStruct s => [s] | _ => [] end) ns) ++
     map i_name (flat_map (fun n => match n with NIface i => [i] | _ => [] end) ns)).
Proof.
  induction ns as [|n ns IH]; cbn; [constructor|].
  destruct n as [p|c|s|i]; cbn; try exact IH.
  - now constructor.
  - apply Permutation_cons_app. exact IH.
Qed.

Lemma all_type_names_perm files :
  Permutation (flat_map (fun a => type_names (a_nodes a)) files)
              (map s_name (all_structs files) ++ map i_name (all_ifaces9 files)).
Proof.
  induction files as [|a fs IH]; cbn; [constructor|].
  unfold all_structs, all_ifaces9 in *. cbn [flat_map]. rewrite !map_app.
  eapply Permutation_trans; [apply Permutation_app; [apply type_names_perm | exact IH]|].
  unfold ast_structs, ast_ifaces.
  rewrite <- !app_assoc. apply Permutation_app_head.
  rewrite !app_assoc. apply Permutation_app_tail. apply Permutation_app_comm.
Qed.

Lemma const_names_eq files :
  flat_map (fun a => const_names (a_nodes a)) files = map c_name (all_consts files).
Proof.
  unfold all_consts. induction files as [|a fs IH]; cbn; [reflexivity|].
  rewrite map_app, IH. f_equal. unfold const_names, ast_consts.
  induction (a_nodes a) as [|n ns IHn]; cbn; [reflexivity|]. destruct n; cbn; try exact IHn. now rewrite IHn.
Qed.

Theorem front_names_unique e md files mir :
  front e md files = Ok mir -> rule_uniq_types files = true /\ rule_uniq_consts files = true.
Proof.
  intro H. destruct (front_inv _ _ _ _ H) as (main & rest & st & -> & G & _).
  destruct (gather_files_names _ _ _ _ G (NoDup_nil _) (NoDup_nil _)) as (A & B & C & D).
  cbn in A, B. rewrite app_nil_r in A, B. split.
  - apply nodup_str_NoDup. eapply Permutation_NoDup; [apply all_type_names_perm|].
    rewrite A in C. apply NoDup_rev in C. now rewrite rev_involutive in C.
  - apply nodup_str_NoDup. unfold rule_uniq_consts. rewrite <- const_names_eq.
    rewrite B in D. apply NoDup_rev in D. now rewrite rev_involutive in D.
Qed.

(* ---- one namespace for types and constants (the repaired symbol table) ---- *)

Definition tables_disjoint (st : symtab) : Prop :=
  forall k, In k (st_consts st) -> ~ In k (map fst (st_structs st)).

Lemma gather_node_disjoint st n st' :
  gather_node_gen true st n = Ok st' -> tables_disjoint st -> tables_disjoint st'.
Proof.
  unfold gather_node_gen. cbn [andb]. destruct (cross_kind st n) eqn:EX; [discriminate|].
  intros E D. destruct n as [p|c|s|i]; cbn [gather_node0 cross_kind] in *.
  - inversion E; subst; exact D.
  - destruct (mem_str (c_name c) (st_consts st)); inversion E; subst. intros k [<-|Hk]; cbn.
    + intro Hin. apply has_key_In in Hin. congruence.
    + now apply D.
  - destruct (has_key (s_name s) (st_structs st)); inversion E; subst. intros k Hk [<-|Hin]; cbn in *.
    + apply mem_str_In in Hk. congruence.
    + now apply (D k).
  - destruct (has_key (i_name i) (st_structs st)); try discriminate.
    destruct (has_key (i_name i) (st_ifaces st)); inversion E; subst. intros k Hk [<-|Hin]; cbn in *.
    + apply mem_str_In in Hk. congruence.
    + now apply (D k).
Qed.

Lemma gather_nodes_disjoint ns : forall st st',
  gather_nodes_gen true st ns = Ok st' -> tables_disjoint st -> tables_disjoint st'.
Proof.
  induction ns as [|n ns IH]; intros st st' H D; cbn [gather_nodes_gen] in H; [inversion H; subst; exact D|].
  destruct (gather_node_gen true st n) as [st1| | |] eqn:E; cbn [obind] in H; try discriminate.
  apply (IH _ _ H). now apply (gather_node_disjoint _ _ _ E).
Qed.

Lemma gather_files_disjoint fs : forall st st',
  gather_files_gen true st fs = Ok st' -> tables_disjoint st -> tables_disjoint st'.
Proof.
  induction fs as [|a fs IH]; intros st st' H D; cbn [gather_files_gen] in H; [inversion H; subst; exact D|].
  destruct (gather_nodes_gen true st (a_nodes a)) as [st1| | |] eqn:E; cbn [obind] in H; try discriminate.
  apply (IH _ _ H). now apply (gather_nodes_disjoint _ _ _ E).
Qed.

Lemma NoDup_app_disjoint {A} (l1 l2 : list A) :
  NoDup l1 -> NoDup l2 -> (forall k, In k l2 -> ~ In k l1) -> NoDup (l1 ++ l2).
Proof.
  induction l1 as [|a l1 IH]; intros N1 N2 D; [exact N2|]. cbn.
  inversion N1 as [|x l Hx Hl]; subst. constructor.
  - intro Hin. apply in_app_or in Hin. destruct Hin as [Hin|Hin]; [contradiction|].
    apply (D a Hin). now left.
  - apply IH; [exact Hl | exact N2|]. intros k Hk Hin. apply (D k Hk). now right.
Qed.

Theorem gathered_toplevel_unique files st :
  gather_files_gen true st_empty files = Ok st -> rule_uniq_toplevel files = true.
Proof.
  intro G.
  destruct (gather_files_names _ _ _ _ G (NoDup_nil _) (NoDup_nil _)) as (A & B & C & D).
  pose proof (gather_files_disjoint _ _ _ G (fun k (H : In k []) => match H with end)) as DJ.
  cbn in A, B. rewrite app_nil_r in A, B.
  apply nodup_str_NoDup. unfold rule_uniq_toplevel. rewrite app_assoc.
  eapply Permutation_NoDup.
  - apply Permutation_app; [apply all_type_names_perm | rewrite <- const_names_eq; apply Permutation_refl].
  - apply NoDup_app_disjoint.
    + rewrite A in C. apply NoDup_rev in C. now rewrite rev_involutive in C.
    + rewrite B in D. apply NoDup_rev in D. now rewrite rev_involutive in D.
    + intros k Hk Hin. apply (DJ k).
      * rewrite B. now apply -> in_rev.
      * rewrite A. now apply -> in_rev.
Qed.

Theorem front_toplevel_unique e md files mir :
  symbols_one_namespace = true -> front e md files = Ok mir -> rule_uniq_toplevel files = true.
Proof.
  intros F H. destruct (front_inv _ _ _ _ H) as (main & rest & st & -> & G & _).
  unfold gather_files in G. rewrite F in G. exact (gathered_toplevel_unique _ _ G).
Qed.

(* ---- names along the flattened interface: one number per name (C07, C08) ---- *)
Require Import proofs.NumberingProofs.

Lemma mi_root_first_rev : forall i, mi_root_first i = rev (mi_chain i).
Proof.
  fix IH 1. intros [n [b|] ns]; cbn [mi_root_first mi_chain rev]; [now rewrite (IH b) | reflexivity].
Qed.

Lemma flat_map_flat_map {A B C} (f : B -> list C) (g : A -> list B) l :
  flat_map (fun x => flat_map f (g x)) l = flat_map f (flat_map g l).
Proof. induction l as [|x l IH]; cbn; [reflexivity|]. now rewrite IH, flat_map_app. Qed.

Lemma NoDup_app_inv {A} (l1 l2 : list A) : NoDup (l1 ++ l2) ->
  NoDup l1 /\ NoDup l2 /\ (forall k, In k l2 -> ~ In k l1).
Proof.
  induction l1 as [|a l1 IH]; cbn; intro H.
  - repeat split; [constructor | exact H | intros k _ []].
  - inversion H as [|x l Hx Hl]; subst. destruct (IH Hl) as (A1 & A2 & A3). repeat split.
    + constructor; [|exact A1]. intro X. apply Hx. apply in_or_app. now left.
    + exact A2.
    + intros k Hk [<-|X]; [apply Hx; apply in_or_app; now right | exact (A3 k Hk X)].
Qed.

(* dropping whole per-element blocks keeps a flattened list duplicate-free *)
Lemma nodup_flat_sub {A B} (f g : A -> list B) : (forall x, g x = f x \/ g x = []) ->
  forall l, NoDup (flat_map f l) -> NoDup (flat_map g l) /\ incl (flat_map g l) (flat_map f l).
Proof.
  intros Hg. induction l as [|x l IH]; cbn [flat_map]; intro H; [split; [constructor | apply incl_refl]|].
  destruct (NoDup_app_inv _ _ H) as (N1 & N2 & D). destruct (IH N2) as [I1 I2].
  destruct (Hg x) as [E|E]; rewrite E.
  - split.
    + apply NoDup_app_disjoint; [exact N1 | exact I1 | intros k Hk; apply D; now apply I2].
    + intros k Hk. apply in_app_or in Hk. apply in_or_app. destruct Hk; [now left | right; now apply I2].
  - cbn [app]. split; [exact I1 | intros k Hk; apply in_or_app; right; now apply I2].
Qed.

Lemma perm_flat_map_rev {A B} (f : A -> list B) l : Permutation (flat_map f l) (flat_map f (rev l)).
Proof.
  induction l as [|x l IH]; cbn [flat_map rev]; [constructor|].
  rewrite flat_map_app. cbn [flat_map]. rewrite app_nil_r.
  eapply Permutation_trans; [apply Permutation_app_comm|]. now apply Permutation_app_tail.
Qed.

Lemma map_flat_map {A B C} (h : B -> C) (f : A -> list B) l :
  map h (flat_map f l) = flat_map (fun x => map h (f x)) l.
Proof. induction l as [|x l IH]; cbn; [reflexivity|]. now rewrite map_app, IH. Qed.

(* the command-line pipeline: in the flattened interface of every accepted main-file interface
   every method name and every error name occurs once *)
Theorem front_cli_names_once md files mir top :
  front Cli md files = Ok mir -> In (MTIface top) mir ->
  NoDup (map mf_name (flat_funcs top)) /\ NoDup (map fst (flat_errors top)).
Proof.
  intros H Hin. destruct (front_cli_interfaces_sound _ _ _ _ H Hin) as (N1 & N2 & _).
  apply nodup_str_NoDup in N1, N2. unfold flat_funcs, flat_errors. rewrite mi_root_first_rev, !map_flat_map. split.
  - eapply Permutation_NoDup; [apply perm_flat_map_rev | exact N2].
  - eapply Permutation_NoDup; [apply perm_flat_map_rev|].
    (* error names are the constant-or-error names with the constants dropped, node by node *)
    rewrite (flat_map_flat_map (fun n => match n with MConstN c => [c_name c] | MErrorN e _ => [e] | _ => [] end) mi_nodes) in N1.
    assert (E : forall x, map fst (mnode_errors (mi_nodes x)) =
                          flat_map (fun n => match n with MErrorN e _ => [e] | _ => [] end) (mi_nodes x)).
    { intro x. unfold mnode_errors. rewrite map_flat_map. apply flat_map_ext. intros [f|c|e v]; reflexivity. }
    rewrite (flat_map_ext _ _ E).
    rewrite (flat_map_flat_map (fun n => match n with MErrorN e _ => [e] | _ => [] end) mi_nodes).
    refine (proj1 (nodup_flat_sub _ _ _ _ N1)).
    intros [f|c|e v]; auto.
Qed.

Theorem front_cli_tables_names_unique md files mir :
  front Cli md files = Ok mir ->
  spec_names_unique (optable_of_mir mir) = true /\ spec_names_unique (errtable_of_mir mir) = true.
Proof.
  intro H. unfold spec_names_unique, optable_of_mir, errtable_of_mir. split; apply forallb_forall; intros row Hr;
    apply in_flat_map in Hr; destruct Hr as (t & Ht & Hrow).
  - destruct t as [p|c|s|top]; try (destruct Hrow; fail). destruct Hrow as [<-|[]]. cbn [snd].
    apply nodup_str_NoDup. destruct (front_cli_names_once _ _ _ _ H Ht) as [A B]. now rewrite map_map.
  - destruct t as [p|c|s|top]; try (destruct Hrow; fail). destruct Hrow as [<-|[]]. cbn [snd].
    apply nodup_str_NoDup. destruct (front_cli_names_once _ _ _ _ H Ht) as [A B]. exact B.
Qed.
