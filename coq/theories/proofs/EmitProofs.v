(* EmitProofs.v — the C++ base clause is well formed exactly for hierarchies of depth <= 2; a
   suffixed identifier never equals a template local, whatever the parameter is called. *)
Require Import Base Emit.
Require Import Ascii String List.
Require Import gen.EmitFacts.
Import ListNotations.
Open Scope list_scope.

(* naming only the immediate base is well formed for every depth *)
Theorem base_clause_immediate_wf ancestors : wf_base_clause (base_clause_immediate ancestors) = true.
Proof. destruct ancestors as [|a r]; reflexivity. Qed.

(* pushing every ancestor after one ": public" is well formed exactly up to one ancestor *)
Theorem base_clause_spaced_wf_iff ancestors :
  wf_base_clause (base_clause_spaced ancestors) = Nat.leb (List.length ancestors) 1.
Proof. destruct ancestors as [|a [|b r]]; reflexivity. Qed.

Lemma list_eqb_ascii_eq (a b : ident) : list_eqb Ascii.eqb a b = true -> a = b.
Proof.
  revert b. induction a as [|x a IH]; intros [|y b] H; cbn in H; try discriminate; [reflexivity|].
  apply andb_prop in H. destruct H as [H1 H2]. apply Ascii.eqb_eq in H1. subst. f_equal. now apply IH.
Qed.

Lemma list_eqb_ascii_refl (a : ident) : list_eqb Ascii.eqb a a = true.
Proof. induction a as [|x a IH]; cbn; [reflexivity|]. now rewrite Ascii.eqb_refl, IH. Qed.

Lemma ends_with_app (name suf : ident) : ends_with suf (name ++ suf) = true.
Proof.
  unfold ends_with. rewrite rev_app_distr.
  replace (List.length suf) with (List.length (rev suf) + 0)%nat by (rewrite rev_length; lia).
  rewrite firstn_app_2. cbn [firstn]. rewrite app_nil_r. apply list_eqb_ascii_refl.
Qed.

Definition all_locals : list ident := flat_map template_locals [LC; LCpp; LRust; LJava].

Lemma no_local_ends_with_a_suffix :
  forallb (fun loc => forallb (fun s => negb (ends_with s loc)) suffixes) all_locals = true.
Proof. vm_compute. reflexivity. Qed.

Theorem suffixed_never_local l (name s : ident) :
  In s suffixes -> existsb (ident_eqb (name ++ s)) (template_locals l) = false.
Proof.
  intro Hs. apply Bool.not_true_iff_false. intro H.
  apply existsb_exists in H. destruct H as [loc [Hloc E]].
  apply list_eqb_ascii_eq in E. subst loc.
  pose proof no_local_ends_with_a_suffix as A. rewrite forallb_forall in A.
  assert (Hin : In (name ++ s) all_locals).
  { unfold all_locals. apply in_flat_map. exists l. split; [destruct l; cbn; tauto | exact Hloc]. }
  specialize (A _ Hin). rewrite forallb_forall in A. specialize (A s Hs).
  rewrite ends_with_app in A. discriminate.
Qed.

Lemma existsb_map_false {A B} (f : A -> B) (p : B -> bool) (l : list A) :
  (forall x, In x l -> p (f x) = false) -> existsb p (map f l) = false.
Proof.
  induction l as [|x l IH]; intro H; [reflexivity|].
  cbn. rewrite (H x (or_introl eq_refl)). apply IH. intros y Hy. apply H. now right.
Qed.

(* data parameters of the C and C++ backends can never shadow a template local *)
Theorem data_params_never_shadow l name : l = LC \/ l = LCpp -> shadows l KData name = false.
Proof.
  intros [-> | ->]; unfold shadows, generated; apply existsb_map_false; intros s Hs; now apply suffixed_never_local.
Qed.

(* an object parameter of the C and C++ backends shadows exactly when it is called like one *)
Theorem object_param_shadows_iff l name : l = LC \/ l = LCpp ->
  shadows l KObject name = existsb (ident_eqb name) (template_locals l).
Proof. intros [-> | ->]; unfold shadows, generated; cbn [existsb]; now rewrite Bool.orb_false_r. Qed.
