(* ModeProofs.v — the front-end model in Release mode either runs into undefined behaviour
   (a wrapped usize operation) or computes exactly what the Debug build computes. *)
Require Import Base Syntax Front.
Require Import gen.CounterFacts.
Open Scope N_scope.

Definition no_ub {A} (o : outcome A) : Prop := forall s, o <> UB s.

Lemma uop_modes site v : no_ub (uop Release site v) -> uop Debug site v = uop Release site v.
Proof.
  unfold uop. destruct (v <? usize_max); [reflexivity|].
  destruct CounterFacts.struct_size_checked; [reflexivity|]. intro H. exfalso. exact (H site eq_refl).
Qed.

(* with checked struct size arithmetic the two modes agree unconditionally *)
Lemma uop_modes_checked site v : CounterFacts.struct_size_checked = true -> uop Debug site v = uop Release site v.
Proof. intro H. unfold uop. rewrite H. destruct (v <? usize_max); reflexivity. Qed.

Lemma no_ub_bind_inv {A B} (o : outcome A) (f : A -> outcome B) :
  no_ub (obind o f) -> no_ub o /\ (forall a, o = Ok a -> no_ub (f a)).
Proof.
  intro H. split.
  - intros s E. subst. exact (H s eq_refl).
  - intros a E. subst. exact H.
Qed.

Lemma verify_fields_modes store fs : forall seen size al,
  no_ub (verify_fields Release store seen fs size al) ->
  verify_fields Debug store seen fs size al = verify_fields Release store seen fs size al.
Proof.
  induction fs as [|f fs IH]; intros seen size al H; cbn [verify_fields] in *; [reflexivity|].
  destruct (mem_str (sf_name f) seen); [reflexivity|].
  destruct (field_size_align store (sf_ty f)) as [[isz ial]| | |]; cbn [obind] in *; try reflexivity.
  destruct (ial =? 0); [reflexivity|]. destruct (negb (size mod ial =? 0)); [reflexivity|].
  destruct (no_ub_bind_inv _ _ H) as [H1 H2].
  rewrite (uop_modes _ _ H1).
  destruct (uop Release 1 (isz * sf_cnt f)) as [p| | |] eqn:E1; cbn [obind]; try reflexivity.
  specialize (H2 p eq_refl). destruct (no_ub_bind_inv _ _ H2) as [H3 H4].
  rewrite (uop_modes _ _ H3).
  destruct (uop Release 2 (size + p)) as [q| | |] eqn:E2; cbn [obind]; try reflexivity.
  apply IH. exact (H4 q eq_refl).
Qed.

Lemma verify_structs_modes st : forall order store,
  no_ub (verify_structs Release st store order) ->
  verify_structs Debug st store order = verify_structs Release st store order.
Proof.
  induction order as [|n order IH]; intros store H; cbn [verify_structs] in *; [reflexivity|].
  destruct (struct_lookup st n) as [s|]; [|reflexivity].
  destruct (no_ub_bind_inv _ _ H) as [H1 H2].
  rewrite (verify_fields_modes _ _ _ _ _ H1).
  destruct (verify_fields Release store [] (s_fields s) 0 0) as [sa| | |] eqn:E; cbn [obind]; try reflexivity.
  apply IH. exact (H2 sa eq_refl).
Qed.

Theorem front_modes e files :
  no_ub (front e Release files) -> front e Debug files = front e Release files.
Proof.
  unfold front, front_gen. destruct files as [|main rest]; [reflexivity|]. intro H.
  destruct (gather_files st_empty (main :: rest)) as [st| | |]; cbn [obind] in *; try reflexivity.
  destruct (functions_pass main) as [[]| | |]; cbn [obind] in *; try reflexivity.
  destruct (cycles_pass st main) as [order| | |]; cbn [obind] in *; try reflexivity.
  destruct (no_ub_bind_inv _ _ H) as [H1 _].
  now rewrite (verify_structs_modes st order [] H1).
Qed.

(* ---- with checked struct size arithmetic (regenerated fact) the front end is one function ---- *)
Section Checked.
  Hypothesis Hc : CounterFacts.struct_size_checked = true.

  Lemma verify_fields_same store fs : forall seen size al,
    verify_fields Debug store seen fs size al = verify_fields Release store seen fs size al.
  Proof.
    induction fs as [|f fs IH]; intros seen size al; cbn [verify_fields]; [reflexivity|].
    destruct (mem_str (sf_name f) seen); [reflexivity|].
    destruct (field_size_align store (sf_ty f)) as [[isz ial]| | |]; cbn [obind]; try reflexivity.
    destruct (ial =? 0); [reflexivity|]. destruct (negb (size mod ial =? 0)); [reflexivity|].
    rewrite (uop_modes_checked 1 _ Hc).
    destruct (uop Release 1 (isz * sf_cnt f)) as [p| | |]; cbn [obind]; try reflexivity.
    rewrite (uop_modes_checked 2 _ Hc).
    destruct (uop Release 2 (size + p)) as [q| | |]; cbn [obind]; try reflexivity.
    apply IH.
  Qed.

  Lemma verify_structs_same st : forall order store,
    verify_structs Debug st store order = verify_structs Release st store order.
  Proof.
    induction order as [|n order IH]; intros store; cbn [verify_structs]; [reflexivity|].
    destruct (struct_lookup st n) as [s|]; [|reflexivity].
    rewrite verify_fields_same.
    destruct (verify_fields Release store [] (s_fields s) 0 0) as [sa| | |]; cbn [obind]; try reflexivity.
    apply IH.
  Qed.

  Theorem front_modes_same e files : front e Debug files = front e Release files.
  Proof.
    unfold front, front_gen. destruct files as [|main rest]; [reflexivity|].
    destruct (gather_files st_empty (main :: rest)) as [st| | |]; cbn [obind]; try reflexivity.
    destruct (functions_pass main) as [[]| | |]; cbn [obind]; try reflexivity.
    destruct (cycles_pass st main) as [order| | |]; cbn [obind]; try reflexivity.
    now rewrite (verify_structs_same st order []).
  Qed.
End Checked.

(* ---- the packed size the MIR lowering computes for a struct parameter (mir.rs) ---- *)
Lemma resolve_param_oversized checked fuel st p t :
  resolve_ty fuel st (p_ty p) = Ok t -> (usize_max <= mty_size t)%N ->
  resolve_param_gen checked fuel st p = if checked then Reject ROverflow else Ok (mkMP (p_out p) t (p_shape p) (p_name p)).
Proof.
  intros H Hs. unfold resolve_param_gen. rewrite H. cbn [obind].
  destruct checked; cbn [andb]; [|reflexivity].
  destruct (N.leb_spec usize_max (mty_size t)); [reflexivity|lia].
Qed.

Lemma resolve_param_fits fuel st p mp :
  resolve_param_gen true fuel st p = Ok mp -> (mty_size (mp_ty mp) < usize_max)%N.
Proof.
  unfold resolve_param_gen. destruct (resolve_ty fuel st (p_ty p)) as [t| | |]; cbn [obind]; try discriminate.
  cbn [andb]. destruct (N.leb_spec usize_max (mty_size t)); [discriminate|].
  intro E. injection E as <-. exact H.
Qed.

(* witness: five levels of 65535-element arrays *)
Local Open Scope string_scope.
Definition huge_ty : mty :=
  MStruct "L4" [("a", MStruct "L3" [("a", MStruct "L2" [("a", MStruct "L1" [("a", MStruct "L0" [("a", MPrim U8, 65535)], 65535)], 65535)], 65535)], 65535)].
Lemma huge_overflows : (usize_max <=? mty_size huge_ty)%N = true.
Proof. vm_compute. reflexivity. Qed.
