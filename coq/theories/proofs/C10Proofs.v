(* C10Proofs.v — completeness of the individual validation steps of the front-end model:
   whatever satisfies the enforced rules is accepted. *)
Require Import Base Syntax Front Plan gen.CounterFacts.
Require Import spec.Spec_C09 proofs.C09Proofs proofs.LayoutProofs Layout.
Require Import Permutation.
Open Scope N_scope.

(* ---- interface verifier: the enforced rules are exactly sufficient ---- *)

(* [small_in]: the verifier also rejects an input array of a small object-bearing struct *)
Definition enforced_param_ok_gen (small_in : bool) (p : mparam) : bool :=
  match rp_kind (abs_param p), rp_arr (abs_param p) with
  | KObj, Some None => false                         (* unbounded object array *)
  | KData, Some (Some _) => false                    (* bounded array of data *)
  | KObjStruct, Some _ =>                            (* array of object-bearing structs *)
      negb small_in && negb (mp_out p) && is_small (mp_ty p) &&
      match mp_shape p with PArr (Some _) => false | _ => true end
  | _, _ => true
  end.
Definition enforced_param_ok := enforced_param_ok_gen verifier_small_objstruct_in_array.

Lemma check_param_complete s p : enforced_param_ok_gen s p = true ->
  check_param_gen s p = Ok (is_objarr (abs_param p), is_objval (abs_param p)).
Proof.
  unfold enforced_param_ok_gen, check_param_gen, abs_param, kind_of, is_objarr, is_objval. cbn [rp_kind rp_arr].
  destruct (mp_shape p) as [|cnt].
  - intros _. destruct (mp_ty p); cbn; try reflexivity. destruct (contains_interfaces _); reflexivity.
  - destruct (mp_ty p) as [|q|n|sn fs]; cbn [is_miface is_struct_or_prim is_mstruct andb].
    + intros _. reflexivity.
    + destruct cnt; [discriminate | reflexivity].
    + destruct cnt; [reflexivity | discriminate].
    + destruct (contains_interfaces (MStruct sn fs)) eqn:EC.
      * destruct s; cbn [negb andb orb]; [discriminate|].
        destruct (mp_out p); cbn [negb andb]; [discriminate|].
        destruct (is_small (MStruct sn fs)); cbn [negb andb]; [|discriminate].
        destruct cnt; [discriminate | reflexivity].
      * rewrite !andb_false_r. destruct cnt; [discriminate | reflexivity].
Qed.

Lemma check_params_complete two s ps : forall ai vi ao vo,
  forallb (enforced_param_ok_gen s) ps = true ->
  let ai' := ai || existsb (fun p => negb (mp_out p) && is_objarr (abs_param p)) ps in
  let vi' := vi || existsb (fun p => negb (mp_out p) && is_objval (abs_param p)) ps in
  let ao' := ao || existsb (fun p => mp_out p && is_objarr (abs_param p)) ps in
  let vo' := vo || existsb (fun p => mp_out p && is_objval (abs_param p)) ps in
  (ai' && vi') || (ao' && vo') = false ->
  (two = true -> (b2n ai + cnt_dir false ps <= 1)%nat /\ (b2n ao + cnt_dir true ps <= 1)%nat) ->
  check_params_gen two s ps ai vi ao vo = Ok tt.
Proof.
  induction ps as [|p ps IH]; intros ai vi ao vo HF; cbn [check_params_gen existsb forallb] in *.
  - cbv zeta. rewrite !orb_false_r. intros H _. now rewrite H.
  - apply andb_prop in HF. destruct HF as [HP HF]. cbv zeta. intros H HT.
    rewrite (check_param_complete _ _ HP). cbn [obind].
    rewrite !cnt_dir_cons in HT.
    destruct (mp_out p) eqn:EO; cbn [negb andb orb Bool.eqb] in *.
    + destruct two; cbn [andb].
      * destruct (HT eq_refl) as [T1 T2].
        destruct (is_objarr (abs_param p)) eqn:EA; cbn [andb b2n] in *.
        -- destruct ao; cbn [b2n] in T2; [lia|]. apply IH; [exact HF | cbv zeta; (etransitivity; [|exact H]); cbn [orb]; now rewrite ?orb_assoc, ?orb_false_r|].
           intros _. cbn [orb b2n]. split; lia.
        -- apply IH; [exact HF | cbv zeta; (etransitivity; [|exact H]); cbn [orb]; now rewrite ?orb_assoc, ?orb_false_r|].
           intros _. rewrite orb_false_r. split; lia.
      * apply IH; [exact HF | cbv zeta; (etransitivity; [|exact H]); cbn [orb]; now rewrite ?orb_assoc, ?orb_false_r | discriminate].
    + destruct two; cbn [andb].
      * destruct (HT eq_refl) as [T1 T2].
        destruct (is_objarr (abs_param p)) eqn:EA; cbn [andb b2n] in *.
        -- destruct ai; cbn [b2n] in T1; [lia|]. apply IH; [exact HF | cbv zeta; (etransitivity; [|exact H]); cbn [orb]; now rewrite ?orb_assoc, ?orb_false_r|].
           intros _. cbn [orb b2n]. split; lia.
        -- apply IH; [exact HF | cbv zeta; (etransitivity; [|exact H]); cbn [orb]; now rewrite ?orb_assoc, ?orb_false_r|].
           intros _. rewrite orb_false_r. split; lia.
      * apply IH; [exact HF | cbv zeta; (etransitivity; [|exact H]); cbn [orb]; now rewrite ?orb_assoc, ?orb_false_r | discriminate].
Qed.

Theorem interface_rules_complete_gen two s ps :
  forallb (enforced_param_ok_gen s) ps = true ->
  rule_no_objarr_with_single (map abs_param ps) = true ->
  (two = true -> rule_no_two_objarr (map abs_param ps) = true) ->
  check_params_gen two s ps false false false false = Ok tt.
Proof.
  intros HF HR HT. apply check_params_complete; [exact HF| |].
  2:{ intro E. specialize (HT E). unfold rule_no_two_objarr in HT. cbn [forallb] in HT.
      fold (cnt_dir false ps) in HT. fold (cnt_dir true ps) in HT. rewrite andb_true_r in HT.
      apply andb_prop in HT. destruct HT as [T1 T2]. apply N.leb_le in T1, T2. cbn [b2n plus]. split; lia. }
  cbv zeta. cbn [orb].
  unfold rule_no_objarr_with_single in HR. cbn [forallb] in HR. rewrite andb_true_r in HR.
  rewrite !existsb_map' in HR.
  rewrite (existsb_ext' _ (fun p => negb (mp_out p) && is_objarr (abs_param p)) ps) in HR
    by (intro x; cbn [abs_param rp_out]; destruct (mp_out x); reflexivity).
  rewrite (existsb_ext' (fun x => Bool.eqb (rp_out (abs_param x)) false && is_objval (abs_param x))
                        (fun p => negb (mp_out p) && is_objval (abs_param p)) ps) in HR
    by (intro x; cbn [abs_param rp_out]; destruct (mp_out x); reflexivity).
  rewrite (existsb_ext' (fun x => Bool.eqb (rp_out (abs_param x)) true && is_objarr (abs_param x))
                        (fun p => mp_out p && is_objarr (abs_param p)) ps) in HR
    by (intro x; cbn [abs_param rp_out]; destruct (mp_out x); reflexivity).
  rewrite (existsb_ext' (fun x => Bool.eqb (rp_out (abs_param x)) true && is_objval (abs_param x))
                        (fun p => mp_out p && is_objval (abs_param p)) ps) in HR
    by (intro x; cbn [abs_param rp_out]; destruct (mp_out x); reflexivity).
  apply andb_prop in HR. destruct HR as [H1 H2].
  apply negb_true_iff in H1, H2. now rewrite H1, H2.
Qed.

Theorem interface_rules_complete ps :
  forallb enforced_param_ok ps = true ->
  rule_no_objarr_with_single (map abs_param ps) = true ->
  rule_no_two_objarr (map abs_param ps) = true ->
  check_params ps false false false false = Ok tt.
Proof. intros A B C. apply interface_rules_complete_gen; auto. Qed.

(* with the repaired verifier the enforced rules are the five rules of the specification:
   whatever satisfies them is accepted (and check_params_all_rules is the converse) *)
Lemma rules_imply_enforced p :
  (match rp_kind (abs_param p), rp_arr (abs_param p) with KObj, Some None => false | _, _ => true end) = true ->
  (match rp_kind (abs_param p), rp_arr (abs_param p) with KObjStruct, Some _ => false | _, _ => true end) = true ->
  (match rp_kind (abs_param p), rp_arr (abs_param p) with (KData | KObjStruct), Some (Some _) => false | _, _ => true end) = true ->
  enforced_param_ok_gen true p = true.
Proof.
  unfold enforced_param_ok_gen. destruct (rp_kind (abs_param p)), (rp_arr (abs_param p)) as [[c|]|]; intros; try reflexivity; discriminate.
Qed.

Theorem spec_rules_complete ps :
  forallb (fun b => b) (params_rules (map abs_param ps)) = true ->
  check_params_gen true true ps false false false false = Ok tt.
Proof.
  unfold params_rules. cbn [forallb]. rewrite andb_true_r. intro H.
  apply andb_prop in H. destruct H as [R1 H]. apply andb_prop in H. destruct H as [R2 H].
  apply andb_prop in H. destruct H as [R3 H]. apply andb_prop in H. destruct H as [R4 R5].
  apply interface_rules_complete_gen; [|exact R2 | intros _; exact R3].
  unfold rule_no_unbounded_objarr, rule_no_array_of_objstruct, rule_no_bounded_data_array in *.
  clear R2 R3. induction ps as [|p ps IH]; cbn [map forallb] in *; [reflexivity|].
  apply andb_prop in R1, R4, R5. destruct R1 as [A1 A2], R4 as [B1 B2], R5 as [C1 C2].
  rewrite (rules_imply_enforced p A1 B1 C1). cbn [andb]. now apply IH.
Qed.

(* ---- duplicate-parameter pass ---- *)
Theorem functions_pass_complete main :
  forallb (fun i => forallb (fun f => nodup_str (map p_name (f_params f))) (iface_funcs i)) (ast_ifaces main) = true ->
  functions_pass main = Ok tt.
Proof. intro H. unfold functions_pass, func_params_ok. now rewrite H. Qed.

(* ---- struct verifier: a struct whose fields sit on multiples of their alignment and whose
        size is a multiple of the largest alignment is accepted (sizes below 2^64) ---- *)
Fixpoint fields_aligned (vstore : list (string * (N * N))) (seen : list string) (fs : list sfield) (size al : N) : bool :=
  match fs with
  | [] => negb (al =? 0) && (size mod al =? 0)
  | f :: r =>
      negb (mem_str (sf_name f) seen) &&
      match field_size_align vstore (sf_ty f) with
      | Ok (isz, ial) =>
          negb (ial =? 0) && (size mod ial =? 0) &&
          (isz * sf_cnt f <? usize_max) && (size + isz * sf_cnt f <? usize_max) &&
          fields_aligned vstore (sf_name f :: seen) r (size + isz * sf_cnt f) (N.max al ial)
      | _ => false
      end
  end.

Theorem verify_fields_complete md vstore fs : forall seen size al,
  fields_aligned vstore seen fs size al = true ->
  exists r, verify_fields md vstore seen fs size al = Ok r.
Proof.
  induction fs as [|f fs IH]; intros seen size al H; cbn [fields_aligned verify_fields] in *.
  - apply andb_prop in H. destruct H as [H1 H2]. apply negb_true_iff in H1. rewrite H1, H2. eauto.
  - apply andb_prop in H. destruct H as [H1 H]. apply negb_true_iff in H1. rewrite H1.
    destruct (field_size_align vstore (sf_ty f)) as [[isz ial]| | |]; try discriminate. cbn.
    apply andb_prop in H. destruct H as [H Hrest].
    apply andb_prop in H. destruct H as [H Hlt2].
    apply andb_prop in H. destruct H as [H Hlt1].
    apply andb_prop in H. destruct H as [Hnz Hmod].
    apply negb_true_iff in Hnz. rewrite Hnz, Hmod. cbn [negb].
    unfold uop. rewrite Hlt1. cbn. rewrite Hlt2. cbn. now apply IH.
Qed.

(* ---- symbol table: distinct names are always accepted ---- *)
Lemma NoDup_app_remove_r {A} (l1 l2 : list A) : NoDup (l1 ++ l2) -> NoDup l1.
Proof.
  induction l1 as [|a l1 IH]; cbn; intro H; [constructor|]. inversion H as [|x l Hx Hl]; subst.
  constructor; [|now apply IH]. intro Hin. apply Hx. apply in_or_app. now left.
Qed.
Lemma NoDup_app_remove_l {A} (l1 l2 : list A) : NoDup (l1 ++ l2) -> NoDup l2.
Proof. induction l1 as [|a l1 IH]; cbn; intro H; [exact H|]. inversion H; subst. now apply IH. Qed.

Definition ikeys_sub (st : symtab) : Prop :=
  forall k, has_key k (st_ifaces st) = true -> has_key k (st_structs st) = true.

Lemma has_key_cons {A} k k' (v : A) l :
  has_key k ((k', v) :: l) = String.eqb k k' || has_key k l.
Proof. unfold has_key. cbn. destruct (String.eqb k k'); reflexivity. Qed.

Lemma gather_nodes_complete0 ns : forall st,
  ikeys_sub st ->
  NoDup (rev (type_names ns) ++ map fst (st_structs st)) ->
  NoDup (rev (const_names ns) ++ st_consts st) ->
  exists st', gather_nodes_gen false st ns = Ok st' /\ ikeys_sub st'.
Proof.
  induction ns as [|n ns IH]; intros st HS N1 N2; cbn [gather_nodes_gen].
  - eauto.
  - unfold gather_node_gen. cbn [andb].
    destruct n as [p|c|s|i]; cbn [gather_node0 type_names const_names flat_map app rev] in *.
    + cbn. apply IH; assumption.
    + fold (const_names ns) in N2. rewrite <- app_assoc in N2. cbn [app] in N2.
      destruct (mem_str (c_name c) (st_consts st)) eqn:EM.
      * apply mem_str_In in EM. apply NoDup_remove_2 in N2. exfalso. apply N2.
        apply in_or_app. now right.
      * cbn. apply IH; [exact HS | exact N1 | cbn; exact N2].
    + fold (type_names ns) in N1. rewrite <- app_assoc in N1. cbn [app] in N1.
      destruct (has_key (s_name s) (st_structs st)) eqn:EK.
      * apply has_key_In in EK. apply NoDup_remove_2 in N1. exfalso. apply N1. apply in_or_app. now right.
      * cbn. apply IH; [| cbn; exact N1 | exact N2].
        intros k Hk. cbn in *. rewrite has_key_cons. rewrite (HS k Hk). apply orb_true_r.
    + fold (type_names ns) in N1. rewrite <- app_assoc in N1. cbn [app] in N1.
      destruct (has_key (i_name i) (st_structs st)) eqn:EK.
      * apply has_key_In in EK. apply NoDup_remove_2 in N1. exfalso. apply N1. apply in_or_app. now right.
      * destruct (has_key (i_name i) (st_ifaces st)) eqn:EI; [rewrite (HS _ EI) in EK; discriminate|].
        cbn. apply IH; [| cbn; exact N1 | exact N2].
        intros k Hk. cbn in *. rewrite has_key_cons in Hk. rewrite has_key_cons.
        destruct (String.eqb k (i_name i)); [reflexivity|]. cbn in *. now apply HS.
Qed.

Lemma gather_files_complete0 fs : forall st,
  ikeys_sub st ->
  NoDup (rev (flat_map (fun a => type_names (a_nodes a)) fs) ++ map fst (st_structs st)) ->
  NoDup (rev (flat_map (fun a => const_names (a_nodes a)) fs) ++ st_consts st) ->
  exists st', gather_files_gen false st fs = Ok st'.
Proof.
  induction fs as [|a fs IH]; intros st HS N1 N2; cbn [gather_files_gen]; [eauto|].
  cbn [flat_map] in N1, N2. rewrite rev_app_distr, <- app_assoc in N1, N2.
  destruct (gather_nodes_complete0 (a_nodes a) st HS) as (st1 & G & HS1).
  - apply NoDup_app_remove_l in N1. exact N1.
  - apply NoDup_app_remove_l in N2. exact N2.
  - rewrite G. cbn.
    assert (D0 : NoDup (map fst (st_structs st))).
    { apply NoDup_app_remove_l in N1. apply NoDup_app_remove_l in N1. exact N1. }
    assert (D1 : NoDup (st_consts st)).
    { apply NoDup_app_remove_l in N2. apply NoDup_app_remove_l in N2. exact N2. }
    destruct (gather_nodes_names _ _ _ _ G D0 D1) as (A & B & _ & _).
    apply IH; [exact HS1 | rewrite A; exact N1 | rewrite B; exact N2].
Qed.

Theorem gather_complete0 files :
  rule_uniq_types files = true -> rule_uniq_consts files = true ->
  exists st, gather_files_gen false st_empty files = Ok st.
Proof.
  intros HT HC. apply gather_files_complete0.
  - intros k Hk. discriminate.
  - cbn. rewrite app_nil_r. apply NoDup_rev. eapply Permutation_NoDup.
    + apply Permutation_sym. apply all_type_names_perm.
    + apply nodup_str_NoDup. exact HT.
  - cbn. rewrite app_nil_r. apply NoDup_rev. rewrite const_names_eq. apply nodup_str_NoDup. exact HC.
Qed.

(* the tables only grow *)
Lemma gather_node_mono b st n st' : gather_node_gen b st n = Ok st' ->
  (forall k, In k (st_consts st) -> In k (st_consts st')) /\
  (forall k, In k (map fst (st_structs st)) -> In k (map fst (st_structs st'))) /\
  match n with
  | NStruct s => In (s_name s) (map fst (st_structs st'))
  | NIface i => In (i_name i) (map fst (st_structs st'))
  | NConst c => In (c_name c) (st_consts st')
  | NInclude _ => True
  end.
Proof.
  unfold gather_node_gen. destruct (b && cross_kind st n); [discriminate|].
  destruct n as [p|c|s|i]; cbn [gather_node0]; intro E.
  - inversion E; subst. auto.
  - destruct (mem_str _ _); inversion E; subst. cbn. auto.
  - destruct (has_key _ _); inversion E; subst. cbn. auto.
  - destruct (has_key (i_name i) (st_structs st)); try discriminate.
    destruct (has_key (i_name i) (st_ifaces st)); inversion E; subst. cbn. auto.
Qed.

Lemma gather_nodes_mono b ns : forall st st', gather_nodes_gen b st ns = Ok st' ->
  (forall k, In k (st_consts st) -> In k (st_consts st')) /\
  (forall k, In k (map fst (st_structs st)) -> In k (map fst (st_structs st'))).
Proof.
  induction ns as [|n ns IH]; intros st st' H; cbn [gather_nodes_gen] in H; [inversion H; subst; auto|].
  destruct (gather_node_gen b st n) as [st1| | |] eqn:E; cbn [obind] in H; try discriminate.
  destruct (gather_node_mono _ _ _ _ E) as (A & B & _). destruct (IH _ _ H) as (A' & B'). split; auto.
Qed.

Lemma gather_files_mono b fs : forall st st', gather_files_gen b st fs = Ok st' ->
  (forall k, In k (st_consts st) -> In k (st_consts st')) /\
  (forall k, In k (map fst (st_structs st)) -> In k (map fst (st_structs st'))).
Proof.
  induction fs as [|a fs IH]; intros st st' H; cbn [gather_files_gen] in H; [inversion H; subst; auto|].
  destruct (gather_nodes_gen b st (a_nodes a)) as [st1| | |] eqn:E; cbn [obind] in H; try discriminate.
  destruct (gather_nodes_mono _ _ _ _ E) as (A & B). destruct (IH _ _ H) as (A' & B'). split; auto.
Qed.

(* when the final tables are disjoint the cross-kind check never fires *)
Lemma gather_nodes_upgrade b ns : forall st st', gather_nodes_gen false st ns = Ok st' ->
  tables_disjoint st' -> gather_nodes_gen b st ns = Ok st'.
Proof.
  induction ns as [|n ns IH]; intros st st' H D; cbn [gather_nodes_gen] in *; [exact H|].
  destruct (gather_node_gen false st n) as [st1| | |] eqn:E; cbn [obind] in H; try discriminate.
  destruct (gather_node_mono _ _ _ _ E) as (A & B & C).
  destruct (gather_nodes_mono _ _ _ _ H) as (A' & B').
  assert (X : cross_kind st n = false).
  { destruct (cross_kind st n) eqn:EX; [exfalso | reflexivity].
    destruct n as [p|c|s|i]; cbn [cross_kind] in EX; try discriminate.
    - apply has_key_In in EX. apply (D (c_name c)); auto.
    - apply mem_str_In in EX. apply (D (s_name s)); auto.
    - apply mem_str_In in EX. apply (D (i_name i)); auto. }
  unfold gather_node_gen in *. rewrite X, andb_false_r. cbn [andb] in E. rewrite E. cbn [obind].
  now apply IH.
Qed.

Lemma gather_files_upgrade b fs : forall st st', gather_files_gen false st fs = Ok st' ->
  tables_disjoint st' -> gather_files_gen b st fs = Ok st'.
Proof.
  induction fs as [|a fs IH]; intros st st' H D; cbn [gather_files_gen] in *; [exact H|].
  destruct (gather_nodes_gen false st (a_nodes a)) as [st1| | |] eqn:E; cbn [obind] in H; try discriminate.
  destruct (gather_files_mono _ _ _ _ H) as (A' & B').
  rewrite (gather_nodes_upgrade b _ _ _ E); [cbn [obind]; now apply IH|].
  intros k Hk Hin. apply (D k); auto.
Qed.

(* names unique over types and constants together: the symbol table is built, with either
   variant of the table *)
Theorem gather_complete_gen b files :
  rule_uniq_toplevel files = true -> exists st, gather_files_gen b st_empty files = Ok st.
Proof.
  intro HU. apply nodup_str_NoDup in HU. unfold rule_uniq_toplevel in HU. rewrite app_assoc in HU.
  assert (HT : rule_uniq_types files = true).
  { apply nodup_str_NoDup. unfold rule_uniq_types. now apply NoDup_app_remove_r in HU. }
  assert (HC : rule_uniq_consts files = true).
  { apply nodup_str_NoDup. unfold rule_uniq_consts. now apply NoDup_app_remove_l in HU. }
  destruct (gather_complete0 files HT HC) as (st & G). exists st.
  apply gather_files_upgrade; [exact G|].
  destruct (gather_files_names _ _ _ _ G (NoDup_nil _) (NoDup_nil _)) as (A & B & _ & _).
  cbn in A, B. rewrite app_nil_r in A, B.
  intros k Hk Hin. rewrite B in Hk. rewrite A in Hin. apply in_rev in Hk. apply in_rev in Hin.
  rewrite const_names_eq in Hk.
  assert (Hin' : In k (map s_name (all_structs files) ++ map i_name (all_ifaces9 files))).
  { eapply Permutation_in; [apply all_type_names_perm | exact Hin]. }
  revert HU Hin' Hk. generalize (map s_name (all_structs files) ++ map i_name (all_ifaces9 files)) as l1.
  generalize (map c_name (all_consts files)) as l2. clear.
  intros l2 l1 N H1 H2. induction l1 as [|x l1 IH]; [destruct H1|].
  cbn in N. inversion N as [|y l Hy Hl]; subst. destruct H1 as [->|H1].
  - apply Hy. apply in_or_app. now right.
  - now apply IH.
Qed.

Theorem gather_complete files :
  rule_uniq_toplevel files = true -> exists st, gather_files st_empty files = Ok st.
Proof. apply gather_complete_gen. Qed.
