(* C10Proofs.v — completeness of the individual validation steps of the front-end model:
   whatever satisfies the enforced rules is accepted. *)
Require Import Base Syntax Front Plan.
Require Import spec.Spec_C09 proofs.C09Proofs proofs.LayoutProofs Layout.
Require Import Permutation.
Open Scope N_scope.

(* ---- interface verifier: the enforced rules are exactly sufficient ---- *)

Definition enforced_param_ok (p : mparam) : bool :=
  match rp_kind (abs_param p), rp_arr (abs_param p) with
  | KObj, Some None => false                         (* unbounded object array *)
  | KData, Some (Some _) => false                    (* bounded array of data *)
  | KObjStruct, Some _ =>                            (* array of object-bearing structs *)
      negb (mp_out p) && is_small (mp_ty p) &&
      match mp_shape p with PArr (Some _) => false | _ => true end
  | _, _ => true
  end.

Lemma check_param_complete p : enforced_param_ok p = true ->
  check_param p = Ok (is_objarr (abs_param p), is_objval (abs_param p)).
Proof.
  unfold enforced_param_ok, check_param, abs_param, kind_of, is_objarr, is_objval. cbn [rp_kind rp_arr].
  destruct (mp_shape p) as [|cnt].
  - intros _. destruct (mp_ty p); cbn; try reflexivity. destruct (contains_interfaces _); reflexivity.
  - destruct (mp_ty p) as [|q|n|sn fs]; cbn [is_miface is_struct_or_prim is_mstruct andb].
    + intros _. reflexivity.
    + destruct cnt; [discriminate | reflexivity].
    + destruct cnt; [reflexivity | discriminate].
    + destruct (contains_interfaces (MStruct sn fs)) eqn:EC.
      * destruct (mp_out p); cbn [negb andb]; [discriminate|].
        destruct (is_small (MStruct sn fs)); cbn [negb andb]; [|discriminate].
        destruct cnt; [discriminate | reflexivity].
      * rewrite !andb_false_r. destruct cnt; [discriminate | reflexivity].
Qed.

Lemma check_params_complete ps : forall ai vi ao vo,
  forallb enforced_param_ok ps = true ->
  let ai' := ai || existsb (fun p => negb (mp_out p) && is_objarr (abs_param p)) ps in
  let vi' := vi || existsb (fun p => negb (mp_out p) && is_objval (abs_param p)) ps in
  let ao' := ao || existsb (fun p => mp_out p && is_objarr (abs_param p)) ps in
  let vo' := vo || existsb (fun p => mp_out p && is_objval (abs_param p)) ps in
  (ai' && vi') || (ao' && vo') = false ->
  check_params ps ai vi ao vo = Ok tt.
Proof.
  induction ps as [|p ps IH]; intros ai vi ao vo HF; cbn [check_params existsb forallb] in *.
  - cbv zeta. rewrite !orb_false_r. intro H. now rewrite H.
  - apply andb_prop in HF. destruct HF as [HP HF]. cbv zeta. intro H.
    rewrite (check_param_complete _ HP). cbn.
    destruct (mp_out p) eqn:EO; cbn [negb andb orb] in *.
    + apply IH; [exact HF|]. cbv zeta. rewrite <- H. now rewrite !orb_assoc.
    + apply IH; [exact HF|]. cbv zeta. rewrite <- H. now rewrite !orb_assoc.
Qed.

Theorem interface_rules_complete ps :
  forallb enforced_param_ok ps = true ->
  rule_no_objarr_with_single (map abs_param ps) = true ->
  check_params ps false false false false = Ok tt.
Proof.
  intros HF HR. apply check_params_complete; [exact HF|]. cbv zeta. cbn [orb].
  unfold rule_no_objarr_with_single in HR. cbn [forallb] in HR. rewrite andb_true_r in HR.
  rewrite !existsb_map' in HR.
  rewrite (existsb_ext' _ (fun p => negb (mp_out p) && is_objarr (abs_param p)) ps) in HR
    by (intro x; cbn [abs_param rp_out]; destruct (mp_out x); reflexivity).
  rewrite (existsb_ext' (fun x => Bool.eqb (rp_out (abs_param x)) false && is_objval (abs_param x))
                        (fun p => negb (mp_out p) && is_objval (abs_param p)) ps) in HR
    by (intro x; cbn [abs_param rp_out]; destruct (mp_out x); reflexivity).
  rewrite (existsb_ext' (fun x => Bool.eqb (rp_out (abs_param x)) true && is_objarr (abs_param x))
                        (fun p => mp_out p && is_objarr (abs_param p)) ps) in HR
    by (intro x; cbn [abs_param rp_out]; destruct (mp_out x); reflexivity).
  rewrite (existsb_ext' (fun x => Bool.eqb (rp_out (abs_param x)) true && is_objval (abs_param x))
                        (fun p => mp_out p && is_objval (abs_param p)) ps) in HR
    by (intro x; cbn [abs_param rp_out]; destruct (mp_out x); reflexivity).
  apply andb_prop in HR. destruct HR as [H1 H2].
  apply negb_true_iff in H1, H2. now rewrite H1, H2.
Qed.

(* ---- duplicate-parameter pass ---- *)
Theorem functions_pass_complete main :
  forallb (fun i => forallb (fun f => nodup_str (map p_name (f_params f))) (iface_funcs i)) (ast_ifaces main) = true ->
  functions_pass main = Ok tt.
Proof. intro H. unfold functions_pass, func_params_ok. now rewrite H. Qed.

(* ---- struct verifier: a struct whose fields sit on multiples of their alignment and whose
        size is a multiple of the largest alignment is accepted (sizes below 2^64) ---- *)
Fixpoint fields_aligned (vstore : list (string * (N * N))) (seen : list string) (fs : list sfield) (size al : N) : bool :=
  match fs with
  | [] => negb (al =? 0) && (size mod al =? 0)
  | f :: r =>
      negb (mem_str (sf_name f) seen) &&
      match field_size_align vstore (sf_ty f) with
      | Ok (isz, ial) =>
          negb (ial =? 0) && (size mod ial =? 0) &&
          (isz * sf_cnt f <? usize_max) && (size + isz * sf_cnt f <? usize_max) &&
          fields_aligned vstore (sf_name f :: seen) r (size + isz * sf_cnt f) (N.max al ial)
      | _ => false
      end
  end.

Theorem verify_fields_complete md vstore fs : forall seen size al,
  fields_aligned vstore seen fs size al = true ->
  exists r, verify_fields md vstore seen fs size al = Ok r.
Proof.
  induction fs as [|f fs IH]; intros seen size al H; cbn [fields_aligned verify_fields] in *.
  - apply andb_prop in H. destruct H as [H1 H2]. apply negb_true_iff in H1. rewrite H1, H2. eauto.
  - apply andb_prop in H. destruct H as [H1 H]. apply negb_true_iff in H1. rewrite H1.
    destruct (field_size_align vstore (sf_ty f)) as [[isz ial]| | |]; try discriminate. cbn.
    apply andb_prop in H. destruct H as [H Hrest].
    apply andb_prop in H. destruct H as [H Hlt2].
    apply andb_prop in H. destruct H as [H Hlt1].
    apply andb_prop in H. destruct H as [Hnz Hmod].
    apply negb_true_iff in Hnz. rewrite Hnz, Hmod. cbn [negb].
    unfold uop. rewrite Hlt1. cbn. rewrite Hlt2. cbn. now apply IH.
Qed.

(* ---- symbol table: distinct names are always accepted ---- *)
Lemma NoDup_app_remove_l {A} (l1 l2 : list A) : NoDup (l1 ++ l2) -> NoDup l2.
Proof. induction l1 as [|a l1 IH]; cbn; intro H; [exact H|]. inversion H; subst. now apply IH. Qed.

Definition ikeys_sub (st : symtab) : Prop :=
  forall k, has_key k (st_ifaces st) = true -> has_key k (st_structs st) = true.

Lemma has_key_cons {A} k k' (v : A) l :
  has_key k ((k', v) :: l) = String.eqb k k' || has_key k l.
Proof. unfold has_key. cbn. destruct (String.eqb k k'); reflexivity. Qed.

Lemma gather_nodes_complete ns : forall st,
  ikeys_sub st ->
  NoDup (rev (type_names ns) ++ map fst (st_structs st)) ->
  NoDup (rev (const_names ns) ++ st_consts st) ->
  exists st', gather_nodes st ns = Ok st' /\ ikeys_sub st'.
Proof.
  induction ns as [|n ns IH]; intros st HS N1 N2; cbn [gather_nodes].
  - eauto.
  - destruct n as [p|c|s|i]; cbn [gather_node type_names const_names flat_map app rev] in *.
    + cbn. apply IH; assumption.
    + fold (const_names ns) in N2. rewrite <- app_assoc in N2. cbn [app] in N2.
      destruct (mem_str (c_name c) (st_consts st)) eqn:EM.
      * apply mem_str_In in EM. apply NoDup_remove_2 in N2. exfalso. apply N2.
        apply in_or_app. now right.
      * cbn. apply IH; [exact HS | exact N1 | cbn; exact N2].
    + fold (type_names ns) in N1. rewrite <- app_assoc in N1. cbn [app] in N1.
      destruct (has_key (s_name s) (st_structs st)) eqn:EK.
      * apply has_key_In in EK. apply NoDup_remove_2 in N1. exfalso. apply N1. apply in_or_app. now right.
      * cbn. apply IH; [| cbn; exact N1 | exact N2].
        intros k Hk. cbn in *. rewrite has_key_cons. rewrite (HS k Hk). apply orb_true_r.
    + fold (type_names ns) in N1. rewrite <- app_assoc in N1. cbn [app] in N1.
      destruct (has_key (i_name i) (st_structs st)) eqn:EK.
      * apply has_key_In in EK. apply NoDup_remove_2 in N1. exfalso. apply N1. apply in_or_app. now right.
      * destruct (has_key (i_name i) (st_ifaces st)) eqn:EI; [rewrite (HS _ EI) in EK; discriminate|].
        cbn. apply IH; [| cbn; exact N1 | exact N2].
        intros k Hk. cbn in *. rewrite has_key_cons in Hk. rewrite has_key_cons.
        destruct (String.eqb k (i_name i)); [reflexivity|]. cbn in *. now apply HS.
Qed.

Lemma gather_files_complete fs : forall st,
  ikeys_sub st ->
  NoDup (rev (flat_map (fun a => type_names (a_nodes a)) fs) ++ map fst (st_structs st)) ->
  NoDup (rev (flat_map (fun a => const_names (a_nodes a)) fs) ++ st_consts st) ->
  exists st', gather_files st fs = Ok st'.
Proof.
  induction fs as [|a fs IH]; intros st HS N1 N2; cbn [gather_files]; [eauto|].
  cbn [flat_map] in N1, N2. rewrite rev_app_distr, <- app_assoc in N1, N2.
  destruct (gather_nodes_complete (a_nodes a) st HS) as (st1 & G & HS1).
  - apply NoDup_app_remove_l in N1. exact N1.
  - apply NoDup_app_remove_l in N2. exact N2.
  - rewrite G. cbn.
    assert (D0 : NoDup (map fst (st_structs st))).
    { apply NoDup_app_remove_l in N1. apply NoDup_app_remove_l in N1. exact N1. }
    assert (D1 : NoDup (st_consts st)).
    { apply NoDup_app_remove_l in N2. apply NoDup_app_remove_l in N2. exact N2. }
    destruct (gather_nodes_names _ _ _ G D0 D1) as (A & B & _ & _).
    apply IH; [exact HS1 | rewrite A; exact N1 | rewrite B; exact N2].
Qed.

Theorem gather_complete files :
  rule_uniq_types files = true -> rule_uniq_consts files = true ->
  exists st, gather_files st_empty files = Ok st.
Proof.
  intros HT HC. apply gather_files_complete.
  - intros k Hk. discriminate.
  - cbn. rewrite app_nil_r. apply NoDup_rev. eapply Permutation_NoDup.
    + apply Permutation_sym. apply all_type_names_perm.
    + apply nodup_str_NoDup. exact HT.
  - cbn. rewrite app_nil_r. apply NoDup_rev. rewrite const_names_eq. apply nodup_str_NoDup. exact HC.
Qed.
