(* GatherProofs.v — the symbol table built by gather_files: interface lookup
   agrees with "the interface of that name among all declarations". *)
Require Import Base Syntax Front.
Require Import spec.Spec_Numbering.
Open Scope N_scope.

Definition node_ifaces (ns : list node) : list idef :=
  flat_map (fun n => match n with NIface i => [i] | _ => [] end) ns.

Definition ipair (i : idef) : string * idef := (i_name i, i).

Lemma has_key_alookup {A} k (l : list (string * A)) :
  has_key k l = false <-> alookup k l = None.
Proof. unfold has_key. destruct (alookup k l); split; intro H; congruence. Qed.

Lemma gather_node_ifaces b st n st' :
  gather_node_gen b st n = Ok st' ->
  match n with
  | NIface i => st_ifaces st' = ipair i :: st_ifaces st /\ alookup (i_name i) (st_ifaces st) = None
  | _ => st_ifaces st' = st_ifaces st
  end.
Proof.
  unfold gather_node_gen. destruct (b && cross_kind st n); [discriminate|].
  destruct n as [p|c|s|i]; cbn [gather_node0]; intro H.
  - inversion H; reflexivity.
  - destruct (mem_str _ _); inversion H; reflexivity.
  - destruct (has_key _ _); inversion H; reflexivity.
  - destruct (has_key (i_name i) (st_structs st)); try discriminate.
    destruct (has_key (i_name i) (st_ifaces st)) eqn:E; try discriminate.
    inversion H; subst; cbn. split; [reflexivity | now apply has_key_alookup].
Qed.

Lemma gather_nodes_ifaces b ns : forall st st',
  gather_nodes_gen b st ns = Ok st' ->
  st_ifaces st' = rev (map ipair (node_ifaces ns)) ++ st_ifaces st.
Proof.
  induction ns as [|n ns IH]; intros st st' H; cbn in H.
  - inversion H; reflexivity.
  - destruct (gather_node_gen b st n) as [st1| | |] eqn:E; cbn in H; try discriminate.
    rewrite (IH _ _ H). pose proof (gather_node_ifaces _ _ _ _ E) as G.
    destruct n as [p|c|s|i]; cbn [node_ifaces flat_map app map rev]; try (now rewrite G).
    destruct G as [G _]. rewrite G. cbn. now rewrite <- app_assoc.
Qed.

(* a name already present can not be declared again *)
Lemma gather_nodes_fresh b ns : forall st st' k,
  gather_nodes_gen b st ns = Ok st' -> alookup k (st_ifaces st) <> None ->
  find (fun i => String.eqb k (i_name i)) (node_ifaces ns) = None.
Proof.
  induction ns as [|n ns IH]; intros st st' k H Hk; cbn in H; [reflexivity|].
  destruct (gather_node_gen b st n) as [st1| | |] eqn:E; cbn in H; try discriminate.
  pose proof (gather_node_ifaces _ _ _ _ E) as G.
  destruct n as [p|c|s|i]; cbn [node_ifaces flat_map app find];
    try (apply (IH _ _ _ H); now rewrite G).
  destruct G as [G1 G2].
  destruct (String.eqb k (i_name i)) eqn:EK.
  - apply String.eqb_eq in EK. subst. contradiction.
  - apply (IH _ _ _ H). rewrite G1. cbn. now rewrite EK.
Qed.

Lemma gather_nodes_lookup b ns : forall st st' k,
  gather_nodes_gen b st ns = Ok st' ->
  alookup k (st_ifaces st') =
  match find (fun i => String.eqb k (i_name i)) (node_ifaces ns) with
  | Some i => Some i
  | None => alookup k (st_ifaces st)
  end.
Proof.
  induction ns as [|n ns IH]; intros st st' k H; cbn in H.
  - inversion H; reflexivity.
  - destruct (gather_node_gen b st n) as [st1| | |] eqn:E; cbn in H; try discriminate.
    rewrite (IH _ _ k H). pose proof (gather_node_ifaces _ _ _ _ E) as G.
    destruct n as [p|c|s|i]; cbn [node_ifaces flat_map app find]; try (now rewrite G).
    destruct G as [G1 G2].
    destruct (String.eqb k (i_name i)) eqn:EK.
    + rewrite (gather_nodes_fresh b _ _ _ k H).
      * rewrite G1. cbn. now rewrite EK.
      * rewrite G1. cbn. rewrite EK. discriminate.
    + rewrite G1. cbn. now rewrite EK.
Qed.

Lemma find_app {A} (p : A -> bool) l1 l2 :
  find p (l1 ++ l2) = match find p l1 with Some x => Some x | None => find p l2 end.
Proof. induction l1 as [|a l1 IH]; cbn; [reflexivity|]. destruct (p a); [reflexivity | exact IH]. Qed.

Lemma ast_ifaces_node_ifaces a : ast_ifaces a = node_ifaces (a_nodes a).
Proof. reflexivity. Qed.

Lemma gather_files_fresh b fs : forall st st' k,
  gather_files_gen b st fs = Ok st' -> alookup k (st_ifaces st) <> None ->
  find (fun i => String.eqb k (i_name i)) (all_ifaces fs) = None.
Proof.
  induction fs as [|a fs IH]; intros st st' k H Hk; cbn in H; [reflexivity|].
  destruct (gather_nodes_gen b st (a_nodes a)) as [st1| | |] eqn:E; cbn in H; try discriminate.
  unfold all_ifaces. cbn [flat_map]. rewrite find_app, ast_ifaces_node_ifaces.
  rewrite (gather_nodes_fresh b _ _ _ k E Hk).
  apply (IH _ _ _ H). rewrite (gather_nodes_lookup b _ _ _ k E).
  now rewrite (gather_nodes_fresh b _ _ _ k E Hk).
Qed.

Lemma gather_files_lookup b fs : forall st st' k,
  gather_files_gen b st fs = Ok st' ->
  alookup k (st_ifaces st') =
  match find (fun i => String.eqb k (i_name i)) (all_ifaces fs) with
  | Some i => Some i
  | None => alookup k (st_ifaces st)
  end.
Proof.
  induction fs as [|a fs IH]; intros st st' k H; cbn in H.
  - inversion H; reflexivity.
  - destruct (gather_nodes_gen b st (a_nodes a)) as [st1| | |] eqn:E; cbn in H; try discriminate.
    rewrite (IH _ _ k H). unfold all_ifaces. cbn [flat_map]. fold (all_ifaces fs).
    rewrite find_app, ast_ifaces_node_ifaces.
    rewrite (gather_nodes_lookup b _ _ _ k E).
    destruct (find (fun i => String.eqb k (i_name i)) (node_ifaces (a_nodes a))) as [i|] eqn:F.
    + rewrite (gather_files_fresh b _ _ _ k H); [reflexivity|].
      rewrite (gather_nodes_lookup b _ _ _ k E), F. discriminate.
    + reflexivity.
Qed.

Lemma gather_files_length b fs : forall st st',
  gather_files_gen b st fs = Ok st' ->
  List.length (st_ifaces st') = (List.length (all_ifaces fs) + List.length (st_ifaces st))%nat.
Proof.
  induction fs as [|a fs IH]; intros st st' H; cbn in H.
  - inversion H; reflexivity.
  - destruct (gather_nodes_gen b st (a_nodes a)) as [st1| | |] eqn:E; cbn in H; try discriminate.
    rewrite (IH _ _ H), (gather_nodes_ifaces b _ _ _ E).
    unfold all_ifaces. cbn [flat_map]. rewrite ast_ifaces_node_ifaces.
    rewrite !app_length, rev_length, map_length. lia.
Qed.

Theorem iface_lookup_is_find files st :
  gather_files st_empty files = Ok st ->
  forall k, iface_lookup st k = find_iface files k.
Proof.
  intros H k. unfold iface_lookup, find_iface.
  rewrite (gather_files_lookup _ _ _ _ k H). cbn.
  destruct (find _ _); reflexivity.
Qed.

Theorem iface_fuel_is_count files st :
  gather_files st_empty files = Ok st ->
  iface_fuel st = S (List.length (all_ifaces files)).
Proof.
  intro H. unfold iface_fuel. rewrite (gather_files_length _ _ _ _ H). cbn. now rewrite Nat.add_0_r.
Qed.
