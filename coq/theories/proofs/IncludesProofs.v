(* IncludesProofs.v — the include walk terminates, loads each file once, accepts only
   when every reachable include resolves and parses and no reachable cycle exists. *)
Require Import Base Includes.
Open Scope string_scope.
Open Scope list_scope.

Lemma path_eqb_eq a b : path_eqb a b = true <-> a = b.
Proof.
  unfold path_eqb. revert b. induction a as [|x a IH]; destruct b as [|y b]; cbn.
  - split; intro; reflexivity.
  - split; intro H; discriminate.
  - split; intro H; discriminate.
  - rewrite andb_true_iff, String.eqb_eq, IH. split; [intros [-> ->]; reflexivity | intro H; inversion H; auto].
Qed.

Lemma mem_path_In p l : mem_path p l = true <-> In p l.
Proof.
  induction l as [|x l IH]; cbn; [split; [discriminate | tauto]|].
  rewrite orb_true_iff, IH, path_eqb_eq. split; intros [H|H]; auto.
Qed.

Lemma lookup_file_In p l c : lookup_file p l = Some c -> In p (map fst l).
Proof.
  induction l as [|[q d] l IH]; cbn; [discriminate|].
  destruct (path_eqb p q) eqn:E; [apply path_eqb_eq in E; subst; auto | intro H; right; now apply IH].
Qed.

(* the resolved include graph *)
Definition includes_of (w : world) (p : path) : option (list string) :=
  match lookup_file p (w_files w) with Some (Some l) => Some l | _ => None end.

Definition edge (w : world) (p t : path) : Prop :=
  exists incs i, includes_of w p = Some incs /\ In i incs /\ resolve w p i = Some t.

Inductive reach (w : world) : path -> Prop :=
| reach_main : reach w (w_main w)
| reach_step p t : reach w p -> edge w p t -> reach w t.

Inductive steps (w : world) : path -> path -> Prop :=
| steps_one p t : edge w p t -> steps w p t
| steps_more p t u : edge w p t -> steps w t u -> steps w p u.

(* ---- one call of the walk, unfolded ---- *)

Definition go_incs (skip : bool) (f : nat) (w : world) (branch : list path) (cur : path) :=
  fix go (incs : list string) (loaded : list path) (calls : N) : wres :=
    match incs with
    | [] => WOk loaded calls
    | i :: r =>
        match resolve w cur i with
        | None => WMissing
        | Some t =>
            if mem_path t (cur :: branch) then WCycle
            else if skip && mem_path t loaded then go r loaded calls
            else match walk_gen skip f w (cur :: branch) t loaded calls with
                 | WOk l' c' => go r l' c'
                 | e => e
                 end
        end
    end.

Lemma walk_unfold skip f w branch cur loaded calls :
  walk_gen skip (S f) w branch cur loaded calls =
  match lookup_file cur (w_files w) with
  | None => WMissing
  | Some None => WParse
  | Some (Some incs) =>
      go_incs skip f w branch cur incs (if mem_path cur loaded then loaded else cur :: loaded) (calls + 1)%N
  end.
Proof. reflexivity. Qed.

(* ---- what acceptance means: the file and everything below it is in order ---- *)

(* [Fin w p]: p parses, each of its includes resolves, and the same holds - inductively, hence
   without a cycle - for every file it includes *)
Inductive Fin (w : world) : path -> Prop :=
| Fin_intro p incs :
    includes_of w p = Some incs ->
    (forall i, In i incs -> exists t, resolve w p i = Some t) ->
    (forall t, edge w p t -> Fin w t) ->
    Fin w p.

Lemma Fin_edge w p t : Fin w p -> edge w p t -> Fin w t.
Proof. intros H E. destruct H as [p incs _ _ H]. now apply H. Qed.

Lemma steps_snoc w a b c : steps w a b -> edge w b c -> steps w a c.
Proof.
  induction 1 as [p t E | p t u E S IH]; intro E2.
  - eapply steps_more; [exact E | now apply steps_one].
  - eapply steps_more; [exact E | now apply IH].
Qed.

Lemma Fin_no_cycle w p : Fin w p -> ~ steps w p p.
Proof.
  induction 1 as [p incs HI HR HF IH]. intro S.
  inversion S as [p0 t E | p0 t u E S']; subst.
  - exact (IH p E (steps_one _ _ _ E)).
  - exact (IH t E (steps_snoc _ _ _ _ S' E)).
Qed.

(* loaded files that are not on the branch are finished *)
Definition Inv (w : world) (L B : list path) : Prop := forall p, In p L -> ~ In p B -> Fin w p.

Lemma go_incs_fin skip f w branch cur
  (IH : forall t ld cl l c, Inv w ld (cur :: branch) ->
        walk_gen skip f w (cur :: branch) t ld cl = WOk l c ->
        Inv w l (cur :: branch) /\ In t l /\ incl ld l) :
  forall incs loaded calls l c, Inv w loaded (cur :: branch) ->
    go_incs skip f w branch cur incs loaded calls = WOk l c ->
    Inv w l (cur :: branch) /\ incl loaded l /\
    forall i, In i incs -> exists t, resolve w cur i = Some t /\ Fin w t.
Proof.
  induction incs as [|j incs IHi]; intros loaded calls l c HI H; cbn [go_incs] in H.
  - inversion H; subst. repeat split; [exact HI | apply incl_refl | intros i []].
  - destruct (resolve w cur j) as [t|] eqn:ER; [|discriminate].
    destruct (mem_path t (cur :: branch)) eqn:EM; [discriminate|].
    assert (NB : ~ In t (cur :: branch)) by (intro X; apply mem_path_In in X; congruence).
    destruct (skip && mem_path t loaded) eqn:ES.
    + apply andb_prop in ES. destruct ES as [_ ES]. apply mem_path_In in ES.
      destruct (IHi _ _ _ _ HI H) as (A & B & C). repeat split; [exact A | exact B|].
      intros i [<-|Hi]; [exists t; split; [exact ER | now apply HI] | now apply C].
    + destruct (walk_gen skip f w (cur :: branch) t loaded calls) as [l1 c1| | | |] eqn:EW; try discriminate.
      destruct (IH _ _ _ _ _ HI EW) as (A1 & T1 & I1).
      destruct (IHi _ _ _ _ A1 H) as (A & B & C). repeat split; [exact A | eapply incl_tran; eassumption|].
      intros i [<-|Hi]; [exists t; split; [exact ER | now apply A1] | now apply C].
Qed.

Lemma walk_fin skip w : forall f branch cur loaded calls l c,
  Inv w loaded branch -> walk_gen skip f w branch cur loaded calls = WOk l c ->
  Inv w l branch /\ In cur l /\ incl loaded l.
Proof.
  induction f as [|f IH]; intros branch cur loaded calls l c HI H; [discriminate|].
  rewrite walk_unfold in H.
  destruct (lookup_file cur (w_files w)) as [[incs|]|] eqn:EL; try discriminate.
  set (loaded0 := if mem_path cur loaded then loaded else cur :: loaded) in *.
  assert (I0 : Inv w loaded0 (cur :: branch)).
  { intros p Hp Hn. apply HI.
    - unfold loaded0 in Hp. destruct (mem_path cur loaded); [exact Hp|].
      destruct Hp as [<-|Hp]; [exfalso; apply Hn; now left | exact Hp].
    - intro X. apply Hn. now right. }
  assert (C0 : In cur loaded0).
  { unfold loaded0. destruct (mem_path cur loaded) eqn:EM; [now apply mem_path_In | now left]. }
  assert (L0 : incl loaded loaded0).
  { unfold loaded0. destruct (mem_path cur loaded); [apply incl_refl | apply incl_tl, incl_refl]. }
  destruct (go_incs_fin skip f w branch cur (fun t ld cl l0 c0 => IH (cur :: branch) t ld cl l0 c0)
              incs loaded0 _ l c I0 H) as (A & B & C).
  assert (FC : Fin w cur).
  { apply (Fin_intro w cur incs).
    - unfold includes_of. now rewrite EL.
    - intros i Hi. destruct (C i Hi) as (t & HR & _). eauto.
    - intros t (incs' & i & HI' & Hin & HR). unfold includes_of in HI'. rewrite EL in HI'.
      inversion HI'; subst incs'. destruct (C i Hin) as (t' & HR' & FT). rewrite HR in HR'.
      inversion HR'; subst t'. exact FT. }
  repeat split.
  - intros p Hp Hn. destruct (path_eqb p cur) eqn:E.
    + apply path_eqb_eq in E. subst p. exact FC.
    + apply A; [exact Hp|]. intros [X|X]; [subst p; rewrite (proj2 (path_eqb_eq cur cur) eq_refl) in E; discriminate | contradiction].
  - apply B. exact C0.
  - eapply incl_tran; eassumption.
Qed.

Theorem accepted_main_fin skip w l c : walk_main_gen skip w = WOk l c -> Fin w (w_main w).
Proof.
  intro H. unfold walk_main_gen in H.
  destruct (walk_fin skip w _ _ _ _ _ _ _ (fun p (X : In p []) => match X with end) H) as (A & B & _).
  apply A; [exact B | intros []].
Qed.

Lemma reach_fin skip w l c : walk_main_gen skip w = WOk l c -> forall p, reach w p -> Fin w p.
Proof.
  intros H p R. induction R as [|p t R IH E]; [exact (accepted_main_fin _ _ _ _ H) | exact (Fin_edge _ _ _ IH E)].
Qed.

Theorem accepted_reachable_resolve skip w l c :
  walk_main_gen skip w = WOk l c ->
  forall p, reach w p ->
    exists incs, includes_of w p = Some incs /\ forall i, In i incs -> exists t, resolve w p i = Some t.
Proof.
  intros H p R. destruct (reach_fin _ _ _ _ H p R) as [p incs HI HR _]. exists incs. split; assumption.
Qed.

Theorem accepted_no_reachable_cycle skip w l c :
  walk_main_gen skip w = WOk l c -> forall p, reach w p -> ~ steps w p p.
Proof. intros H p R. apply Fin_no_cycle. exact (reach_fin _ _ _ _ H p R). Qed.

(* ---- termination: the fuel of walk_main is never exhausted ---- *)

Lemma go_incs_not_fuel skip f w branch cur
  (IH : forall t ld cl, ~ In t (cur :: branch) -> walk_gen skip f w (cur :: branch) t ld cl <> WFuel) :
  forall incs loaded calls, go_incs skip f w branch cur incs loaded calls <> WFuel.
Proof.
  induction incs as [|j incs IHi]; intros loaded calls; cbn [go_incs]; [discriminate|].
  destruct (resolve w cur j) as [t|]; [|discriminate].
  destruct (mem_path t (cur :: branch)) eqn:EM; [discriminate|].
  assert (NI : ~ In t (cur :: branch)) by (intro X; apply mem_path_In in X; congruence).
  destruct (skip && mem_path t loaded); [apply IHi|].
  specialize (IH t loaded calls NI).
  destruct (walk_gen skip f w (cur :: branch) t loaded calls); try discriminate; [apply IHi | contradiction].
Qed.

Lemma walk_not_fuel skip w : forall f branch cur ld cl,
  NoDup branch -> ~ In cur branch -> incl branch (map fst (w_files w)) ->
  (List.length (w_files w) < f + List.length branch)%nat ->
  walk_gen skip f w branch cur ld cl <> WFuel.
Proof.
  induction f as [|f IH]; intros branch cur ld cl ND NI INC LEN.
  - exfalso. cbn in LEN.
    pose proof (NoDup_incl_length ND INC) as L. rewrite map_length in L. lia.
  - rewrite walk_unfold.
    destruct (lookup_file cur (w_files w)) as [[incs|]|] eqn:EL; try discriminate.
    apply go_incs_not_fuel. intros t ld' cl' NT.
    apply IH.
    + constructor; assumption.
    + exact NT.
    + intros x [<-|Hx]; [exact (lookup_file_In _ _ _ EL) | now apply INC].
    + cbn [List.length]. lia.
Qed.

Theorem walk_terminates skip w : walk_main_gen skip w <> WFuel.
Proof.
  unfold walk_main_gen. apply walk_not_fuel.
  - constructor.
  - intros [].
  - intros x [].
  - cbn. lia.
Qed.

(* ---- each file is loaded once; what is loaded is a file ---- *)

Definition files_of (w : world) : list path := map fst (w_files w).

Lemma go_incs_nodup skip f w branch cur
  (IH : forall t ld cl l c, NoDup ld -> incl ld (files_of w) -> walk_gen skip f w (cur :: branch) t ld cl = WOk l c ->
        NoDup l /\ incl l (files_of w)) :
  forall incs loaded calls l c, NoDup loaded -> incl loaded (files_of w) ->
    go_incs skip f w branch cur incs loaded calls = WOk l c -> NoDup l /\ incl l (files_of w).
Proof.
  induction incs as [|j incs IHi]; intros loaded calls l c ND IN H; cbn [go_incs] in H.
  - inversion H; subst. split; assumption.
  - destruct (resolve w cur j) as [t|]; [|discriminate].
    destruct (mem_path t (cur :: branch)); [discriminate|].
    destruct (skip && mem_path t loaded); [exact (IHi _ _ _ _ ND IN H)|].
    destruct (walk_gen skip f w (cur :: branch) t loaded calls) as [l1 c1| | | |] eqn:EW; try discriminate.
    destruct (IH _ _ _ _ _ ND IN EW) as [N1 I1]. exact (IHi _ _ _ _ N1 I1 H).
Qed.

Lemma walk_nodup skip w : forall f branch cur ld cl l c,
  NoDup ld -> incl ld (files_of w) -> walk_gen skip f w branch cur ld cl = WOk l c ->
  NoDup l /\ incl l (files_of w).
Proof.
  induction f as [|f IH]; intros branch cur ld cl l c ND IN H; [discriminate|].
  rewrite walk_unfold in H.
  destruct (lookup_file cur (w_files w)) as [[incs|]|] eqn:EL; try discriminate.
  destruct (mem_path cur ld) eqn:EM.
  - exact (go_incs_nodup skip f w branch cur (fun t ld0 cl0 l0 c0 => IH (cur :: branch) t ld0 cl0 l0 c0) incs ld _ l c ND IN H).
  - assert (ND' : NoDup (cur :: ld)).
    { constructor; [|exact ND]. intro X. apply mem_path_In in X. congruence. }
    assert (IN' : incl (cur :: ld) (files_of w)).
    { intros x [<-|Hx]; [exact (lookup_file_In _ _ _ EL) | now apply IN]. }
    exact (go_incs_nodup skip f w branch cur (fun t ld0 cl0 l0 c0 => IH (cur :: branch) t ld0 cl0 l0 c0) incs _ _ l c ND' IN' H).
Qed.

Theorem loaded_once skip w l c : walk_main_gen skip w = WOk l c -> NoDup l /\ incl l (files_of w).
Proof. intro H. exact (walk_nodup skip w _ _ _ _ _ _ _ (NoDup_nil _) (fun x (X : In x []) => match X with end) H). Qed.

(* ---- the repaired walk visits every file once: the number of walks is the number of
        loaded files, at most the number of files of the world ---- *)

Lemma go_incs_calls f w branch cur
  (IH : forall t ld cl l c, ~ In t ld -> walk_gen true f w (cur :: branch) t ld cl = WOk l c ->
        (c + N.of_nat (List.length ld) = cl + N.of_nat (List.length l))%N) :
  forall incs loaded calls l c,
    go_incs true f w branch cur incs loaded calls = WOk l c ->
    (c + N.of_nat (List.length loaded) = calls + N.of_nat (List.length l))%N.
Proof.
  induction incs as [|j incs IHi]; intros loaded calls l c H; cbn [go_incs] in H.
  - inversion H; subst. reflexivity.
  - destruct (resolve w cur j) as [t|]; [|discriminate].
    destruct (mem_path t (cur :: branch)); [discriminate|]. cbn [andb] in H.
    destruct (mem_path t loaded) eqn:EM; [exact (IHi _ _ _ _ H)|].
    destruct (walk_gen true f w (cur :: branch) t loaded calls) as [l1 c1| | | |] eqn:EW; try discriminate.
    assert (NI : ~ In t loaded) by (intro X; apply mem_path_In in X; congruence).
    pose proof (IH _ _ _ _ _ NI EW) as E1. pose proof (IHi _ _ _ _ H) as E2. lia.
Qed.

Lemma walk_calls w : forall f branch cur ld cl l c,
  ~ In cur ld -> walk_gen true f w branch cur ld cl = WOk l c ->
  (c + N.of_nat (List.length ld) = cl + N.of_nat (List.length l))%N.
Proof.
  induction f as [|f IH]; intros branch cur ld cl l c NI H; [discriminate|].
  rewrite walk_unfold in H.
  destruct (lookup_file cur (w_files w)) as [[incs|]|]; try discriminate.
  destruct (mem_path cur ld) eqn:EM; [apply mem_path_In in EM; contradiction|].
  pose proof (go_incs_calls f w branch cur (fun t ld0 cl0 l0 c0 => IH (cur :: branch) t ld0 cl0 l0 c0) incs _ _ l c H) as E.
  cbn [List.length] in E. lia.
Qed.

Theorem walked_once w l c :
  walk_main_gen true w = WOk l c ->
  c = N.of_nat (List.length l) /\ (List.length l <= List.length (w_files w))%nat.
Proof.
  intro H. split.
  - pose proof (walk_calls w _ _ _ _ _ _ _ (fun X : In (w_main w) [] => match X with end) H) as E.
    cbn [List.length] in E. lia.
  - destruct (loaded_once _ _ _ _ H) as [ND IN].
    pose proof (NoDup_incl_length ND IN) as L. unfold files_of in L. now rewrite map_length in L.
Qed.

(* the pinned upstream walk visited a file once per path that reaches it: a ladder of n
   diamonds (2n+1 files) takes 2^(n+1)-1 walks *)
Fixpoint lvl (k : nat) : string := match k with O => "" | S k' => String "x" (lvl k') end.
Definition ladder_file (k n : nat) (side : string) : path * option (list string) :=
  (["r"; (side ++ lvl k ++ ".idl")%string],
   Some (if Nat.ltb (S k) n then [("a" ++ lvl (S k) ++ ".idl")%string; ("b" ++ lvl (S k) ++ ".idl")%string] else [])).
Definition ladder (n : nat) : world :=
  mkW ((["r"; "m.idl"], Some ["a.idl"; "b.idl"]) ::
       flat_map (fun k => [ladder_file k n "a"; ladder_file k n "b"]) (seq 0 n)) [] ["r"; "m.idl"].

Example ladder_walks_upstream :
  (match walk_main_gen false (ladder 9) with WOk l c => Some (N.of_nat (List.length l), c) | _ => None end) = Some (19, 1023)%N /\
  (match walk_main_gen true (ladder 9) with WOk l c => Some (N.of_nat (List.length l), c) | _ => None end) = Some (19, 19)%N.
Proof. split; vm_compute; reflexivity. Qed.

(* ---- the converse: whatever is in order is accepted ---- *)

Lemma steps_irrefl_of_fin w p : Fin w p -> ~ steps w p p.
Proof. exact (Fin_no_cycle w p). Qed.

Definition is_ok_or_fuel (r : wres) : Prop :=
  match r with WOk _ _ | WFuel => True | _ => False end.

Lemma go_incs_no_error skip f w branch cur
  (FC : Fin w cur) (BR : forall b, In b branch -> steps w b cur)
  (IH : forall t ld cl, Fin w t -> (forall b, In b (cur :: branch) -> steps w b t) ->
        is_ok_or_fuel (walk_gen skip f w (cur :: branch) t ld cl)) :
  forall incs, (forall i, In i incs -> exists t, resolve w cur i = Some t /\ edge w cur t) ->
  forall loaded calls, is_ok_or_fuel (go_incs skip f w branch cur incs loaded calls).
Proof.
  induction incs as [|j incs IHi]; intros HE loaded calls; cbn [go_incs]; [exact I|].
  destruct (HE j (or_introl eq_refl)) as (t & HR & E). rewrite HR.
  assert (FT : Fin w t) by exact (Fin_edge _ _ _ FC E).
  assert (NB : mem_path t (cur :: branch) = false).
  { destruct (mem_path t (cur :: branch)) eqn:EM; [exfalso | reflexivity].
    apply mem_path_In in EM. destruct EM as [<-|EM].
    - exact (Fin_no_cycle _ _ FC (steps_one _ _ _ E)).
    - exact (Fin_no_cycle _ _ FT (steps_snoc _ _ _ _ (BR _ EM) E)). }
  rewrite NB.
  assert (HE' : forall i, In i incs -> exists t0, resolve w cur i = Some t0 /\ edge w cur t0)
    by (intros i Hi; apply HE; now right).
  destruct (skip && mem_path t loaded); [now apply IHi|].
  assert (B' : forall b, In b (cur :: branch) -> steps w b t).
  { intros b [<-|Hb]; [now apply steps_one | exact (steps_snoc _ _ _ _ (BR _ Hb) E)]. }
  specialize (IH t loaded calls FT B').
  destruct (walk_gen skip f w (cur :: branch) t loaded calls); try contradiction; [now apply IHi | exact I].
Qed.

Lemma walk_no_error skip w : forall f branch cur ld cl,
  Fin w cur -> (forall b, In b branch -> steps w b cur) ->
  is_ok_or_fuel (walk_gen skip f w branch cur ld cl).
Proof.
  induction f as [|f IH]; intros branch cur ld cl FC BR; [exact I|].
  rewrite walk_unfold. destruct FC as [cur incs HI HR HF].
  unfold includes_of in HI.
  destruct (lookup_file cur (w_files w)) as [[incs'|]|] eqn:EL; try discriminate.
  inversion HI; subst incs'.
  apply go_incs_no_error.
  - apply (Fin_intro w cur incs); [unfold includes_of; now rewrite EL | exact HR | exact HF].
  - exact BR.
  - intros t ld' cl' FT B'. now apply IH.
  - intros i Hi. destruct (HR i Hi) as (t & HT). exists t. split; [exact HT|].
    exists incs, i. repeat split; [unfold includes_of; now rewrite EL | exact Hi | exact HT].
Qed.

Theorem fin_accepted skip w : Fin w (w_main w) -> exists l c, walk_main_gen skip w = WOk l c.
Proof.
  intro F. pose proof (walk_no_error skip w (S (List.length (w_files w))) [] (w_main w) [] 0%N F
                         (fun b (X : In b []) => match X with end)) as H.
  pose proof (walk_terminates skip w) as T. unfold walk_main_gen in *.
  destruct (walk_gen skip (S (List.length (w_files w))) w [] (w_main w) [] 0%N); try contradiction; eauto.
Qed.

(* ---- "in order" in the words of the property: every reachable file parses and has every
        include resolved, and no reachable file lies on a cycle ---- *)

Definition ok_node (w : world) (p : path) : Prop :=
  exists incs, includes_of w p = Some incs /\ forall i, In i incs -> exists t, resolve w p i = Some t.

Inductive rt (w : world) (a : path) : path -> Prop :=
| rt_refl : rt w a a
| rt_step p t : rt w a p -> edge w p t -> rt w a t.

Lemma rt_main_reach w p : rt w (w_main w) p <-> reach w p.
Proof.
  split; induction 1; try constructor; econstructor; eassumption.
Qed.

Lemma rt_edge_trans w a t p : edge w a t -> rt w t p -> rt w a p.
Proof.
  intros E R. induction R as [|p u R IH E2]; [eapply rt_step; [apply rt_refl | exact E] | eapply rt_step; eassumption].
Qed.

Lemma file_exists_In w p : file_exists w p = true -> In p (files_of w).
Proof.
  unfold file_exists, files_of. destruct (lookup_file p (w_files w)) eqn:E; [|discriminate].
  intros _. exact (lookup_file_In _ _ _ E).
Qed.

Lemma resolve_is_file w cur i t : resolve w cur i = Some t -> In t (files_of w).
Proof.
  unfold resolve. destruct (has_dir_part i).
  - match goal with |- context [file_exists w ?p] => destruct (file_exists w p) eqn:E end; [|discriminate].
    intro H. inversion H; subst. now apply file_exists_In.
  - intro H. apply find_some in H. destruct H as [_ H]. now apply file_exists_In.
Qed.

(* an acyclic part of a finite graph is well founded: the argument of walk_not_fuel *)
Lemma acyclic_fin w : forall f path cur,
  NoDup path -> ~ In cur path -> incl path (files_of w) ->
  (List.length (w_files w) < f + List.length path)%nat ->
  (forall b, In b path -> steps w b cur) ->
  (forall p, rt w cur p -> ok_node w p /\ ~ steps w p p) ->
  Fin w cur.
Proof.
  induction f as [|f IH]; intros path cur ND NI INC LEN BR OK.
  - exfalso. cbn in LEN. pose proof (NoDup_incl_length ND INC) as L.
    unfold files_of in L. rewrite map_length in L. lia.
  - destruct (OK cur (rt_refl _ _)) as [(incs & HI & HR) NC].
    apply (Fin_intro w cur incs HI HR). intros t E.
    assert (CF : In cur (files_of w)).
    { unfold includes_of in HI. destruct (lookup_file cur (w_files w)) as [[x|]|] eqn:EL; try discriminate.
      exact (lookup_file_In _ _ _ EL). }
    apply (IH (cur :: path) t).
    + constructor; assumption.
    + intros [<-|Hin].
      * exact (NC (steps_one _ _ _ E)).
      * destruct (OK t (rt_step _ _ _ _ (rt_refl _ _) E)) as [_ NT].
        exact (NT (steps_snoc _ _ _ _ (BR _ Hin) E)).
    + intros x [<-|Hx]; [exact CF | now apply INC].
    + cbn [List.length]. lia.
    + intros b [<-|Hb]; [now apply steps_one | exact (steps_snoc _ _ _ _ (BR _ Hb) E)].
    + intros p R. apply OK. exact (rt_edge_trans _ _ _ _ E R).
Qed.

(* compilation succeeds exactly when every reachable file parses with every include resolved
   and the reachable include graph has no cycle *)
Theorem accepts_iff skip w :
  (exists l c, walk_main_gen skip w = WOk l c) <->
  (forall p, reach w p -> ok_node w p) /\ (forall p, reach w p -> ~ steps w p p).
Proof.
  split.
  - intros (l & c & H). split.
    + intros p R. exact (accepted_reachable_resolve _ _ _ _ H p R).
    + intros p R. exact (accepted_no_reachable_cycle _ _ _ _ H p R).
  - intros [A B]. apply fin_accepted.
    apply (acyclic_fin w (S (List.length (w_files w))) [] (w_main w)).
    + constructor.
    + intros [].
    + intros x [].
    + cbn. lia.
    + intros b [].
    + intros p R. apply rt_main_reach in R. split; [now apply A | now apply B].
Qed.

(* ---- exactly the reachable files are loaded ---- *)

Definition Closed (w : world) (L B : list path) : Prop :=
  forall p, In p L -> ~ In p B -> forall t, edge w p t -> In t L.

Lemma go_incs_closed skip f w branch cur
  (IH : forall t ld cl l c, Closed w ld (cur :: branch) ->
        walk_gen skip f w (cur :: branch) t ld cl = WOk l c ->
        Closed w l (cur :: branch) /\ In t l /\ incl ld l) :
  forall incs loaded calls l c, Closed w loaded (cur :: branch) ->
    go_incs skip f w branch cur incs loaded calls = WOk l c ->
    Closed w l (cur :: branch) /\ incl loaded l /\
    forall i, In i incs -> exists t, resolve w cur i = Some t /\ In t l.
Proof.
  induction incs as [|j incs IHi]; intros loaded calls l c HI H; cbn [go_incs] in H.
  - inversion H; subst. repeat split; [exact HI | apply incl_refl | intros i []].
  - destruct (resolve w cur j) as [t|] eqn:ER; [|discriminate].
    destruct (mem_path t (cur :: branch)) eqn:EM; [discriminate|].
    destruct (skip && mem_path t loaded) eqn:ES.
    + apply andb_prop in ES. destruct ES as [_ ES]. apply mem_path_In in ES.
      destruct (IHi _ _ _ _ HI H) as (A & B & C). repeat split; [exact A | exact B|].
      intros i [<-|Hi]; [exists t; split; [exact ER | now apply B] | now apply C].
    + destruct (walk_gen skip f w (cur :: branch) t loaded calls) as [l1 c1| | | |] eqn:EW; try discriminate.
      destruct (IH _ _ _ _ _ HI EW) as (A1 & T1 & I1).
      destruct (IHi _ _ _ _ A1 H) as (A & B & C). repeat split; [exact A | eapply incl_tran; eassumption|].
      intros i [<-|Hi]; [exists t; split; [exact ER | now apply B] | now apply C].
Qed.

Lemma walk_closed skip w : forall f branch cur loaded calls l c,
  Closed w loaded branch -> walk_gen skip f w branch cur loaded calls = WOk l c ->
  Closed w l branch /\ In cur l /\ incl loaded l.
Proof.
  induction f as [|f IH]; intros branch cur loaded calls l c HI H; [discriminate|].
  rewrite walk_unfold in H.
  destruct (lookup_file cur (w_files w)) as [[incs|]|] eqn:EL; try discriminate.
  set (loaded0 := if mem_path cur loaded then loaded else cur :: loaded) in *.
  assert (L0 : incl loaded loaded0).
  { unfold loaded0. destruct (mem_path cur loaded); [apply incl_refl | apply incl_tl, incl_refl]. }
  assert (I0 : Closed w loaded0 (cur :: branch)).
  { intros p Hp Hn t E. apply L0. apply (HI p).
    - unfold loaded0 in Hp. destruct (mem_path cur loaded); [exact Hp|].
      destruct Hp as [<-|Hp]; [exfalso; apply Hn; now left | exact Hp].
    - intro X. apply Hn. now right.
    - exact E. }
  assert (C0 : In cur loaded0).
  { unfold loaded0. destruct (mem_path cur loaded) eqn:EM; [now apply mem_path_In | now left]. }
  destruct (go_incs_closed skip f w branch cur (fun t ld cl l0 c0 => IH (cur :: branch) t ld cl l0 c0)
              incs loaded0 _ l c I0 H) as (A & B & C).
  repeat split.
  - intros p Hp Hn t E. destruct (path_eqb p cur) eqn:EQ.
    + apply path_eqb_eq in EQ. subst p. destruct E as (incs' & i & HI' & Hin & HR).
      unfold includes_of in HI'. rewrite EL in HI'. inversion HI'; subst incs'.
      destruct (C i Hin) as (t' & HR' & HT). rewrite HR in HR'. inversion HR'; subst t'. exact HT.
    + apply (A p Hp); [|exact E].
      intros [X|X]; [subst p; rewrite (proj2 (path_eqb_eq cur cur) eq_refl) in EQ; discriminate | contradiction].
  - apply B. exact C0.
  - eapply incl_tran; eassumption.
Qed.

Lemma go_incs_reach skip f w branch cur (RC : reach w cur)
  (IH : forall t ld cl l c, reach w t -> (forall p, In p ld -> reach w p) ->
        walk_gen skip f w (cur :: branch) t ld cl = WOk l c -> forall p, In p l -> reach w p) :
  forall incs, (exists all, includes_of w cur = Some all /\ incl incs all) ->
  forall loaded calls l c, (forall p, In p loaded -> reach w p) ->
    go_incs skip f w branch cur incs loaded calls = WOk l c -> forall p, In p l -> reach w p.
Proof.
  induction incs as [|j incs IHi]; intros HA loaded calls l c HL H; cbn [go_incs] in H.
  - inversion H; subst. exact HL.
  - destruct (resolve w cur j) as [t|] eqn:ER; [|discriminate].
    destruct (mem_path t (cur :: branch)); [discriminate|].
    assert (HA' : exists all, includes_of w cur = Some all /\ incl incs all).
    { destruct HA as (all & H1 & H2). exists all. split; [exact H1 | intros x Hx; apply H2; now right]. }
    destruct (skip && mem_path t loaded); [exact (IHi HA' _ _ _ _ HL H)|].
    destruct (walk_gen skip f w (cur :: branch) t loaded calls) as [l1 c1| | | |] eqn:EW; try discriminate.
    assert (RT : reach w t).
    { destruct HA as (all & H1 & H2). apply (reach_step w cur t RC). exists all, j.
      repeat split; [exact H1 | apply H2; now left | exact ER]. }
    exact (IHi HA' _ _ _ _ (IH _ _ _ _ _ RT HL EW) H).
Qed.

Lemma walk_reach skip w : forall f branch cur loaded calls l c,
  reach w cur -> (forall p, In p loaded -> reach w p) ->
  walk_gen skip f w branch cur loaded calls = WOk l c -> forall p, In p l -> reach w p.
Proof.
  induction f as [|f IH]; intros branch cur loaded calls l c RC HL H; [discriminate|].
  rewrite walk_unfold in H.
  destruct (lookup_file cur (w_files w)) as [[incs|]|] eqn:EL; try discriminate.
  refine (go_incs_reach skip f w branch cur RC (fun t ld cl l0 c0 => IH (cur :: branch) t ld cl l0 c0) incs _ _ _ l c _ H).
  - exists incs. split; [unfold includes_of; now rewrite EL | apply incl_refl].
  - intros p Hp. destruct (mem_path cur loaded); [now apply HL|].
    destruct Hp as [<-|Hp]; [exact RC | now apply HL].
Qed.

Theorem loaded_is_reachable skip w l c :
  walk_main_gen skip w = WOk l c -> forall p, In p l <-> reach w p.
Proof.
  intro H. unfold walk_main_gen in H. intro p. split.
  - apply (walk_reach skip w _ _ _ _ _ _ _ (reach_main w) (fun q (X : In q []) => match X with end) H).
  - destruct (walk_closed skip w _ _ _ _ _ _ _ (fun q (X : In q []) => match X with end) H) as (A & B & _).
    intro R. induction R as [|q t R IH E]; [exact B | exact (A q IH (fun X => X) t E)].
Qed.

(* ---- resolution is the rule of the property text (Spec_C12.spec_resolve) ---- *)
Require Import spec.Spec_C12.

Lemma sapp_nil_r s : (s ++ "")%string = s.
Proof. induction s as [|c s IH]; cbn; [reflexivity | now rewrite IH]. Qed.
Lemma sapp_assoc a b c : ((a ++ b) ++ c)%string = (a ++ (b ++ c))%string.
Proof. induction a as [|x a IH]; cbn; [reflexivity | now rewrite IH]. Qed.

Lemma split_slash_cons s : forall cur, exists x r, split_slash s cur = x :: r.
Proof.
  induction s as [|ch s IH]; intros cur; cbn; [eauto|].
  destruct (Ascii.eqb ch "/"); [eauto | apply IH].
Qed.

Lemma split_slash_single s : forall cur x, split_slash s cur = [x] -> x = (cur ++ s)%string.
Proof.
  induction s as [|ch s IH]; intros cur x H; cbn in H.
  - inversion H. now rewrite sapp_nil_r.
  - destruct (Ascii.eqb ch "/").
    + destruct (split_slash_cons s "") as (y & r & E). rewrite E in H. discriminate.
    + rewrite (IH _ _ H). rewrite sapp_assoc. reflexivity.
Qed.

Lemma find_map_filter (w : world) (name : string) dirs :
  find (file_exists w) (map (fun d => d ++ [name]) dirs) =
  match filter (fun d => file_exists w (d ++ [name])) dirs with
  | d :: _ => Some (d ++ [name])
  | [] => None
  end.
Proof.
  induction dirs as [|d dirs IH]; cbn; [reflexivity|].
  destruct (file_exists w (d ++ [name])); [reflexivity | exact IH].
Qed.

Theorem resolve_is_spec w cur inc : resolve w cur inc = spec_resolve w cur inc.
Proof.
  unfold resolve, spec_resolve, has_dir_part, search_dirs.
  destruct (split_slash inc "") as [|x [|y r]] eqn:E.
  - destruct (split_slash_cons inc "") as (a & b & E'). rewrite E in E'. discriminate.
  - apply split_slash_single in E. cbn in E. subst x. apply find_map_filter.
  - reflexivity.
Qed.
