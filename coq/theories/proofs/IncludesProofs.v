(* IncludesProofs.v — the include walk terminates, loads each file once, accepts only
   when every reachable include resolves and parses and no reachable cycle exists. *)
Require Import Base Includes.
Open Scope string_scope.
Open Scope list_scope.

Lemma path_eqb_eq a b : path_eqb a b = true <-> a = b.
Proof.
  unfold path_eqb. revert b. induction a as [|x a IH]; destruct b as [|y b]; cbn.
  - split; intro; reflexivity.
  - split; intro H; discriminate.
  - split; intro H; discriminate.
  - rewrite andb_true_iff, String.eqb_eq, IH. split; [intros [-> ->]; reflexivity | intro H; inversion H; auto].
Qed.

Lemma mem_path_In p l : mem_path p l = true <-> In p l.
Proof.
  induction l as [|x l IH]; cbn; [split; [discriminate | tauto]|].
  rewrite orb_true_iff, IH, path_eqb_eq. split; intros [H|H]; auto.
Qed.

Lemma lookup_file_In p l c : lookup_file p l = Some c -> In p (map fst l).
Proof.
  induction l as [|[q d] l IH]; cbn; [discriminate|].
  destruct (path_eqb p q) eqn:E; [apply path_eqb_eq in E; subst; auto | intro H; right; now apply IH].
Qed.

(* the resolved include graph *)
Definition includes_of (w : world) (p : path) : option (list string) :=
  match lookup_file p (w_files w) with Some (Some l) => Some l | _ => None end.

Definition edge (w : world) (p t : path) : Prop :=
  exists incs i, includes_of w p = Some incs /\ In i incs /\ resolve w p i = Some t.

Inductive reach (w : world) : path -> Prop :=
| reach_main : reach w (w_main w)
| reach_step p t : reach w p -> edge w p t -> reach w t.

Inductive steps (w : world) : path -> path -> Prop :=
| steps_one p t : edge w p t -> steps w p t
| steps_more p t u : edge w p t -> steps w t u -> steps w p u.

(* ---- one call of the walk, unfolded ---- *)

Definition go_incs (f : nat) (w : world) (branch : list path) (cur : path) :=
  fix go (incs : list string) (loaded : list path) : wres :=
    match incs with
    | [] => WOk loaded
    | i :: r =>
        match resolve w cur i with
        | None => WMissing
        | Some t =>
            if mem_path t (cur :: branch) then WCycle
            else match walk f w (cur :: branch) t loaded with
                 | WOk l' => go r l'
                 | e => e
                 end
        end
    end.

Lemma walk_unfold f w branch cur loaded :
  walk (S f) w branch cur loaded =
  match lookup_file cur (w_files w) with
  | None => WMissing
  | Some None => WParse
  | Some (Some incs) =>
      go_incs f w branch cur incs (if mem_path cur loaded then loaded else cur :: loaded)
  end.
Proof. reflexivity. Qed.

(* a successful walk of [cur]: its file parses, every include resolves to a file not on the
   branch, and the walk of that file (with [cur] pushed on the branch) succeeds *)
Lemma go_incs_ok f w branch cur : forall incs loaded l,
  go_incs f w branch cur incs loaded = WOk l ->
  forall i, In i incs ->
    exists t ld l', resolve w cur i = Some t /\ ~ In t (cur :: branch) /\
                    walk f w (cur :: branch) t ld = WOk l'.
Proof.
  induction incs as [|j incs IH]; intros loaded l H i Hi; [destruct Hi|].
  cbn [go_incs] in H.
  destruct (resolve w cur j) as [t|] eqn:ER; [|discriminate].
  destruct (mem_path t (cur :: branch)) eqn:EM; [discriminate|].
  destruct (walk f w (cur :: branch) t loaded) as [l1| | | |] eqn:EW; try discriminate.
  destruct Hi as [<-|Hi].
  - exists t, loaded, l1. repeat split; try assumption.
    intro Hin. apply mem_path_In in Hin. congruence.
  - exact (IH _ _ H i Hi).
Qed.

Lemma walk_ok_inv f w branch cur loaded l :
  walk f w branch cur loaded = WOk l ->
  exists f' incs, f = S f' /\ includes_of w cur = Some incs /\
    forall i, In i incs ->
      exists t ld l', resolve w cur i = Some t /\ ~ In t (cur :: branch) /\
                      walk f' w (cur :: branch) t ld = WOk l'.
Proof.
  destruct f as [|f']; [discriminate|]. rewrite walk_unfold. unfold includes_of.
  destruct (lookup_file cur (w_files w)) as [[incs|]|]; try discriminate.
  intro H. exists f', incs. repeat split. intros i Hi. exact (go_incs_ok _ _ _ _ _ _ _ H i Hi).
Qed.

(* every file reachable from the main file is walked successfully *)
Definition walked_ok (w : world) (p : path) : Prop :=
  exists f br ld l, walk f w br p ld = WOk l.

Lemma walked_ok_edge w p t : walked_ok w p -> edge w p t -> walked_ok w t.
Proof.
  intros (f & br & ld & l & H) (incs & i & HI & Hin & HR).
  destruct (walk_ok_inv _ _ _ _ _ _ H) as (f' & incs' & -> & HI' & HA).
  rewrite HI in HI'. inversion HI'; subst incs'.
  destruct (HA i Hin) as (t' & ld' & l' & HR' & _ & HW).
  rewrite HR in HR'. inversion HR'; subst t'. exists f', (p :: br), ld', l'. exact HW.
Qed.

Lemma reach_walked_ok w l : walk_main w = WOk l -> forall p, reach w p -> walked_ok w p.
Proof.
  intros H p R. induction R as [|p t R IH E]; [eexists _, _, _, _; exact H | exact (walked_ok_edge _ _ _ IH E)].
Qed.

Theorem accepted_reachable_resolve w l :
  walk_main w = WOk l ->
  forall p, reach w p ->
    exists incs, includes_of w p = Some incs /\ forall i, In i incs -> exists t, resolve w p i = Some t.
Proof.
  intros H p R.
  destruct (reach_walked_ok w l H p R) as (f & br & ld & l0 & HW).
  destruct (walk_ok_inv _ _ _ _ _ _ HW) as (f' & incs & -> & HI & HA).
  exists incs. split; [exact HI|]. intros i Hi. destruct (HA i Hi) as (t & _ & _ & HR & _). eauto.
Qed.

(* no cycle through a reachable file *)
Lemma walk_ok_no_return w : forall x y, steps w x y ->
  forall f br ld l, walk f w br x ld = WOk l -> ~ In y (x :: br).
Proof.
  induction 1 as [p t E | p t u E S IH]; intros f br ld l H.
  - destruct E as (incs & i & HI & Hin & HR).
    destruct (walk_ok_inv _ _ _ _ _ _ H) as (f' & incs' & -> & HI' & HA).
    rewrite HI in HI'. inversion HI'; subst incs'.
    destruct (HA i Hin) as (t' & ld' & l' & HR' & HN & _).
    rewrite HR in HR'. inversion HR'; subst t'. exact HN.
  - destruct E as (incs & i & HI & Hin & HR).
    destruct (walk_ok_inv _ _ _ _ _ _ H) as (f' & incs' & -> & HI' & HA).
    rewrite HI in HI'. inversion HI'; subst incs'.
    destruct (HA i Hin) as (t' & ld' & l' & HR' & HN & HW).
    rewrite HR in HR'. inversion HR'; subst t'.
    specialize (IH _ _ _ _ HW). intro Hin'. apply IH. now right.
Qed.

Theorem accepted_no_reachable_cycle w l :
  walk_main w = WOk l -> forall p, reach w p -> ~ steps w p p.
Proof.
  intros H p R S.
  destruct (reach_walked_ok w l H p R) as (f & br & ld & l0 & HW).
  apply (walk_ok_no_return w p p S _ _ _ _ HW). now left.
Qed.

(* ---- termination: the fuel of walk_main is never exhausted ---- *)

Lemma go_incs_not_fuel f w branch cur
  (IH : forall t ld, ~ In t (cur :: branch) -> walk f w (cur :: branch) t ld <> WFuel) :
  forall incs loaded, go_incs f w branch cur incs loaded <> WFuel.
Proof.
  induction incs as [|j incs IHi]; intros loaded; cbn [go_incs]; [discriminate|].
  destruct (resolve w cur j) as [t|]; [|discriminate].
  destruct (mem_path t (cur :: branch)) eqn:EM; [discriminate|].
  assert (NI : ~ In t (cur :: branch)) by (intro X; apply mem_path_In in X; congruence).
  specialize (IH t loaded NI).
  destruct (walk f w (cur :: branch) t loaded); try discriminate; [apply IHi | contradiction].
Qed.

Lemma walk_not_fuel w : forall f branch cur ld,
  NoDup branch -> ~ In cur branch -> incl branch (map fst (w_files w)) ->
  (List.length (w_files w) < f + List.length branch)%nat ->
  walk f w branch cur ld <> WFuel.
Proof.
  induction f as [|f IH]; intros branch cur ld ND NI INC LEN.
  - exfalso. cbn in LEN.
    pose proof (NoDup_incl_length ND INC) as L. rewrite map_length in L. lia.
  - rewrite walk_unfold.
    destruct (lookup_file cur (w_files w)) as [[incs|]|] eqn:EL; try discriminate.
    apply go_incs_not_fuel. intros t ld' NT.
    apply IH.
    + constructor; assumption.
    + exact NT.
    + intros x [<-|Hx]; [exact (lookup_file_In _ _ _ EL) | now apply INC].
    + cbn [List.length]. lia.
Qed.

Theorem walk_terminates w : walk_main w <> WFuel.
Proof.
  unfold walk_main. apply walk_not_fuel.
  - constructor.
  - intros [].
  - intros x [].
  - cbn. lia.
Qed.

(* ---- each file is loaded once ---- *)

Lemma go_incs_nodup f w branch cur
  (IH : forall t ld l, NoDup ld -> walk f w (cur :: branch) t ld = WOk l -> NoDup l /\ incl ld l) :
  forall incs loaded l, NoDup loaded -> go_incs f w branch cur incs loaded = WOk l -> NoDup l /\ incl loaded l.
Proof.
  induction incs as [|j incs IHi]; intros loaded l ND H; cbn [go_incs] in H.
  - inversion H; subst. split; [exact ND | apply incl_refl].
  - destruct (resolve w cur j) as [t|]; [|discriminate].
    destruct (mem_path t (cur :: branch)); [discriminate|].
    destruct (walk f w (cur :: branch) t loaded) as [l1| | | |] eqn:EW; try discriminate.
    destruct (IH _ _ _ ND EW) as [N1 I1]. destruct (IHi _ _ N1 H) as [N2 I2].
    split; [exact N2 | eapply incl_tran; eassumption].
Qed.

Lemma walk_nodup w : forall f branch cur ld l,
  NoDup ld -> walk f w branch cur ld = WOk l -> NoDup l /\ incl ld l.
Proof.
  induction f as [|f IH]; intros branch cur ld l ND H; [discriminate|].
  rewrite walk_unfold in H.
  destruct (lookup_file cur (w_files w)) as [[incs|]|]; try discriminate.
  destruct (mem_path cur ld) eqn:EM.
  - apply (go_incs_nodup f w branch cur (fun t ld0 l0 => IH (cur :: branch) t ld0 l0) incs ld l ND H).
  - assert (ND' : NoDup (cur :: ld)).
    { constructor; [|exact ND]. intro X. apply mem_path_In in X. congruence. }
    destruct (go_incs_nodup f w branch cur (fun t ld0 l0 => IH (cur :: branch) t ld0 l0) incs _ l ND' H) as [N I].
    split; [exact N|]. intros x Hx. apply I. now right.
Qed.

Theorem loaded_once w l : walk_main w = WOk l -> NoDup l.
Proof. intro H. exact (proj1 (walk_nodup w _ _ _ _ _ (NoDup_nil _) H)). Qed.
