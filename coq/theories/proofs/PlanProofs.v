(* PlanProofs.v — `impl Ord for Param` is a rank comparison; the stable sort is the
   concatenation of the six rank buckets in declaration order. *)
Require Import Base Syntax Front Plan.
Require Import gen.CodeFacts gen.CmpTable.
Open Scope N_scope.

Lemma param_lt_is_rank a b : param_lt a b = (rank a <? rank b).
Proof.
  unfold param_lt, param_cmp, rank.
  destruct (mp_out a), (mp_out b), (p_iface a), (p_iface b), (is_array a), (is_array b); reflexivity.
Qed.

(* ---- tie to the code: the table printed by the real Param::cmp ---- *)

Definition ord_code (o : ord) : N := match o with Less => 0 | Equal => 1 | Greater => 2 end.

Open Scope string_scope.
(* one representative per class: class = 9*dir + kind (see gen/CmpTable.v) *)
Definition rep_ty (kind : N) : mty :=
  match kind with
  | 0 => MBuffer
  | 1 | 2 => MPrim U32
  | 3 | 4 => MStruct "S" [("a", MPrim U64, 1)]
  | 5 | 6 => MStruct "B" [("a", MPrim U64, 3)]
  | _ => MIface None
  end%N.
Definition rep (c : N) : mparam :=
  let kind := (c mod 9)%N in
  let arr := match kind with 2 | 4 | 6 | 8 => true | _ => false end%N in
  mkMP (9 <=? c)%N (rep_ty kind)
       (if arr then PArr (if (kind =? 8)%N then Some 2%N else None) else PVal) "x".
Close Scope string_scope.

Definition table_row_ok (r : N * N * N) : bool :=
  let '(a, b, o) := r in ord_code (param_cmp (rep a) (rep b)) =? o.

Lemma cmp_table_complete :
  List.length cmp_table = 324%nat /\ cmp_payload_sensitive = false.
Proof. split; vm_compute; reflexivity. Qed.

Lemma cmp_table_agrees : forallb table_row_ok cmp_table = true.
Proof. vm_compute. reflexivity. Qed.

(* the transcription inspects nothing but direction, "is interface" and "is array" *)
Definition cls3 (p : mparam) : bool * bool * bool := (mp_out p, p_iface p, is_array p).
Lemma param_cmp_cls a b a' b' :
  cls3 a = cls3 a' -> cls3 b = cls3 b' -> param_cmp a b = param_cmp a' b'.
Proof.
  unfold cls3, param_cmp. intros Ha Hb. inversion Ha. inversion Hb.
  repeat match goal with H : _ = _ |- _ => rewrite H; clear H end. reflexivity.
Qed.

(* ---- the sort as six buckets ---- *)

Definition bucket (r : N) (ps : list mparam) : list mparam := filter (fun p => rank p =? r) ps.
Definition buckets (ps : list mparam) : list mparam :=
  bucket 0 ps ++ bucket 1 ps ++ bucket 2 ps ++ bucket 3 ps ++ bucket 4 ps ++ bucket 5 ps.

Lemma rank_le5 p : rank p <= 5.
Proof. unfold rank. destruct (p_iface p), (is_array p), (mp_out p); lia. Qed.

Lemma ins_skip x : forall A B,
  Forall (fun y => rank y < rank x) A -> ins x (A ++ B) = A ++ ins x B.
Proof.
  induction A as [|y A IH]; intros B H; cbn [app ins]; [reflexivity|].
  inversion H; subst. rewrite param_lt_is_rank.
  replace (rank y <? rank x) with true by (symmetry; apply N.ltb_lt; assumption).
  now rewrite IH.
Qed.

Lemma ins_here x B :
  Forall (fun y => rank x <= rank y) B -> ins x B = x :: B.
Proof.
  destruct B as [|y B]; intro H; cbn [ins]; [reflexivity|].
  inversion H; subst. rewrite param_lt_is_rank.
  replace (rank y <? rank x) with false by (symmetry; apply N.ltb_ge; assumption).
  reflexivity.
Qed.

Lemma bucket_Forall r ps : Forall (fun y => rank y = r) (bucket r ps).
Proof.
  unfold bucket. apply Forall_forall. intros y Hy. apply filter_In in Hy.
  destruct Hy as [_ Hy]. now apply N.eqb_eq in Hy.
Qed.

Lemma Forall_app_intro {A} (P : A -> Prop) l1 l2 : Forall P l1 -> Forall P l2 -> Forall P (l1 ++ l2).
Proof. intros; apply Forall_app; split; assumption. Qed.

Lemma Forall_rank_lt r x ps : r < rank x -> Forall (fun y => rank y < rank x) (bucket r ps).
Proof. intro H. eapply Forall_impl; [|apply bucket_Forall]. cbn. intros y ->. exact H. Qed.
Lemma Forall_rank_ge r x ps : rank x <= r -> Forall (fun y => rank x <= rank y) (bucket r ps).
Proof. intro H. eapply Forall_impl; [|apply bucket_Forall]. cbn. intros y ->. exact H. Qed.

Lemma bucket_cons_eq r x ps : rank x = r -> bucket r (x :: ps) = x :: bucket r ps.
Proof. intros <-. unfold bucket. cbn [filter]. now rewrite N.eqb_refl. Qed.
Lemma bucket_cons_ne r x ps : rank x <> r -> bucket r (x :: ps) = bucket r ps.
Proof. intro H. unfold bucket. cbn [filter]. apply N.eqb_neq in H. now rewrite H. Qed.

Lemma ins_buckets x ps : ins x (buckets ps) = buckets (x :: ps).
Proof.
  unfold buckets. pose proof (rank_le5 x) as Hle.
  assert (C : rank x = 0 \/ rank x = 1 \/ rank x = 2 \/ rank x = 3 \/ rank x = 4 \/ rank x = 5) by lia.
  destruct C as [C|[C|[C|[C|[C|C]]]]].
  - rewrite (bucket_cons_ne 1), (bucket_cons_ne 2), (bucket_cons_ne 3), (bucket_cons_ne 4), (bucket_cons_ne 5) by lia.
    rewrite (bucket_cons_eq 0 x ps C). cbn [app].
    apply ins_here. repeat apply Forall_app_intro; apply Forall_rank_ge; lia.
  - rewrite (bucket_cons_ne 0), (bucket_cons_ne 2), (bucket_cons_ne 3), (bucket_cons_ne 4), (bucket_cons_ne 5) by lia.
    rewrite (bucket_cons_eq 1 x ps C).
    rewrite ins_skip by (apply Forall_rank_lt; lia). f_equal. cbn [app].
    apply ins_here. repeat apply Forall_app_intro; apply Forall_rank_ge; lia.
  - rewrite (bucket_cons_ne 0), (bucket_cons_ne 1), (bucket_cons_ne 3), (bucket_cons_ne 4), (bucket_cons_ne 5) by lia.
    rewrite (bucket_cons_eq 2 x ps C).
    rewrite !app_assoc. rewrite <- (app_assoc _ (bucket 2 ps)). rewrite <- !app_assoc.
    rewrite (app_assoc (bucket 0 ps)).
    rewrite ins_skip by (apply Forall_app_intro; apply Forall_rank_lt; lia).
    rewrite <- app_assoc. do 2 f_equal. cbn [app].
    apply ins_here. repeat apply Forall_app_intro; apply Forall_rank_ge; lia.
  - rewrite (bucket_cons_ne 0), (bucket_cons_ne 1), (bucket_cons_ne 2), (bucket_cons_ne 4), (bucket_cons_ne 5) by lia.
    rewrite (bucket_cons_eq 3 x ps C).
    rewrite (app_assoc (bucket 0 ps)), (app_assoc (bucket 0 ps ++ bucket 1 ps)).
    rewrite ins_skip by (repeat apply Forall_app_intro; apply Forall_rank_lt; lia).
    rewrite <- !app_assoc. do 3 f_equal. cbn [app].
    apply ins_here. repeat apply Forall_app_intro; apply Forall_rank_ge; lia.
  - rewrite (bucket_cons_ne 0), (bucket_cons_ne 1), (bucket_cons_ne 2), (bucket_cons_ne 3), (bucket_cons_ne 5) by lia.
    rewrite (bucket_cons_eq 4 x ps C).
    rewrite (app_assoc (bucket 0 ps)), (app_assoc (bucket 0 ps ++ bucket 1 ps)),
            (app_assoc ((bucket 0 ps ++ bucket 1 ps) ++ bucket 2 ps)).
    rewrite ins_skip by (repeat apply Forall_app_intro; apply Forall_rank_lt; lia).
    rewrite <- !app_assoc. do 4 f_equal. cbn [app].
    apply ins_here. repeat apply Forall_app_intro; apply Forall_rank_ge; lia.
  - rewrite (bucket_cons_ne 0), (bucket_cons_ne 1), (bucket_cons_ne 2), (bucket_cons_ne 3), (bucket_cons_ne 4) by lia.
    rewrite (bucket_cons_eq 5 x ps C).
    rewrite (app_assoc (bucket 0 ps)), (app_assoc (bucket 0 ps ++ bucket 1 ps)),
            (app_assoc ((bucket 0 ps ++ bucket 1 ps) ++ bucket 2 ps)),
            (app_assoc (((bucket 0 ps ++ bucket 1 ps) ++ bucket 2 ps) ++ bucket 3 ps)).
    rewrite ins_skip by (repeat apply Forall_app_intro; apply Forall_rank_lt; lia).
    rewrite <- !app_assoc. do 5 f_equal.
    apply ins_here. apply Forall_rank_ge; lia.
Qed.

Theorem sort_is_buckets ps : sort_params ps = buckets ps.
Proof.
  induction ps as [|x ps IH]; [reflexivity|].
  cbn [sort_params]. rewrite IH. apply ins_buckets.
Qed.
