(* C15Proofs.v — append-only evolution: members appended to an interface do not disturb
   the numbering of its pre-existing members nor of its ancestors; declarations added to
   a file do not change what existing names resolve to. *)
Require Import Base Syntax Front Plan.
Require Import spec.Spec_Numbering proofs.NumberingProofs proofs.GatherProofs proofs.C07Proofs.
Open Scope N_scope.

Definition with_nodes (i : idef) (ns : list inode) : idef := mkI (i_name i) (i_base i) ns.

Lemma mnode_funcs_app a b : mnode_funcs (a ++ b) = mnode_funcs a ++ mnode_funcs b.
Proof. unfold mnode_funcs. apply flat_map_app. Qed.
Lemma mnode_errors_app a b : mnode_errors (a ++ b) = mnode_errors a ++ mnode_errors b.
Proof. unfold mnode_errors. apply flat_map_app. Qed.

(* numbering an interface whose member list was extended at the end: the old interface is
   numbered successfully too, and every old member (own or inherited) keeps its number,
   its resolved parameters and its position *)
Theorem number_iface_append sf st ifuel i extra ec oc mi' ec' oc' :
  number_iface ifuel sf st (with_nodes i (i_nodes i ++ extra)) ec oc = Ok (mi', ec', oc') ->
  exists mi ec0 oc0 news,
    number_iface ifuel sf st (with_nodes i (i_nodes i)) ec oc = Ok (mi, ec0, oc0) /\
    mi_base mi' = mi_base mi /\
    mi_nodes mi' = mi_nodes mi ++ news /\
    flat_funcs mi' = flat_funcs mi ++ mnode_funcs news /\
    flat_errors mi' = flat_errors mi ++ mnode_errors news.
Proof.
  destruct ifuel as [|f]; [discriminate|]. cbn [number_iface with_nodes i_base i_nodes i_name].
  intro H.
  destruct (match i_base i with
            | Some bn => _ | None => _ end) as [[[mb e1] o1]| | |] eqn:EB; cbn in H; try discriminate.
  destruct (number_nodes sf st (i_nodes i ++ extra) e1 o1) as [[[ms e2] o2]| | |] eqn:EM; cbn in H; try discriminate.
  inversion H; subst; clear H.
  destruct (number_nodes_app _ _ _ _ _ _ _ _ _ EM) as (ms1 & ec1 & oc1 & ms2 & A & B & C).
  exists (MI (i_name i) mb ms1), ec1, oc1, ms2.
  cbn. rewrite A. cbn. subst ms. repeat split.
  - unfold flat_funcs. destruct mb as [b|]; cbn [mi_root_first].
    + rewrite !flat_map_app. cbn [flat_map mi_nodes]. rewrite !app_nil_r, mnode_funcs_app, app_assoc. reflexivity.
    + cbn [flat_map mi_nodes]. rewrite !app_nil_r. apply mnode_funcs_app.
  - unfold flat_errors. destruct mb as [b|]; cbn [mi_root_first].
    + rewrite !flat_map_app. cbn [flat_map mi_nodes]. rewrite !app_nil_r, mnode_errors_app, app_assoc. reflexivity.
    + cbn [flat_map mi_nodes]. rewrite !app_nil_r. apply mnode_errors_app.
Qed.

(* declarations added to a file set: every name that was declared before resolves to the
   same declaration afterwards (a clash would have been rejected) *)
Theorem added_decls_keep_lookups files files' st st' :
  gather_files st_empty files = Ok st -> gather_files st_empty files' = Ok st' ->
  (forall k i, find_iface files k = Some i -> find_iface files' k = Some i) ->
  forall k i, iface_lookup st k = Some i -> iface_lookup st' k = Some i.
Proof.
  intros G G' H k i L.
  rewrite (iface_lookup_is_find _ _ G) in L. rewrite (iface_lookup_is_find _ _ G'). now apply H.
Qed.

(* the marshalling plan of a method is a function of its own parameter list: nothing else
   of the interface or file enters (stated for the three components the backends consume) *)
Theorem plan_depends_on_params_only (f g : mfunc) :
  mf_params f = mf_params g ->
  with_bundling (mf_params f) = with_bundling (mf_params g) /\
  counter Debug (mf_params f) = counter Debug (mf_params g) /\
  plan_slots (mf_params f) = plan_slots (mf_params g).
Proof. intros ->. repeat split. Qed.
