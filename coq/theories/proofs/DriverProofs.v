(* DriverProofs.v — a rejected input has no effect on the output path; an accepted one
   leaves each written file with exactly marking ++ content, whatever was there before. *)
Require Import Base Syntax Front Driver.
Require Import gen.DriverFacts.
Open Scope string_scope.
Open Scope list_scope.

Theorem reject_no_effect marking files fs :
  apply_effects fs (driver_effects false marking files) = fs.
Proof. unfold driver_effects, writes_after_validation, content_before_open. reflexivity. Qed.

Lemma fs_get_set fs p c : fs_get (fs_set fs p c) p = Some c.
Proof.
  unfold fs_get. induction fs as [|[q d] fs IH]; cbn; [now rewrite String.eqb_refl|].
  destruct (String.eqb p q) eqn:E; cbn; rewrite E; [reflexivity | exact IH].
Qed.

Lemma fs_get_set_other fs p q c : p <> q -> fs_get (fs_set fs p c) q = fs_get fs q.
Proof.
  intro H. unfold fs_get. induction fs as [|[r d] fs IH]; cbn.
  - destruct (String.eqb q p) eqn:E; [apply String.eqb_eq in E; congruence | reflexivity].
  - destruct (String.eqb p r) eqn:E; cbn.
    + apply String.eqb_eq in E. subst r. destruct (String.eqb q p) eqn:E2; [apply String.eqb_eq in E2; congruence | reflexivity].
    + destruct (String.eqb q r); [reflexivity | exact IH].
Qed.

Lemma skipn_str_all s : skipn_str (String.length s) s = "".
Proof. induction s; cbn; [reflexivity | exact IHs]. Qed.
Lemma skipn_str_nil n : skipn_str n "" = "".
Proof. destruct n; reflexivity. Qed.
Lemma skipn_str_ge s : forall n, (String.length s <= n)%nat -> skipn_str n s = "".
Proof. induction s as [|c s IH]; intros n H; [apply skipn_str_nil|]. destruct n; cbn in *; [lia | apply IH; lia]. Qed.
Lemma substring_full s : substring 0 (String.length s) s = s.
Proof. induction s; cbn; [reflexivity | now rewrite IHs]. Qed.
Lemma append_nil_r s : (s ++ "")%string = s.
Proof. induction s; cbn; [reflexivity | now rewrite IHs]. Qed.
Lemma length_append a b : String.length (a ++ b)%string = (String.length a + String.length b)%nat.
Proof. induction a; cbn; [reflexivity | now rewrite IHa]. Qed.
Lemma substring_prefix a b : substring 0 (String.length a) (a ++ b)%string = a.
Proof. induction a; cbn; [destruct b; reflexivity | now rewrite IHa]. Qed.
Lemma skipn_append a b : skipn_str (String.length a) (a ++ b)%string = b.
Proof. induction a; cbn; [reflexivity | exact IHa]. Qed.

(* one accepted single-file run (C / C++): the file holds marking ++ content afterwards,
   regardless of its previous content; other files are untouched *)
Theorem accept_single_file marking out content fs :
  let fs' := apply_effects fs (driver_effects true marking [(out, content)]) in
  fs_get fs' out = Some (marking ++ content)%string /\
  forall q, q <> out -> fs_get fs' q = fs_get fs q.
Proof.
  unfold driver_effects, file_effects, apply_effects.
  unfold writes_after_validation, content_before_open, marking_before_content.
  cbn [andb flat_map app fold_left fst snd apply_effect].
  unfold open_truncates.
  cbn [alookup]. rewrite !String.eqb_refl.
  rewrite !fs_get_set. cbn [append String.length Nat.add substring skipn_str].
  rewrite !skipn_str_nil, !append_nil_r.
  rewrite substring_full, skipn_str_ge by lia. rewrite append_nil_r.
  split; [reflexivity|].
  intros q Hq. rewrite !fs_get_set_other by congruence. reflexivity.
Qed.
