(* DriverProofs.v — a rejected input has no effect on the output path; an accepted one
   leaves each written file with exactly marking ++ content, whatever was there before. *)
Require Import Base Syntax Front Driver.
Require Import gen.DriverFacts.
Open Scope string_scope.
Open Scope list_scope.

Theorem reject_no_effect marking files fs :
  apply_effects fs (driver_effects false marking files) = fs.
Proof. unfold driver_effects, writes_after_validation, content_before_open. reflexivity. Qed.

Lemma fs_get_set fs p c : fs_get (fs_set fs p c) p = Some c.
Proof.
  unfold fs_get. induction fs as [|[q d] fs IH]; cbn; [now rewrite String.eqb_refl|].
  destruct (String.eqb p q) eqn:E; cbn; rewrite E; [reflexivity | exact IH].
Qed.

Lemma fs_get_set_other fs p q c : p <> q -> fs_get (fs_set fs p c) q = fs_get fs q.
Proof.
  intro H. unfold fs_get. induction fs as [|[r d] fs IH]; cbn.
  - destruct (String.eqb q p) eqn:E; [apply String.eqb_eq in E; congruence | reflexivity].
  - destruct (String.eqb p r) eqn:E; cbn.
    + apply String.eqb_eq in E. subst r. destruct (String.eqb q p) eqn:E2; [apply String.eqb_eq in E2; congruence | reflexivity].
    + destruct (String.eqb q r); [reflexivity | exact IH].
Qed.

Lemma skipn_str_all s : skipn_str (String.length s) s = "".
Proof. induction s; cbn; [reflexivity | exact IHs]. Qed.
Lemma skipn_str_nil n : skipn_str n "" = "".
Proof. destruct n; reflexivity. Qed.
Lemma skipn_str_ge s : forall n, (String.length s <= n)%nat -> skipn_str n s = "".
Proof. induction s as [|c s IH]; intros n H; [apply skipn_str_nil|]. destruct n; cbn in *; [lia | apply IH; lia]. Qed.
Lemma substring_full s : substring 0 (String.length s) s = s.
Proof. induction s; cbn; [reflexivity | now rewrite IHs]. Qed.
Lemma append_nil_r s : (s ++ "")%string = s.
Proof. induction s; cbn; [reflexivity | now rewrite IHs]. Qed.
Lemma length_append a b : String.length (a ++ b)%string = (String.length a + String.length b)%nat.
Proof. induction a; cbn; [reflexivity | now rewrite IHa]. Qed.
Lemma substring_prefix a b : substring 0 (String.length a) (a ++ b)%string = a.
Proof. induction a; cbn; [destruct b; reflexivity | now rewrite IHa]. Qed.
Lemma skipn_append a b : skipn_str (String.length a) (a ++ b)%string = b.
Proof. induction a; cbn; [reflexivity | exact IHa]. Qed.

(* one accepted single-file run (C / C++): the file holds marking ++ content afterwards,
   regardless of its previous content; other files are untouched *)
Theorem accept_single_file marking out content fs :
  let fs' := apply_effects fs (driver_effects true marking [(out, content)]) in
  fs_get fs' out = Some (marking ++ content)%string /\
  forall q, q <> out -> fs_get fs' q = fs_get fs q.
Proof.
  unfold driver_effects, file_effects, apply_effects.
  unfold writes_after_validation, content_before_open, marking_before_content.
  cbn [andb flat_map app fold_left fst snd apply_effect].
  unfold open_truncates.
  cbn [alookup]. rewrite !String.eqb_refl.
  rewrite !fs_get_set. cbn [append String.length Nat.add substring skipn_str].
  rewrite !skipn_str_nil, !append_nil_r.
  rewrite substring_full, skipn_str_ge by lia. rewrite append_nil_r.
  split; [reflexivity|].
  intros q Hq. rewrite !fs_get_set_other by congruence. reflexivity.
Qed.

(* ---- output files of the Rust generator: no interface is lost ---- *)

Lemma mem_str_In' k l : mem_str k l = true <-> In k l.
Proof.
  induction l as [|x l IH]; cbn; [split; [discriminate | tauto]|].
  rewrite orb_true_iff, IH, String.eqb_eq. split; intros [H|H]; auto.
Qed.

Lemma nodup_str_NoDup' l : nodup_str l = true -> NoDup l.
Proof.
  induction l as [|x l IH]; cbn; [constructor|].
  intro H. apply andb_prop in H. destruct H as [H1 H2]. constructor; [|now apply IH].
  intro Hin. apply mem_str_In' in Hin. rewrite Hin in H1. discriminate.
Qed.

Definition rust_base (stem : string) : string := (lower stem ++ ".rs")%string.
Definition rust_base_used (stem : string) (mir : list mtop) : bool :=
  has_file_level_content mir || existsb (String.eqb (rust_base stem)) (rust_iface_files mir).

Lemma rust_names_unfold stem mir :
  rust_names stem mir =
  (if rust_base_used stem mir then [rust_base stem] else []) ++ nodup string_dec (rust_others stem mir).
Proof. reflexivity. Qed.

(* with the repaired generator an accepted run writes one file per interface, all distinct:
   the file of every interface is there, and their number is the number of interfaces that
   are not the file-level module, plus that module when it has content *)
Theorem rust_generate_complete stem mir l :
  rust_generate_gen true stem mir = Some l ->
  (forall i, In (MTIface i) mir -> In ((lower (mi_name i) ++ ".rs")%string) l) /\
  NoDup l /\
  List.length l = ((if rust_base_used stem mir then 1 else 0) + List.length (rust_others stem mir))%nat.
Proof.
  unfold rust_generate_gen. cbn [andb].
  destruct (nodup_str (rust_others stem mir)) eqn:EN; cbn [negb]; [|discriminate].
  intro H. inversion H; subst l. clear H. apply nodup_str_NoDup' in EN.
  rewrite rust_names_unfold, (nodup_fixed_point string_dec EN).
  split; [|split].
  - intros i Hi.
    assert (Hf : In ((lower (mi_name i) ++ ".rs")%string) (rust_iface_files mir)).
    { unfold rust_iface_files. apply in_flat_map. exists (MTIface i). split; [exact Hi | now left]. }
    destruct (String.eqb ((lower (mi_name i) ++ ".rs")%string) (rust_base stem)) eqn:EB.
    + apply String.eqb_eq in EB. apply in_or_app. left.
      assert (U : rust_base_used stem mir = true).
      { unfold rust_base_used. apply orb_true_iff. right. apply existsb_exists.
        exists ((lower (mi_name i) ++ ".rs")%string). split; [exact Hf | rewrite EB; apply String.eqb_refl]. }
      rewrite U, EB. now left.
    + apply in_or_app. right. unfold rust_others. apply filter_In. split; [exact Hf|].
      fold (rust_base stem). now rewrite EB.
  - assert (NB : ~ In (rust_base stem) (rust_others stem mir)).
    { unfold rust_others. intro Hin. apply filter_In in Hin. destruct Hin as [_ Hn].
      fold (rust_base stem) in Hn. rewrite String.eqb_refl in Hn. discriminate. }
    destruct (rust_base_used stem mir); cbn [app]; [constructor; assumption | exact EN].
  - rewrite app_length. destruct (rust_base_used stem mir); reflexivity.
Qed.

(* the pinned upstream generator replaced the earlier interface silently (F17) *)
Theorem rust_generate_loses_interface_upstream :
  let mir := [MTIface (MI "Foo" None []); MTIface (MI "FOO" None [])] in
  rust_generate_gen false "coll" mir = Some ["foo.rs"] /\ rust_generate_gen true "coll" mir = None.
Proof. split; vm_compute; reflexivity. Qed.

(* what is rejected: exactly a repeated file name among the interfaces' own files *)
Theorem rust_generate_rejects_iff stem mir :
  rust_generate_gen true stem mir = None <-> nodup_str (rust_others stem mir) = false.
Proof.
  unfold rust_generate_gen. cbn [andb]. destruct (nodup_str (rust_others stem mir)); cbn [negb]; split; intro H; try reflexivity; discriminate.
Qed.
