(* LayoutProofs.v — a struct accepted by the StructVerifier model has, under the
   natural-alignment layout of the target compilers, no padding: every field sits at the
   sum of the sizes before it and sizeof equals the size the compiler assumes. *)
Require Import Base Syntax Front Layout.
Require Import gen.CodeFacts.
Open Scope N_scope.

(* C alignment 2^ce, verifier alignment 2^ae, ce <= ae *)
Definition aligned_ok (ca va : N) : Prop := exists ce ae, ca = 2 ^ ce /\ va = 2 ^ ae /\ ce <= ae.

Lemma pow2_divide ce ae : ce <= ae -> N.divide (2 ^ ce) (2 ^ ae).
Proof.
  intro H. exists (2 ^ (ae - ce)). rewrite <- N.pow_add_r. f_equal. lia.
Qed.

Lemma mod0_weaken x ca va : aligned_ok ca va -> x mod va = 0 -> x mod ca = 0.
Proof.
  intros (ce & ae & -> & -> & Hle) H.
  assert (N2 : 2 ^ ae <> 0) by (apply N.pow_nonzero; lia).
  assert (N1 : 2 ^ ce <> 0) by (apply N.pow_nonzero; lia).
  apply N.mod_divide in H; [|exact N2]. apply N.mod_divide; [exact N1|].
  eapply N.divide_trans; [apply pow2_divide; exact Hle | exact H].
Qed.

Lemma max_pow2 a b : N.max (2 ^ a) (2 ^ b) = 2 ^ N.max a b.
Proof.
  destruct (N.le_ge_cases a b) as [H|H].
  - rewrite (N.max_r a b H). apply N.max_r. apply N.pow_le_mono_r; lia.
  - rewrite (N.max_l a b H). apply N.max_l. apply N.pow_le_mono_r; lia.
Qed.

Lemma aligned_ok_max c1 v1 c2 v2 :
  aligned_ok c1 v1 -> aligned_ok c2 v2 -> aligned_ok (N.max c1 c2) (N.max v1 v2).
Proof.
  intros (ce1 & ae1 & -> & -> & H1) (ce2 & ae2 & -> & -> & H2).
  exists (N.max ce1 ce2), (N.max ae1 ae2). rewrite !max_pow2. repeat split. lia.
Qed.

Lemma aligned_ok_pos ca va : aligned_ok ca va -> 1 <= ca /\ 1 <= va.
Proof.
  intros (ce & ae & -> & -> & _). split.
  - assert (2 ^ ce <> 0) by (apply N.pow_nonzero; lia). lia.
  - assert (2 ^ ae <> 0) by (apply N.pow_nonzero; lia). lia.
Qed.

Lemma round_up_aligned x a : a <> 0 -> x mod a = 0 -> round_up x a = x.
Proof.
  intros Ha H. unfold round_up. apply N.eqb_neq in Ha. rewrite Ha.
  apply N.eqb_eq in H. now rewrite H.
Qed.

(* the verifier's and the target's view of the already processed struct types *)
Definition stores_rel (vstore cstore : list (string * (N * N))) : Prop :=
  forall n sz al, alookup n vstore = Some (sz, al) ->
    exists ca, alookup n cstore = Some (sz, ca) /\ aligned_ok ca al.

(* primitive sizes/alignments the compiler assumes (regenerated from ast.rs) against the ABI *)
Lemma prim_rel p : prim_size p = c_prim_size p /\ aligned_ok (c_prim_align p) (prim_align p).
Proof.
  destruct p; (split; [reflexivity|]); unfold aligned_ok, c_prim_align, c_prim_size, prim_align.
  all: first [ exists 0, 0; repeat split; lia
             | exists 1, 1; repeat split; lia
             | exists 2, 2; repeat split; lia
             | exists 3, 3; repeat split; lia ].
Qed.

Lemma iface_rel : iface_size = c_object_size /\ aligned_ok c_object_align iface_align.
Proof. split; [reflexivity|]. exists 3, 4. repeat split; lia. Qed.

Lemma field_rel vstore cstore t vsz val :
  stores_rel vstore cstore ->
  field_size_align vstore t = Ok (vsz, val) ->
  exists ca, c_field_type cstore t = Some (vsz, ca) /\ aligned_ok ca val.
Proof.
  intros R H. destruct t as [|p| |n]; cbn in H.
  - discriminate.
  - inversion H; subst. destruct (prim_rel p) as [E A]. exists (c_prim_align p). cbn.
    unfold ast_prim_size. rewrite E. split; [reflexivity | exact A].
  - inversion H; subst. destruct iface_rel as [E A]. exists c_object_align. cbn. rewrite E.
    split; [reflexivity | exact A].
  - destruct (alookup n vstore) as [[s a]|] eqn:E; [|discriminate]. inversion H; subst.
    destruct (R _ _ _ E) as (ca & L & A). exists ca. cbn. split; [exact L | exact A].
Qed.

Lemma fold_add_init l : forall a, fold_left N.add l a = a + fold_left N.add l 0.
Proof.
  induction l as [|x l IH]; intro a; cbn [fold_left]; [lia|].
  rewrite (IH (a + x)), (IH (0 + x)). lia.
Qed.

Definition field_sizes (vstore : list (string * (N * N))) (fs : list sfield) : list N :=
  map (fun f => match field_size_align vstore (sf_ty f) with
                | Ok (sz, _) => sz * sf_cnt f
                | _ => 0
                end) fs.

(* running alignment: the verifier starts from 0, the target from 1 *)
Definition al_rel (cal val : N) : Prop := (val = 0 /\ cal = 1) \/ aligned_ok cal val.

Lemma al_rel_max cal val ca va :
  al_rel cal val -> aligned_ok ca va -> aligned_ok (N.max cal ca) (N.max val va).
Proof.
  intros [[-> ->]|H] A.
  - destruct (aligned_ok_pos _ _ A) as [P1 P2].
    rewrite N.max_r by lia. rewrite N.max_r by lia. exact A.
  - now apply aligned_ok_max.
Qed.

Lemma verify_fields_layout md vstore cstore : stores_rel vstore cstore ->
  forall fs seen size val cal sz al',
  verify_fields md vstore seen fs size val = Ok (sz, al') ->
  al_rel cal val ->
  exists cal', c_layout cstore fs size cal = Some (prefix_sums (field_sizes vstore fs) size, sz, cal')
               /\ aligned_ok cal' al' /\ sz mod al' = 0
               /\ sz = size + sumN (field_sizes vstore fs).
Proof.
  intros R. induction fs as [|f fs IH]; intros seen size val cal sz al' H HR.
  - cbn in H. destruct (val =? 0) eqn:E0; [discriminate|].
    destruct (size mod val =? 0) eqn:EM; [|discriminate]. inversion H; subst.
    exists cal. cbn. repeat split.
    + destruct HR as [[-> _]|A]; [discriminate | exact A].
    + now apply N.eqb_eq.
    + unfold sumN. cbn. lia.
  - cbn [verify_fields] in H.
    destruct (mem_str (sf_name f) seen); [discriminate|].
    destruct (field_size_align vstore (sf_ty f)) as [[isz ial]| | |] eqn:EF; cbn in H; try discriminate.
    destruct (ial =? 0) eqn:EI; [discriminate|].
    destruct (size mod ial =? 0) eqn:EM; cbn in H; [|discriminate].
    unfold uop in H.
    destruct (isz * sf_cnt f <? usize_max) eqn:EO1; [|destruct md; discriminate]. cbn in H.
    destruct (size + isz * sf_cnt f <? usize_max) eqn:EO2; [|destruct md; discriminate]. cbn in H.
    destruct (field_rel _ _ _ _ _ R EF) as (ca & CF & A).
    assert (AM : aligned_ok (N.max cal ca) (N.max val ial)) by (apply al_rel_max; assumption).
    destruct (IH _ _ _ (N.max cal ca) _ _ H (or_intror AM)) as (cal' & L & A' & M & S).
    exists cal'. cbn [c_layout]. rewrite CF.
    assert (RU : round_up size ca = size).
    { apply round_up_aligned.
      - destruct (aligned_ok_pos _ _ A). lia.
      - apply (mod0_weaken _ _ _ A). now apply N.eqb_eq. }
    rewrite RU, L.
    assert (FS : field_sizes vstore (f :: fs) = (isz * sf_cnt f) :: field_sizes vstore fs).
    { unfold field_sizes. cbn [map]. now rewrite EF. }
    rewrite FS. cbn [prefix_sums].
    repeat split; try assumption.
    rewrite S. unfold sumN. cbn [fold_left].
    rewrite (fold_add_init _ (0 + isz * sf_cnt f)). lia.
Qed.

(* one struct: no padding, sizeof = assumed size *)
Theorem verified_struct_no_padding md vstore cstore fs sz al :
  stores_rel vstore cstore ->
  verify_fields md vstore [] fs 0 0 = Ok (sz, al) ->
  exists ca, c_struct cstore fs = Some (prefix_sums (field_sizes vstore fs) 0, sz, ca)
             /\ aligned_ok ca al /\ sz = sumN (field_sizes vstore fs).
Proof.
  intros R H.
  destruct (verify_fields_layout md _ _ R fs [] 0 0 1 sz al H (or_introl (conj eq_refl eq_refl)))
    as (cal' & L & A & M & S).
  exists cal'. unfold c_struct. rewrite L.
  rewrite round_up_aligned.
  - repeat split; [exact A | lia].
  - destruct (aligned_ok_pos _ _ A). lia.
  - exact (mod0_weaken _ _ _ A M).
Qed.

Lemma stores_rel_cons vstore cstore n sz al ca :
  stores_rel vstore cstore -> aligned_ok ca al ->
  stores_rel ((n, (sz, al)) :: vstore) ((n, (sz, ca)) :: cstore).
Proof.
  intros R A k s a. cbn [alookup]. destruct (String.eqb k n).
  - intro H. inversion H; subst. exists ca. split; [reflexivity | exact A].
  - apply R.
Qed.

(* all structs of the dependency order: the target lays every one of them out, and the two
   views agree on every size *)
Theorem verified_order_layout md st : forall order vstore cstore vstore',
  stores_rel vstore cstore ->
  verify_structs md st vstore order = Ok vstore' ->
  exists cstore', c_structs st cstore order = Some cstore' /\ stores_rel vstore' cstore'.
Proof.
  induction order as [|n order IH]; intros vstore cstore vstore' R H; cbn in H.
  - inversion H; subst. exists cstore. split; [reflexivity | exact R].
  - cbn [c_structs]. destruct (struct_lookup st n) as [s|]; [|discriminate].
    destruct (verify_fields md vstore [] (s_fields s) 0 0) as [[sz al]| | |] eqn:EV; cbn in H; try discriminate.
    destruct (verified_struct_no_padding _ _ _ _ _ _ R EV) as (ca & CS & A & _).
    rewrite CS. apply (IH _ _ _ (stores_rel_cons _ _ n sz al ca R A) H).
Qed.

Lemma stores_rel_nil : stores_rel [] [].
Proof. intros n sz al H. discriminate. Qed.
