(* TransportProofs.v — through the copying transport every slot reaches the callee in exactly
   the role the stub intended, and none is dropped, iff the envelope is canonical. *)
Require Import Base.
Require Import spec.Spec_C02 Transport.
Open Scope N_scope.

Definition cnt (k : N) (l : list N) : nat := List.length (filter (N.eqb k) l).

Lemma sorted_tail a l : sections_sorted (a :: l) = true -> sections_sorted l = true.
Proof. destruct l as [|b r]; [reflexivity|]. cbn. intro H. apply andb_prop in H. tauto. Qed.

Lemma sorted_head_le a l : sections_sorted (a :: l) = true -> forall x, In x l -> a <= x.
Proof.
  revert a. induction l as [|b r IH]; intros a H x Hx; [destruct Hx|].
  cbn in H. apply andb_prop in H. destruct H as [H1 H2]. apply N.leb_le in H1.
  destruct Hx as [<-|Hx]; [exact H1|]. specialize (IH b H2 x Hx). lia.
Qed.

Lemma filter_none (k : N) l : (forall x, In x l -> x <> k) -> filter (N.eqb k) l = [].
Proof.
  induction l as [|a l IH]; intro H; cbn; [reflexivity|].
  destruct (N.eqb k a) eqn:E.
  - apply N.eqb_eq in E. exfalso. apply (H a); [now left | congruence].
  - apply IH. intros x Hx. apply H. now right.
Qed.

(* a section-sorted list over {0,1,2,3} is the concatenation of its four blocks *)
Lemma sorted_is_blocks l :
  sections_sorted l = true -> (forall x, In x l -> x <= 3) ->
  l = repeat 0 (cnt 0 l) ++ repeat 1 (cnt 1 l) ++ repeat 2 (cnt 2 l) ++ repeat 3 (cnt 3 l).
Proof.
  induction l as [|a l IH]; intros HS HB; [reflexivity|].
  pose proof (sorted_tail _ _ HS) as HS'.
  assert (HB' : forall x, In x l -> x <= 3) by (intros x Hx; apply HB; now right).
  specialize (IH HS' HB').
  pose proof (sorted_head_le _ _ HS) as HL.
  assert (Ha : a <= 3) by (apply HB; now left).
  assert (C : a = 0 \/ a = 1 \/ a = 2 \/ a = 3) by lia.
  unfold cnt in *.
  destruct C as [E|[E|[E|E]]]; subst a; cbn [filter];
    repeat match goal with
           | |- context [(?x =? ?y)] => let b := eval vm_compute in (x =? y) in change (x =? y) with b
           end; cbn iota.
  - cbn. f_equal. exact IH.
  - rewrite (filter_none 0 l) in * by (intros x Hx; specialize (HL x Hx); lia).
    cbn [List.length repeat app] in *. f_equal. exact IH.
  - rewrite (filter_none 0 l) in * by (intros x Hx; specialize (HL x Hx); lia).
    rewrite (filter_none 1 l) in * by (intros x Hx; specialize (HL x Hx); lia).
    cbn [List.length repeat app] in *. f_equal. exact IH.
  - rewrite (filter_none 0 l) in * by (intros x Hx; specialize (HL x Hx); lia).
    rewrite (filter_none 1 l) in * by (intros x Hx; specialize (HL x Hx); lia).
    rewrite (filter_none 2 l) in * by (intros x Hx; specialize (HL x Hx); lia).
    cbn [List.length repeat app] in *. f_equal. exact IH.
Qed.

Lemma mult_cnt k l : mult k l = N.of_nat (cnt k l).
Proof. reflexivity. Qed.

(* canonical envelope: the positions the counts declare are the roles the stub intended *)
Theorem canonical_positional c kinds :
  envelope_canonical c kinds = true -> positional c = kinds.
Proof.
  destruct c as [[[bi bo] oi] oo]. unfold envelope_canonical.
  intro H. repeat (apply andb_prop in H; destruct H as [H ?]).
  apply N.eqb_eq in H8, H7, H6, H5. subst.
  rewrite (sorted_is_blocks kinds H) at 5.
  - unfold positional. rewrite !mult_cnt, !Nat2N.id. reflexivity.
  - intros x Hx. rewrite forallb_forall in H0. apply N.leb_le. now apply H0.
Qed.

Lemma deliver_slots_exact {P} : forall (sl : list (N * P)),
  (forall s, In s sl -> fst s <= 3) ->
  deliver_slots (map fst sl) (map raw_of sl) = Some sl.
Proof.
  induction sl as [|[k p] sl IH]; intro HB; [reflexivity|].
  cbn [map deliver_slots fst].
  assert (F : raw_fits k (raw_of (k, p)) = true).
  { unfold raw_fits, raw_of. cbn [fst snd]. destruct (k <? 2) eqn:E; [reflexivity|].
    apply N.ltb_ge in E. now apply N.leb_le. }
  rewrite F, IH.
  - unfold raw_of at 1. cbn [fst snd]. destruct (k <? 2); reflexivity.
  - intros s Hs. apply HB. now right.
Qed.

(* the round trip through the transport: with a canonical envelope every slot is delivered in
   the intended role with its payload, in order, none dropped, none added *)
Theorem transport_delivers_exactly {P} c (sl : list (N * P)) :
  envelope_canonical c (map fst sl) = true ->
  deliver c (map raw_of sl) = Some sl.
Proof.
  intro H. unfold deliver. rewrite (canonical_positional _ _ H).
  apply deliver_slots_exact.
  destruct c as [[[bi bo] oi] oo]. unfold envelope_canonical in H.
  repeat (apply andb_prop in H; destruct H as [H ?]).
  intros s Hs. rewrite forallb_forall in H0. apply N.leb_le. apply H0. now apply in_map.
Qed.
