(* OrderProofs.v — the StructVerifier's verdict and the sizes it assigns do not depend on
   which dependency-respecting order the (hash-map based) topological sort happens to return. *)
Require Import Base Syntax Front.
Require Import Permutation.
Open Scope N_scope.

Definition customs (s : sdef) : list string :=
  flat_map (fun f => match sf_ty f with TCustom n => [n] | _ => [] end) (s_fields s).

(* the result for one struct depends on the store only through the struct types it mentions *)
Lemma field_size_align_agree s1 s2 t :
  (forall c, t = TCustom c -> alookup c s1 = alookup c s2) ->
  field_size_align s1 t = field_size_align s2 t.
Proof. intro H. destruct t; cbn; try reflexivity. now rewrite (H n eq_refl). Qed.

Lemma verify_fields_agree md s1 s2 fs :
  (forall c, In c (flat_map (fun f => match sf_ty f with TCustom n => [n] | _ => [] end) fs) ->
             alookup c s1 = alookup c s2) ->
  forall seen size al, verify_fields md s1 seen fs size al = verify_fields md s2 seen fs size al.
Proof.
  induction fs as [|f fs IH]; intros H seen size al; cbn [verify_fields]; [reflexivity|].
  destruct (mem_str (sf_name f) seen); [reflexivity|].
  rewrite (field_size_align_agree s1 s2 (sf_ty f)).
  - destruct (field_size_align s2 (sf_ty f)) as [[isz ial]| | |]; cbn; try reflexivity.
    destruct (ial =? 0); [reflexivity|]. destruct (negb (size mod ial =? 0)); [reflexivity|].
    destruct (uop md 1 (isz * sf_cnt f)); cbn; try reflexivity.
    destruct (uop md 2 (size + a)); cbn; try reflexivity.
    apply IH. intros c Hc. apply H. cbn [flat_map]. apply in_or_app. now right.
  - intros c E. apply H. cbn [flat_map]. rewrite E. now left.
Qed.

(* an accepted struct only mentions struct types the store knows *)
Lemma verify_fields_ok_customs md store fs : forall seen size al r,
  verify_fields md store seen fs size al = Ok r ->
  forall c, In c (flat_map (fun f => match sf_ty f with TCustom n => [n] | _ => [] end) fs) ->
            alookup c store <> None.
Proof.
  induction fs as [|f fs IH]; intros seen size al r H c Hc; [destruct Hc|].
  cbn [verify_fields] in H. destruct (mem_str (sf_name f) seen); [discriminate|].
  destruct (field_size_align store (sf_ty f)) as [[isz ial]| | |] eqn:EF; cbn in H; try discriminate.
  destruct (ial =? 0); [discriminate|]. destruct (negb (size mod ial =? 0)); [discriminate|].
  destruct (uop md 1 (isz * sf_cnt f)); cbn in H; try discriminate.
  destruct (uop md 2 (size + a)); cbn in H; try discriminate.
  cbn [flat_map] in Hc. apply in_app_or in Hc. destruct Hc as [Hc|Hc].
  - destruct (sf_ty f) eqn:ET; try destruct Hc as [<-|[]]; try destruct Hc.
    cbn in EF. destruct (alookup n store); [discriminate | discriminate].
  - exact (IH _ _ _ _ H c Hc).
Qed.

(* the store after a run: the given one plus one entry per struct of the order *)
Lemma verify_structs_other md st : forall order store store',
  verify_structs md st store order = Ok store' ->
  forall k, ~ In k order -> alookup k store' = alookup k store.
Proof.
  induction order as [|n order IH]; intros store store' H k Hk; cbn in H.
  - inversion H; reflexivity.
  - destruct (struct_lookup st n) as [s|]; [|discriminate].
    destruct (verify_fields md store [] (s_fields s) 0 0) as [sa| | |]; cbn in H; try discriminate.
    rewrite (IH _ _ H k); [|intro X; apply Hk; now right].
    cbn. destruct (String.eqb k n) eqn:E; [|reflexivity].
    apply String.eqb_eq in E. subst. exfalso. apply Hk. now left.
Qed.

(* the final store is a fixed point: every struct of the order, verified against the final
   store, yields its own entry *)
Lemma verify_structs_fixpoint md st : forall order store store',
  NoDup order -> (forall k, In k order -> alookup k store = None) ->
  verify_structs md st store order = Ok store' ->
  forall n, In n order ->
    exists s v, struct_lookup st n = Some s /\ alookup n store' = Some v /\
                verify_fields md store' [] (s_fields s) 0 0 = Ok v.
Proof.
  induction order as [|m order IH]; intros store store' ND HN H n Hn; [destruct Hn|].
  cbn in H. destruct (struct_lookup st m) as [s|] eqn:EL; [|discriminate].
  destruct (verify_fields md store [] (s_fields s) 0 0) as [sa| | |] eqn:EV; cbn in H; try discriminate.
  inversion ND as [|? ? NI ND']; subst.
  assert (HN' : forall k, In k order -> alookup k ((m, sa) :: store) = None).
  { intros k Hk. cbn. destruct (String.eqb k m) eqn:E.
    - apply String.eqb_eq in E. subst. contradiction.
    - apply HN. now right. }
  destruct Hn as [<-|Hn].
  - exists s, sa. split; [exact EL|]. split.
    + rewrite (verify_structs_other _ _ _ _ _ H m NI). cbn. now rewrite String.eqb_refl.
    + rewrite <- EV. apply verify_fields_agree. intros c Hc.
      pose proof (verify_fields_ok_customs _ _ _ _ _ _ _ EV c Hc) as NE.
      assert (NC : ~ In c (m :: order)).
      { intro X. apply NE. now apply HN. }
      rewrite (verify_structs_other _ _ _ _ _ H c); [|intro X; apply NC; now right].
      cbn. destruct (String.eqb c m) eqn:E; [|reflexivity].
      apply String.eqb_eq in E. subst. exfalso. apply NC. now left.
  - exact (IH _ _ ND' HN' H n Hn).
Qed.

(* dependency-respecting: every struct type a struct mentions occurs earlier in the order *)
Fixpoint deps_first (st : symtab) (earlier order : list string) : Prop :=
  match order with
  | [] => True
  | n :: r =>
      (forall s c, struct_lookup st n = Some s -> In c (customs s) -> In c earlier) /\
      deps_first st (n :: earlier) r
  end.

(* replaying another dependency-respecting order against the values D of a fixed point *)
Lemma replay_order md st (D : list (string * (N * N))) :
  forall order earlier store,
  (forall n, In n order -> exists s v, struct_lookup st n = Some s /\ alookup n D = Some v /\
                                       verify_fields md D [] (s_fields s) 0 0 = Ok v) ->
  deps_first st earlier order ->
  (forall k, In k earlier -> alookup k store = alookup k D) ->
  exists store', verify_structs md st store order = Ok store' /\
                 (forall k, In k (rev order ++ earlier) -> alookup k store' = alookup k D) /\
                 (forall k, ~ In k order -> alookup k store' = alookup k store).
Proof.
  induction order as [|n order IH]; intros earlier store HD HF HA.
  - exists store. cbn. repeat split; auto.
  - destruct HF as [HF1 HF2]. destruct (HD n (or_introl eq_refl)) as (s & v & EL & EDn & EV).
    cbn [verify_structs]. rewrite EL.
    assert (EV' : verify_fields md store [] (s_fields s) 0 0 = Ok v).
    { rewrite <- EV. apply verify_fields_agree. intros c Hc. apply HA. exact (HF1 s c EL Hc). }
    rewrite EV'. cbn.
    destruct (IH (n :: earlier) ((n, v) :: store)) as (store' & HV & HI & HO).
    + intros k Hk. apply HD. now right.
    + exact HF2.
    + intros k [<-|Hk]; cbn.
      * now rewrite String.eqb_refl.
      * destruct (String.eqb k n) eqn:E; [apply String.eqb_eq in E; subst; now rewrite EDn | now apply HA].
    + exists store'. split; [exact HV|]. split.
      * intros k Hk. apply HI. cbn [rev] in Hk. rewrite <- app_assoc in Hk. exact Hk.
      * intros k Hk. rewrite HO; [|intro X; apply Hk; now right].
        cbn. destruct (String.eqb k n) eqn:E; [|reflexivity].
        apply String.eqb_eq in E. subst. exfalso. apply Hk. now left.
Qed.

Theorem verifier_order_independent md st o1 o2 s1 :
  NoDup o1 -> Permutation o1 o2 -> deps_first st [] o2 ->
  verify_structs md st [] o1 = Ok s1 ->
  exists s2, verify_structs md st [] o2 = Ok s2 /\ forall k, alookup k s2 = alookup k s1.
Proof.
  intros ND P DF H.
  assert (FX := verify_structs_fixpoint md st o1 [] s1 ND (fun _ _ => eq_refl) H).
  destruct (replay_order md st s1 o2 [] []) as (s2 & HV & HI & HO).
  - intros n Hn. apply FX. eapply Permutation_in; [apply Permutation_sym; exact P | exact Hn].
  - exact DF.
  - intros k [].
  - exists s2. split; [exact HV|]. intro k.
    destruct (in_dec string_dec k o2) as [Hk|Hk].
    + apply HI. rewrite app_nil_r. now apply in_rev in Hk.
    + rewrite (HO k Hk). cbn. symmetry.
      rewrite (verify_structs_other _ _ _ _ _ H k); [reflexivity|].
      intro X. apply Hk. eapply Permutation_in; eassumption.
Qed.
