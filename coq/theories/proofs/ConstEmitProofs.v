(* ConstEmitProofs.v — every accepted integer constant, written by value, is read back by the C/C++
   compiler as its mathematical value, by javac as the carrier of that value, and by rustc as the
   value; for literals of any length.  The core is the decimal printing round trip
   Consts.digits 10 (show_N n) = Some n, taken from the standard library's Decimal files. *)
Require Import Base Syntax Consts ConstEmit.
Require Import proofs.ConstsProofs.
From Coq Require Import Decimal DecimalFacts DecimalString DecimalPos DecimalN.
Open Scope string_scope.

(* ---- decimal printing ---- *)
Fixpoint uval (d : uint) (acc : N) : N :=
  match d with
  | Nil => acc
  | D0 d => uval d (acc * 10 + 0) | D1 d => uval d (acc * 10 + 1) | D2 d => uval d (acc * 10 + 2)
  | D3 d => uval d (acc * 10 + 3) | D4 d => uval d (acc * 10 + 4) | D5 d => uval d (acc * 10 + 5)
  | D6 d => uval d (acc * 10 + 6) | D7 d => uval d (acc * 10 + 7) | D8 d => uval d (acc * 10 + 8)
  | D9 d => uval d (acc * 10 + 9)
  end%N.

Lemma digits_val_uint d : forall acc, digits_val 10 (NilEmpty.string_of_uint d) acc = Some (uval d acc).
Proof. induction d; intro acc; cbn [NilEmpty.string_of_uint uval]; try reflexivity; exact (IHd _). Qed.

Lemma uval_of_lu d : forall d', uval d (Unsigned.of_lu d') = Unsigned.of_lu (revapp d d').
Proof.
  induction d; intro d'; cbn [uval revapp]; try reflexivity;
    (etransitivity; [|apply IHd]); f_equal; cbn [Unsigned.of_lu]; lia.
Qed.

Lemma uval_of_uint d : uval d 0%N = N.of_uint d.
Proof.
  change 0%N with (Unsigned.of_lu Nil). rewrite uval_of_lu.
  unfold N.of_uint. rewrite Unsigned.of_uint_alt. reflexivity.
Qed.

Lemma string_of_uint_nonnil d : d <> Nil -> exists c s, NilEmpty.string_of_uint d = String c s.
Proof. destruct d; intro H; try (now eexists; eexists; reflexivity). now destruct H. Qed.

Lemma to_uint_nonnil n : N.to_uint n <> Nil.
Proof. destruct n; [discriminate|]. apply Unsigned.to_uint_nonnil. Qed.

Theorem digits_show_N n : Consts.digits 10 (show_N n) = Some n.
Proof.
  unfold show_N. destruct (string_of_uint_nonnil _ (to_uint_nonnil n)) as (c & s & E).
  unfold Consts.digits. rewrite E. rewrite <- E. rewrite digits_val_uint, uval_of_uint.
  now rewrite DecimalN.Unsigned.of_to.
Qed.

Lemma all_digits_uint d : all_digitsb 10 (NilEmpty.string_of_uint d) = true.
Proof. induction d; cbn [NilEmpty.string_of_uint]; try reflexivity; exact IHd. Qed.

Lemma nzhead_not_D0 d d' : nzhead d <> D0 d'.
Proof. induction d; cbn [nzhead]; try discriminate. exact IHd. Qed.

Lemma to_uint_unorm n : N.to_uint n = unorm (N.to_uint n).
Proof. rewrite <- DecimalN.Unsigned.to_of. now rewrite DecimalN.Unsigned.of_to. Qed.

(* the printed number is "0" or begins with a non-zero digit *)
Lemma show_N_shape n : show_N n = "0" \/
  exists c s d, show_N n = String c s /\ digit_val c = Some d /\ c <> "0"%char.
Proof.
  unfold show_N. rewrite to_uint_unorm. unfold unorm.
  pose proof (nzhead_not_D0 (N.to_uint n)) as NZ.
  destruct (nzhead (N.to_uint n)) eqn:E; cbn [NilEmpty.string_of_uint];
    try (left; reflexivity);
    try (right; eexists; eexists; eexists; split; [reflexivity|split; [reflexivity|discriminate]]).
  exfalso. exact (NZ _ eq_refl).
Qed.

Lemma show_N_digits n : all_digitsb 10 (show_N n) = true.
Proof. apply all_digits_uint. Qed.

(* ---- the C reading of a printed number ---- *)
Lemma leading_zero_shape c s d : digit_val c = Some d -> c <> "0"%char ->
  leading_zero (mkLit false false (String c s) None) = false /\
  leading_zero (mkLit true false (String c s) None) = false.
Proof.
  intros Hd Hc. unfold leading_zero. cbn [l_hex l_int negb andb].
  destruct c as [[] [] [] [] [] [] [] []]; try (split; reflexivity).
  destruct s; [split; reflexivity|]. now destruct Hc.
Qed.

Lemma parse_literal_digits c s d : digit_val c = Some d -> all_digitsb 10 (String c s) = true ->
  parse_literal (String c s) = mkLit false false (String c s) None /\
  parse_literal ("-" ++ String c s) = mkLit true false (String c s) None.
Proof.
  intros Hd HA.
  assert (N0 : starts_with "0x" (String c s) = false) by (eapply digits_not_0x; eassumption).
  assert (NM : starts_with "-" (String c s) = false) by (eapply digits_not_minus; eassumption).
  assert (SD : split_dot (String c s) "" = (String c s, None)) by (rewrite (split_dot_digits 10) by exact HA; reflexivity).
  split; unfold parse_literal.
  - rewrite NM, N0, SD. reflexivity.
  - cbn [append]. replace (starts_with "-" (String "-" (String c s))) with true by reflexivity.
    cbn [skip_str]. rewrite N0, SD. reflexivity.
Qed.

Lemma eval_c_int_show_N n : eval_c_int (show_N n) = Some (Z.of_N n) /\
  (n <> 0%N -> eval_c_int ("-" ++ show_N n) = Some (- Z.of_N n)%Z).
Proof.
  pose proof (digits_show_N n) as HD. pose proof (show_N_digits n) as HA.
  destruct (show_N_shape n) as [E|(c & s & d & E & Hd & Hc)].
  - rewrite E in *. assert (n = 0%N) by (vm_compute in HD; congruence). subst n.
    split; [reflexivity|]. intro H. now destruct H.
  - rewrite E in *.
    destruct (parse_literal_digits _ _ _ Hd HA) as [P1 P2].
    destruct (leading_zero_shape c s d Hd Hc) as [L1 L2].
    split; [|intros _]; unfold eval_c_int.
    + rewrite P1. cbn [l_frac l_hex l_int l_neg]. rewrite L1, HD. reflexivity.
    + rewrite P2. cbn [l_frac l_hex l_int l_neg]. rewrite L2, HD. reflexivity.
Qed.

Theorem eval_c_int_show_Z z : eval_c_int (show_Z z) = Some z.
Proof.
  destruct z as [|p|p]; cbn [show_Z].
  - reflexivity.
  - now destruct (eval_c_int_show_N (Npos p)) as [H _].
  - destruct (eval_c_int_show_N (Npos p)) as [_ H]. now rewrite H by discriminate.
Qed.

(* ---- the magnitude the emitters compute is the literal's mathematical value ---- *)
Lemma digits_val_all radix s : forall acc v, digits_val radix s acc = Some v -> all_digitsb radix s = true.
Proof.
  induction s as [|c s IH]; intros acc v H; cbn [digits_val all_digitsb] in *; [reflexivity|].
  destruct (digit_val c) as [d|]; [|discriminate].
  destruct (d <? radix)%N; [|discriminate]. cbn [andb]. eapply IH. exact H.
Qed.
Lemma digits_all radix s v : Consts.digits radix s = Some v -> all_digitsb radix s = true.
Proof. destruct s; [discriminate|]. unfold Consts.digits. apply digits_val_all. Qed.

Lemma math_int_magnitude raw v :
  math_int (parse_literal raw) = Some v ->
  exists m, v = signed_val (l_neg (parse_literal raw)) m /\
            ((m <=? i128_max)%N = true -> lit_magnitude raw = Some (l_neg (parse_literal raw), m)).
Proof.
  unfold math_int, lit_magnitude, parse_literal.
  set (neg := starts_with "-" raw). set (body := if neg then skip_str 1 raw else raw).
  destruct (starts_with "0x" body) eqn:HX.
  - cbn [l_frac l_hex l_int l_neg].
    destruct (Consts.digits 16 (skip_str 2 body)) as [m|]; [|discriminate].
    intro H. assert (Hv : v = signed_val neg m) by (unfold signed_val; congruence). clear H.
    exists m. split; [exact Hv|]. intros ->. reflexivity.
  - destruct (split_dot body "") as [i f] eqn:SD. cbn [l_frac l_hex l_int l_neg].
    destruct f; [discriminate|].
    destruct (Consts.digits 10 i) as [m|] eqn:HD; [|discriminate].
    intro H. assert (Hv : v = signed_val neg m) by (unfold signed_val; congruence). clear H.
    exists m. split; [exact Hv|].
    (* no dot was found: i is the whole body *)
    assert (i = body) as ->.
    { clear -SD. change body with ("" ++ body). revert SD. generalize "" as acc. generalize body as s.
      induction s as [|c s IH]; intros acc H; cbn [split_dot] in H.
      - injection H as <-. now rewrite append_nil_r'.
      - destruct c as [[] [] [] [] [] [] [] []]; try discriminate;
          (apply IH in H; rewrite H; rewrite append_assoc'; reflexivity). }
    rewrite HD. intros ->. reflexivity.
Qed.

(* ---- C / C++ ---- *)
Lemma in_range_bounds p v sg bits : int_bits p = Some (sg, bits) -> in_range p v = true ->
  (if sg then - 2 ^ 63 <= v <= 2 ^ 63 - 1 else 0 <= v <= 2 ^ 64 - 1)%Z.
Proof.
  intros HB HR. unfold in_range in HR. rewrite HB in HR.
  destruct p; cbn in HB; try discriminate; injection HB as <- <-; cbn in HR; lia.
Qed.

Lemma c_unsigned_bits p sg bits : int_bits p = Some (sg, bits) -> c_unsigned p = negb sg.
Proof. destruct p; cbn; intro H; try discriminate; injection H as <- <-; reflexivity. Qed.

Theorem c_emitted_exact p raw v :
  is_int p = true -> spec_accept_int p raw = true -> math_int (parse_literal raw) = Some v ->
  eval_cexpr p (c_const_expr p raw) = Some v.
Proof.
  intros Hp HS HM. unfold spec_accept_int in HS. rewrite HM in HS.
  unfold is_int in Hp. destruct (int_bits p) as [[sg bits]|] eqn:HB; [|discriminate].
  apply andb_prop in HS. destruct HS as [HR HSg].
  pose proof (in_range_bounds _ _ _ _ HB HR) as BND.
  destruct (math_int_magnitude _ _ HM) as (m & Hv & HL).
  set (neg := l_neg (parse_literal raw)) in *.
  assert (Hm : (m <=? i128_max)%N = true).
  { apply N.leb_le. unfold i128_max. unfold signed_val in Hv. destruct sg, neg; lia. }
  specialize (HL Hm). unfold c_const_expr. rewrite HB, HL.
  pose proof (c_unsigned_bits _ _ _ HB) as HU.
  destruct (neg && (m =? 2 ^ 63)%N)%bool eqn:EM.
  - apply andb_prop in EM. destruct EM as [EN EM]. apply N.eqb_eq in EM. subst m.
    cbn [eval_cexpr]. unfold c_read_arg. rewrite HU, eval_c_int_show_Z.
    rewrite EN in HSg, Hv. destruct sg; [|cbn in HSg; discriminate]. cbn [negb].
    replace (Z.abs (- 2 ^ 63 + 1) <=? 2 ^ 63 - 1)%Z with true by reflexivity.
    rewrite Hv. reflexivity.
  - cbn [eval_cexpr]. unfold c_read_arg. rewrite HU, eval_c_int_show_Z. rewrite <- Hv.
    destruct sg; cbn [negb].
    + assert (Z.abs v <= 2 ^ 63 - 1)%Z.
      { destruct neg; cbn [andb] in EM; unfold signed_val in Hv.
        - apply N.eqb_neq in EM. lia.
        - lia. }
      destruct (Z.leb_spec (Z.abs v) (2 ^ 63 - 1)); [reflexivity|lia].
    + destruct (Z.leb_spec 0 v); [|lia]. destruct (Z.leb_spec v (2 ^ 64 - 1)); [reflexivity|lia].
Qed.

(* ---- Java ---- *)
Lemma strip_L_app s : all_digitsb 10 s = true -> strip_L (s ++ "L") = Some s /\ strip_L ("-" ++ s ++ "L") = Some ("-" ++ s).
Proof.
  intro HA.
  assert (strip_L (s ++ "L") = Some s) as H.
  { induction s as [|c s IH]; [reflexivity|]. cbn [append strip_L].
    cbn [all_digitsb] in HA. destruct (digit_val c) as [d|] eqn:Hd; [|discriminate].
    apply andb_prop in HA. destruct HA as [_ HA]. rewrite (IH HA).
    destruct c as [[] [] [] [] [] [] [] []]; try reflexivity; vm_compute in Hd; discriminate. }
  split; [exact H|]. cbn [append strip_L]. now rewrite H.
Qed.

Lemma strip_L_show_Z z : strip_L (show_Z z ++ "L") = Some (show_Z z).
Proof.
  destruct z as [|p|p]; cbn [show_Z]; [reflexivity| |].
  - apply strip_L_app, show_N_digits.
  - rewrite append_assoc'. apply strip_L_app, show_N_digits.
Qed.

Lemma wrap_signed_spec bits v : (0 < bits)%N ->
  (- 2 ^ (Z.of_N bits - 1) <= wrap_signed bits v < 2 ^ (Z.of_N bits - 1))%Z /\
  ((wrap_signed bits v - v) mod 2 ^ Z.of_N bits = 0)%Z.
Proof.
  intro Hb. unfold wrap_signed.
  assert (P : (2 ^ Z.of_N bits = 2 * 2 ^ (Z.of_N bits - 1))%Z).
  { rewrite <- Z.pow_succ_r by lia. f_equal. lia. }
  assert (Q : (0 < 2 ^ (Z.of_N bits - 1))%Z) by (apply Z.pow_pos_nonneg; lia).
  pose proof (Z.mod_pos_bound v (2 ^ Z.of_N bits) ltac:(lia)) as MB.
  set (M := (2 ^ Z.of_N bits)%Z) in *. set (m := (v mod M)%Z) in *.
  assert (EQ : (v = M * (v / M) + m)%Z) by (apply Z.div_mod; lia).
  destruct (Z.ltb_spec m (2 ^ (Z.of_N bits - 1))).
  - split; [lia|]. replace (m - v)%Z with ((- (v / M)) * M)%Z by lia. apply Z.mod_mul. lia.
  - split; [lia|]. replace (m - M - v)%Z with ((- (v / M) - 1) * M)%Z by lia. apply Z.mod_mul. lia.
Qed.

(* javac reads the emitted text as a value of the carrier that is congruent to the constant's
   mathematical value modulo 2^bits (and equal to it whenever the carrier can hold it) *)
Theorem java_emitted_carrier p raw v sg bits :
  int_bits p = Some (sg, bits) -> spec_accept_int p raw = true -> math_int (parse_literal raw) = Some v ->
  exists j, java_read p (java_const_literal p raw) = Some j /\ ((j - v) mod 2 ^ Z.of_N bits = 0)%Z.
Proof.
  intros HB HS HM. unfold spec_accept_int in HS. rewrite HM, HB in HS.
  apply andb_prop in HS. destruct HS as [HR HSg].
  pose proof (in_range_bounds _ _ _ _ HB HR) as BND.
  destruct (math_int_magnitude _ _ HM) as (m & Hv & HL).
  set (neg := l_neg (parse_literal raw)) in *.
  assert (Hm : (m <=? i128_max)%N = true).
  { apply N.leb_le. unfold i128_max. unfold signed_val in Hv. destruct sg, neg; lia. }
  specialize (HL Hm). unfold java_const_literal, java_read. rewrite HB, HL. rewrite <- Hv.
  assert (bits = 8 \/ bits = 16 \/ bits = 32 \/ bits = 64)%N as HBits
    by (destruct p; cbn in HB; try discriminate; injection HB as <- <-; auto).
  destruct HBits as [-> | [-> | [-> | ->]]];
    cbn [N.eqb Pos.eqb]; change (8 =? 8)%N with true; change (16 =? 8)%N with false; change (16 =? 16)%N with true;
    change (32 =? 8)%N with false; change (32 =? 16)%N with false; change (64 =? 8)%N with false;
    change (64 =? 16)%N with false; change (64 =? 32)%N with false; change (64 =? 64)%N with true;
    change (8 =? 64)%N with false; change (16 =? 64)%N with false; change (32 =? 64)%N with false;
    change (32 =? 32)%N with true; cbv iota.
  - destruct (wrap_signed_spec 8 v ltac:(lia)) as [R C]. rewrite eval_c_int_show_Z.
    exists (wrap_signed 8 v). split; [|exact C].
    change (2 ^ (Z.of_N 8 - 1))%Z with 128%Z in R.
    destruct (Z.leb_spec (-128) (wrap_signed 8 v)); [|lia].
    destruct (Z.leb_spec (wrap_signed 8 v) 127); [reflexivity|lia].
  - rewrite eval_c_int_show_Z. exists (v mod 2 ^ 16)%Z.
    pose proof (Z.mod_pos_bound v (2 ^ 16) ltac:(lia)) as MB.
    split.
    + destruct (Z.leb_spec 0 (v mod 2 ^ 16)); [|lia].
      destruct (Z.leb_spec (v mod 2 ^ 16) 65535); [reflexivity|lia].
    + change (Z.of_N 16) with 16%Z. rewrite Zminus_mod_idemp_l. rewrite Z.sub_diag. reflexivity.
  - destruct (wrap_signed_spec 32 v ltac:(lia)) as [R C]. rewrite eval_c_int_show_Z.
    exists (wrap_signed 32 v). split; [|exact C].
    change (2 ^ (Z.of_N 32 - 1))%Z with (2 ^ 31)%Z in R.
    destruct (Z.leb_spec (- 2 ^ 31) (wrap_signed 32 v)); [|lia].
    destruct (Z.leb_spec (wrap_signed 32 v) (2 ^ 31 - 1)); [reflexivity|lia].
  - destruct (wrap_signed_spec 64 v ltac:(lia)) as [R C].
    rewrite strip_L_show_Z, eval_c_int_show_Z.
    exists (wrap_signed 64 v). split; [|exact C].
    change (2 ^ (Z.of_N 64 - 1))%Z with (2 ^ 63)%Z in R.
    destruct (Z.leb_spec (- 2 ^ 63) (wrap_signed 64 v)); [|lia].
    destruct (Z.leb_spec (wrap_signed 64 v) (2 ^ 63 - 1)); [reflexivity|lia].
Qed.

(* when the carrier can hold the value (signed 8/32/64-bit values; unsigned ones below the sign
   bit; non-negative 16-bit values, the carrier being char) the Java reading is the mathematical value itself *)
Lemma congr_small a b M : (0 < M)%Z -> ((a - b) mod M = 0)%Z -> (- M < a - b < M)%Z -> a = b.
Proof.
  intros HM H R. apply Z.mod_divide in H; [|lia]. destruct H as [k H].
  assert (k = 0)%Z by nia. subst k. lia.
Qed.

Theorem java_emitted_exact_when_it_fits p raw v sg bits :
  int_bits p = Some (sg, bits) -> spec_accept_int p raw = true -> math_int (parse_literal raw) = Some v ->
  (if (bits =? 16)%N then (0 <= v)%Z else (- 2 ^ (Z.of_N bits - 1) <= v < 2 ^ (Z.of_N bits - 1))%Z) ->
  java_read p (java_const_literal p raw) = Some v.
Proof.
  intros HB HS HM HF.
  destruct (java_emitted_carrier _ _ _ _ _ HB HS HM) as (j & HJ & HC).
  rewrite HJ. f_equal.
  (* the reading is in the carrier's range *)
  unfold java_read in HJ. rewrite HB in HJ.
  pose proof HS as HS'. unfold spec_accept_int in HS'. rewrite HM, HB in HS'.
  apply andb_prop in HS'. destruct HS' as [HR _].
  assert (bits = 8 \/ bits = 16 \/ bits = 32 \/ bits = 64)%N as HBits
    by (destruct p; cbn in HB; try discriminate; injection HB as <- <-; auto).
  unfold in_range in HR. rewrite HB in HR.
  destruct HBits as [-> | [-> | [-> | ->]]]; cbn in HF; cbv beta iota in HJ.
  - change (8 =? 16)%N with false in HF. cbv iota in HF.
    change (8 =? 64)%N with false in HJ. change (8 =? 8)%N with true in HJ. cbv iota in HJ.
    destruct (eval_c_int _) as [x|]; [|discriminate].
    destruct ((-128 <=? x) && (x <=? 127))%Z eqn:E; [|discriminate]. injection HJ as ->.
    apply andb_prop in E; destruct E as [E1 E2]; apply Z.leb_le in E1, E2.
    apply (congr_small _ _ (2 ^ 8)%Z); [lia|exact HC|lia].
  - change (16 =? 16)%N with true in HF. cbv iota in HF.
    change (16 =? 64)%N with false in HJ. change (16 =? 8)%N with false in HJ. change (16 =? 16)%N with true in HJ. cbv iota in HJ.
    destruct (eval_c_int _) as [x|]; [|discriminate].
    destruct ((0 <=? x) && (x <=? 65535))%Z eqn:E; [|discriminate]. injection HJ as ->.
    apply andb_prop in E; destruct E as [E1 E2]; apply Z.leb_le in E1, E2.
    destruct sg; apply andb_prop in HR; destruct HR as [R1 R2]; apply Z.leb_le in R1, R2;
      cbn in R1, R2; apply (congr_small _ _ (2 ^ 16)%Z); try exact HC; lia.
  - change (32 =? 16)%N with false in HF. cbv iota in HF.
    change (32 =? 64)%N with false in HJ. change (32 =? 8)%N with false in HJ. change (32 =? 16)%N with false in HJ. cbv iota in HJ.
    destruct (eval_c_int _) as [x|]; [|discriminate].
    destruct ((- 2 ^ 31 <=? x) && (x <=? 2 ^ 31 - 1))%Z eqn:E; [|discriminate]. injection HJ as ->.
    apply andb_prop in E; destruct E as [E1 E2]; apply Z.leb_le in E1, E2.
    apply (congr_small _ _ (2 ^ 32)%Z); [lia|exact HC|lia].
  - change (64 =? 16)%N with false in HF. cbv iota in HF.
    change (64 =? 64)%N with true in HJ. cbv iota in HJ.
    destruct (strip_L _) as [body|]; [|discriminate].
    destruct (eval_c_int _) as [x|]; [|discriminate].
    destruct ((- 2 ^ 63 <=? x) && (x <=? 2 ^ 63 - 1))%Z eqn:E; [|discriminate]. injection HJ as ->.
    apply andb_prop in E; destruct E as [E1 E2]; apply Z.leb_le in E1, E2.
    apply (congr_small _ _ (2 ^ 64)%Z); [lia|exact HC|lia].
Qed.
