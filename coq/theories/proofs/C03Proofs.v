(* C03Proofs.v — the bundle: which parameters it holds, in which order, its size, its place. *)
Require Import Base Syntax Front Plan.
Require Import gen.CodeFacts.
Require Import proofs.PlanProofs proofs.C02Proofs.
Require Import Permutation Sorting.Sorted.
Open Scope N_scope.

(* "fixed-size data parameters of at most 16 bytes": the threshold the code uses *)
Lemma small_threshold_is_16 : bundled_size_max = 16.
Proof. reflexivity. Qed.

Lemma ins_desc_perm x l : Permutation (ins_desc x l) (x :: l).
Proof.
  induction l as [|y l IH]; cbn [ins_desc]; [apply Permutation_refl|].
  destruct (psize x <=? psize y); [|apply Permutation_refl].
  eapply Permutation_trans; [apply perm_skip; exact IH | apply perm_swap].
Qed.

Lemma sort_desc_perm l : Permutation (sort_desc l) l.
Proof.
  unfold sort_desc.
  assert (G : forall acc, Permutation (fold_left (fun a x => ins_desc x a) l acc) (l ++ acc)).
  { induction l as [|x l IH]; intro acc; cbn [fold_left app]; [apply Permutation_refl|].
    eapply Permutation_trans; [apply IH|].
    eapply Permutation_trans; [apply Permutation_app_head; apply ins_desc_perm|].
    apply Permutation_sym. apply Permutation_middle. }
  specialize (G []). now rewrite app_nil_r in G.
Qed.

Definition ge_size (a b : mparam) : Prop := psize b <= psize a.

Lemma ins_desc_sorted x l : Sorted ge_size l -> Sorted ge_size (ins_desc x l).
Proof.
  induction l as [|y l IH]; intro H; cbn [ins_desc]; [repeat constructor|].
  destruct (psize x <=? psize y) eqn:E.
  - inversion H as [|? ? HS HR]; subst. constructor; [apply IH; exact HS|].
    destruct l as [|z l']; cbn [ins_desc].
    + constructor. unfold ge_size. now apply N.leb_le.
    + destruct (psize x <=? psize z) eqn:E2.
      * inversion HR; subst. constructor. assumption.
      * constructor. unfold ge_size. now apply N.leb_le.
  - constructor; [exact H|]. constructor. unfold ge_size. apply N.leb_gt in E. lia.
Qed.

(* largest first *)
Theorem sort_desc_sorted l : Sorted ge_size (sort_desc l).
Proof.
  unfold sort_desc.
  assert (G : forall acc, Sorted ge_size acc -> Sorted ge_size (fold_left (fun a x => ins_desc x a) l acc)).
  { induction l as [|x l IH]; intros acc H; cbn [fold_left]; [exact H|]. apply IH. now apply ins_desc_sorted. }
  apply G. constructor.
Qed.

(* the members of a bundle are exactly the bundleable value parameters of that direction *)
Theorem packed_members out ps :
  Permutation (packed out ps) (filter (fun p => Bool.eqb (mp_out p) out && bundleable p) ps).
Proof. unfold packed. apply sort_desc_perm. Qed.

Theorem packed_sorted out ps : Sorted ge_size (packed out ps).
Proof. unfold packed. apply sort_desc_sorted. Qed.

(* a bundle exists iff there are two or more such parameters *)
Theorem bundle_iff_two (out : bool) ps :
  (if out then bo_of ps else bi_of ps) = true <->
  Nat.le 2 (List.length (filter (fun p => Bool.eqb (mp_out p) out && bundleable p) ps)).
Proof.
  assert (L : List.length (packed out ps) = List.length (filter (fun p => Bool.eqb (mp_out p) out && bundleable p) ps))
    by (apply Permutation_length; apply packed_members).
  destruct out; unfold bo_of, bi_of, pout_of, pin_of; rewrite <- L; rewrite N.ltb_lt; lia.
Qed.

(* its size is the exact sum of the member sizes *)
Lemma sumN_perm l1 l2 : Permutation l1 l2 -> sumN l1 = sumN l2.
Proof.
  unfold sumN. intro P.
  assert (G : forall a, fold_left N.add l1 a = fold_left N.add l2 a).
  { induction P; intro a; cbn [fold_left].
    + reflexivity.
    + apply IHP.
    + f_equal. lia.
    + now rewrite IHP1, IHP2. }
  apply G.
Qed.

Theorem bundle_size_is_sum out ps :
  packed_size (packed out ps) =
  sumN (map psize (filter (fun p => Bool.eqb (mp_out p) out && bundleable p) ps)).
Proof. unfold packed_size. apply sumN_perm. apply Permutation_map. apply packed_members. Qed.

(* every member is a value of at most 16 bytes *)
Theorem bundle_members_small out ps m : In m (packed out ps) -> is_prim (mp_ty m) = true \/ psize m <= 16.
Proof.
  intro H. apply (Permutation_in _ (packed_members out ps)) in H. apply filter_In in H.
  destruct H as [_ H]. apply andb_prop in H. destruct H as [_ H]. unfold bundleable in H.
  apply orb_prop in H. destruct H as [H|H].
  - left. unfold is_prim_value in H. apply andb_prop in H. tauto.
  - right. unfold is_small_struct_value in H. apply andb_prop in H. destruct H as [_ H].
    unfold is_small in H. apply N.leb_le in H. rewrite small_threshold_is_16 in H. exact H.
Qed.
