(* OwnProofs.v — the ledger after a call, for every scenario (any number of input and output
   positions, null / non-null / aliased objects, success and failure) and all 3 x 3 pairings. *)
Require Import Base Own.
Require Import gen.OwnFacts.
Local Open Scope Z_scope.

Lemma bump_at x d L y : bump x d L y = L y + (if N.eqb y x then d else 0).
Proof. unfold bump. destruct (N.eqb y x); lia. Qed.

Lemma bump_opt_at o d L y : bump_opt o d L y = L y + d * mult y [o].
Proof.
  destruct o as [x|]; cbn [bump_opt mult]; [|lia].
  rewrite bump_at. destruct (N.eqb y x); lia.
Qed.

Lemma mult_cons y o r : mult y (o :: r) = mult y [o] + mult y r.
Proof. destruct o as [x|]; cbn [mult]; lia. Qed.

Lemma mult_app y a b : mult y (a ++ b) = mult y a + mult y b.
Proof.
  induction a as [|o a IH]; cbn [app]; [cbn [mult]; lia|].
  rewrite (mult_cons y o (a ++ b)), (mult_cons y o a), IH. lia.
Qed.

Lemma bump_all_at os d : forall L y, bump_all os d L y = L y + d * mult y os.
Proof.
  unfold bump_all. induction os as [|o os IH]; intros L y; cbn [fold_left].
  - cbn [mult]. lia.
  - rewrite IH, bump_opt_at, (mult_cons y o os). lia.
Qed.

Lemma opt_eqb_eq a b : opt_eqb a b = true -> a = b.
Proof.
  destruct a as [x|], b as [z|]; cbn [opt_eqb]; intro H; try discriminate; [|reflexivity].
  apply N.eqb_eq in H. now subst.
Qed.

Definition is_none (o : option N) : bool := match o with None => true | Some _ => false end.

Lemma mult_all_none y os : forallb is_none os = true -> mult y os = 0.
Proof.
  induction os as [|o os IH]; intro H; [reflexivity|].
  cbn [forallb] in H. apply andb_prop in H. destruct H as [H1 H2].
  destruct o; [discriminate|]. cbn [mult]. now apply IH.
Qed.

Lemma aliased_cons p r : aliased (p :: r) = hd None (aliased [p]) :: aliased r.
Proof. reflexivity. Qed.

Lemma aliased_one h o :
  hd None (aliased [(h, o)]) = match h with Some _ => if opt_eqb h o then h else None | None => None end.
Proof. reflexivity. Qed.

Lemma adopt_cpp leaky h o L :
  adopt_gen leaky BCpp h o L = if leaky && opt_eqb h o then (h, L) else (o, bump_opt h (-1) L).
Proof. reflexivity. Qed.

(* what a C++ stub's consume does over all output positions, for a consume that leaks the
   duplicate (leaky = true) and for one that does not *)
Lemma adopt_all_cpp leaky po : forall L,
  fst (adopt_all_gen leaky BCpp po L) = map snd po /\
  forall y, snd (adopt_all_gen leaky BCpp po L) y = L y - mult y (map fst po) + mult y (leaked leaky po).
Proof.
  induction po as [|[h o] po IH]; intro L; cbn [adopt_all_gen map fst snd].
  - split; [reflexivity|]. intro y. unfold leaked. destruct leaky; cbn [aliased map mult]; lia.
  - rewrite adopt_cpp. destruct (leaky && opt_eqb h o) eqn:E.
    + apply andb_prop in E. destruct E as [El E]. subst leaky.
      pose proof (opt_eqb_eq _ _ E) as ->.
      specialize (IH L). destruct (adopt_all_gen true BCpp po L) as [hs L2]. cbn [fst snd] in *.
      destruct IH as [IH1 IH2]. split; [now rewrite IH1|].
      intro y. rewrite IH2. rewrite (mult_cons y o (map fst po)).
      unfold leaked. rewrite (aliased_cons (o, o) po), aliased_one.
      destruct o as [x|].
      * rewrite E. rewrite (mult_cons y (Some x) (aliased po)). lia.
      * rewrite (mult_cons y None (aliased po)). cbn [mult]. lia.
    + specialize (IH (bump_opt h (-1) L)). destruct (adopt_all_gen leaky BCpp po (bump_opt h (-1) L)) as [hs L2].
      cbn [fst snd] in *. destruct IH as [IH1 IH2]. split; [now rewrite IH1|].
      intro y. rewrite IH2, bump_opt_at. rewrite (mult_cons y h (map fst po)).
      unfold leaked. destruct leaky.
      * cbn [andb] in E. rewrite (aliased_cons (h, o) po), aliased_one, E.
        assert (A : mult y ((match h with Some _ => None | None => None end) :: aliased po) = mult y (aliased po))
          by (destruct h; reflexivity).
        rewrite A. lia.
      * cbn [mult]. lia.
Qed.

(* C and Rust stubs: a plain store / a returned value *)
Lemma adopt_all_plain leaky b po : b <> BCpp -> forall L,
  fst (adopt_all_gen leaky b po L) = map snd po /\ snd (adopt_all_gen leaky b po L) = L.
Proof.
  intro Hb. induction po as [|[h o] po IH]; intro L; cbn [adopt_all_gen map snd].
  - split; reflexivity.
  - assert (A : adopt_gen leaky b h o L = (o, L)) by (destruct b; [reflexivity | congruence | reflexivity]).
    rewrite A. specialize (IH L). destruct (adopt_all_gen leaky b po L) as [hs L2]. cbn [fst snd] in *.
    destruct IH as [IH1 IH2]. split; [now rewrite IH1 | exact IH2].
Qed.

Lemma aliased_none po : forallb is_none (map fst po) = true -> forallb is_none (aliased po) = true.
Proof.
  induction po as [|[h o] po IH]; intro H; [reflexivity|].
  cbn [map fst forallb] in H. apply andb_prop in H. destruct H as [H1 H2].
  destruct h; [discriminate|]. cbn. now apply IH.
Qed.

Lemma leaked_none leaky po : forallb is_none (map fst po) = true -> forallb is_none (leaked leaky po) = true.
Proof. intro H. unfold leaked. destruct leaky; [now apply aliased_none | reflexivity]. Qed.

Lemma adopt_all_any leaky b s : holders_only_cpp b s = true -> forall L,
  fst (adopt_all_gen leaky b (sc_outs s) L) = out_of s /\
  forall y, snd (adopt_all_gen leaky b (sc_outs s) L) y = L y - mult y (pre_of s) + mult y (leaked leaky (sc_outs s)).
Proof.
  intros H L. destruct b.
  - cbn [holders_only_cpp] in H. destruct (adopt_all_plain leaky BC (sc_outs s) ltac:(discriminate) L) as [A B].
    split; [exact A|]. intro y. rewrite B.
    rewrite (mult_all_none y _ H), (mult_all_none y _ (leaked_none leaky _ H)). lia.
  - exact (adopt_all_cpp leaky (sc_outs s) L).
  - cbn [holders_only_cpp] in H. destruct (adopt_all_plain leaky BRust (sc_outs s) ltac:(discriminate) L) as [A B].
    split; [exact A|]. intro y. rewrite B.
    rewrite (mult_all_none y _ H), (mult_all_none y _ (leaked_none leaky _ H)). lia.
Qed.

Lemma in_neutral b1 b2 : stub_in b1 + skel_in b2 = 0.
Proof. destruct b1, b2; reflexivity. Qed.
Lemma out_neutral b2 : skel_out b2 = 0.
Proof. destruct b2; reflexivity. Qed.

(* the caller's holders after a successful call own exactly what the implementation handed over *)
Theorem holders_after_success_gen leaky b1 b2 s L0 :
  holders_only_cpp b1 s = true -> sc_ok s = true -> fst (after_call_gen leaky b1 b2 s L0) = out_of s.
Proof.
  intros H Hok. unfold after_call_gen. rewrite Hok. now apply adopt_all_any.
Qed.

(* every count when the call has returned *)
Theorem counts_after_call_gen leaky b1 b2 s L0 y :
  holders_only_cpp b1 s = true ->
  snd (after_call_gen leaky b1 b2 s L0) y =
    L0 y + mult y (sc_ins s) +
    (if sc_ok s then mult y (out_of s) + mult y (leaked leaky (sc_outs s)) else mult y (pre_of s)).
Proof.
  intro H. unfold after_call_gen. rewrite (in_neutral b1 b2), (out_neutral b2).
  destruct (sc_ok s).
  - destruct (adopt_all_any leaky b1 s H
      (bump_all (out_of s) (1 + 0) (bump_all (sc_ins s) 0 (bump_all (pre_of s) 1 (bump_all (sc_ins s) 1 L0))))) as [_ B].
    rewrite B, !bump_all_at. lia.
  - cbn [snd]. rewrite !bump_all_at. lia.
Qed.

(* a failed call adopts nothing *)
Theorem failed_call_adopts_nothing_gen leaky b1 b2 s L0 :
  sc_ok s = false -> fst (after_call_gen leaky b1 b2 s L0) = pre_of s.
Proof. intro H. unfold after_call_gen. now rewrite H. Qed.

(* the ledger once the caller has dropped everything it holds *)
Theorem ledger_after_drop_gen leaky b1 b2 s L0 y :
  holders_only_cpp b1 s = true ->
  after_drop_gen leaky b1 b2 s L0 y = L0 y + (if sc_ok s then mult y (leaked leaky (sc_outs s)) else 0).
Proof.
  intro H. unfold after_drop_gen.
  pose proof (counts_after_call_gen leaky b1 b2 s L0 y H) as C.
  destruct (sc_ok s) eqn:Hok.
  - pose proof (holders_after_success_gen leaky b1 b2 s L0 H Hok) as F.
    destruct (after_call_gen leaky b1 b2 s L0) as [held L]. cbn [fst snd] in *. subst held.
    rewrite !bump_all_at, C. lia.
  - pose proof (failed_call_adopts_nothing_gen leaky b1 b2 s L0 Hok) as F.
    destruct (after_call_gen leaky b1 b2 s L0) as [held L]. cbn [fst snd] in *. subst held.
    rewrite !bump_all_at, C. lia.
Qed.

Definition no_alias (s : scenario) : bool :=
  forallb (fun p => match fst p with Some _ => negb (opt_eqb (fst p) (snd p)) | None => true end) (sc_outs s).

Lemma no_alias_aliased s : no_alias s = true -> forallb is_none (aliased (sc_outs s)) = true.
Proof.
  unfold no_alias. induction (sc_outs s) as [|[h o] po IH]; intro H; [reflexivity|].
  cbn [forallb fst snd] in H. apply andb_prop in H. destruct H as [H1 H2].
  cbn [aliased map forallb fst snd]. fold (aliased po). rewrite (IH H2), Bool.andb_true_r.
  destruct h; [|reflexivity]. apply Bool.negb_true_iff in H1. now rewrite H1.
Qed.

(* balanced whenever no holder already owns the object returned into it, whatever consume does *)
Theorem balanced_after_drop_gen leaky b1 b2 s L0 y :
  holders_only_cpp b1 s = true -> no_alias s = true -> after_drop_gen leaky b1 b2 s L0 y = L0 y.
Proof.
  intros H NA. rewrite ledger_after_drop_gen by exact H. unfold leaked.
  destruct leaky; [rewrite (mult_all_none y _ (no_alias_aliased s NA))|cbn [mult]]; destruct (sc_ok s); lia.
Qed.

(* balanced for every scenario when consume gives the duplicate back *)
Theorem balanced_unconditionally b1 b2 s L0 y :
  holders_only_cpp b1 s = true -> after_drop_gen false b1 b2 s L0 y = L0 y.
Proof. intro H. rewrite ledger_after_drop_gen by exact H. cbn [leaked mult]. destruct (sc_ok s); lia. Qed.

(* the leak of the pinned ProxyBase::consume: a C++ proxy that already owns the returned object *)
Definition alias_witness : scenario :=
  {| sc_ins := [Some 1%N]; sc_outs := [(Some 1%N, Some 1%N)]; sc_ok := true |}.
Lemma alias_witness_leaks : after_drop_gen true BCpp BCpp alias_witness (fun _ => 0) 1%N = 1.
Proof. vm_compute. reflexivity. Qed.
Lemma alias_witness_balanced_when_repaired : after_drop_gen false BCpp BCpp alias_witness (fun _ => 0) 1%N = 0.
Proof. vm_compute. reflexivity. Qed.
